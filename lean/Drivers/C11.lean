import TsVerif.Common.IO
import TsVerif.Common.Tree
import TsVerif.C11.Judge
import TsVerif.C11.Heap
/-!
Driver for C11: reads the case stream written by `harness/src/bin/c11.rs` (streams of matches and
captures the real cursor produced under different settings + `chk` lines), decides every `chk`
with the Lean judges and prints
`<case>#<n> clause=<a..h> judge=<ok|FAIL kind…> corr=<ok|DIFF|-> n1=<len> n2=<len>`.
-/
open TsVerif TsVerif.C11 TsGen

structure St where
  id : String := ""
  text : Array Nat := #[]
  ms : List (String × List Match) := []
  cs : List (String × List CapEv) := []
  preds : List (Nat × TextPred) := []
  wild : Bool := false
  qfree : Bool := true
  patQfree : List Bool := []   -- per pattern (one per line): no quantifier, no alternation
  nonRooted : List Nat := []   -- patterns that are top-level sibling groups (`pat <i> 0`)
  oldRange : Bool := false   -- behavioural probe: the code under test has the pre-5d2fccd range test
  cur : String := ""
  curM : Array Match := #[]
  curC : Array CapEv := #[]
  inStream : Bool := false
  nchk : Nat := 0
  -- unit level (cunit_c11): model heap / pool and the line the model expects from the C side
  heap : Array FS := #[]
  heapSize : Nat := 0
  nextOrder : Nat := 0
  pool : Pool := Pool.new
  expect : String := ""
  uid : Nat := 0
  heapOk : Bool := true

def mkRange (v : List Nat) : TSRange :=
  match v with
  | [sb, eb, sr, sc, er, ec] => { start_point := ⟨sr, sc⟩, end_point := ⟨er, ec⟩, start_byte := sb, end_byte := eb }
  | _ => default

partial def parseCaps (v : List Nat) (acc : Array Cap) : List Cap :=
  match v with
  | idx :: node :: sb :: eb :: sr :: sc :: er :: ec :: rest =>
    parseCaps rest (acc.push { idx := idx, node := node, r := mkRange [sb, eb, sr, sc, er, ec] })
  | _ => acc.toList

def parseM (ws : List String) : Option Match :=
  let v := ws.map natOf
  match v with
  | id :: pat :: a :: b :: c :: d :: e :: f :: depth :: hp :: g :: h :: i :: j :: k :: l :: _n :: rest =>
    some { id := id, pat := pat, root := mkRange [a, b, c, d, e, f], depth := depth, hasPar := hp == 1, hasRoot := hp != 2,
           par := mkRange [g, h, i, j, k, l], caps := parseCaps rest #[] }
  | _ => none

def parseC (ws : List String) : Option CapEv :=
  match ws.map natOf with
  | [id, pat, k, idx, node, sb, eb, sr, sc, er, ec] =>
    some { id := id, pat := pat, k := k, cap := { idx := idx, node := node, r := mkRange [sb, eb, sr, sc, er, ec] } }
  | _ => none

def unhexOrEmpty (s : String) : Bytes := if s == "-" then [] else unhexBytes s

/-- `pred <pat> <op> (c <idx> | s <hex>)*` ↦ the `TextPredicateCapture` the Rust binding builds. -/
def parsePred (ws : List String) : Option (Nat × TextPred) :=
  match ws with
  | pat :: op :: args =>
    match opFlags op with
    | none => none
    | some (fam, pos, all) =>
      let rec pairs : List String → List (String × String)
        | k :: v :: rest => (k, v) :: pairs rest
        | _ => []
      let ps := pairs args
      match fam, ps with
      | "eq", [("c", i), ("c", j)] => some (natOf pat, .eqCapture (natOf i) (natOf j) pos all)
      | "eq", [("c", i), ("s", s)] => some (natOf pat, .eqString (natOf i) (unhexOrEmpty s) pos all)
      | "match", [("c", i), ("s", s)] => some (natOf pat, .matchString (natOf i) (unhexOrEmpty s) pos all)
      | "anyof", ("c", i) :: rest =>
        some (natOf pat, .anyString (natOf i) (rest.map fun p => unhexOrEmpty p.2) pos)
      | _, _ => none
  | _ => none

def getM (s : St) (n : String) : List Match := ((s.ms.find? fun p => p.1 == n).map (·.2)).getD []
def getC (s : St) (n : String) : List CapEv := ((s.cs.find? fun p => p.1 == n).map (·.2)).getD []
def isMStream (s : St) (n : String) : Bool := !(getM s n).isEmpty

def incOf (kind : String) (v : List Nat) : Option TSRange :=
  match kind, v with
  | "b", [sb, eb, _, _, _, _] => some (setByteRange defaultRange sb eb)
  | "p", [_, _, sr, sc, er, ec] => some (setPointRange defaultRange ⟨sr, sc⟩ ⟨er, ec⟩)
  | _, _ => none

/-- Does the query text contain a wildcard node with children or a top-level wildcard, `(_ …`?
(the compiled pattern then starts at the wildcard's first child; used only to fingerprint reports) -/
def wildRoot : List Nat → Bool
  | 40 :: 95 :: 32 :: _ => true
  | _ :: rest => wildRoot rest
  | [] => false

def verdict (ok : Bool) (why : String) : String := if ok then "ok" else "FAIL " ++ why

def runChk (s : St) (ws : List String) : String :=
  let head := s!"{s.id}#{s.nchk}"
  match ws with
  | "a" :: m :: c :: kind :: rest =>
    let inc := incOf kind (rest.map natOf)
    let ms := getM s m; let cs := getC s c
    let ok := judgeA ms cs inc s.oldRange
    s!"{head} clause=a judge={verdict ok (explainA ms cs inc s.oldRange)} corr=- n1={ms.length} n2={cs.length} ranged={inc.isSome} wild={s.wild}"
  | ["h", m, c] =>
    let ms := getM s m; let cs := getC s c
    let ok := judgeA ms cs none
    -- `qfree`: is the pattern of the first missing capture free of quantifiers and alternations?
    let evs := visibleEvents ms none
    let tc := cs.map CapEv.triple
    let missing := evs.filter fun e => !tc.contains e.triple
    let pq := match missing.head? with
      | some e => s.patQfree.getD e.pat s.qfree
      | none => s.qfree
    s!"{head} clause=h judge={verdict ok (explainA ms cs none)} corr=- n1={ms.length} n2={cs.length} wild={s.wild} qfree={pq}"
  | "hr" :: m :: c :: raw :: kind :: rest =>
    -- clause h under an intersecting range: the predicate-filtered capture stream against the
    -- predicate-filtered match stream of the same range.  An extra capture that belongs to a RAW match
    -- of that range (one the predicates reject) is a different failure than a capture of a state that
    -- never becomes a match.
    let inc := incOf kind (rest.map natOf)
    let ms := getM s m; let cs := getC s c; let rms := getM s raw
    let ok := judgeA ms cs inc s.oldRange
    let tm := (allEvents ms).map CapEv.triple
    let traw := (allEvents rms).map CapEv.triple
    let extra := cs.filter fun e => !tm.contains e.triple
    let why := match extra.head? with
      -- (with alternations / quantifiers a rejected match can have a passing twin with the same capture
      -- that the match view prunes: that is the known extra-capture behaviour, not this failure)
      -- Only a LATER capture of the match (position k > 0): the first capture of a state can be handed out
      -- early, before the captures its predicates mention are bound (vacuously true on the partial match) —
      -- that is the known early-emission behaviour, as is a capture of a state that shares the node.
      | some _ =>
        match (extra.filter fun e => e.k > 0 && traw.contains e.triple && s.patQfree.getD e.pat s.qfree).head? with
        | some e => s!"capture-of-predicate-failing-match n={extra.length} first=({e.pat},{e.cap.idx},{e.cap.node})"
        | none => explainA ms cs inc s.oldRange
      | none => explainA ms cs inc s.oldRange
    let evs := visibleEvents ms inc s.oldRange
    let tc := cs.map CapEv.triple
    let missing := evs.filter fun e => !tc.contains e.triple
    let pq := match missing.head? with
      | some e => s.patQfree.getD e.pat s.qfree
      | none => s.qfree
    s!"{head} clause=h judge={verdict ok why} corr=- n1={ms.length} n2={cs.length} ranged=true wild={s.wild} qfree={pq}"
  | "b" :: u :: r :: mode :: kind :: rest =>
    let v := rest.map natOf
    let rng := (incOf kind v).getD defaultRange
    let us := getM s u; let rs := getM s r
    -- a non-rooted pattern starts wherever the PARENT of its first node intersects the range
    let keepI (m : Match) : Bool :=
      if s.nonRooted.contains m.pat then (!m.hasPar || intersectsSpec m.par rng) else keepIntersect rng m
    let keep := if mode == "w" then keepWithin rng else keepI
    let exp := us.filter keep
    if mode == "w" && us.any (fun m => s.nonRooted.contains m.pat) then
      s!"{head} clause=b judge=ok corr=- n1={us.length} n2={rs.length} mode={mode}{kind} skipped=nonrooted-containing"
    else if us.any (fun m => !m.hasRoot) then
      s!"{head} clause=b judge=ok corr=- n1={us.length} n2={rs.length} mode={mode}{kind} skipped=rootless"
    else
    let ok := judgeB keep emptyRoot s.qfree us rs
    s!"{head} clause=b judge={verdict ok s!"range-{mode}{kind} expected={exp.length} got={rs.length}"} corr=- n1={us.length} n2={rs.length} mode={mode}{kind} wild={s.wild} qfree={s.qfree}"
  | ["c", a, b] =>
    if isMStream s a || isMStream s b then
      let x := getM s a; let y := getM s b
      s!"{head} clause=c judge={verdict (judgeCm x y) "reexec-matches-differ"} corr=- n1={x.length} n2={y.length}"
    else
      let x := getC s a; let y := getC s b
      s!"{head} clause=c judge={verdict (judgeCc x y) "reexec-captures-differ"} corr=- n1={x.length} n2={y.length}"
  | ["p", a, b, mode, kind, sa, sb] =>
    if isMStream s a || isMStream s b then
      let x := getM s a; let y := getM s b
      s!"{head} clause=p judge={verdict (judgeDm x y false) s!"byte-vs-point-range-{mode}{kind} positions={sa}..{sb}"} corr=- n1={x.length} n2={y.length} mode={mode}{kind}"
    else
      let x := getC s a; let y := getC s b
      s!"{head} clause=p judge={verdict (judgeDc x y false) s!"byte-vs-point-range-captures-{mode}{kind} positions={sa}..{sb}"} corr=- n1={x.length} n2={y.length} mode={mode}{kind}"
  | ["fl", a, b] =>
    s!"{head} clause=c judge={verdict (a == b) "reused-cursor-keeps-limit-flag"} corr=- n1={a} n2={b}"
  | ["cl", a, b, k] =>
    let x := getM s a; let y := getM s b
    s!"{head} clause=c judge={verdict (judgeDm x y false) "reused-cursor-ignores-lower-limit"} corr=- n1={x.length} n2={y.length} limit={k}"
  | ["d", u, l, ex, k, kind] =>
    if kind == "m" then
      let x := getM s u; let y := getM s l
      s!"{head} clause=d judge={verdict (judgeDm x y (ex == "1")) s!"silent-drop-matches limit={k}"} corr=- n1={x.length} n2={y.length} exceeded={ex} limit={k}"
    else
      let x := getC s u; let y := getC s l
      s!"{head} clause=d judge={verdict (judgeDc x y (ex == "1")) s!"silent-drop-captures limit={k}"} corr=- n1={x.length} n2={y.length} exceeded={ex} limit={k}"
  | ["e", u, e, pos] =>
    let x := getC s u; let y := getC s e
    s!"{head} clause=e judge={verdict (judgeE x y (natOf pos) s.qfree) "remove-match"} corr=- n1={x.length} n2={y.length} wild={s.wild}"
  | ["g", u, d, depth] =>
    let x := getM s u; let y := getM s d
    let full := decide ((x.filter fun m => decide (m.depth ≤ natOf depth)).map Match.key = y.map Match.key)
    s!"{head} clause=g judge={verdict (judgeG x y (natOf depth) s.qfree) "start-depth"} corr=- n1={x.length} n2={y.length} complete={full} wild={s.wild}"
  | ["f", u, p] =>
    let x := getM s u; let y := getM s p
    let ok := judgeF miniRegex s.preds s.text x y
    let viaImpl := decide ((filterBy (evalImpl miniRegex) s.preds s.text x).map Match.key = y.map Match.key)
    let viaFixed := decide ((filterBy (evalFixed miniRegex) s.preds s.text x).map Match.key = y.map Match.key)
    let why := if viaImpl then "any-fallthrough" else "predicates-other"
    let corr := if viaImpl then (if viaFixed then "ok" else "ok-unfixed") else if viaFixed then "ok-fixed" else "DIFF"
    s!"{head} clause=f judge={verdict ok why} corr={corr} n1={x.length} n2={y.length} npred={s.preds.length}"
  | _ => s!"{head} clause=? judge=FAIL badchk corr=-"


def heapLine (a : Array FS) (hs : Nat) : String :=
  a.foldl (fun acc x => acc ++ s!" {x.order}:{x.consumed}") s!"h {hs} {a.size}"

def poolLine (res : Int) (p : Pool) : String :=
  p.inUse.foldl (fun acc b => acc ++ (if b then " 1" else " 0")) s!"p {res} {p.inUse.length} {p.free}"

/-- Apply one script operation of `cunit_c11.c` to the model; returns the new state with the line
the C side must print. -/
def unitOp (s : St) (ws : List String) : St :=
  let fin (a : Array FS) (hs : Nat) (s : St) : St :=
    { s with heap := a, heapSize := hs, expect := heapLine a hs, heapOk := isHeapB a hs }
  let run (op : HOp) (s : St) : St := let r := applyOp (s.heap, s.heapSize) op; fin r.1 r.2 s
  match ws with
  | ["hnew"] => fin #[] 0 { s with nextOrder := 0 }
  | "hpush" :: pat :: _n :: bytes =>
    let x : FS := { order := s.nextOrder, pat := natOf pat, caps := bytes.map natOf, consumed := 0 }
    run (.push x) { s with nextOrder := s.nextOrder + 1 }
  | ["hheapify"] => run .heapify s
  | ["hpop"] => run .pop s
  | ["herase", i] => run (.erase (natOf i)) s
  | ["hconsume"] => run .consume s
  | ["pnew"] => { s with pool := Pool.new, expect := poolLine (-1) Pool.new, heapOk := true }
  | ["pmax", k] => let p := { s.pool with max := natOf k }; { s with pool := p, expect := poolLine (-1) p, heapOk := true }
  | ["preset"] => let p := s.pool.reset; { s with pool := p, expect := poolLine (-1) p, heapOk := true }
  | ["pacq"] =>
    let (p, r) := s.pool.acquire
    { s with pool := p, expect := poolLine (match r with | some i => (i : Int) | none => -2) p, heapOk := true }
  | ["prel", id] =>
    let i := natOf id
    let p := if (s.pool.inUse.getD i false) then s.pool.release i else s.pool
    { s with pool := p, expect := poolLine (-1) p, heapOk := true }
  | ["pempty"] => { s with expect := poolLine (if s.pool.isEmpty then 1 else 0) s.pool, heapOk := true }
  | _ => { s with expect := "?" }

def step (s : St) (line : String) : IO St := do
  if line.startsWith "uop " then
    return unitOp s (((line.drop 4).toString.splitOn " ").filter (· != ""))
  if line.startsWith "uc " then
    let c := (line.drop 3).toString
    let corr := if c == s.expect then "ok" else s!"DIFF model:[{s.expect}] c:[{c}]"
    IO.println s!"unit#{s.uid} clause=u judge={if s.heapOk then "ok" else "FAIL heap-property"} corr={corr}"
    return { s with uid := s.uid + 1 }
  match line.splitOn " " with
  | ["case", id] => return { id := id, oldRange := s.oldRange }
  | ["pat", i, rooted] => return (if rooted == "0" then { s with nonRooted := natOf i :: s.nonRooted } else s)
  | ["pat", i, rooted, expected] =>
    -- clause r: `ts_query_is_pattern_rooted` against the rootedness read off the pattern text; the
    -- range clauses use the TEXT's verdict, so a wrong flag shows in clause b as well
    IO.println s!"{s.id}#pat{i} clause=r judge={if rooted == expected then "ok" else if expected == "0" then "FAIL rooted-although-several-top-level-nodes" else "FAIL non-rooted-although-one-top-level-node"} api={rooted} expected={expected} corr=-"
    return (if expected == "0" then { s with nonRooted := natOf i :: s.nonRooted } else s)
  | ["probe", "node_precedes_range", v] => return { s with oldRange := v == "old" }
  | ["text", h] => return { s with text := (unhexBytes h).toArray }
  | ["text"] => return { s with text := #[] }
  | ["query", h] =>
    let bs := unhexBytes h
    let isQ := fun (c : Nat) => c == 42 || c == 43 || c == 63 || c == 91
    -- one pattern per line
    let lines := (bs.foldl (fun (acc : List (List Nat)) c => if c == 10 then [] :: acc else match acc with | l :: r => (c :: l) :: r | [] => [[c]]) [[]]).reverse
    let pq := (lines.filter (fun l => !l.isEmpty)).map fun l => !(l.any isQ)
    return { s with wild := wildRoot bs, qfree := !(bs.any isQ), patQfree := pq }
  | ["stream", n] => return { s with cur := n, curM := #[], curC := #[], inStream := true }
  | "m" :: ws => match parseM ws with
    | some m => return { s with curM := s.curM.push m }
    | none => return s
  | "c" :: ws => match parseC ws with
    | some c => return { s with curC := s.curC.push c }
    | none => return s
  | ["end"] =>
    return { s with ms := (s.cur, s.curM.toList) :: s.ms, cs := (s.cur, s.curC.toList) :: s.cs, inStream := false }
  | "pred" :: ws => match parsePred ws with
    | some p => return { s with preds := s.preds ++ [p] }
    | none => IO.println s!"{s.id}#pred clause=f judge=FAIL unparsed-predicate corr=-"; return s
  | "chk" :: ws =>
    IO.println (runChk s ws)
    return { s with nchk := s.nchk + 1 }
  | _ => return s

def main : IO Unit := do
  let _ ← foldLines (← IO.getStdin) ({} : St) step
