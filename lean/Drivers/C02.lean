import TsVerif.Common.IO
import TsVerif.C02.Judge
import TsVerif.C02.Balance
import Std.Data.HashMap
/-!
Driver for C02: reads language tables (`deflang … enddeflang`) and cases (text, full internal
dump, public-API observations), prints per case
`<id> corr=<ok|FAIL clauses :: details> inv=<ok|BAD> judge=<ok|FAIL clauses :: details> raw=.. vis=.. …`.
-/
open TsVerif TsVerif.C02 TsGen

structure St where
  langs : Std.HashMap String Lang := {}
  defId : String := ""
  defLang : Lang := {}
  id : String := ""
  lang : String := ""
  kind : String := ""
  text : Array Nat := #[]
  dump : Array String := #[]
  api : Array ApiNode := #[]
  notree : String := ""
  calls : String := ""
  mode : Nat := 0   -- 0 none, 1 deflang, 2 tree dump, 3 api, 4 tree dump before balancing
  before : Array String := #[]
  balmode : List String := []

def runCase (s : St) : String :=
  if s.notree != "" then
    s!"{s.id} corr=ok inv=ok judge=FAIL termination:{s.notree} :: termination:{s.notree}: parse returned no tree ({s.calls}) kind={s.kind}"
  else
    match s.langs.get? s.lang, parseDump s.dump.toList with
    | some lang, some d =>
      let r := judgeCase lang s.text d.root s.api d.ranges
      let js := r.js
      s!"{s.id} corr={r.corr.render} inv={if r.inv then "ok" else "BAD"} judge={r.judge.render} raw={js.rawNodes} vis={js.vnodes.size} inner={r.corrStats.inner} hiddenvis={js.hiddenWithVisible} alias={js.aliases} extra={js.extras} err={js.errors} missing={js.missing} multiline={js.multiline} zerowidth={js.zeroWidth} leaves={js.leaves} literals={js.literals} maxvcc={js.vnodes.foldl (fun m v => max m v.cc) 0} bytes={s.text.size} kind={s.kind}"
    | _, _ => s!"{s.id} corr=BADINPUT inv=ok judge=BADINPUT"

/-- A rebalancing case: the REAL `ts_subtree_compress` / `ts_parser__balance_subtree` ran on the tree
dumped as `before` and left the tree dumped as `dump`.  corr: the port applied to `before` gives
exactly `dump` (every field of every node, addresses included).  judge (on the real result): same
leaves in the same order, `Sized`-style summaries of every inner node (corrTree), root extent kept. -/
def runBalance (s : St) : String :=
  match s.langs.get? s.lang, parseDump s.before.toList, parseDump s.dump.toList with
  | some lang, some b, some a =>
    let fuel := b.root.size + 1
    let (port, what) := match s.balmode with
      | ["compress", c] => (compress lang c.toNat! b.root, s!"compress {c}")
      | _ => (balance lang fuel b.root, "balance")
    let corr := match treeDiff a.root port [] with
      | none => "ok"
      | some e => s!"FAIL corr:{what.takeWhile (· != ' ')} :: corr:{what.takeWhile (· != ' ')}: real result vs port ({what}): {e}"
    let lb := leaves b.root
    let la := leaves a.root
    let cs := corrTree lang a.root [] {}
    let fails : List (String × String) :=
      (if leafDataEq la lb then [] else [("balance:leaves", s!"{la.length} leaves after, {lb.length} before, or their data differ")]) ++
      (if decide (a.root.data.padding = b.root.data.padding) && decide (a.root.data.size = b.root.data.size) then []
       else [("balance:root-extent", s!"padding/size {a.root.data.padding.bytes}/{a.root.data.size.bytes}, before {b.root.data.padding.bytes}/{b.root.data.size.bytes}")]) ++
      (if cs.fails.render == "ok" then [] else [("balance:summaries", cs.fails.render)])
    let judge := if fails.isEmpty then "ok" else
      "FAIL " ++ "|".intercalate (fails.map (·.1)) ++ " :: " ++ " ; ".intercalate (fails.map fun (k, v) => k ++ ": " ++ v)
    let changed := if (treeDiff a.root b.root []).isSome then 1 else 0
    -- `balance_summarized` / `compress_symbol` evaluated: hypotheses (input summarized; rotated nodes hidden,
    -- non-extra, alias-free wherever ts_subtree_compress is called) and conclusion (on the PORT's result,
    -- which the correspondence identifies with the real one: every summary kept, face of the tree kept)
    let inSumm := (corrTree lang b.root [] {}).fails.render == "ok"
    let hyp := match s.balmode with
      | ["compress", _] => rotOK lang b.root
      | _ => balanceOK lang fuel b.root
    let concl := (corrTree lang port [] {}).fails.render == "ok" && faceEq port b.root
    s!"{s.id} corr={corr} inv=ok judge={judge} raw={b.root.size} vis=0 inner={cs.inner} leaves={la.length} changed={changed} balcase=1 balin={if inSumm then 1 else 0} balhyp={if hyp then 1 else 0} balconcl={if concl then 1 else 0} balwhy={if isErrSym b.root.data.symbol then "errsym" else toString (rotWhy lang b.root.data.symbol b.root)} bytes=0 kind={s.kind}"
  | _, _, _ => s!"{s.id} corr=BADINPUT inv=ok judge=BADINPUT"

/-- `widths k=v …` (measured by the unity build on the real struct) judged against `assumedBits`. -/
def runWidths (fields : List String) : String :=
  let measured := fields.filterMap fun f => match f.splitOn "=" with
    | [k, v] => v.toNat?.map fun n => (k, n)
    | _ => none
  let bad := widthFails measured
  let corr := if bad.isEmpty then "ok" else "FAIL tie:field-widths :: tie:field-widths: " ++ ", ".intercalate bad
  s!"widths-0 corr={corr} inv=ok judge=ok raw=0 widthcase=1 measured={measured.length} assumed={assumedBits.length} kind=widths"

def step (s : St) (line : String) : IO St := do
  if s.mode == 1 then
    if line == "enddeflang" then
      return { s with mode := 0, langs := s.langs.insert s.defId s.defLang }
    else return { s with defLang := s.defLang.addLine line }
  if s.mode == 2 then
    if line == "end" then return { s with mode := 0 } else return { s with dump := s.dump.push line }
  if s.mode == 4 then
    if line == "end" then return { s with mode := 0 } else return { s with before := s.before.push line }
  if s.mode == 3 then
    if line == "endapi" then return { s with mode := 0 }
    else match parseApiLine line with
      | some a => return { s with api := s.api.push a }
      | none => return s
  match line.splitOn " " with
  | ["deflang", id] => return { s with mode := 1, defId := id, defLang := {} }
  | ["case", id] => return { langs := s.langs, id := id }
  | ["lang", l] => return { s with lang := l }
  | ["kind", k] => return { s with kind := k }
  | "calls" :: rest => return { s with calls := " ".intercalate rest }
  | ["text", h] => return { s with text := (unhexBytes h).toArray }
  | ["text"] => return { s with text := #[] }
  | "tree" :: _ => return { s with mode := 2, dump := #[] }
  | "btree" :: _ => return { s with mode := 4, before := #[] }
  | "balmode" :: rest => return { s with balmode := rest }
  | ["runbal"] => IO.println (runBalance s); return s
  | "api" :: _ => return { s with mode := 3, api := #[] }
  | ["notree", why] => return { s with notree := why }
  | ["run"] => IO.println (runCase s); return s
  | "widths" :: fields => IO.println (runWidths fields); return s
  | _ => return s

def main : IO Unit := do
  let _ ← foldLines (← IO.getStdin) ({} : St) step
