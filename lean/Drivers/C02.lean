-- Driver stub for C02 (replaced when the property's model driver is written).
def main : IO Unit := IO.println "C02: no driver yet"
