-- Driver stub for C19 (replaced when the property's model driver is written).
def main : IO Unit := IO.println "C19: no driver yet"
