import TsVerif.Common.IO
import TsVerif.C19.Judge
import TsVerif.C19.Timed
import TsVerif.C19.SrcUpdate
/-!
Driver for C19.

`tsv-c19 enum <orig|recheck>`: print every maximal macro schedule of 2 callers (at most one crash)
for the initial cache states and both timeout regimes, one `sched …` line each.

`tsv-c19 < ops.txt`: for every `case <id> kind=ctl|free k=v …` line print
`<id> kind=.. corr=<ok|DIFF:..|skip:..> variant=<orig|recheck|both|none> judge=<ok|FAIL:clause> nontrivial=<0|1> …`.
-/
open TsVerif TsVerif.C19

def kvOf (ws : List String) : List (String × String) :=
  ws.filterMap fun w => match w.splitOn "=" with
    | [k, v] => some (k, v)
    | _ => none

def look (kv : List (String × String)) (k : String) : String := (kv.lookup k).getD ""

def natOf' (s : String) : Nat := s.toNat?.getD 0

/-- Version of the whole source set, encoded as parser.c version + 10 × scanner.c version
(0 = the grammar has no external scanner).  The current sources are always version 2 of each. -/
def srcOf (kv : List (String × String)) : Nat := if look kv "scanner" == "1" then 22 else 2

/-- The cached library: up to date, or built from version 1 of exactly the sources it is older than
(`stalekind` ∈ p, s, ps; without a scanner only parser.c exists). -/
def libOf (kv : List (String × String)) : Option File :=
  match look kv "lib" with
  | "fresh" => some ⟨srcOf kv, true⟩
  | "stale" =>
    if look kv "scanner" == "1" then
      let sk := look kv "stalekind"
      let p := if (sk.splitOn "p").length > 1 then 1 else 2
      let sc := if (sk.splitOn "s").length > 1 then 1 else 2
      some ⟨p + 10 * sc, true⟩
    else some ⟨1, true⟩
  | _ => none

/-- A real result token → model result (`none` = died); `Except` for tokens the model has no word for. -/
def resOf (s : String) : Except String (Option Res) :=
  if s == "dead" then .ok none
  else if s == "timeout" then .ok (some (.err .timeout))
  else if s == "missing" then .ok (some (.err .missing))
  else if s == "compile" then .ok (some (.err .compile))
  else if s == "partial" then .ok (some (.err .partialLib))
  else if s.startsWith "ok" then
    match (s.drop 2).toString.toNat? with
    | some v => .ok (some (.ok v))
    | none => .error s
  else .error s

def finalLibOf (s : String) : Option File :=
  if s == "none" then none
  else if s == "partial" then some ⟨0, false⟩
  else some ⟨natOf' (s.drop 1).toString, true⟩

def showLib : Option File → String
  | none => "none"
  | some f => if f.complete then s!"v{f.ver}" else "partial"

def parseSteps (s : String) : List (Nat × MAct) :=
  (s.splitOn ",").filterMap fun w => match w.splitOn ":" with
    | [p, a] => (MAct.ofName a).map fun m => (natOf' p, m)
    | _ => none

def showSteps (l : List (Nat × MAct)) : String := ",".intercalate (l.map fun (p, a) => s!"{p}:{a.name}")

def judgeStr (initialLock : Bool) (o : Outcome) (bad : Option String) : String :=
  match bad with
  | some b => s!"FAIL:unexpected:{b}"
  | none =>
    if !judgeSafe o then
      (if (match o.finalLib with | some f => !f.complete | none => false) then "FAIL:partial-file"
       else if (o.results ++ [o.later]).any (fun r => r == some (.err .partialLib)) then "FAIL:partial-observed"
       else "FAIL:stale-success")
    else if !judgeRecovery o then
      s!"FAIL:recovery:{showResult o.later}"
    else if !judgeNoOrphanLock initialLock o then
      "FAIL:orphan-lock"
    else "ok"

def tempCount (s : State) (n : Nat) : Nat := ((s.procs.take n).filter fun pr => pr.temp.isSome).length

/-- Kill (crash) every caller below `n` that has not finished. -/
def killRest (c : Cfg) (s : State) (n : Nat) : State :=
  (List.range n).foldl (fun s p => match step c s p .crash with | some s' => s' | none => s) s

structure Pred where
  points : String
  results : String
  finallib : String
  lockleft : String
  temps : Nat
  later : String
  deriving DecidableEq

def predictCtl (variant : Variant) (kv : List (String × String)) : Option Pred :=
  let n := natOf' (look kv "n")
  let K := natOf' (look kv "K")
  let broken := look kv "broken" == "1"
  let c : Cfg := { K, mayFail := broken, variant }
  let stray := if look kv "temp" == "1" then 1 else 0
  let s0 := mkInit (srcOf kv) (libOf kv) (look kv "lock" == "1") (n + 1)
  -- the leftover lock's owner is nobody: `mkInit` uses index n+1
  match mrun c broken s0 (parseSteps (look kv "steps")) [] with
  | none => none
  | some (s1, pts) =>
    let s2 := killRest c s1 n
    let s3 := runSolo { c with K := if K == 0 then 0 else 2 } broken s2 n 64
    some {
      points := if pts.isEmpty then "-" else ";".intercalate (pts.map fun o => match o with | some a => a.name | none => "end")
      results := ";".intercalate ((s2.procs.take n).map fun pr => showResult (resultOf pr))
      finallib := showLib s2.lib
      lockleft := if s2.lock.isSome then "1" else "0"
      temps := tempCount s2 n + stray
      later := showResult (resultOf (s3.procs.getD n default)) }

def normPoints (s : String) : String :=
  ";".intercalate ((s.splitOn ";").map fun w => if w == "exit" || w == "dead" then "end" else w)

def diffPred (p : Pred) (kv : List (String × String)) : Option String :=
  if p.points != normPoints (look kv "points") then some s!"points:model={p.points}"
  else if p.results != look kv "results" then some s!"results:model={p.results}"
  else if p.finallib != look kv "finallib" then some s!"finallib:model={p.finallib}"
  else if p.lockleft != look kv "lockleft" then some s!"lockleft:model={p.lockleft}"
  else if p.temps != natOf' (look kv "temps") then some s!"temps:model={p.temps}"
  else if p.later != look kv "later" then some s!"later:model={p.later}"
  else none

/-! free cases: the real (sorted results, final library, lock left, later) must be reachable -/

def procKey (pr : Proc) : Nat :=
  let pc := match pr.pc with
    | .start => 0 | .needLock => 1 | .haveLock => 2 | .compiling => 3 | .wroteTemp => 4 | .renamed => 5
    | .failed => 6 | .loading => 7 | .dead => 8
    | .waiting k => 20 + k
    | .done (.ok v) => 1010 + v
    | .done (.err .timeout) => 1000 | .done (.err .missing) => 1001 | .done (.err .compile) => 1002
    | .done (.err .partialLib) => 1003
  let t := match pr.temp with
    | none => 0
    | some f => 1 + 2 * f.ver + (if f.complete then 1 else 0)
  pc * 64 + t

def insertProc (x : Proc) : List Proc → List Proc
  | [] => [x]
  | y :: ys => if procKey x ≤ procKey y then x :: y :: ys else y :: insertProc x ys

/-- Callers are interchangeable and `step` never reads *who* owns the lock: sort the callers and
forget the owner.  Temps of finished callers are irrelevant for what is observed in free runs. -/
def canon (s : State) : State :=
  let procs := s.procs.map fun pr => if pr.pc.finished then { pr with temp := none } else pr
  { s with procs := procs.foldl (fun acc x => insertProc x acc) [], lock := s.lock.map fun _ => 0 }

structure FreeSummary where
  results : List String
  lib : String
  lockLeft : Bool
  later : String
  deriving DecidableEq, Hashable, Repr

def laterOf (c : Cfg) (s : State) : String :=
  let n := s.procs.length
  let s' := { s with procs := s.procs ++ [{ pc := .start, temp := none }] }
  let s'' := runSolo c c.mayFail s' n 64
  showResult (resultOf (s''.procs.getD n default))

partial def exploreFree (c : Cfg) (crash : Bool) (work : List State) (seen : Std.HashSet State)
    (outs : Std.HashSet FreeSummary) (fuel : Nat) : Std.HashSet FreeSummary × Nat × Bool :=
  match work with
  | [] => (outs, seen.size, true)
  | s :: rest =>
    if fuel == 0 then (outs, seen.size, false) else
    let outs := if terminal s then
        outs.insert { results := sortStrings (s.procs.map fun pr => showResult (resultOf pr)),
                      lib := showLib s.lib, lockLeft := s.lock.isSome, later := laterOf c s }
      else outs
    let (work, seen) := (succs c crash s).foldl (fun (ws : List State × Std.HashSet State) t =>
      let t := canon t
      if ws.2.contains t then ws else (t :: ws.1, ws.2.insert t)) (rest, seen)
    exploreFree c crash work seen outs (fuel - 1)

def freeKey (kv : List (String × String)) : String :=
  s!"{look kv "lib"}/{look kv "lock"}/{look kv "n"}/{look kv "broken"}/{look kv "crash"}/{look kv "scanner"}/{if look kv "lib" == "stale" then look kv "stalekind" else "-"}"

abbrev Cache := Std.HashMap String (Std.HashSet FreeSummary × Nat × Bool)

def freeSet (variant : Variant) (kv : List (String × String)) (cache : Cache) : (Std.HashSet FreeSummary × Nat × Bool) × Cache :=
  let key := s!"{repr variant}/{freeKey kv}"
  match cache.get? key with
  | some r => (r, cache)
  | none =>
    let n := natOf' (look kv "n")
    let c : Cfg := { K := 1, mayFail := look kv "broken" == "1", variant }
    let s0 := canon (mkInit (srcOf kv) (libOf kv) (look kv "lock" == "1") n)
    let r := exploreFree c (look kv "crash" == "1") [s0] (Std.HashSet.emptyWithCapacity.insert s0) Std.HashSet.emptyWithCapacity 3000000
    (r, cache.insert key r)

def memberFree (set : Std.HashSet FreeSummary) (kv : List (String × String)) : Bool :=
  let res := sortStrings ((look kv "results").splitOn ";")
  let later := look kv "later"
  set.any fun f => f.results == res && f.lib == look kv "finallib" && (if f.lockLeft then "1" else "0") == look kv "lockleft" &&
    (later == "skip" || f.later == later)

def outcomeOfReal (kv : List (String × String)) : Outcome × Option String :=
  let toks := (look kv "results").splitOn ";"
  let parsed := toks.map resOf
  let bad := parsed.findSome? fun r => match r with | .error e => some e | .ok _ => none
  let later := look kv "later"
  let (laterR, bad) := if later == "skip" then (none, bad) else
    match resOf later with
    | .ok (some r) => (some r, bad)
    | .ok none => (none, bad.orElse fun _ => some "later-dead")
    | .error e => (none, bad.orElse fun _ => some s!"later-{e}")
  ({ src := srcOf kv, compiles := look kv "broken" != "1",
     results := parsed.map fun r => match r with | .ok o => o | .error _ => none,
     finalLib := finalLibOf (look kv "finallib"), lockLeft := look kv "lockleft" == "1", later := laterR }, bad)

def nontrivial (kv : List (String × String)) : Bool :=
  let n := natOf' (look kv "n")
  (n ≥ 2 && look kv "lib" != "fresh") || ((look kv "steps").splitOn "crash").length > 1 || look kv "killed" == "1" ||
    look kv "lock" == "1"

/-! `kind=upd` (round 11): histories with a source update while a loader waits for the lock.
Judge: `Upd.okGen` per loader (a success shows a generation `g` with call ≤ last-check ≤ g ≤ now), the later
load and the file left behind are of the final generation.  Correspondence: the trace of hook points is
replayed in the model `TsVerif.C19.Upd` (with the `srcUpdate` step) and must predict every result. -/

def updEvents (n : Nat) (planted : Bool) (trace : List String) : List (Option (Nat × Upd.Act)) :=
  let pre : List (Option (Nat × Upd.Act)) := if planted then [some (n, .check), some (n, .lock)] else []
  let (evs, _) := trace.foldl (fun (acc : List (Option (Nat × Upd.Act)) × List Nat) w =>
    let (evs, checked) := acc
    if w == "UPDATE" then (evs ++ [none], checked)
    else if w == "owner:install-old-lib" then (evs ++ [some (n, .compile)], checked)
    else if w == "owner:unlock" then (evs ++ [some (n, .unlock)], checked)
    else match w.splitOn ":" with
      | [p, a] =>
        let p := natOf' p
        if a == "check" then
          if checked.contains p then (evs ++ [some (p, .lockGone)], checked) else (evs ++ [some (p, .check)], p :: checked)
        else if a == "lock" then (evs ++ [some (p, .lock)], checked)
        else if a == "compile" then (evs ++ [some (p, .compile)], checked)
        else if a == "unlock" then (evs ++ [some (p, .unlock)], checked)
        else if a == "load" then (evs ++ [some (p, .load)], checked)
        else (evs, checked)
      | _ => (evs, checked)) (pre, [])
  evs

def runUpd (id : String) (kv : List (String × String)) : String :=
  let vers := ((look kv "vers").splitOn ",").map natOf'
  let srcgen := natOf' (look kv "srcgen")
  let n := natOf' (look kv "n")
  let res := (look kv "results").splitOn ";"
  let cg := ((look kv "checkgen").splitOn ";").map natOf'
  let cl := ((look kv "callgen").splitOn ";").map natOf'
  let finalVer := vers.getD (srcgen - 1) 0
  let bad := (res.zip (cg.zip cl)).findSome? fun (r, c, l) =>
    if r.startsWith "ok" then
      if Upd.okGen vers srcgen l c (natOf' (r.drop 2).toString) then none
      else some s!"FAIL:stale-success-after-source-update:{r}:its-last-check-read-generation-{c}-of-{srcgen}"
    else if r == "partial" then some "FAIL:partial-observed"
    else some s!"FAIL:upd-loader-did-not-succeed:{r}"
  let later := look kv "later"
  let j := match bad with
    | some b => b
    | none =>
      if look kv "finallib" == "partial" then "FAIL:partial-file"
      else if later != s!"ok{finalVer}" then s!"FAIL:recovery:{later}"
      else if look kv "finallib" != s!"v{finalVer}" then s!"FAIL:stale-library-left:{look kv "finallib"}"
      else if look kv "lockleft" != "0" then "FAIL:orphan-lock"
      else "ok"
  -- correspondence: replay in the model with the SourceUpdate step
  let s0 : Upd.State := { src := 1, lib := none, lock := false, procs := List.replicate (n + 1) ⟨.start, 0, 0⟩ }
  let evs := updEvents n (look kv "scen" == "planted") ((look kv "trace").splitOn ",")
  let corr := match Upd.runEv s0 evs with
    | none => "DIFF:trace-not-enabled-in-model"
    | some s =>
      let pred := ";".intercalate ((s.procs.take n).map fun pr => match pr.pc with
        | .done g => s!"ok{vers.getD (g - 1) 0}"
        | .failed => "missing"
        | _ => "dead")
      let predCheck := ";".intercalate ((s.procs.take n).map fun pr => toString pr.lastCheck)
      if pred != look kv "results" then s!"DIFF:results:model={pred}"
      else if predCheck != look kv "checkgen" then s!"DIFF:checkgen:model={predCheck}"
      else if s.src != srcgen then "DIFF:srcgen" else "ok"
  let corr := if look kv "problem" != "-" then s!"DIFF:history-diverged:{look kv "problem"}" else corr
  s!"{id} kind=upd corr={corr} variant=both judge={j} nontrivial=1"

def runCase (id : String) (kv : List (String × String)) (cache : Cache) : String × Cache :=
  -- a case that stalled twice (machine stalled, wall-clock limit hit) carries no verdict
  if look kv "timing" == "1" then (s!"{id} kind={look kv "kind"} corr=skip:timing variant=both judge=inconclusive nontrivial=0", cache) else
  if look kv "kind" == "upd" then (runUpd id kv, cache) else
  if look kv "kind" == "default" then
    -- the loader's REAL default lock timeout: a later loader against a stale lock, library absent
    let res := look kv "results"
    let el := natOf' (look kv "elapsed_ms")
    let corr := if res == "ok2" && look kv "finallib" == "v2" && look kv "lockleft" == "0" then "ok"
      else s!"DIFF:model-solo-run-ends-ok-with-fresh-library-and-no-lock:real:{res}:{look kv "finallib"}:lockleft:{look kv "lockleft"}"
    let j := if res == "ok2" && el ≤ defaultLoadBoundMs * natOf' (look kv "attempts") then "ok"
      else s!"FAIL:default-timeout:later-load-against-stale-lock:{res}:after:{el}ms:bound:{defaultLoadBoundMs}ms:protocol-constant:{lockTimeoutMs}ms"
    (s!"{id} kind=default corr={corr} variant=both judge={j} nontrivial=1 elapsed_ms={el}", cache) else
  let (o, bad) := outcomeOfReal kv
  let j := judgeStr (look kv "lock" == "1") o bad
  let nt := if nontrivial kv then "1" else "0"
  if look kv "kind" == "ctl" then
    let d := fun v => match predictCtl v kv with
      | none => some "schedule-not-enabled-in-model"
      | some p => diffPred p kv
    let (corr, variant) := match d .orig, d .recheck with
      | none, none => ("ok", "both")
      | none, some _ => ("ok", "orig")
      | some _, none => ("ok", "recheck")
      | some a, some _ => (s!"DIFF:{a}", "none")
    let corr := if look kv "problem" != "-" then s!"DIFF:schedule-diverged:{look kv "problem"}" else corr
    (s!"{id} kind=ctl corr={corr} variant={variant} judge={j} nontrivial={nt}", cache)
  else
    let n := natOf' (look kv "n")
    if n > 6 then (s!"{id} kind=free corr=skip:n>6 variant=both judge={j} nontrivial={nt}", cache) else
    let ((so, szo, oko), cache) := freeSet .orig kv cache
    let ((sr, _, okr), cache) := freeSet .recheck kv cache
    let mo := memberFree so kv
    let mr := memberFree sr kv
    let (corr, variant) :=
      if !(oko && okr) then ("skip:state-space", "both")
      else if mo && mr then ("ok", "both") else if mo then ("ok", "orig") else if mr then ("ok", "recheck")
      else ("DIFF:outcome-not-reachable-in-model", "none")
    let corr := if look kv "problem" != "-" then s!"DIFF:harness:{look kv "problem"}" else corr
    (s!"{id} kind=free corr={corr} variant={variant} judge={j} nontrivial={nt} states={szo} outcomes={so.size}", cache)

def enumAll (variant : Variant) : IO Unit := do
  let mut count := 0
  for K in [0, 1000] do
    for broken in [false, true] do
      for (libName, lib) in [("none", none), ("stale", some (⟨1, true⟩ : File)), ("fresh", some ⟨2, true⟩)] do
        for lock in [false, true] do
          for temp in [false, true] do
            -- leftover temp does not influence the protocol: only with the plain stale/none states
            if temp && (lock || broken || libName == "fresh") then continue
            let c : Cfg := { K, mayFail := broken, variant }
            let s0 := mkInit 2 lib lock 3
            let scheds := enumSchedCapped c broken 2 2 40 1 s0 [] []
            for sc in scheds do
              count := count + 1
              IO.println s!"sched s{count} lib={libName} lock={if lock then 1 else 0} temp={if temp then 1 else 0} n=2 broken={if broken then 1 else 0} K={K} steps={showSteps sc}"

def main (args : List String) : IO Unit := do
  match args with
  | ["enum", v] => enumAll (if v == "recheck" then .recheck else .orig)
  | _ =>
    let _ ← foldLines (← IO.getStdin) (({} : Cache)) fun cache line => do
      match line.splitOn " " with
      | "case" :: id :: ws =>
        let (out, cache) := runCase id (kvOf ws) cache
        IO.println out
        return cache
      | _ => return cache
