import TsVerif.Common.IO
import TsVerif.C18.Judge
/-!
Driver for C18.  Input (one item per line):
  case <id> / src <hex> / names <capture names…> / tagsfrom <n> / pat <nonlocal> <inherits> <adjacent|-> <strip|->
  m <pattern> <idx,sb,eb,sr,sc,er,ec,err>… / tag <15 fields> / run
  u16 <id> <hex|-> <real>                       function-level: utf16_len
  lr <id> <hex|-> <start> <col> <limit> <s> <e> function-level: line_range
Output: `<id> corr=… judge=… …` per `run`, `<id> corr=…` per `u16`/`lr`.
-/
open TsVerif TsVerif.C18

def hexVal (c : Char) : Nat :=
  if '0' ≤ c ∧ c ≤ '9' then c.toNat - 48 else if 'a' ≤ c ∧ c ≤ 'f' then c.toNat - 87 else 0

def unhexL : List Char → List Nat
  | a :: b :: rest => (hexVal a * 16 + hexVal b) :: unhexL rest
  | _ => []

def unhex (s : String) : List Nat := if s == "-" then [] else unhexL s.toList

def nat (s : String) : Nat := s.toNat?.getD 0

def optNat (s : String) : Option Nat := s.toNat?

structure DSt where
  id : String := ""
  src : Bytes := []
  names : List String := []
  tagsFrom : Nat := 0
  pats : Array PatInfo := #[]
  ms : Array Mat := #[]
  tags : Array Tag := #[]
  err : Option String := none
  ctags : Array Tag := #[]
  cmeta : Option (List String) := none
  rmeta : Option String := none
  pmeta : Option String := none
  kinds : Option (List String) := none

def parseCap (s : String) : Option Cap :=
  match (s.splitOn ",").map nat with
  | [i, sb, eb, sr, sc, er, ec, e] => some { idx := i, sb := sb, eb := eb, sp := ⟨sr, sc⟩, ep := ⟨er, ec⟩, err := e != 0 }
  | _ => none

def parseTag (ws : List String) : Option Tag :=
  match ws with
  | [rs, re, ns, ne, ls, le, sr, sc, er, ec, us, ue, d, st, docs] =>
    some { range := ⟨nat rs, nat re⟩, name := ⟨nat ns, nat ne⟩, line := ⟨nat ls, nat le⟩,
           spanS := ⟨nat sr, nat sc⟩, spanE := ⟨nat er, nat ec⟩, u16 := ⟨nat us, nat ue⟩,
           docs := if docs == "-" then none else some (unhexL (docs.toList.drop 1)),
           isDef := d == "1", stid := nat st }
  | _ => none

/-- Tags on the same row as an earlier emitted tag / with a non-ASCII byte before the name on its line. -/
def stats (src : Bytes) (tags : List Tag) : Nat × Nat :=
  let rows := tags.map (·.spanS.row)
  let multi := (rows.filter (fun r => rows.count r ≥ 2)).length
  let na := (tags.filter (fun t => (slice src (t.name.s - t.spanS.col) t.name.e).any (· ≥ 128))).length
  (multi, na)

/-- C API (`c_lib.rs`) vs Rust API on the same input: status Ok, same parse-error flag, same kinds table,
every `TSTag` field equal to the Rust tag, docs buffer slices = the Rust docs (absent = empty). -/
def capiCheck (s : DSt) : String :=
  match s.cmeta with
  | none => if s.err.isSome then "skipped" else "DIFF:no-c-output"
  | some [err, perr, dlen, kinds] =>
    if err != "0" then s!"DIFF:status={err}"
    else if some perr != s.rmeta then s!"DIFF:found_parse_error={perr}"
    else if s.rmeta != s.pmeta then s!"DIFF:has_error_flag_rust={s.rmeta}_tree={s.pmeta}"
    else if s.kinds != some (mkCfg s.names s.tagsFrom s.pats).kinds then s!"DIFF:syntax_type_names={s.kinds}"
    else if kinds != "kinds=ok" then s!"DIFF:{kinds}"
    else
      let real := s.tags.toList
      let c := s.ctags.toList
      if c.length != real.length then s!"DIFF:count_c={c.length}_rust={real.length}"
      else
        let total := (real.map (fun t => (t.docs.getD []).length)).foldl (· + ·) 0
        if nat dlen != total then s!"DIFF:docs_len={dlen}_expected={total}"
        else match diffTags (c.map (fun t => { t with docs := none })) (real.map (fun t => { t with docs := none })) 0 with
          | some d => s!"DIFF:{d}"
          | none =>
            if (c.zip real).all (fun (a, b) => a.docs.getD [] == b.docs.getD []) then "ok" else "DIFF:docs"
  | some _ => "DIFF:bad-cmeta"

def runCase (s : DSt) : String :=
  let cfg := mkCfg s.names s.tagsFrom s.pats
  let ms := s.ms.toList
  let real := s.tags.toList
  let variants : List Variant := (List.range 8).map (fun i =>
    { drainSkips := i % 2 == 1, lossyFixed := (i / 2) % 2 == 1, multiRowFixed := (i / 4) % 2 == 1 })
  let diffs := variants.map (fun v => diffTags (runTags v cfg s.src ms) real 0)
  let corr := match diffs.head? with
    | some none => "ok"
    | some (some d) => s!"DIFF:{d}"
    | none => "?"
  let vars := String.ofList (diffs.map (fun d => if d.isNone then '1' else '0'))
  let verdicts := real.map (judgeTagM s.src cfg ms)
  let fails := verdicts.filterMap (fun v => match v with | .fail c m => some s!"FAIL:{c}:{m}" | _ => none)
  let lossy := verdicts.filterMap (fun v => match v with | .lossy m => some m | _ => none)
  let skipped := (verdicts.filter (fun v => match v with | .skip _ => true | _ => false)).length
  let ord := judgeOrder (real.filter (!·.isIgnored))
  let docsBad := (real.filter (fun t => !t.isIgnored && !judgeDocs cfg s.src ms t)).length
  let loc := judgeLocal cfg s.src ms real
  let kindBad := match s.kinds with
    | some ks => (real.filter (fun t => !t.isIgnored && !judgeKind cfg s.names ks ms t)).length
    | none => 0
  let nm := names cfg ms
  let arrbad := ((List.range nm.length).filter (fun j =>
    match nm[j]? with
    | some b => (nm.take j).any (fun a => decide (b.e < a.s))
    | none => false)).length
  -- arrival order of the pattern indices of the matches that share one name node (≥ 3 distinct patterns)
  let nameKeys := (ms.filterMap (nameOf cfg)).eraseDups
  let perms := nameKeys.filterMap (fun r =>
    let seq := (ms.filter (fun m => nameOf cfg m == some r)).map (·.pat)
    if seq.length ≥ 3 && seq.eraseDups.length == seq.length then
      some (String.intercalate "" (seq.map (fun p => toString (p - cfg.tagsFrom))))
    else none)
  let ties := (nameKeys.filter (fun r =>
    let seq := (ms.filter (fun m => nameOf cfg m == some r)).map (·.pat)
    match seq.min? with
    | some p => (seq.filter (· == p)).length ≥ 2
    | none => false)).length
  let permStr := if perms.isEmpty then "-" else String.intercalate "," perms
  -- first byte of the row of each real tag: rows that begin with an ASCII-whitespace byte other than space/TAB,
  -- with VT, or with a Unicode blank (NBSP C2 A0, U+2003 E2 80 83)
  let rowFirst := (real.filter (!·.isIgnored)).map (fun t => s.src.drop (t.name.s - t.spanS.col))
  let rowCount := fun (p : List Nat → Bool) => (rowFirst.filter p).length
  let rsFF := rowCount (fun r => r.head? == some 12)
  let rsCR := rowCount (fun r => r.head? == some 13)
  let rsVT := rowCount (fun r => r.head? == some 11)
  let rsUni := rowCount (fun r => r.take 2 == [0xC2, 0xA0] || r.take 3 == [0xE2, 0x80, 0x83])
  let hullBad := (real.filter (fun t => !t.isIgnored && !judgeHull cfg ms t)).length
  let pls := (real.filter (!·.isIgnored)).filterMap (placementOf cfg ms)
  let plc := fun (k : Nat) => (pls.filter (· == k)).length
  -- an out-of-order tag whose NAME arrived late in the real match stream (its name ends before the name of an
  -- earlier match starts) is the late-match defect; the test looks at the match stream only, not at tags.rs
  let lateNames := (List.range nm.length).filterMap (fun j =>
    match nm[j]? with
    | some b => if (nm.take j).any (fun a => decide (b.e < a.s)) then some b else none
    | none => none)
  -- round 11: replacements across a TOUCHING name: a match for name node r with a lower pattern index than an earlier
  -- match of r, with a match for another name that starts exactly at r's end in between (the queued tag of r must
  -- still be in the queue: the release test of TagsIter::next is strict)
  let keyed := ms.filterMap (fun m => (nameOf cfg m).map (fun r => (r, m.pat)))
  let touchRepl := ((List.range keyed.length).filter (fun j =>
    match keyed[j]? with
    | some (r, p) =>
      (List.range j).any (fun i =>
        match keyed[i]? with
        | some (r0, p0) => r0 == r && decide (p < p0) &&
            ((keyed.take j).drop (i + 1)).any (fun (y, _) => y != r && y.s == r.e && decide (r.s < r.e))
        | none => false)
    | none => false)).length
  let ordClause := match judgeOrderPair (real.filter (!·.isIgnored)) with
    | some (_, b) => if lateNames.contains b.name then "order-late-match" else "order"
    | none => "order"
  let j := match s.err, fails, ord with
    | some e, _, _ => s!"FAIL:error:generate_tags_failed_or_panicked:{e}".replace " " "_"
    | none, f :: _, _ => f.replace " " "_"
    | none, [], some o => s!"FAIL:{ordClause}:{o}".replace " " "_"
    | none, [], none =>
      if hullBad > 0 then s!"FAIL:hull:{hullBad}_tags_whose_range_is_not_the_hull_of_tagged_node_and_name"
      else if docsBad > 0 then s!"FAIL:docs:{docsBad}_tags"
      else if kindBad > 0 then s!"FAIL:kind:{kindBad}_tags_with_wrong_is_definition_or_syntax_type"
      else match loc with
        | some l => s!"FAIL:local:{l}".replace " " "_"
        | none => "ok"
  let (multi, na) := stats s.src real
  let lz := match lossy with
    | [] => "-"
    | m :: _ => m.replace " " "_"
  s!"{s.id} corr={corr.replace " " "_"} vars={vars} judge={j} tags={real.length} matches={ms.length} skipped={skipped} lossy={lossy.length} lossymsg={lz} multi={multi} nonascii={na} cfgbad={if cfg.invalid then 1 else 0} rsff={rsFF} rscr={rsCR} rsvt={rsVT} rsuni={rsUni} ties={ties} perms={permStr} plin={plc 0} pleq={plc 1} plfront={plc 2} plbehind={plc 3} mrdocs={(ms.map (fun m => (m.caps.filter (fun c => some c.idx == cfg.docIdx && decide (c.sp.row < c.ep.row))).length)).foldl (· + ·) 0} withdocs={(real.filter (fun t => t.docs.isSome)).length} capi={(capiCheck s).replace " " "_"} names={nm.length} touchrepl={touchRepl} arrbad={arrbad} late={if noLate {} cfg s.src none ms (initSt s.src) then 0 else 1}"

def step (s : DSt) (line : String) : IO DSt := do
  match line.splitOn " " with
  | ["case", id] => return { id := id }
  | ["src", h] => return { s with src := unhex h }
  | ["src"] => return { s with src := [] }
  | "names" :: ns => return { s with names := ns }
  | ["tagsfrom", n] => return { s with tagsFrom := nat n }
  | ["pat", nl, inh, adj, strip] =>
    return { s with pats := s.pats.push { nonLocal := nl == "1", inherits := inh == "1", adjacent := optNat adj, strip := optNat strip } }
  | "m" :: p :: caps => return { s with ms := s.ms.push { pat := nat p, caps := caps.filterMap parseCap } }
  | "tag" :: ws =>
    match parseTag ws with
    | some t => return { s with tags := s.tags.push t }
    | none => IO.println s!"{s.id} corr=BADINPUT judge=BADINPUT"; return s
  | "ctag" :: ws =>
    match parseTag ws with
    | some t => return { s with ctags := s.ctags.push t }
    | none => return { s with cmeta := some ["bad"] }
  | "cmeta" :: ws => return { s with cmeta := some ws }
  | ["pmeta", e] => return { s with pmeta := some e }
  | "kinds" :: ws => return { s with kinds := some ws }
  | ["cerr", id, got, expected] =>
    IO.println s!"{id} kind=cerr corr={if got == expected then "ok" else s!"DIFF:got={got},expected={expected}"} vars={if got == expected then "11111111" else "00000000"}"
    return s
  | ["rmeta", e] => return { s with rmeta := some e }
  | "tagerr" :: ws => return { s with err := some (" ".intercalate ws) }
  | ["run"] => IO.println (runCase s); return s
  | ["u16", id, h, real] =>
    let b := unhex h
    let m := utf16Len b
    let spec := utf16Spec b
    let half := (if m == nat real then "11" else "00") ++ (if utf16LenF b == nat real then "11" else "00")
    let vars := half ++ half
    IO.println s!"{id} kind=u16 corr={if m == nat real then "ok" else s!"DIFF:model={m},real={real}"} vars={vars} spec={if spec == nat real then "ok" else "differs"} valid={if validUtf8 b then 1 else 0}"
    return s
  | ["lr", id, h, sb, col, lim, rs, re] =>
    let b := unhex h
    let r := lineRange b (nat sb) (nat col) (nat lim)
    let okc := r.s == nat rs && r.e == nat re
    IO.println s!"{id} kind=lr corr={if okc then "ok" else s!"DIFF:model=[{r.s},{r.e}),real=[{rs},{re})"} vars={if okc then "11111111" else "00000000"}"
    return s
  | _ => return s

def main : IO Unit := do
  let _ ← foldLines (← IO.getStdin) ({} : DSt) step
