-- Driver stub for C18 (replaced when the property's model driver is written).
def main : IO Unit := IO.println "C18: no driver yet"
