-- Driver stub for C06 (replaced when the property's model driver is written).
def main : IO Unit := IO.println "C06: no driver yet"
