import TsVerif.Common.IO
import TsVerif.C06.Judge
/-!
Driver for C06: per case the internal dump, the root id, the cursor preorder walk (`v` lines) and
one line per API question (`o` lines); prints
`<id> judge=<ok|FAIL clauses :: details> asked=.. vis=.. raw=.. fanout=.. hiddenvis=.. alias=.. …`.
-/
open TsVerif TsVerif.C02 TsVerif.C06 TsGen

structure St where
  langs : Std.HashMap String Lang := {}
  /-- language-level premise of `child_by_field_id_spec_partial`, evaluated once per language dump -/
  sorted : Std.HashMap String Bool := {}
  defId : String := ""
  defLang : Lang := {}
  id : String := ""
  lang : String := ""
  kind : String := ""
  text : Array Nat := #[]
  dump : Array String := #[]
  rootId : Nat := 0
  ctx : Option Ctx := none
  fanout : Nat := 0
  root : Tree := default
  res : Res := {}
  vcount : Nat := 0
  mode : Nat := 0

def ensureCtx (s : St) : St :=
  match s.ctx with
  | some _ => s
  | none =>
    match s.langs.get? s.lang, parseDump s.dump.toList with
    | some lang, some d => { s with ctx := some (mkCtx lang d.root s.rootId), fanout := maxFanout d.root, root := d.root }
    | _, _ => s

def finish (s : St) : String :=
  match s.ctx, s.langs.get? s.lang, parseDump s.dump.toList with
  | some c, some lang, some d =>
    let e : Env := { lang := lang, text := s.text, tbl := posTable s.text }
    let (js, _) := walk e d.root length_zero 0 true 0 0 s.text.size [] {}
    let r := s.res
    let r := if s.vcount == c.ft.size then r else
      { r with fails := r.fails.add "walk:count" fun _ => s!"cursor walk visited {s.vcount} nodes, tree has {c.ft.size}" }
    let fields := (c.ft.toList.filter fun f => f.info.fields.any (!·.isEmpty)).length
    -- hypotheses (and conclusion) of parent_spec_partial on every relevant node of this tree, and
    -- the link parentOnPath = parent in the flattened tree
    let rootRef : NodeRef := { t := d.root, alias := 0, id := s.rootId, start := d.root.data.padding }
    let ph := parentHyp lang rootRef
    let flatBad := ph.parents.foldl (init := 0) fun n (did, pid) =>
      match c.byId.get? did with
      | some j => (match (c.ft.node j).parent with
          | some pj => if (c.ft.node pj).info.id == pid then n else n + 1
          | none => n + 1)
      | none => n + 1
    -- the same for next_sibling_spec_partial, and head(laterOnPath) = next sibling in the flattened tree
    let sh := siblingHyp lang rootRef (anonLeafOKKids lang d.root.kids d.root.data.productionId 0)
    let nsFlatBad := sh.nexts.foldl (init := 0) fun n (did, exp) =>
      match c.byId.get? did with
      | some j =>
        let flat := (c.ft.nextSibling j false).map fun i => ((c.ft.node i).info.raw.data, (c.ft.node i).info.alias)
        if decide (flat = exp) then n else n + 1
      | none => n + 1
    -- first_child_for_byte_spec_partial on every node with children, at sampled goals (boundaries of
    -- the first and last three children): hypothesis ndeNode; conclusion port = fcbNode; fcbNode = flatten
    let fcb := Id.run do
      let mut chk := 0
      let mut out := 0
      let mut bad := 0
      let mut flat := 0
      for h : k in [0:c.ft.size] do
        let f := c.ft[k]'h.2.1
        let kids := f.kids.toList
        if kids.isEmpty then continue
        let i := f.info
        let self : NodeRef := { t := i.raw, alias := i.alias, id := i.id, start := i.start }
        let sample := (kids.take 3 ++ (kids.drop 3).reverse.take 3)
        let goals := i.start.bytes :: sample.flatMap fun j => [c.ft.eb j - 1, c.ft.eb j]
        for goal in goals do
          if !(ndeNode lang goal self.t self.start) then out := out + 1
          else
            let exp := fcbNode lang goal self.t self.start
            let got := firstChildForBytePort lang (self.t.size + 1) self goal true
            if got.map (·.id) == exp.map (·.id) then chk := chk + 1 else bad := bad + 1
            let fl := (c.ft.firstChildForByte k goal false).map fun j => (c.ft.node j).info.id
            if fl != exp.map (·.id) then flat := flat + 1
      return (chk, out, bad, flat)
    -- first_child_for_byte_spec_anon for the NAMED variant, same nodes and goals
    let nfcb := Id.run do
      let mut chk := 0
      let mut out := 0
      let mut bad := 0
      let mut flat := 0
      for h : k in [0:c.ft.size] do
        let f := c.ft[k]'h.2.1
        let kids := f.kids.toList
        if kids.isEmpty then continue
        let i := f.info
        let self : NodeRef := { t := i.raw, alias := i.alias, id := i.id, start := i.start }
        let sample := (kids.take 3 ++ (kids.drop 3).reverse.take 3)
        let goals := i.start.bytes :: sample.flatMap fun j => [c.ft.eb j - 1, c.ft.eb j]
        for goal in goals do
          if !(ndeNodeA lang false goal self.t self.start) then out := out + 1
          else
            let exp := fcbNodeA lang false goal self.t self.start
            let got := firstChildForBytePort lang (self.t.size + 1) self goal false
            if got.map (·.id) == exp.map (·.id) then chk := chk + 1 else bad := bad + 1
            let fl := (c.ft.firstChildForByte k goal true).map fun j => (c.ft.node j).info.id
            if fl != exp.map (·.id) then flat := flat + 1
      return (chk, out, bad, flat)
    -- descendant_for_byte_range_spec_partial from the root, for the (non-empty) range of every node
    -- and its first byte: conclusion port = dfrIdeal; dfrIdeal = smallest spanning node of flatten
    let dfr := Id.run do
      let mut chk := 0
      let mut bad := 0
      let mut flat := 0
      for h : k in [0:c.ft.size] do
        let sb := c.ft.sb k
        let eb := c.ft.eb k
        if sb == eb then continue
        for (rs, re) in [(sb, eb), (sb, sb + 1)] do
          let exp := dfrIdeal lang rs re (d.root.size + 1) rootRef rootRef
          let got := descendantForByteRangePort lang (d.root.size + 1) rootRef rs re true
          if got.map (·.id) == some exp.id then chk := chk + 1 else bad := bad + 1
          let fl := (c.ft.descendantForBytes 0 rs re false).map fun j => (c.ft.node j).info.id
          if fl != some exp.id then flat := flat + 1
      return (chk, bad, flat)
    -- descendant_for_byte_range_spec_anon (NAMED variant) and descendant_for_point_range_spec_partial
    -- (both flags) from the root, for the non-empty byte / point range of every node
    let vdfr := Id.run do
      let mut nchk := 0
      let mut nbad := 0
      let mut nflat := 0
      let mut pchk := 0
      let mut pbad := 0
      let mut pflat := 0
      let fuel := d.root.size + 1
      for h : k in [0:c.ft.size] do
        let sb := c.ft.sb k
        let eb := c.ft.eb k
        if sb != eb then
          let exp := dfrIdealA lang false sb eb fuel rootRef rootRef
          let got := descendantForByteRangePort lang fuel rootRef sb eb false
          if got.map (·.id) == some exp.id then nchk := nchk + 1 else nbad := nbad + 1
          let fl := (c.ft.descendantForBytes 0 sb eb true).map fun j => (c.ft.node j).info.id
          if fl != some exp.id then nflat := nflat + 1
        let sp := c.ft.sp k
        let ep := c.ft.ep k
        if point_lt sp ep then
          for anon in [true, false] do
            let exp := dfrIdealP lang anon sp ep fuel rootRef rootRef
            let got := descendantForPointRangePort lang fuel rootRef sp ep anon
            if got.map (·.id) == some exp.id then pchk := pchk + 1 else pbad := pbad + 1
            let fl := (c.ft.descendantForPoints 0 sp ep (!anon)).map fun j => (c.ft.node j).info.id
            if fl != some exp.id then pflat := pflat + 1
      return (nchk, nbad, nflat, pchk, pbad, pflat)
    -- descendant_for_empty_byte_range_spec: EMPTY ranges [x, x] from the root, x = start / end of every node, both flags:
    -- hypothesis emptyOK; conclusion port = dfrIdealE = FT.descendantForBytes 0 x x
    let edfr := Id.run do
      let mut chk := 0
      let mut out := 0
      let mut bad := 0
      let mut slack := 0
      let fuel := d.root.size + 1
      let mut seen : Std.HashSet Nat := {}
      for h : k in [0:c.ft.size] do
        for x in [c.ft.sb k, c.ft.eb k] do
          if seen.contains x then continue
          seen := seen.insert x
          if !(emptyOK lang x d.root rootRef.start) then
            out := out + 1
            -- is the hypothesis exact here?  (outside AND the anonymous search still agrees with the ordered tree)
            let got := (descendantForByteRangePort lang fuel rootRef x x true).map (·.id)
            let fl := (c.ft.descendantForBytes 0 x x false).map fun j => (c.ft.node j).info.id
            if got == fl then slack := slack + 1
          else
            for anon in [true, false] do
              let got := (descendantForByteRangePort lang fuel rootRef x x anon).map (·.id)
              let ideal := (dfrIdealE lang anon x fuel rootRef rootRef).id
              let fl := (c.ft.descendantForBytes 0 x x (!anon)).map fun j => (c.ft.node j).info.id
              if got == some ideal && fl == some ideal then chk := chk + 1 else bad := bad + 1
      return (chk, out, bad, slack)
    -- child_by_field_id_spec_partial for every entry and every field of the language: premise cbfOK;
    -- conclusion port = cbfSpec; cbfSpec = FT.childByField
    let cbf := Id.run do
      let mut chk := 0
      let mut out := 0
      let mut bad := 0
      let mut flat := 0
      let mut skip := 0
      if lang.fieldCount > 0 then
        for h : k in [0:c.ft.size] do
          let f := c.ft[k]'h.2.1
          if f.kids.isEmpty then continue
          let i := f.info
          let self : NodeRef := { t := i.raw, alias := i.alias, id := i.id, start := i.start }
          for fid in [1:lang.fieldCount + 1] do
            if cbfPassesEmpty lang fid self.t then skip := skip + 1
            if !(cbfOK lang fid self.t) then out := out + 1
            else
              let exp := (cbfSpec lang fid self.t).map fun x => (x.1.data, x.2)
              let got := (childByFieldIdPort lang (self.t.size + 1) self fid).map fun r => (r.t.data, r.alias)
              if decide (got = exp) then chk := chk + 1 else bad := bad + 1
              let fl := (c.ft.childByField k fid).map fun j => ((c.ft.node j).info.raw.data, (c.ft.node j).info.alias)
              if decide (fl = exp) then pure () else flat := flat + 1
      return (chk, out, bad, flat, skip)
    let psFlatBad := sh.prevs.foldl (init := 0) fun n (did, exp) =>
      match c.byId.get? did with
      | some j =>
        let flat := (c.ft.prevSibling j false).map fun i => ((c.ft.node i).info.raw.data, (c.ft.node i).info.alias)
        if decide (flat = exp) then n else n + 1
      | none => n + 1
    let nnFlatBad := sh.nnexts.foldl (init := 0) fun n (did, exp) =>
      match c.byId.get? did with
      | some j =>
        let flat := (c.ft.nextSibling j true).map fun i => ((c.ft.node i).info.raw.data, (c.ft.node i).info.alias)
        if decide (flat = exp) then n else n + 1
      | none => n + 1
    let npFlatBad := sh.nprevs.foldl (init := 0) fun n (did, exp) =>
      match c.byId.get? did with
      | some j =>
        let flat := (c.ft.prevSibling j true).map fun i => ((c.ft.node i).info.raw.data, (c.ft.node i).info.alias)
        if decide (flat = exp) then n else n + 1
      | none => n + 1
    s!"{s.id} corr={r.corrFails.render} judge={r.fails.render} asked={r.asked} ported={r.portCompared} vis={c.ft.size} raw={js.rawNodes} fanout={s.fanout} hiddenvis={js.hiddenWithVisible} alias={js.aliases} extra={js.extras} err={js.errors} missing={js.missing} zerowidth={js.zeroWidth} multiline={js.multiline} fields={fields} sexpok={if (sexpOKKids lang d.root.kids d.root.data.productionId 0 || hasHiddenMissing lang d.root 0) && !(lang.symMeta 0).visible then 1 else 0} stackbad={r.stackBad} anonleafok={if anonLeafOKKids lang d.root.kids d.root.data.productionId 0 then 1 else 0} hiddenextraok={if hiddenExtraOKKids lang d.root.kids d.root.data.productionId 0 then 1 else 0} hiddenmissing={if hasHiddenMissing lang d.root 0 then 1 else 0} parchk={ph.checked} parzw={ph.zeroWidth} parbad={ph.bad} parflat={flatBad} nschk={sh.checked} nsout={sh.outside} nsbad={sh.bad} nsflat={nsFlatBad} pschk={sh.pchecked} psout={sh.poutside} psbad={sh.pbad} psflat={psFlatBad} fcbchk={fcb.1} fcbout={fcb.2.1} fcbbad={fcb.2.2.1} fcbflat={fcb.2.2.2} dfrchk={dfr.1} dfrbad={dfr.2.1} dfrflat={dfr.2.2} nfcbchk={nfcb.1} nfcbout={nfcb.2.1} nfcbbad={nfcb.2.2.1} nfcbflat={nfcb.2.2.2} ndfrchk={vdfr.1} ndfrbad={vdfr.2.1} ndfrflat={vdfr.2.2.1} pdfrchk={vdfr.2.2.2.1} pdfrbad={vdfr.2.2.2.2.1} pdfrflat={vdfr.2.2.2.2.2} cbfchk={cbf.1} cbfout={cbf.2.1} cbfbad={cbf.2.2.1} cbfflat={cbf.2.2.2.1} cbfskip={cbf.2.2.2.2} fmsorted={if (s.sorted.get? s.lang).getD false then 1 else 0} cfcchk={r.cfcChk} cfcout={r.cfcOut} cfcbad={r.cfcBad} cfcflat={r.cfcFlat} cparchk={r.cparChk} cparbad={r.cparBad} edfrchk={edfr.1} edfrout={edfr.2.1} edfrbad={edfr.2.2.1} edfrslack={edfr.2.2.2} nnschk={sh.nnchecked} nnsout={sh.nnoutside} nnsbad={sh.nnbad} nnsflat={nnFlatBad} npschk={sh.npchecked} npsout={sh.npoutside} npsbad={sh.npbad} npsflat={npFlatBad} znschk={sh.zchecked} znsout={sh.zoutside} znsbad={sh.zbad} zpschk={sh.zpchecked} zpsout={sh.zpoutside} zpsbad={sh.zpbad} pgenbad={sh.pgenbad} znsoutpar={sh.zwhy.1} znsoutfollow={sh.zwhy.2.1} znsoutzw={sh.zwhy.2.2.1} zpsoutpar={sh.zwhy.2.2.2.1} zpsoutid={sh.zwhy.2.2.2.2.1} zpsoutzw={sh.zwhy.2.2.2.2.2} kind={s.kind}"
  | _, _, _ => s!"{s.id} corr=BADINPUT judge=BADINPUT asked=0"

def step (s : St) (line : String) : IO St := do
  if s.mode == 1 then
    if line == "enddeflang" then
      return { s with mode := 0, langs := s.langs.insert s.defId s.defLang, sorted := s.sorted.insert s.defId (fieldMapsSorted s.defLang) }
    else return { s with defLang := s.defLang.addLine line }
  if s.mode == 2 then
    if line == "end" then return { s with mode := 0 } else return { s with dump := s.dump.push line }
  if line.startsWith "o " then
    let s := ensureCtx s
    match s.ctx with
    | some c => return { s with res := judgeLine c s.root s.rootId s.res line }
    | none => return s
  if line.startsWith "rwo " then
    let s := ensureCtx s
    match s.ctx with
    | some c => return { s with res := judgeLine c s.root s.rootId s.res line }
    | none => return s
  if line.startsWith "v " then
    let s := ensureCtx s
    match s.ctx with
    | some c => return { s with res := judgeLine c s.root s.rootId s.res line, vcount := s.vcount + 1 }
    | none => return s
  match line.splitOn " " with
  | "cwidths" :: fields =>
    let measured := fields.filterMap fun f => match f.splitOn "=" with
      | [k, v] => v.toNat?.map fun n => (k, n)
      | _ => none
    let bad := wideProbeFails measured
    let corr := if bad.isEmpty then "ok" else "FAIL tie:cursor-index-widths :: tie:cursor-index-widths: " ++ ", ".intercalate bad
    IO.println s!"cwidths-0 corr={corr} judge=ok asked=0 cwidthcase=1 measured={measured.length} assumed={(wideProbeExpected 0).length + 2} kind=cwidths"
    return s
  | ["deflang", id] => return { s with mode := 1, defId := id, defLang := {} }
  | ["case", id] => return { langs := s.langs, sorted := s.sorted, id := id }
  | ["lang", l] => return { s with lang := l }
  | ["kind", k] => return { s with kind := k }
  | ["text", h] => return { s with text := (unhexBytes h).toArray }
  | ["text"] => return { s with text := #[] }
  | "tree" :: _ => return { s with mode := 2, dump := #[] }
  | ["rootid", h] => return { s with rootId := parseHexNat h }
  | ["run"] =>
    let s := ensureCtx s
    if (← IO.getEnv "TSV_DEBUG").isSome then
      match s.ctx with
      | some c =>
        for h : k in [0:c.ft.size] do
          let f := c.ft[k]'h.2.1
          IO.println s!"#node {k} depth={f.depth} id={toHex f.info.id} sym={f.info.sym} [{f.info.start.bytes},{f.info.stop.bytes}] named={f.info.named} extra={f.info.extra} missing={f.info.missing} fields={f.info.fields} parent={f.parent} kids={f.kids.size}"
      | none => pure ()
    IO.println (finish s); return s
  | _ => return s

def main : IO Unit := do
  let _ ← foldLines (← IO.getStdin) ({} : St) step
