import TsVerif.C19.Props
#print axioms TsVerif.C19.no_partial
#print axioms TsVerif.C19.safety
#print axioms TsVerif.C19.judge_safe_of_model
#print axioms TsVerif.C19.safety_compile_error
#print axioms TsVerif.C19.mutual_exclusion
#print axioms TsVerif.C19.stale_lock_never_recovers
#print axioms TsVerif.C19.leftover_lock_is_stuck
#print axioms TsVerif.C19.crash_while_holding_is_permanent
#print axioms TsVerif.C19.recheck_recovers_example
#print axioms TsVerif.C19.bounded_termination
#print axioms TsVerif.C19.measure_init
#print axioms TsVerif.C19.wait_free
#print axioms TsVerif.C19.no_orphan_lock
#print axioms TsVerif.C19.judge_orphan_of_model
