import TsVerif.C19.Model
import Std.Data.HashSet
/-!
# C19 — judge, macro-steps at the granularity of the hook points, schedule enumeration

`Outcome` is what can be observed of a run of the real loader (per caller: result or death;
the final library file; whether lock / temp files are left; the result of one *later* load that
starts after everything else ended).  `judgeSafe` / `judgeRecovery` decide the property's clauses
on an outcome; the same functions are used in `Props.lean` (on `outcomeOf` a model state) and by
the driver on the real outcomes.
-/
namespace TsVerif.C19

structure Outcome where
  src : Nat
  /-- do the current sources compile? -/
  compiles : Bool
  /-- per caller: `none` = died / never finished -/
  results : List (Option Res)
  /-- library file at the end: `none` absent, `some f` (complete = loadable in a fresh process) -/
  finalLib : Option File
  lockLeft : Bool
  /-- result of a load started after every other caller ended (`none` = not probed) -/
  later : Option Res
  deriving DecidableEq, Repr, Inhabited

/-- Clause 1+2: every success is a complete library built from the current sources; no caller
ever observed a partially written file; the file left behind is complete. -/
def resSafe (src : Nat) : Option Res → Bool
  | some (.ok v) => v == src
  | some (.err .partialLib) => false
  | _ => true

def judgeSafe (o : Outcome) : Bool :=
  o.results.all (resSafe o.src) && resSafe o.src o.later &&
  (match o.finalLib with | some f => f.complete | none => true)

/-- Clause 3: a load that starts after a crash (or with leftover files) ends within the time bound
and succeeds with the current version — or, when the sources do not compile, reports that. -/
def judgeRecovery (o : Outcome) : Bool :=
  match o.later with
  | none => true
  | some (.ok v) => v == o.src
  | some (.err .compile) => !o.compiles
  | some (.err _) => false

/-- Clause 3, bounded time: when every caller has *returned* (nobody died) and no lock file was
there to begin with, no lock file is left — a lock left by a caller that returned would make every
later load wait for the full timeout. -/
def judgeNoOrphanLock (initialLock : Bool) (o : Outcome) : Bool :=
  initialLock || !o.lockLeft || o.results.any Option.isNone

def resultOf (pr : Proc) : Option Res :=
  match pr.pc with
  | .done r => some r
  | _ => none

def outcomeOf (c : Cfg) (s : State) (later : Option Res := none) : Outcome :=
  { src := s.src, compiles := !c.mayFail, results := s.procs.map resultOf, finalLib := s.lib,
    lockLeft := s.lock.isSome, later }

/-! ## Macro steps = intervals between two hook points of the real code -/

/-- What the controller can tell a paused caller to do. `compile` runs `cc` to its end. -/
inductive MAct
  | check | tryLock | compile | rename | unlock | poll | load | crash
  deriving DecidableEq, Repr, Hashable, Inhabited

def MAct.name : MAct → String
  | .check => "check" | .tryLock => "lock" | .compile => "compile" | .rename => "rename"
  | .unlock => "unlock" | .poll => "poll" | .load => "load" | .crash => "crash"

def MAct.ofName : String → Option MAct
  | "check" => some .check | "lock" => some .tryLock | "compile" => some .compile | "rename" => some .rename
  | "unlock" => some .unlock | "poll" => some .poll | "load" => some .load | "crash" => some .crash
  | _ => none

/-- The hook point at which a caller at `pc` is paused (`none`: finished). -/
def pointOf : Pc → Option MAct
  | .start => some .check
  | .needLock => some .tryLock
  | .haveLock => some .compile
  | .wroteTemp => some .rename
  | .renamed => some .unlock
  | .waiting _ => some .poll
  | .loading => some .load
  | _ => none

def bind2 (x : Option State) (f : State → Option State) : Option State :=
  match x with
  | some s => f s
  | none => none

/-- `broken`: the sources do not compile (then `cc` fails, the temp is removed and the error
propagates, dropping the lock, without another hook point in between). -/
def mstep (c : Cfg) (broken : Bool) (s : State) (p : Nat) : MAct → Option State
  | .check => step c s p .check
  | .tryLock => step c s p .tryLock
  | .compile =>
    bind2 (step c s p .compileBegin) fun s1 =>
      if broken then bind2 (step c s1 p .compileFail) fun s2 => step c s2 p .unlock
      else step c s1 p .compileFinish
  | .rename => step c s p .rename
  | .unlock => step c s p .unlock
  | .poll => step c s p .poll
  | .load => step c s p .load
  | .crash => step c s p .crash

def pcAt (s : State) (p : Nat) : Pc :=
  match s.procs[p]? with
  | some pr => pr.pc
  | none => .dead

/-- Run a macro schedule; returns the final state and, per step, the point at which the stepped
caller is paused afterwards (to be compared with what the real caller announces). -/
def mrun (c : Cfg) (broken : Bool) : State → List (Nat × MAct) → List (Option MAct) → Option (State × List (Option MAct))
  | s, [], acc => some (s, acc.reverse)
  | s, (p, a) :: rest, acc =>
    match mstep c broken s p a with
    | none => none
    | some s' => mrun c broken s' rest (pointOf (pcAt s' p) :: acc)

/-- Run caller `p` alone until it finishes (fuel-bounded). -/
def runSolo (c : Cfg) (broken : Bool) (s : State) (p : Nat) : Nat → State
  | 0 => s
  | fuel + 1 =>
    match pointOf (pcAt s p) with
    | none => s
    | some a =>
      match mstep c broken s p a with
      | none => s
      | some s' => runSolo c broken s' p fuel

/-- A waiter that already polled `cap` times, still sees the lock and is not about to time out is
not scheduled further (in the real run it stays paused and is killed at the end). -/
def capped (c : Cfg) (cap : Nat) (s : State) (p : Nat) : Bool :=
  match pcAt s p with
  | .waiting k => k ≥ cap && s.lock.isSome && k < c.K
  | _ => false

/-- All maximal macro schedules of callers `0..n-1` (a later caller, index `n`, is not scheduled)
with at most `crashes` crash actions.  Depth-first; every caller's next action is determined by
its pc, so a schedule is a sequence of caller indices plus the crash decisions. -/
def enumSchedCapped (c : Cfg) (broken : Bool) (n cap : Nat) : Nat → Nat → State → List (Nat × MAct) →
    List (List (Nat × MAct)) → List (List (Nat × MAct))
  | 0, _, _, pre, acc => pre.reverse :: acc
  | fuel + 1, crashes, s, pre, acc =>
    let live := (List.range n).filter fun p => (pointOf (pcAt s p)).isSome && !capped c cap s p
    if live.isEmpty then pre.reverse :: acc
    else
      live.foldl (fun acc p =>
        match pointOf (pcAt s p) with
        | none => acc
        | some a =>
          let acc := match mstep c broken s p a with
            | some s' => enumSchedCapped c broken n cap fuel crashes s' ((p, a) :: pre) acc
            | none => acc
          if crashes > 0 then
            match mstep c broken s p .crash with
            | some s' => enumSchedCapped c broken n cap fuel (crashes - 1) s' ((p, .crash) :: pre) acc
            | none => acc
          else acc) acc

/-! ## Reachable outcomes under the fine-grained steps (for uncontrolled real runs) -/

def allActs : List Act :=
  [.check, .tryLock, .compileBegin, .compileFinish, .compileFail, .rename, .unlock, .poll, .load]

/-- Abstract view of a terminal state: sorted results, final library, lock left. -/
structure Summary where
  results : List String
  lib : Option File
  lockLeft : Bool
  deriving DecidableEq, Repr, Hashable, Inhabited

def Res.show : Res → String
  | .ok v => s!"ok{v}"
  | .err .timeout => "timeout"
  | .err .missing => "missing"
  | .err .compile => "compile"
  | .err .partialLib => "partial"

def showResult : Option Res → String
  | some r => r.show
  | none => "dead"

def insertSorted (x : String) : List String → List String
  | [] => [x]
  | y :: ys => if x ≤ y then x :: y :: ys else y :: insertSorted x ys

def sortStrings (l : List String) : List String := l.foldl (fun acc x => insertSorted x acc) []

def summaryOf (s : State) : Summary :=
  { results := sortStrings (s.procs.map (fun pr => showResult (resultOf pr))), lib := s.lib, lockLeft := s.lock.isSome }

def terminal (s : State) : Bool := s.procs.all fun pr => pr.pc.finished

/-- Successors under every protocol action of every caller, plus crashes when `crash`. -/
def succs (c : Cfg) (crash : Bool) (s : State) : List State :=
  (List.range s.procs.length).foldl (fun acc p =>
    let acc := allActs.foldl (fun acc a => match step c s p a with | some s' => s' :: acc | none => acc) acc
    if crash then (match step c s p .crash with | some s' => s' :: acc | none => acc) else acc) []

/-- Worklist exploration with a visited set; fuel bounds the number of expansions. -/
def explore (c : Cfg) (crash : Bool) : Nat → List State → Std.HashSet State → Std.HashSet Summary → Std.HashSet Summary × Nat × Bool
  | 0, work, seen, outs => (outs, seen.size, work.isEmpty)
  | fuel + 1, work, seen, outs =>
    match work with
    | [] => (outs, seen.size, true)
    | s :: rest =>
      let outs := if terminal s then outs.insert (summaryOf s) else outs
      let (work, seen) := (succs c crash s).foldl (fun (ws : List State × Std.HashSet State) t =>
        if ws.2.contains t then ws else (t :: ws.1, ws.2.insert t)) (rest, seen)
      explore c crash fuel work seen outs

def reachableSummaries (c : Cfg) (crash : Bool) (s0 : State) (fuel : Nat := 2000000) : Std.HashSet Summary × Nat × Bool :=
  explore c crash fuel [s0] (Std.HashSet.emptyWithCapacity.insert s0) Std.HashSet.emptyWithCapacity

end TsVerif.C19
