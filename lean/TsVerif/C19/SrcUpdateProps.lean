import TsVerif.C19.SrcUpdate
/-!
# C19 round 11 — safety of the protocol WITH source updates

`safety_with_source_updates`: from any initial state, after any interleaving of loader steps (any
number of loaders, crashes, lock stealing) and source updates, a loader that returned success with a
library of generation `v` has `callGen ≤ lastCheck ≤ v ≤ src`: what it returns was built from sources
at least as new as the ones its LAST check read (which are at least as new as at its call), and
never from "future" ones.  Equality `v = lastCheck` is NOT a theorem: an update that lands between
a winner's check and its compile makes it build — and return — the newer generation
(`winner_may_return_newer`).  It is an equality when no update happens after the last check
(`eq_lastCheck_of_no_update_since`).
-/
namespace TsVerif.C19.Upd

def extra (src : Nat) (lib : Option Nat) (pr : Proc) : Prop :=
  match pr.pc with
  | .loading => ∃ v, lib = some v ∧ pr.lastCheck ≤ v
  | .compiled => ∃ v, lib = some v ∧ pr.lastCheck ≤ v
  | .done v => pr.lastCheck ≤ v ∧ v ≤ src
  | _ => True

def PInv (src : Nat) (lib : Option Nat) (pr : Proc) : Prop :=
  pr.callGen ≤ pr.lastCheck ∧ pr.lastCheck ≤ src ∧ extra src lib pr

def Inv (s : State) : Prop :=
  (∀ v, s.lib = some v → v ≤ s.src) ∧ ∀ pr ∈ s.procs, PInv s.src s.lib pr

theorem PInv.mono {src src' : Nat} {lib lib' : Option Nat} {pr : Proc}
    (h : PInv src lib pr) (hs : src ≤ src')
    (hl : ∀ v, lib = some v → ∃ v', lib' = some v' ∧ v ≤ v') : PInv src' lib' pr := by
  obtain ⟨h1, h2, h3⟩ := h
  refine ⟨h1, by omega, ?_⟩
  unfold extra at h3 ⊢
  cases hpc : pr.pc <;> simp only [hpc] at h3 ⊢
  · obtain ⟨v, hv, hle⟩ := h3
    obtain ⟨v', hv', hle'⟩ := hl v hv
    exact ⟨v', hv', by omega⟩
  · obtain ⟨v, hv, hle⟩ := h3
    obtain ⟨v', hv', hle'⟩ := hl v hv
    exact ⟨v', hv', by omega⟩
  · exact ⟨h3.1, by omega⟩

theorem inv_set {s : State} {src' : Nat} {lib' : Option Nat} {l : Bool} {p : Nat} {pr' : Proc}
    (hI : Inv s) (hs : s.src ≤ src')
    (hl : ∀ v, s.lib = some v → ∃ v', lib' = some v' ∧ v ≤ v')
    (hb : ∀ v, lib' = some v → v ≤ src') (hp : PInv src' lib' pr') :
    Inv { src := src', lib := lib', lock := l, procs := s.procs.set p pr' } := by
  refine ⟨hb, ?_⟩
  intro pr hmem
  rcases List.mem_or_eq_of_mem_set hmem with h | h
  · exact (hI.2 pr h).mono hs hl
  · exact h ▸ hp

theorem afterCheck_extra (s : State) (c : Nat) :
    extra s.src s.lib { pc := afterCheck s, callGen := c, lastCheck := s.src } := by
  unfold extra afterCheck
  by_cases h : s.lib = some s.src
  · simp [h]
  · simp [h]

theorem step_inv {s s' : State} {p : Nat} {a : Act} (hI : Inv s) (h : step s p a = some s') : Inv s' := by
  unfold step at h
  split at h
  · cases h
  · rename_i pr hp
    have hmem : pr ∈ s.procs := List.mem_of_getElem? hp
    obtain ⟨h1, h2, h3⟩ := hI.2 pr hmem
    have idl : ∀ v, s.lib = some v → ∃ v', s.lib = some v' ∧ v ≤ v' := fun v hv => ⟨v, hv, Nat.le_refl v⟩
    split at h
    · -- start, check
      cases h
      exact inv_set hI (Nat.le_refl _) idl hI.1 ⟨Nat.le_refl _, Nat.le_refl _, afterCheck_extra s s.src⟩
    · -- needLock, lock
      split at h <;> cases h <;>
        exact inv_set hI (Nat.le_refl _) idl hI.1 ⟨h1, h2, by simp [extra]⟩
    · -- waiting, lockGone
      split at h
      · cases h
      · cases h
        exact inv_set hI (Nat.le_refl _) idl hI.1 ⟨Nat.le_trans h1 h2, Nat.le_refl _, afterCheck_extra s pr.callGen⟩
    · -- waiting, steal
      cases h
      exact inv_set hI (Nat.le_refl _) idl hI.1 ⟨Nat.le_trans h1 h2, Nat.le_refl _, afterCheck_extra s pr.callGen⟩
    · -- haveLock, compile
      cases h
      refine inv_set hI (Nat.le_refl _) (fun v hv => ⟨s.src, rfl, hI.1 v hv⟩) (fun v hv => ?_) ⟨h1, h2, ?_⟩
      · cases hv; exact Nat.le_refl _
      · simp only [extra]; exact ⟨s.src, rfl, h2⟩
    · -- compiled, unlock
      have hpc : pr.pc = .compiled := by assumption
      cases h
      refine inv_set hI (Nat.le_refl _) idl hI.1 ⟨h1, h2, ?_⟩
      simp only [extra, hpc] at h3 ⊢
      exact h3
    · -- loading, load
      have hpc : pr.pc = .loading := by assumption
      simp only [extra, hpc] at h3
      obtain ⟨v, hv, hle⟩ := h3
      split at h
      · rename_i w hw
        cases h
        have : w = v := by rw [hv] at hw; cases hw; rfl
        subst this
        exact inv_set hI (Nat.le_refl _) idl hI.1 ⟨h1, h2, by simp only [extra]; exact ⟨hle, hI.1 _ hv⟩⟩
      · rename_i hw
        rw [hv] at hw; cases hw
    · -- crash
      split at h
      · cases h
      · cases h
        exact inv_set hI (Nat.le_refl _) idl hI.1 ⟨h1, h2, by simp [extra]⟩
    · cases h

theorem upd_inv {s : State} (hI : Inv s) : Inv (srcUpdate s) := by
  refine ⟨fun v hv => Nat.le_succ_of_le (hI.1 v hv), fun pr hmem => ?_⟩
  exact (hI.2 pr hmem).mono (Nat.le_succ _) (fun v hv => ⟨v, hv, Nat.le_refl v⟩)

theorem init_inv {s : State} (h : Init s) : Inv s := by
  refine ⟨h.lib, fun pr hmem => ?_⟩
  obtain ⟨a, b, c⟩ := h.procs pr hmem
  refine ⟨by omega, by omega, ?_⟩
  simp [extra, a]

theorem reach_inv {s t : State} (h0 : Inv s) (h : Reach s t) : Inv t := by
  induction h with
  | refl => exact h0
  | step p a _ hs ih => exact step_inv ih hs
  | upd _ ih => exact upd_inv ih

/-- **Safety with source updates.**  Whatever the interleaving of loaders, crashes, lock stealing and
source rewrites: a success returns a library built from a generation `v` of the sources with
`callGen ≤ lastCheck ≤ v ≤ src` — never older than what the loader's LAST check read. -/
theorem safety_with_source_updates {s0 s : State} (hi : Init s0) (hr : Reach s0 s)
    (pr : Proc) (hmem : pr ∈ s.procs) (v : Nat) (hd : pr.pc = .done v) :
    pr.callGen ≤ pr.lastCheck ∧ pr.lastCheck ≤ v ∧ v ≤ s.src := by
  obtain ⟨h1, _, h3⟩ := (reach_inv (init_inv hi) hr).2 pr hmem
  simp only [extra, hd] at h3
  exact ⟨h1, h3.1, h3.2⟩

/-- When the sources were not rewritten after the loader's last check (`lastCheck = src` at the
end), the success is EXACTLY the generation of that check = the current sources. -/
theorem eq_lastCheck_of_no_update_since {s0 s : State} (hi : Init s0) (hr : Reach s0 s)
    (pr : Proc) (hmem : pr ∈ s.procs) (v : Nat) (hd : pr.pc = .done v) (hno : pr.lastCheck = s.src) :
    v = pr.lastCheck ∧ v = s.src := by
  have := safety_with_source_updates hi hr pr hmem v hd
  omega

/-! non-vacuity / witnesses -/

def init2 : State := { src := 1, lib := none, lock := false, procs := [⟨.start, 0, 0⟩, ⟨.start, 0, 0⟩] }

example : Init init2 := ⟨by decide, by decide⟩

/-- the `live` history of the explorer: L0 wins and compiles generation 1, L1 waits, the sources are
rewritten, L0 unlocks and loads generation 1, L1 re-checks (reads 2), compiles and returns 2. -/
def liveHistory : List (Option (Nat × Act)) :=
  [some (0, .check), some (0, .lock), some (1, .check), some (1, .lock), some (0, .compile), none,
   some (0, .unlock), some (0, .load), some (1, .lockGone), some (1, .lock), some (1, .compile),
   some (1, .unlock), some (1, .load)]

example : (runEv init2 liveHistory).map (fun s => s.procs.map (·.pc)) = some [.done 1, .done 2] := by decide

/-- equality with the last check is not a theorem: the update lands between check and compile -/
theorem winner_may_return_newer :
    (runEv init2 [some (0, .check), some (0, .lock), none, some (0, .compile), some (0, .unlock), some (0, .load)]).map
      (fun s => s.procs.head?.map fun pr => (pr.lastCheck, pr.pc)) = some (some (1, .done 2)) := by decide

end TsVerif.C19.Upd
