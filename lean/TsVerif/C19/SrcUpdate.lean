/-!
# C19 round 11 — the loading protocol with a SOURCE UPDATE step

The main model (`Model.lean`) keeps the sources constant.  This file is the protocol at the
granularity of its *checks* with a generation counter for the sources:

* `State.src` = generation of the sources now; `srcUpdate` (a global step, enabled always) bumps it —
  a rewrite of the sources that COMPLETES between two steps of the loaders;
* every check (`check` of the fast path, `lockGone` / `steal` = the re-check after a wait) RE-READS the
  generation (`lastCheck := s.src`) and compares the library against it — the unchanged code stats the
  sources at every check (`needs_recompile(lib, paths)`); a loader that keeps a snapshot from its call
  time is NOT this model;
* `compile` is atomic and builds the generation current at that moment (a rewrite *during* one `cc`
  run stays outside the statement).

`Props`-style theorem: `SrcUpdateProps.lean`.  The judge `judgeUpd` is what the driver runs on the
real loader's outcomes of the `kind=upd` histories of the explorer.
-/
namespace TsVerif.C19.Upd

inductive Pc
  | start | needLock | waiting | haveLock | compiled | loading
  | done (v : Nat) | failed | dead
  deriving DecidableEq, Repr, Inhabited

structure Proc where
  pc : Pc
  /-- generation of the sources when the call began (= at its first check) -/
  callGen : Nat
  /-- generation of the sources read by this loader's LAST check -/
  lastCheck : Nat
  deriving DecidableEq, Repr, Inhabited

structure State where
  /-- generation of the sources -/
  src : Nat
  /-- generation the library file was built from (`none`: absent) -/
  lib : Option Nat
  lock : Bool
  procs : List Proc
  deriving DecidableEq, Repr, Inhabited

inductive Act
  | check | lock | lockGone | steal | compile | unlock | load | crash
  deriving DecidableEq, Repr

/-- Where a check sends the loader: the library is up to date iff it was built from the generation
the check has just read. -/
def afterCheck (s : State) : Pc := if s.lib = some s.src then .loading else .needLock

def Pc.finished : Pc → Bool
  | .done _ | .failed | .dead => true
  | _ => false

def step (s : State) (p : Nat) (a : Act) : Option State :=
  match s.procs[p]? with
  | none => none
  | some pr =>
    match pr.pc, a with
    | .start, .check =>
      some { s with procs := s.procs.set p { pc := afterCheck s, callGen := s.src, lastCheck := s.src } }
    | .needLock, .lock =>
      if s.lock then some { s with procs := s.procs.set p { pr with pc := .waiting } }
      else some { s with lock := true, procs := s.procs.set p { pr with pc := .haveLock } }
    | .waiting, .lockGone =>
      if s.lock then none
      else some { s with procs := s.procs.set p { pr with pc := afterCheck s, lastCheck := s.src } }
    | .waiting, .steal =>
      some { s with lock := false, procs := s.procs.set p { pr with pc := afterCheck s, lastCheck := s.src } }
    | .haveLock, .compile =>
      some { s with lib := some s.src, procs := s.procs.set p { pr with pc := .compiled } }
    | .compiled, .unlock =>
      some { s with lock := false, procs := s.procs.set p { pr with pc := .loading } }
    | .loading, .load =>
      match s.lib with
      | some v => some { s with procs := s.procs.set p { pr with pc := .done v } }
      | none => some { s with procs := s.procs.set p { pr with pc := .failed } }
    | _, .crash =>
      if pr.pc.finished then none else some { s with procs := s.procs.set p { pr with pc := .dead } }
    | _, _ => none

/-- The sources are rewritten (completely, between two loader steps). -/
def srcUpdate (s : State) : State := { s with src := s.src + 1 }

inductive Reach : State → State → Prop
  | refl (s) : Reach s s
  | step {s t u} (p : Nat) (a : Act) : Reach s t → step t p a = some u → Reach s u
  | upd {s t} : Reach s t → Reach s (srcUpdate t)

structure Init (s : State) : Prop where
  procs : ∀ pr ∈ s.procs, pr.pc = .start ∧ pr.callGen = 0 ∧ pr.lastCheck = 0
  lib : ∀ v, s.lib = some v → v ≤ s.src

/-- events of a history: a loader's step or the update -/
def runEv (s : State) : List (Option (Nat × Act)) → Option State
  | [] => some s
  | none :: r => runEv (srcUpdate s) r
  | some (p, a) :: r => match step s p a with
    | some s' => runEv s' r
    | none => none

/-! ## judge on the real outcomes of the `upd` histories

Per loader: the result token, the generation the controller had installed when it released that
loader's last `check` point, the generation at its call; `vers` maps generation `g` (1-based) to the
version code the loaded language shows. -/

def genOfVer (vers : List Nat) (v : Nat) : Option Nat := (vers.idxOf? v).map (· + 1)

/-- a success must show a generation `g` with `callGen ≤ lastCheck ≤ g ≤ srcNow` -/
def okGen (vers : List Nat) (srcNow callGen lastCheck v : Nat) : Bool :=
  match genOfVer vers v with
  | some g => callGen ≤ lastCheck && lastCheck ≤ g && g ≤ srcNow
  | none => false

end TsVerif.C19.Upd
