import TsVerif.C19.Lemmas
/-!
# C19 — termination / recovery of the committed protocol (`Variant.recheck`)

In `recheck` a waiter can go back to `start`, so no per-caller step bound exists as for `orig`.
The ranking function below still decreases on **every** step, crashes included, in any
interleaving: a caller's rank depends on whether the lock file exists (a caller at `start`/`needLock`
facing a lock has a whole wait-and-steal cycle ahead of it), and every caller that may still take
the lock carries a credit that pays for the rank increase of the others when it does take it
(each caller takes the lock at most once: afterwards it only moves towards `done`).
-/
namespace TsVerif.C19

/-- May this caller still create the lock file? -/
def pot : Pc → Nat
  | .start => 1
  | .needLock => 1
  | .waiting _ => 1
  | _ => 0

/-- Upper bound on the caller's own remaining steps *as long as nobody else takes the lock*. -/
def rk (c : Cfg) (locked : Bool) : Pc → Nat
  | .start => if locked then c.K + 10 else 7
  | .needLock => if locked then c.K + 9 else 6
  | .haveLock => 5
  | .compiling => 4
  | .wroteTemp => 3
  | .renamed => 2
  | .failed => 1
  | .waiting k => (c.K - k) + 8
  | .loading => 1
  | .done _ => 0
  | .dead => 0

def tri : Nat → Nat
  | 0 => 0
  | a + 1 => tri a + (a + 1)

theorem tri_mono : ∀ {a b : Nat}, a ≤ b → tri a ≤ tri b := by
  intro a b h
  induction h with
  | refl => exact Nat.le_refl _
  | step _ ih => exact Nat.le_trans ih (by simp [tri])

def rkSum (c : Cfg) (locked : Bool) (l : List Proc) : Nat := (l.map fun pr => rk c locked pr.pc).sum
def potSum (l : List Proc) : Nat := (l.map fun pr => pot pr.pc).sum

/-- The ranking function. -/
def mu (c : Cfg) (s : State) : Nat :=
  rkSum c s.lock.isSome s.procs + (c.K + 3) * tri (potSum s.procs)

theorem rk_false_le (c : Cfg) (pc : Pc) : rk c false pc ≤ rk c true pc := by
  cases pc <;> simp [rk] <;> omega

theorem rk_true_le (c : Cfg) (pc : Pc) : rk c true pc ≤ rk c false pc + (c.K + 3) * pot pc := by
  cases pc <;> simp [rk, pot] <;> omega

theorem rkSum_false_le (c : Cfg) (l : List Proc) : rkSum c false l ≤ rkSum c true l := by
  induction l with
  | nil => simp [rkSum]
  | cons x xs ih =>
    have := rk_false_le c x.pc
    simp only [rkSum, List.map_cons, List.sum_cons] at ih ⊢; omega

theorem rkSum_true_le (c : Cfg) (l : List Proc) : rkSum c true l ≤ rkSum c false l + (c.K + 3) * potSum l := by
  induction l with
  | nil => simp [rkSum, potSum]
  | cons x xs ih =>
    have := rk_true_le c x.pc
    simp only [rkSum, potSum, List.map_cons, List.sum_cons, Nat.mul_add] at ih ⊢; omega

theorem rkSum_le_any (c : Cfg) (b : Bool) (l : List Proc) : rkSum c false l ≤ rkSum c b l := by
  cases b
  · exact Nat.le_refl _
  · exact rkSum_false_le c l

theorem rkSum_set {c : Cfg} {b : Bool} {l : List Proc} {p : Nat} {pr : Proc} (pr' : Proc) (hp : l[p]? = some pr) :
    rkSum c b (l.set p pr') + rk c b pr.pc = rkSum c b l + rk c b pr'.pc :=
  sum_map_set (fun (q : Proc) => rk c b q.pc) l p pr pr' hp

theorem potSum_set {l : List Proc} {p : Nat} {pr : Proc} (pr' : Proc) (hp : l[p]? = some pr) :
    potSum (l.set p pr') + pot pr.pc = potSum l + pot pr'.pc :=
  sum_map_set (fun (q : Proc) => pot q.pc) l p pr pr' hp

/-- A step of `p` that leaves the lock alone, does not raise `p`'s potential and lowers its rank. -/
theorem mu_local {c : Cfg} {s : State} {p : Nat} {pr pr' : Proc} {lib' : Option File}
    (hp : s.procs[p]? = some pr) (hr : rk c s.lock.isSome pr'.pc < rk c s.lock.isSome pr.pc)
    (hpot : pot pr'.pc ≤ pot pr.pc) :
    mu c ({ s with lib := lib' }.setProc p pr') < mu c s := by
  unfold mu State.setProc
  simp only
  have h1 := rkSum_set (c := c) (b := s.lock.isSome) pr' hp
  have h2 := potSum_set pr' hp
  have h3 : tri (potSum (s.procs.set p pr')) ≤ tri (potSum s.procs) := tri_mono (by omega)
  have h4 := Nat.mul_le_mul_left (c.K + 3) h3
  omega

/-- Dropping the lock flag lowers everybody's rank; for one distinguished caller we keep track of both. -/
theorem rkSum_mix (c : Cfg) : ∀ (l : List Proc) (p : Nat) (pr : Proc), l[p]? = some pr →
    rkSum c false l + rk c true pr.pc ≤ rkSum c true l + rk c false pr.pc
  | [], p, pr, hp => by simp at hp
  | x :: xs, 0, pr, hp => by
    simp at hp; subst hp
    have := rkSum_false_le c xs
    simp only [rkSum, List.map_cons, List.sum_cons] at this ⊢; omega
  | x :: xs, p + 1, pr, hp => by
    have := rkSum_mix c xs p pr (by simpa using hp)
    have hx := rk_false_le c x.pc
    simp only [rkSum, List.map_cons, List.sum_cons] at this ⊢; omega

/-- A step of `p` that removes the lock file. -/
theorem mu_unlock {c : Cfg} {s : State} {p : Nat} {pr pr' : Proc}
    (hp : s.procs[p]? = some pr) (hr : ∀ b, rk c false pr'.pc < rk c b pr.pc)
    (hpot : pot pr'.pc ≤ pot pr.pc) :
    mu c ({ s with lock := none }.setProc p pr') < mu c s := by
  unfold mu State.setProc
  simp only [Option.isSome_none]
  have h1 := rkSum_set (c := c) (b := false) pr' hp
  have h2 := potSum_set pr' hp
  have h3 : tri (potSum (s.procs.set p pr')) ≤ tri (potSum s.procs) := tri_mono (by omega)
  have h4 := Nat.mul_le_mul_left (c.K + 3) h3
  have hf := hr false
  have ht := hr true
  cases hb : s.lock.isSome
  · omega
  · have hm := rkSum_mix c s.procs p pr hp
    omega

/-- Winning `create_new`: the others' ranks may grow by a cycle each; the winner's credit pays. -/
theorem mu_acquire {c : Cfg} {s : State} {p : Nat} {pr : Proc} (hl : s.lock = none)
    (hp : s.procs[p]? = some pr) (hpc : pr.pc = .needLock) :
    mu c ({ s with lock := some p }.setProc p { pr with pc := .haveLock }) < mu c s := by
  unfold mu State.setProc
  simp only [Option.isSome_some, hl, Option.isSome_none]
  have h1 := rkSum_set (c := c) (b := false) { pr with pc := Pc.haveLock } hp
  have h2 := potSum_set { pr with pc := Pc.haveLock } hp
  have h5 := rkSum_true_le c (s.procs.set p { pr with pc := Pc.haveLock })
  simp only [hpc, rk, pot] at h1 h2
  -- potSum old = potSum new + 1
  have hA : potSum s.procs = potSum (s.procs.set p { pr with pc := Pc.haveLock }) + 1 := by simp at h2; omega
  rw [hA]
  simp only [tri, Nat.mul_add, Nat.mul_one]
  simp at h1
  omega

theorem step_mu {c : Cfg} (hv : c.variant = .recheck) {s s' : State} {p : Nat} {a : Act}
    (h : step c s p a = some s') : mu c s' < mu c s := by
  unfold step at h
  split at h
  · cases h
  · rename_i pr hp
    obtain ⟨pc, temp⟩ := pr
    cases a
    case check =>
      cases pc <;> try (simp at h; done)
      simp only [Option.some.injEq] at h; subst h
      have := mu_local (c := c) (lib' := s.lib) (pr' := { pc := if Fresh s.src s.lib then Pc.loading else Pc.needLock, temp := temp }) hp
        (by by_cases hf : Fresh s.src s.lib <;> cases hb : s.lock.isSome <;> simp [hf, rk] <;> omega)
        (by by_cases hf : Fresh s.src s.lib <;> simp [hf, pot])
      simpa using this
    case tryLock =>
      cases pc <;> try (simp at h; done)
      simp only at h
      split at h
      · rename_i hl
        simp only [Option.some.injEq] at h; subst h
        exact mu_acquire hl hp rfl
      · rename_i o hl
        simp only [Option.some.injEq] at h; subst h
        have := mu_local (c := c) (lib' := s.lib) (pr' := { pc := Pc.waiting 0, temp := temp }) hp
          (by simp [hl, rk]) (by simp [pot])
        simpa using this
    case compileBegin =>
      cases pc <;> try (simp at h; done)
      simp only [Option.some.injEq] at h; subst h
      have := mu_local (c := c) (lib' := s.lib) (pr' := { pc := Pc.compiling, temp := some ⟨s.src, false⟩ }) hp
        (by simp [rk]) (by simp [pot])
      simpa using this
    case compileFinish =>
      cases pc <;> try (simp at h; done)
      simp only [Option.some.injEq] at h; subst h
      have := mu_local (c := c) (lib' := s.lib) (pr' := { pc := Pc.wroteTemp, temp := some ⟨s.src, true⟩ }) hp
        (by simp [rk]) (by simp [pot])
      simpa using this
    case compileFail =>
      cases pc <;> try (simp at h; done)
      simp only at h
      split at h
      · simp only [Option.some.injEq] at h; subst h
        have := mu_local (c := c) (lib' := s.lib) (pr' := { pc := Pc.failed, temp := none }) hp
          (by simp [rk]) (by simp [pot])
        simpa using this
      · cases h
    case rename =>
      cases pc <;> try (simp at h; done)
      simp only at h
      split at h
      · rename_i _ f
        simp only [Option.some.injEq] at h; subst h
        exact mu_local (c := c) (lib' := some f) (pr' := { pc := Pc.renamed, temp := none }) hp
          (by simp [rk]) (by simp [pot])
      · simp only [Option.some.injEq] at h; subst h
        have := mu_local (c := c) (lib' := s.lib) (pr' := { pc := Pc.failed, temp := none }) hp
          (by simp [rk]) (by simp [pot])
        simpa using this
    case unlock =>
      cases pc <;> try (simp at h; done)
      · simp only [Option.some.injEq] at h; subst h
        exact mu_unlock (pr' := { pc := Pc.loading, temp := temp }) hp (by intro b; simp [rk]) (by simp [pot])
      · simp only [Option.some.injEq] at h; subst h
        exact mu_unlock (pr' := { pc := Pc.done (.err .compile), temp := temp }) hp (by intro b; simp [rk]) (by simp [pot])
    case poll =>
      cases pc <;> try (simp at h; done)
      rename_i k
      simp only [hv] at h
      split at h
      · rename_i hl
        simp only [Option.some.injEq] at h; subst h
        have := mu_local (c := c) (lib' := s.lib) (pr' := { pc := Pc.start, temp := temp }) hp
          (by simp [hl, rk]) (by simp [pot])
        simpa using this
      · rename_i o hl
        split at h
        · rename_i hk
          simp only [Option.some.injEq] at h; subst h
          have := mu_local (c := c) (lib' := s.lib) (pr' := { pc := Pc.waiting (k + 1), temp := temp }) hp
            (by simp [rk]; omega) (by simp [pot])
          simpa using this
        · simp only [Option.some.injEq] at h; subst h
          exact mu_unlock (pr' := { pc := Pc.start, temp := temp }) hp (by intro b; simp [rk]) (by simp [pot])
    case load =>
      cases pc <;> try (simp at h; done)
      simp only at h
      split at h
      · simp only [Option.some.injEq] at h; subst h
        have := mu_local (c := c) (lib' := s.lib) (pr' := { pc := Pc.done (.err .missing), temp := temp }) hp
          (by simp [rk]) (by simp [pot])
        simpa using this
      · split at h
        · rename_i f _ _
          simp only [Option.some.injEq] at h; subst h
          have := mu_local (c := c) (lib' := s.lib) (pr' := { pc := Pc.done (.ok f.ver), temp := temp }) hp
            (by simp [rk]) (by simp [pot])
          simpa using this
        · simp only [Option.some.injEq] at h; subst h
          have := mu_local (c := c) (lib' := s.lib) (pr' := { pc := Pc.done (.err .partialLib), temp := temp }) hp
            (by simp [rk]) (by simp [pot])
          simpa using this
    case crash =>
      simp only at h
      split at h
      · cases h
      · rename_i hfin
        simp only [Option.some.injEq] at h; subst h
        have := mu_local (c := c) (lib' := s.lib) (pr' := { pc := Pc.dead, temp := temp }) hp
          (by cases pc <;> simp [rk, Pc.finished] at hfin ⊢ <;> (try split) <;> omega) (by cases pc <;> simp [pot])
        simpa using this


theorem run_mu {c : Cfg} (hv : c.variant = .recheck) : ∀ (sched : List (Nat × Act)) (s t : State),
    run c s sched = some t → sched.length + mu c t ≤ mu c s
  | [], s, t, h => by simp [run] at h; subst h; simp
  | (p, a) :: rest, s, t, h => by
    simp only [run] at h
    split at h
    · cases h
    · rename_i s' hs'
      have h1 := step_mu hv hs'
      have h2 := run_mu hv rest s' t h
      simp only [List.length_cons]; omega

/-- In `recheck` nobody ever gives up with a lock timeout. -/
def NoTimeout (s : State) : Prop := ∀ (p : Nat) (pr : Proc), s.procs[p]? = some pr → pr.pc ≠ .done (.err .timeout)

theorem step_noTimeout {c : Cfg} (hv : c.variant = .recheck) {s s' : State} {p : Nat} {a : Act}
    (hinv : NoTimeout s) (h : step c s p a = some s') : NoTimeout s' := by
  unfold step at h
  split at h
  · cases h
  · rename_i pr hp
    have key : ∀ (s1 : State) (pr' : Proc), s1.procs = s.procs → pr'.pc ≠ .done (.err .timeout) →
        NoTimeout (s1.setProc p pr') := by
      intro s1 pr' hs1 hne q prq hq
      have hp1 : s1.procs[p]? = some pr := by rw [hs1]; exact hp
      rw [getElem?_setProc pr' q hp1] at hq
      by_cases hqp : q = p
      · simp [hqp] at hq; subst hq; exact hne
      · simp [hqp] at hq; rw [hs1] at hq; exact hinv q prq hq
    simp only [hv] at h
    repeat' split at h
    all_goals first
      | (cases h; done)
      | (cases h; apply key _ _ rfl; simp; done)
      | (cases h; apply key _ _ rfl; split <;> simp; done)

theorem reach_noTimeout {c : Cfg} (hv : c.variant = .recheck) {s t : State} (hinv : NoTimeout s)
    (h : Reach c s t) : NoTimeout t := by
  induction h with
  | refl => exact hinv
  | tail p a _ hstep ih => exact step_noTimeout hv ih hstep

/-- Nobody can move any more (crashes aside). -/
def Quiescent (c : Cfg) (s : State) : Prop := ∀ (p : Nat) (a : Act), a ≠ .crash → step c s p a = none

theorem quiescent_finished {c : Cfg} {s : State} (hq : Quiescent c s) (p : Nat) (pr : Proc)
    (hp : s.procs[p]? = some pr) : pr.pc.finished = true := by
  cases hf : pr.pc.finished with
  | true => rfl
  | false =>
    obtain ⟨a, _, hne, hen⟩ := next_enabled c s p pr hp hf
    rw [hq p a hne] at hen; cases hen

end TsVerif.C19
