/-!
# C19 — the grammar-loading protocol as a transition system

Model of `Loader::load_language_at_path_with_name`, `Loader::compile_parser_to_dylib`,
`LockFile::{create, wait_for_removal, drop}` and `needs_recompile`
(crates/loader/src/loader.rs).  One `Proc` per concurrent caller (thread or process); every
`step` is one file-system-atomic action of the real code:

| action          | real code                                                                   |
|-----------------|-----------------------------------------------------------------------------|
| `check`         | `needs_recompile(output_path, sources)`: library missing or older           |
| `tryLock`       | `LockFile::create` = `OpenOptions::create_new(true).open(lock_path)`        |
| `compileBegin`  | `cc … -o <temp_path>` starts writing the pid/thread-tagged temp file        |
| `compileFinish` | `cc` exits 0: the temp file is complete                                     |
| `compileFail`   | `cc` exits ≠ 0: temp removed, `Err(Compilation)` propagates with `?`        |
| `rename`        | `fs::rename(temp, output_path)`                                             |
| `unlock`        | `impl Drop for LockFile`: `fs::remove_file(lock_path)` (by path, no owner check) |
| `poll`          | one iteration of `wait_for_removal`: `path.exists()`, deadline test         |
| `load`          | `Loader::load_language` = `dlopen(output_path)` + `dlsym`                    |
| `crash`         | the process dies (SIGKILL/abort): nothing is cleaned up                     |

A waiter whose poll finds the lock gone goes **straight to `load`** — the real code does not
call `needs_recompile` again (`None => LockFile::wait_for_removal(..)?` falls through to
`Self::load_language`).  A lock owner whose compile fails drops the lock on the error path.
Nobody but the owner removes a lock file; a lock whose owner died stays forever.

Time is abstract: a waiter gives up at its `K`-th poll that still sees the lock
(`K` stands for "30 s of polling").  `Variant.recheck` (the default) is the protocol committed to
/repo in 8957f32 (a waiter re-runs the staleness check when the lock is gone and removes a lock that
outlived the timeout); `Variant.orig` is the protocol before that fix: there a waiter whose poll
finds the lock gone goes straight to `load`, and a timeout is an error.
-/
namespace TsVerif.C19

/-- Contents of a shared-library file: which source version it was built from, and whether the
file is completely written. -/
structure File where
  ver : Nat
  complete : Bool
  deriving DecidableEq, Repr, Hashable, Inhabited

inductive Err
  | timeout      -- LoaderError::LockFileTimeout
  | missing      -- dlopen: no such file
  | compile      -- LoaderError::Compilation
  | partialLib   -- dlopen of a truncated file
  deriving DecidableEq, Repr, Hashable, Inhabited

inductive Res
  | ok (v : Nat)
  | err (e : Err)
  deriving DecidableEq, Repr, Hashable, Inhabited

inductive Pc
  | start
  | needLock            -- `recompile == true`, before `LockFile::create`
  | haveLock            -- won `create_new`
  | compiling           -- temp file partially written
  | wroteTemp           -- `cc` succeeded, before `fs::rename`
  | renamed             -- after rename, lock still held
  | failed              -- compile (or rename) failed; lock still held, about to be dropped
  | waiting (k : Nat)   -- inside `wait_for_removal`, `k` polls saw the lock so far
  | loading             -- about to `dlopen`
  | done (r : Res)
  | dead
  deriving DecidableEq, Repr, Hashable, Inhabited

inductive Act
  | check | tryLock | compileBegin | compileFinish | compileFail | rename | unlock | poll | load | crash
  deriving DecidableEq, Repr, Hashable, Inhabited

inductive Variant
  | orig      -- unchanged tree
  | recheck   -- fixes/C19-recheck-and-steal.diff
  deriving DecidableEq, Repr, Hashable, Inhabited

structure Cfg where
  /-- number of polls after which a waiter gives up -/
  K : Nat
  /-- may `cc` fail and return (sources that do not compile)? -/
  mayFail : Bool
  /-- the protocol in /repo since 8957f32 is `recheck`; `orig` is kept for the refutations -/
  variant : Variant := .recheck
  deriving DecidableEq, Repr, Inhabited

structure Proc where
  pc : Pc
  /-- this caller's temp file `.<name>.so.<pid>.<thread>` -/
  temp : Option File
  deriving DecidableEq, Repr, Hashable, Inhabited

structure State where
  /-- version of the **whole set** of sources on disk — parser.c, scanner.c, listed external files —
  (constant during a run); in the real runs it is encoded as parser version + 10 × scanner version.
  A library is up to date iff it was built from the current version of *every* source
  (`needs_recompile`: the library is missing or older than ANY path in `paths_to_check`). -/
  src : Nat
  /-- the file at the final library path -/
  lib : Option File
  /-- the lock file; the owner is ghost state (the file is empty).  An owner that is not an index
  of `procs` is a lock left behind by an earlier, dead process. -/
  lock : Option Nat
  procs : List Proc
  deriving DecidableEq, Repr, Hashable, Inhabited

/-- `needs_recompile` says "up to date". -/
def Fresh (src : Nat) (lib : Option File) : Prop := ∃ f, lib = some f ∧ f.ver = src

instance (src : Nat) (lib : Option File) : Decidable (Fresh src lib) :=
  match lib with
  | none => isFalse (by rintro ⟨f, h, _⟩; cases h)
  | some f => if h : f.ver = src then isTrue ⟨f, rfl, h⟩ else isFalse (by rintro ⟨g, hg, hv⟩; cases hg; exact h hv)

def State.setProc (s : State) (p : Nat) (pr : Proc) : State := { s with procs := s.procs.set p pr }

def Pc.finished : Pc → Bool
  | .done _ => true
  | .dead => true
  | _ => false

/-- One atomic action `a` of caller `p`.  `none` = the action is not enabled. -/
def step (c : Cfg) (s : State) (p : Nat) (a : Act) : Option State :=
  match s.procs[p]? with
  | none => none
  | some pr =>
    match a, pr.pc with
    | .check, .start =>
      some (s.setProc p { pr with pc := if Fresh s.src s.lib then .loading else .needLock })
    | .tryLock, .needLock =>
      match s.lock with
      | none => some ({ s with lock := some p }.setProc p { pr with pc := .haveLock })
      | some _ => some (s.setProc p { pr with pc := .waiting 0 })
    | .compileBegin, .haveLock =>
      some (s.setProc p { pc := .compiling, temp := some ⟨s.src, false⟩ })
    | .compileFinish, .compiling =>
      some (s.setProc p { pc := .wroteTemp, temp := some ⟨s.src, true⟩ })
    | .compileFail, .compiling =>
      if c.mayFail then some (s.setProc p { pc := .failed, temp := none }) else none
    | .rename, .wroteTemp =>
      match pr.temp with
      | some f => some ({ s with lib := some f }.setProc p { pc := .renamed, temp := none })
      | none => some (s.setProc p { pr with pc := .failed })
    | .unlock, .renamed =>
      some ({ s with lock := none }.setProc p { pr with pc := .loading })
    | .unlock, .failed =>
      some ({ s with lock := none }.setProc p { pr with pc := .done (.err .compile) })
    | .poll, .waiting k =>
      match s.lock with
      | none =>
        match c.variant with
        | .orig => some (s.setProc p { pr with pc := .loading })
        | .recheck => some (s.setProc p { pr with pc := .start })
      | some _ =>
        if k < c.K then some (s.setProc p { pr with pc := .waiting (k + 1) })
        else match c.variant with
          | .orig => some (s.setProc p { pr with pc := .done (.err .timeout) })
          | .recheck => some ({ s with lock := none }.setProc p { pr with pc := .start })
    | .load, .loading =>
      match s.lib with
      | none => some (s.setProc p { pr with pc := .done (.err .missing) })
      | some f =>
        if f.complete then some (s.setProc p { pr with pc := .done (.ok f.ver) })
        else some (s.setProc p { pr with pc := .done (.err .partialLib) })
    | .crash, pc =>
      if pc.finished then none else some (s.setProc p { pr with pc := .dead })
    | _, _ => none

/-- Reachability by any number of steps of any callers in any order. -/
inductive Reach (c : Cfg) : State → State → Prop
  | refl (s : State) : Reach c s s
  | tail {s t u : State} (p : Nat) (a : Act) : Reach c s t → step c t p a = some u → Reach c s u

/-- Run a schedule (list of caller/action pairs); `none` if some action is not enabled. -/
def run (c : Cfg) (s : State) : List (Nat × Act) → Option State
  | [] => some s
  | (p, a) :: rest =>
    match step c s p a with
    | none => none
    | some s' => run c s' rest

/-- An initial state: `n` callers about to call the loader; the cache is in any state in which the
library file, if present, is complete (it was produced by an earlier run of the same protocol);
a leftover lock belongs to nobody alive. -/
structure Init (s : State) : Prop where
  allStart : ∀ (p : Nat) (pr : Proc), s.procs[p]? = some pr → pr.pc = Pc.start
  libComplete : ∀ f, s.lib = some f → f.complete = true
  lockForeign : ∀ q, s.lock = some q → s.procs.length ≤ q

def mkInit (src : Nat) (lib : Option File) (lock : Bool) (n : Nat) (temp : Option File := none) : State :=
  { src, lib, lock := if lock then some n else none, procs := List.replicate n { pc := .start, temp } }

/-- Upper bound on the number of further steps of a caller at `pc` (unchanged tree). -/
def rank (c : Cfg) : Pc → Nat
  | .start => c.K + 7
  | .needLock => c.K + 6
  | .haveLock => 5
  | .compiling => 4
  | .wroteTemp => 3
  | .renamed => 2
  | .failed => 1
  | .waiting k => (c.K - k) + 2
  | .loading => 1
  | .done _ => 0
  | .dead => 0

def measure (c : Cfg) (s : State) : Nat := (s.procs.map (fun pr => rank c pr.pc)).sum

/-- Actions that could be enabled at a pc (used by the schedule enumerator). -/
def actsAt (c : Cfg) : Pc → List Act
  | .start => [.check]
  | .needLock => [.tryLock]
  | .haveLock => [.compileBegin]
  | .compiling => if c.mayFail then [.compileFinish, .compileFail] else [.compileFinish]
  | .wroteTemp => [.rename]
  | .renamed => [.unlock]
  | .failed => [.unlock]
  | .waiting _ => [.poll]
  | .loading => [.load]
  | .done _ => []
  | .dead => []

end TsVerif.C19
