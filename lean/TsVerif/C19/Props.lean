import TsVerif.C19.Lemmas
import TsVerif.C19.Liveness
import TsVerif.C19.Judge
import TsVerif.C19.Timed
/-!
# C19 — Grammar loading is safe under concurrency and after crashes

> When several threads or processes load the same grammar at once, with the compiled library
> absent or older than its sources, every call that returns success yields a complete library
> built from the current sources, and no caller ever observes a partially written file. If a
> process dies at any point while compiling, later loads still succeed within bounded time and
> never load a stale or truncated library.

## Clause map (phrase of the property text → theorems)

Marks: **proved** = kernel-checked statement about the transition system of `Model.lean`, which is tied
to `loader.rs` by hook-controlled schedules (model predicts every announced point, result and file
left) and by free-running races (outcome ∈ model's reachable outcomes); **partial (H)** = proved under
the stated hypothesis H; **judged only** = no theorem, the Lean judge runs on every real outcome;
**assumed** = semantics of the OS / environment that neither the model nor the harness can establish.

| # | phrase | theorems | mark |
|---|---|---|---|
| 1 | "when several threads or processes load the same grammar at once" | every theorem quantifies over `s0.procs` of ANY length and over `Reach` (any caller, any enabled action, any order) or over an arbitrary scheduler `σ : ℕ → caller × action` (`execC`); `mkInit_is_init` for `n` callers | proved for any N; threads and processes are the same `Proc` (the protocol uses only files) — real runs: 1–4 processes × 1–3 threads, n ≤ 6 membership-checked, above judged only |
| 2 | "with the compiled library absent or older than its sources" | `Init` admits library absent / stale / fresh (any `lib` that is complete), leftover lock, leftover temps; the staleness test itself: `needs_recompile_exact`, `check_is_exact_test`, `wellTimed_after_build` (Timed.lean) | proved; partial (`WellTimed`: clock discipline — **assumed**); refuted at coarser resolution: `whole_seconds_misses_same_second` |
| 3 | "every call that returns success yields a complete library built from the current sources" | `safety` (every `done (ok v)` has `v = src`), `no_partial` (the file is complete), together per tick in `c19_full_strength`; judge: `judge_safe_of_model` | proved for `recheck` with or without compile errors and for `orig` without (`Cfg.safe`); **refuted** for `orig` with compile errors: `safety_compile_error` (the defect fixed in 8957f32) |
| 4 | "no caller ever observes a partially written file" | `no_partial`: in every reachable state the file at the library path is complete and nobody ends with `partialLib` | proved; rests on **assumed** atomic `rename(2)` and "`cc` writes only its temp path" |
| 5 | "if a process dies at any point while compiling" | `crash` is enabled at EVERY non-finished program point (not only while compiling); `Reach`/`execC` place crashes anywhere, any number of them | proved (quantified); **assumed**: a dead process takes no further step and cleans nothing up |
| 6 | "later loads still succeed" | `recovery_recheck`, `recovery_recheck_failing`, `c19_full_strength` (second part), `liveness_with_crashes`, `progressC_iff` (fair ⇔ the execution becomes quiescent), `completion_exists`; a later loader = a caller whose first step comes late in `σ` | proved for `recheck`; **refuted** for `orig`: `stale_lock_never_recovers`, `crash_while_holding_is_permanent`, `leftover_lock_is_stuck` |
| 7 | "within bounded time" | `recheck_bounded` (every execution, crashes included, has at most `mu c s` steps), `mu_init` (closed form of the bound for `n` callers), `wait_free`/`bounded_termination` (`orig`: `K + 7` own steps), `no_orphan_lock` | proved; time is abstract in the transition system; the loader's constants are stated in Timed.lean (`lockTimeoutMs`, `defaultK = 33`, `default_timeout_polls`, `defaultLoadBoundMs`) and `solo_recovery_steps` gives the worst case (`K + 10` own steps); the DEFAULT value is measured by the `default` case of every run, the other cases use 0 ms / 1.5 s / 10 min through the hook |
| 8 | "and never load a stale or truncated library" | 3 + 4 hold in every reachable state, after any crashes; `safety`'s `loading → Fresh` | proved |
| 9 | quantifier: "all crash points between those steps, cache states (…leftover lock, leftover temp file), with and without an external scanner" | crash points: 5; cache states: `Init`, `mkInit_is_init`; scanner: `src` is the version of the whole source set, `needsRecompile` ranges over every source | proved (model); real: crash injected at every hook point, all five cache states, scanner on/off × `stalekind` × `gap` |

## Gaps found when re-reading the statements against the text

* All theorems are about the model.  Its steps are the loader's file-system actions at hook-point
  granularity; what is observed and what is assumed per step is tabulated in `notes/C19.md`.
* `safety` needs `Cfg.safe`; every reachable configuration of the committed protocol satisfies it
  (`Or.inr`), examples included.  `Init` is satisfiable (`mkInit_is_init`), `Quiescent` states are
  reachable from every state (`completion_exists`), `ProgressC` is satisfiable and excludes only stalling
  schedulers (`progressC_iff`, added in this pass — before, the fairness hypothesis could have been
  suspected of being unsatisfiable with crashes).
* The sources are constant during a run (`reach_src`): "current sources" = the sources at the check;
  a source rewritten *while* loaders run is outside the statement (boundary convention) of THIS model;
  round 11: `SrcUpdate.lean` / `SrcUpdateProps.lean` (`Upd.safety_with_source_updates`) cover a rewrite that
  completes before a loader's (re-)check.
* "bounded time" is a bound on steps, not seconds.
* `orig` clauses are kept as refutations only; `liveness_ok` for `orig` stays OPEN (moot since the fix).

## Theorem index by clause (older table)

All statements are about the transition system of `Model.lean` (any number of callers, any
interleaving of the atomic steps, a crash possible before every step).

| clause | theorem |
|---|---|
| no caller observes a partially written file | `no_partial` (every cfg, both variants) |
| every success is built from the current sources | `safety` (compiles never fail-and-return, or waiters re-check), `judge_safe_of_model`; **refuted otherwise:** `safety_compile_error` (unchanged tree: a waiter returns the stale library when the winner's compile fails) |
| exactly one caller compiles | `mutual_exclusion` (unchanged tree) |
| after a crash later loads still succeed … | **refuted for the unchanged tree:** `stale_lock_never_recovers`, `crash_while_holding_is_permanent`, `leftover_lock_is_stuck`; witness that the repaired protocol recovers: `recheck_recovers_example` |
| … within bounded time | `bounded_termination` + `wait_free` (unchanged tree: every caller finishes within `K + 7` own steps, whatever the others do); `no_orphan_lock`, `judge_orphan_of_model` (both variants: a caller that returns never leaves its lock behind, so later loads do not have to wait out the timeout unless somebody died) |
| … and never load a stale or truncated library | `safety` + `no_partial` hold in every reachable state, crashes included |
| the whole property in one statement (any N, any scheduler incl. crash placement) | `c19_full_strength`, `liveness_with_crashes` |
| `needs_recompile` = strict `>` on exact mtimes over every source | `needs_recompile_exact`, `check_is_exact_test`, `wellTimed_after_build` (Timed.lean); refuted for whole seconds: `whole_seconds_misses_same_second` |

The recovery clause is **proved for the committed protocol** (`Variant.recheck`, the default since
/repo 8957f32): `recheck_bounded` (every execution, crashes included, has at most `mu c s` steps —
ranking function in Liveness.lean), `recovery_recheck` (in every reachable quiescent state every
caller that did not die holds `ok src`), `completion_exists`, and `liveness_recheck` (every
execution satisfying the fairness predicate `Progress` reaches quiescence).  No hypothesis about the
lock holder's speed is needed: a waiter that gives up removes the lock and proceeds by itself, and
each caller takes the lock at most once.  For the pre-fix protocol (`orig`) the clause is refuted
(`stale_lock_never_recovers`, `crash_while_holding_is_permanent`).
OPEN: `liveness_ok` for `orig` (no timeouts under holder progress) — moot since the fix.

Boundary conventions: "current sources" = the version of the whole source set on disk (parser.c,
scanner.c, external files: one number encodes the tuple; the real runs vary parser.c and scanner.c
independently, with and without an external scanner), constant during a run;
`needs_recompile`'s mtime comparison is abstracted to version inequality in the transition system and
justified for exact timestamps in Timed.lean under the clock discipline `WellTimed`; time is abstract
(a waiter gives up at its `K`-th unsuccessful poll).
-/
namespace TsVerif.C19

/-- `no_partial`: in every reachable state the file at the library path, if any, is complete
(it is only ever assigned by `rename` of a temp file whose compiler run finished), a caller about
to rename holds a complete temp built from the current sources, and no caller ever ends with
"loaded a truncated file". Holds for every configuration (compile failures, both variants). -/
theorem no_partial (c : Cfg) {s0 s : State} (hi : Init s0) (hr : Reach c s0 s) :
    (∀ f, s.lib = some f → f.complete = true) ∧
    (∀ (p : Nat) (pr : Proc), s.procs[p]? = some pr → pr.pc = .wroteTemp → pr.temp = some ⟨s.src, true⟩) ∧
    (∀ (p : Nat) (pr : Proc), s.procs[p]? = some pr → pr.pc ≠ .done (.err .partialLib)) := by
  have hinv := reach_inv (init_inv (c := c) hi) hr
  refine ⟨hinv.libOk, ?_, ?_⟩
  · intro p pr hp hpc
    have := hinv.procs p pr hp
    obtain ⟨pc, temp⟩ := pr
    simp only at hpc; subst hpc
    exact this
  · intro p pr hp hpc
    have := hinv.procs p pr hp
    obtain ⟨pc, temp⟩ := pr
    simp only at hpc; subst hpc
    exact this.1 rfl

/-- `safety`: for any number of callers, any interleaving and any crash points, every caller that
returned success loaded the current version, the library on disk is (still) current, and every
error is a lock timeout (or the compile error when sources may fail to compile) — provided
`c.safe`: compiles either complete or the process dies (`mayFail = false`), or waiters re-check. -/
theorem safety (c : Cfg) (hs : c.safe) {s0 s : State} (hi : Init s0) (hr : Reach c s0 s)
    (p : Nat) (pr : Proc) (hp : s.procs[p]? = some pr) :
    (∀ v, pr.pc = .done (.ok v) → v = s0.src ∧ Fresh s.src s.lib) ∧
    (pr.pc = .loading → Fresh s.src s.lib) ∧
    (∀ e, pr.pc = .done (.err e) → e = .timeout ∨ (e = .compile ∧ c.mayFail = true)) := by
  have hinv := reach_inv (init_inv (c := c) hi) hr
  have hsrc := reach_src hr
  have := hinv.procs p pr hp
  obtain ⟨pc, temp⟩ := pr
  refine ⟨?_, ?_, ?_⟩
  · intro v hpc; simp only at hpc; subst hpc
    have h := this hs
    exact ⟨by rw [← hsrc]; exact h.1, h.2⟩
  · intro hpc; simp only at hpc; subst hpc; exact this hs
  · intro e hpc; simp only at hpc; subst hpc; exact this.2 hs

example : Cfg.safe { K := 3, mayFail := false } := Or.inl rfl
example : Cfg.safe { K := 3, mayFail := true, variant := .recheck } := Or.inr rfl
/-- The five initial cache states (library absent / stale / fresh, leftover lock, leftover temp of
the same name) with any number of callers are initial states. -/
theorem mkInit_is_init (src : Nat) (lib : Option File) (lock : Bool) (n : Nat) (temp : Option File)
    (hl : ∀ f, lib = some f → f.complete = true) : Init (mkInit src lib lock n temp) := by
  refine ⟨?_, hl, ?_⟩
  · intro p pr h
    simp only [mkInit] at h
    rw [List.getElem?_replicate] at h
    split at h
    · cases h; rfl
    · cases h
  · intro q h
    simp only [mkInit] at h
    split at h
    · cases h; simp [mkInit]
    · cases h

example : Init (mkInit 2 (some ⟨1, true⟩) true 3) := mkInit_is_init _ _ _ _ _ (by intro f h; cases h; rfl)

/-- Non-vacuity of `safety`: two callers, stale library; one compiles, the other waits; both end
with the current version. -/
example : (run { K := 3, mayFail := false, variant := .orig } (mkInit 2 (some ⟨1, true⟩) false 2)
    [(0, .check), (1, .check), (0, .tryLock), (1, .tryLock), (0, .compileBegin), (1, .poll), (0, .compileFinish),
     (0, .rename), (0, .unlock), (1, .poll), (1, .load), (0, .load)]).map (fun s => s.procs.map (·.pc))
    = some [.done (.ok 2), .done (.ok 2)] := by decide

theorem all_resSafe_map {src : Nat} {l : List Proc}
    (h : ∀ pr, pr ∈ l → resSafe src (resultOf pr) = true) : (l.map resultOf).all (resSafe src) = true := by
  simp only [List.all_map, List.all_eq_true]
  intro pr hpr
  exact h pr hpr

/-- `judge_safe_of_model`: the judge that is evaluated on real outcomes accepts the outcome of
every reachable model state. -/
theorem judge_safe_of_model (c : Cfg) (hs : c.safe) {s0 s : State} (hi : Init s0) (hr : Reach c s0 s) :
    judgeSafe (outcomeOf c s) = true := by
  have hnp := no_partial c hi hr
  have hsrc := reach_src hr
  unfold judgeSafe outcomeOf
  simp only [Bool.and_eq_true]
  refine ⟨⟨?_, rfl⟩, ?_⟩
  · apply all_resSafe_map
    intro pr hmem
    obtain ⟨p, hp⟩ := List.getElem?_of_mem hmem
    have hsafe := safety c hs hi hr p pr hp
    obtain ⟨pc, temp⟩ := pr
    cases pc <;> try rfl
    rename_i r
    cases r with
    | ok v =>
      have := (hsafe.1 v rfl).1
      simp [resultOf, resSafe, this, hsrc]
    | err e =>
      have h3 := hnp.2.2 p _ hp
      cases e <;> first | rfl | exact absurd rfl h3
  · cases hl : s.lib with
    | none => rfl
    | some f => exact hnp.1 f hl

/-- `safety_compile_error` (unchanged tree): when `cc` can fail and return, the negation of
`safety`. Sources are at version 2 and do not compile, the library is version 1; caller 0 wins the
lock, fails to compile and drops the lock; caller 1, which was waiting, then loads version 1 and
returns success. -/
theorem safety_compile_error :
    let c : Cfg := { K := 3, mayFail := true, variant := .orig }
    let s0 := mkInit 2 (some ⟨1, true⟩) false 2
    ∃ s, run c s0 [(0, .check), (1, .check), (0, .tryLock), (1, .tryLock), (0, .compileBegin),
                   (0, .compileFail), (0, .unlock), (1, .poll), (1, .load)] = some s ∧
      s.procs.map (·.pc) = [.done (.err .compile), .done (.ok 1)] ∧ s.src = 2 ∧
      judgeSafe (outcomeOf c s) = false := by
  decide

/-- `mutual_exclusion` (unchanged tree): at most one caller is between winning `create_new` and
dropping the lock, so at most one compiler writes at any time. -/
theorem mutual_exclusion (c : Cfg) (hv : c.variant = .orig) {s0 s : State} (hi : Init s0) (hr : Reach c s0 s)
    (p q : Nat) (prp prq : Proc) (hp : s.procs[p]? = some prp) (hq : s.procs[q]? = some prq)
    (h1 : prp.pc.holder = true) (h2 : prq.pc.holder = true) : p = q := by
  have hm := reach_minv hv (init_minv hi) hr
  have a := hm p prp hp h1
  have b := hm q prq hq h2
  rw [a] at b
  exact Option.some.inj b

/-- `stale_lock_never_recovers` (unchanged tree): once the lock file exists while nobody is in a
lock-holding pc and the library is not up to date, this stays so forever: no caller — present or
future — ever succeeds; every finished call is a lock timeout. -/
theorem stale_lock_never_recovers (c : Cfg) (hv : c.variant = .orig) {s t : State} (hst : Stuck s)
    (hr : Reach c s t) :
    Stuck t ∧ ∀ (p : Nat) (pr : Proc) (r : Res), t.procs[p]? = some pr → pr.pc = .done r → r = .err .timeout := by
  have ht := reach_stuck hv hst hr
  refine ⟨ht, ?_⟩
  intro p pr r hp hpc
  have := ht.pcs p pr hp
  rw [hpc] at this
  cases r with
  | ok v => simp [Pc.stuckOk] at this
  | err e => cases e <;> first | rfl | simp [Pc.stuckOk] at this

/-- A lock file left behind by an earlier process, with the library absent or stale: stuck. -/
theorem leftover_lock_is_stuck (src : Nat) (lib : Option File) (n : Nat) (h : ¬ Fresh src lib) :
    Stuck (mkInit src lib true n) := by
  refine ⟨⟨n, by simp [mkInit]⟩, h, ?_⟩
  intro p pr hp
  simp only [mkInit] at hp
  rw [List.getElem?_replicate] at hp
  split at hp
  · cases hp; rfl
  · cases hp

/-- `crash_while_holding_is_permanent` (unchanged tree, compiles do not fail): if the lock owner
dies before its rename while the library is not up to date, the resulting state is stuck — by
`stale_lock_never_recovers` every later load fails with a timeout, forever.  This contradicts the
property's "later loads still succeed". -/
theorem crash_while_holding_is_permanent (c : Cfg) (hv : c.variant = .orig) (hm : c.mayFail = false)
    {s0 s s' : State} (hi : Init s0) (hr : Reach c s0 s) (p : Nat) (pr : Proc)
    (hp : s.procs[p]? = some pr) (hpc : pr.pc = .haveLock ∨ pr.pc = .compiling ∨ pr.pc = .wroteTemp)
    (hstale : ¬ Fresh s.src s.lib) (hstep : step c s p .crash = some s') : Stuck s' := by
  have hinv := reach_inv (init_inv (c := c) hi) hr
  have hmi := reach_minv hv (init_minv hi) hr
  have hs : c.safe := Or.inl hm
  have hlock : s.lock = some p := hmi p pr hp (by rcases hpc with h | h | h <;> rw [h] <;> rfl)
  have hs' : s' = s.setProc p { pr with pc := .dead } := by
    unfold step at hstep
    simp only [hp] at hstep
    rcases hpc with h | h | h <;> simp [h, Pc.finished] at hstep <;> exact hstep.symm
  subst hs'
  refine ⟨⟨p, hlock⟩, hstale, ?_⟩
  intro q prq hq
  rw [getElem?_setProc _ q hp] at hq
  by_cases hqp : q = p
  · simp [hqp] at hq; subst hq; rfl
  · simp [hqp] at hq
    have hok := hinv.procs q prq hq
    have hho := hmi q prq hq
    obtain ⟨pc, temp⟩ := prq
    cases pc
    case loading => exact absurd (hok hs) hstale
    case renamed => exact absurd hok hstale
    case done r =>
      cases r with
      | ok v => exact absurd (hok hs).2 hstale
      | err e =>
        rcases hok.2 hs with h | ⟨_, h⟩
        · subst h; rfl
        · rw [hm] at h; cases h
    all_goals first
      | rfl
      | (have := hho rfl; rw [hlock] at this; exact absurd (Option.some.inj this).symm hqp)

/-- Non-vacuity: such a crash is reachable (caller 0 dies while compiling), and afterwards caller 1
and a later caller 2 both time out. -/
example : (run { K := 1, mayFail := false, variant := .orig } (mkInit 2 none false 3)
    [(0, .check), (0, .tryLock), (0, .compileBegin), (0, .crash), (1, .check), (1, .tryLock), (1, .poll), (1, .poll),
     (2, .check), (2, .tryLock), (2, .poll), (2, .poll)]).map (fun s => s.procs.map (·.pc))
    = some [.dead, .done (.err .timeout), .done (.err .timeout)] := by decide

/-- The repaired protocol (`Variant.recheck`) gets out of the same situation: the waiter removes
the lock that outlived its timeout, re-checks, compiles and succeeds. -/
theorem recheck_recovers_example :
    (run { K := 1, mayFail := false, variant := .recheck } (mkInit 2 (some ⟨1, true⟩) true 1)
      [(0, .check), (0, .tryLock), (0, .poll), (0, .poll), (0, .check), (0, .tryLock), (0, .compileBegin),
       (0, .compileFinish), (0, .rename), (0, .unlock), (0, .load)]).map (fun s => (s.procs.map (·.pc), s.lock, s.lib))
    = some ([.done (.ok 2)], none, some ⟨2, true⟩) := by decide

/-- `bounded_termination` (unchanged tree): every step strictly decreases a measure that starts
at `n · (K + 7)`; hence every execution — any interleaving, any crashes — has at most that many
steps, and each caller takes at most `K + 7` of them. -/
theorem bounded_termination (c : Cfg) (hv : c.variant = .orig) (s t : State) (sched : List (Nat × Act))
    (h : run c s sched = some t) : sched.length ≤ measure c s := by
  have := run_length hv sched s t h
  omega

theorem measure_init (c : Cfg) (src : Nat) (lib : Option File) (lock : Bool) (n : Nat) :
    measure c (mkInit src lib lock n) = n * (c.K + 7) := by
  simp only [measure, mkInit, rank, List.map_replicate]
  induction n with
  | zero => simp
  | succ n ih => simp only [List.replicate_succ, List.sum_cons, ih]; rw [Nat.succ_mul]; omega

/-- `wait_free`: a caller that has not finished always has its next protocol action enabled,
whatever state the others are in (waiting is polling, never blocking).  With
`bounded_termination`: every maximal execution ends, within the bound, with all callers finished. -/
theorem wait_free (c : Cfg) (s : State) (p : Nat) (pr : Proc) (hp : s.procs[p]? = some pr)
    (hf : pr.pc.finished = false) : ∃ a, a ∈ actsAt c pr.pc ∧ a ≠ Act.crash ∧ (step c s p a).isSome = true :=
  next_enabled c s p pr hp hf


theorem reach_foreign {c : Cfg} {s t : State} (h : Reach c s t) (q : Nat) (hq : t.lock = some q)
    (hf : s.procs.length ≤ q) : s.lock = some q := by
  induction h with
  | refl => exact hq
  | tail p a hr hstep ih =>
    have hl := reach_len hr
    exact ih (step_foreign hstep q hq (by omega))

/-- `no_orphan_lock` (both variants, any configuration): a lock file that exists in a reachable
state is either the leftover one from the initial cache state, or its recorded owner is a caller
that is still in a lock-holding pc (its next `unlock` removes the file) or that died.  Hence once
every caller has returned, only a leftover lock can remain: a caller that returns never leaves its
lock behind (which would make every later load wait out the timeout). -/
theorem no_orphan_lock (c : Cfg) {s0 s : State} (hi : Init s0) (hr : Reach c s0 s) (q : Nat)
    (hq : s.lock = some q) :
    (s0.lock = some q ∧ s0.procs.length ≤ q) ∨
    (∃ pr, s.procs[q]? = some pr ∧ (pr.pc.holder = true ∨ pr.pc = .dead)) := by
  have hlen := reach_len hr
  rcases Nat.lt_or_ge q s0.procs.length with hlt | hge
  · right
    have hl0 : LInv s0 := by
      intro q' pr hl hp
      have := hi.lockForeign q' hl
      have hlt' : q' < s0.procs.length := by
        rcases Nat.lt_or_ge q' s0.procs.length with h1 | h1
        · exact h1
        · rw [List.getElem?_eq_none h1] at hp; cases hp
      omega
    have hl := reach_linv hl0 hr
    have hqlt : q < s.procs.length := by omega
    exact ⟨s.procs[q], by simp [hqlt], hl q _ hq (by simp [hqlt])⟩
  · left; exact ⟨reach_foreign hr q hq hge, hge⟩

/-- The judge's form of it: the outcome of a reachable state in which nobody died and no lock was
left over initially has no lock file. -/
theorem judge_orphan_of_model (c : Cfg) {s0 s : State} (hi : Init s0) (hr : Reach c s0 s) :
    judgeNoOrphanLock s0.lock.isSome (outcomeOf c s) = true := by
  unfold judgeNoOrphanLock outcomeOf
  simp only
  cases h0 : s0.lock with
  | some q0 => simp
  | none =>
    cases hl : s.lock with
    | none => simp
    | some q =>
      rcases no_orphan_lock c hi hr q hl with ⟨h1, _⟩ | ⟨pr, hp, hpc⟩
      · rw [h0] at h1; cases h1
      · simp only [Option.isSome_none, Option.isSome_some, Bool.not_true, Bool.false_or, List.any_map, List.any_eq_true]
        refine ⟨pr, List.mem_of_getElem? hp, ?_⟩
        obtain ⟨pc, temp⟩ := pr
        rcases hpc with h | h
        · cases pc <;> simp [Pc.holder] at h <;> rfl
        · simp only at h; subst h; rfl


/-! ## Recovery and liveness of the committed protocol (`Variant.recheck`) -/

/-- `recheck_bounded`: in the committed protocol **every** execution — any interleaving, crashes
anywhere, leftover lock or not, failing compiles or not — has at most `mu c s` steps: the ranking
function `mu` (Liveness.lean) decreases on every step. -/
theorem recheck_bounded (c : Cfg) (hv : c.variant = .recheck) (s t : State) (sched : List (Nat × Act))
    (h : run c s sched = some t) : sched.length ≤ mu c s := by
  have := run_mu hv sched s t h
  omega

theorem potSum_replicate (n : Nat) : potSum (List.replicate n ({ pc := .start, temp := none } : Proc)) = n := by
  induction n with
  | zero => simp [potSum]
  | succ n ih =>
    simp only [potSum, List.replicate_succ, List.map_cons, List.sum_cons] at ih ⊢
    rw [ih]; simp [pot]; omega

theorem rkSum_replicate (c : Cfg) (b : Bool) (n : Nat) :
    rkSum c b (List.replicate n ({ pc := .start, temp := none } : Proc)) = n * (if b then c.K + 10 else 7) := by
  induction n with
  | zero => simp [rkSum]
  | succ n ih =>
    simp only [rkSum, List.replicate_succ, List.map_cons, List.sum_cons] at ih ⊢
    rw [ih, Nat.succ_mul]; simp [rk]; omega

/-- The bound for `n` callers starting together: `n·(K+10) + (K+3)·n(n+1)/2` with a leftover lock,
`7n + (K+3)·n(n+1)/2` without. -/
theorem mu_init (c : Cfg) (src : Nat) (lib : Option File) (lock : Bool) (n : Nat) :
    mu c (mkInit src lib lock n) = n * (if lock then c.K + 10 else 7) + (c.K + 3) * tri n := by
  unfold mu mkInit
  simp only
  rw [rkSum_replicate, potSum_replicate]
  cases lock <;> simp

/-- `recovery_recheck` (the property's "later loads still succeed … and never load a stale or
truncated library", for the committed protocol with sources that compile): in every state that
is reachable — through any interleaving, with any number of crashes at any points, from any of the
initial cache states incl. a leftover lock — and in which nobody can move any more, **every caller
that did not die itself has returned `ok` with the current version**; nobody timed out, nobody saw
a missing or partial file. -/
theorem recovery_recheck (c : Cfg) (hv : c.variant = .recheck) (hm : c.mayFail = false) {s0 s : State}
    (hi : Init s0) (hr : Reach c s0 s) (hq : Quiescent c s) (p : Nat) (pr : Proc)
    (hp : s.procs[p]? = some pr) : pr.pc = .dead ∨ pr.pc = .done (.ok s0.src) := by
  have hfin := quiescent_finished hq p pr hp
  have hsafe := safety c (Or.inr hv) hi hr p pr hp
  have hnt : NoTimeout s := reach_noTimeout hv (by
    intro q prq hq' hpc
    have := hi.allStart q prq hq'
    rw [this] at hpc; cases hpc) hr
  obtain ⟨pc, temp⟩ := pr
  cases pc <;> simp [Pc.finished] at hfin
  case dead => exact Or.inl rfl
  case done r =>
    right
    cases r with
    | ok v => rw [(hsafe.1 v rfl).1]
    | err e =>
      rcases hsafe.2.2 e rfl with h | ⟨_, h⟩
      · subst h; exact absurd rfl (hnt p _ hp)
      · rw [hm] at h; cases h

/-- The same with sources that may fail to compile: a live caller ends with the current version
or with the compile error — never with a stale library, a timeout, a missing or a partial file. -/
theorem recovery_recheck_failing (c : Cfg) (hv : c.variant = .recheck) {s0 s : State}
    (hi : Init s0) (hr : Reach c s0 s) (hq : Quiescent c s) (p : Nat) (pr : Proc)
    (hp : s.procs[p]? = some pr) :
    pr.pc = .dead ∨ pr.pc = .done (.ok s0.src) ∨ (pr.pc = .done (.err .compile) ∧ c.mayFail = true) := by
  have hfin := quiescent_finished hq p pr hp
  have hsafe := safety c (Or.inr hv) hi hr p pr hp
  have hnt : NoTimeout s := reach_noTimeout hv (by
    intro q prq hq' hpc
    have := hi.allStart q prq hq'
    rw [this] at hpc; cases hpc) hr
  obtain ⟨pc, temp⟩ := pr
  cases pc <;> simp [Pc.finished] at hfin
  case dead => exact Or.inl rfl
  case done r =>
    right
    cases r with
    | ok v => left; rw [(hsafe.1 v rfl).1]
    | err e =>
      rcases hsafe.2.2 e rfl with h | ⟨h1, h2⟩
      · subst h; exact absurd rfl (hnt p _ hp)
      · right; subst h1; exact ⟨rfl, h2⟩

/-- `completion_exists`: from **any** state the callers can be run to quiescence without further
crashes within `mu c s` steps (nobody ever blocks: `wait_free`) … -/
theorem completion_exists (c : Cfg) (hv : c.variant = .recheck) : ∀ (m : Nat) (s : State), mu c s ≤ m →
    ∃ sched t, (∀ x ∈ sched, x.2 ≠ Act.crash) ∧ run c s sched = some t ∧ Quiescent c t ∧ sched.length ≤ mu c s := by
  intro m
  induction m with
  | zero =>
    intro s hm
    refine ⟨[], s, by simp, rfl, ?_, by simp⟩
    intro p a _
    cases h : step c s p a with
    | none => rfl
    | some s' => have := step_mu hv h; omega
  | succ m ih =>
    intro s hm
    by_cases hq : Quiescent c s
    · exact ⟨[], s, by simp, rfl, hq, by simp⟩
    · have : ∃ p a, a ≠ Act.crash ∧ ∃ s', step c s p a = some s' := by
        apply Classical.byContradiction
        intro hno
        apply hq
        intro p a hne
        cases h : step c s p a with
        | none => rfl
        | some s' => exact absurd ⟨p, a, hne, s', h⟩ hno
      obtain ⟨p, a, hne, s', hs'⟩ := this
      have hlt := step_mu hv hs'
      obtain ⟨sched, t, hnc, hrun, hqt, hlen⟩ := ih s' (by omega)
      refine ⟨(p, a) :: sched, t, ?_, ?_, hqt, ?_⟩
      · intro x hx
        rcases List.mem_cons.mp hx with h | h
        · subst h; exact hne
        · exact hnc x h
      · simp [run, hs', hrun]
      · simp only [List.length_cons]; omega

/-- An infinite execution driven by a scheduler: at tick `i` caller `(σ i).1` is asked to do
`(σ i).2`; if that action is not enabled (or is a crash) nothing happens. -/
def exec (c : Cfg) (s0 : State) (σ : Nat → Nat × Act) : Nat → State
  | 0 => s0
  | i + 1 =>
    let s := exec c s0 σ i
    if (σ i).2 = Act.crash then s else (step c s (σ i).1 (σ i).2).getD s

/-- The fairness hypothesis, as a predicate on schedules: as long as somebody can still move, some
later tick of the schedule does move somebody (the scheduler does not starve *everybody* forever).
No assumption is made about *which* caller moves, and none about the lock holder's speed relative
to the waiters' polls: in `recheck` a waiter that gives up waiting removes the lock and proceeds by itself. -/
def Progress (c : Cfg) (s0 : State) (σ : Nat → Nat × Act) : Prop :=
  ∀ i, ¬ Quiescent c (exec c s0 σ i) → ∃ j, i ≤ j ∧ exec c s0 σ (j + 1) ≠ exec c s0 σ j

theorem exec_mu_step (c : Cfg) (hv : c.variant = .recheck) (s0 : State) (σ : Nat → Nat × Act) (i : Nat) :
    (exec c s0 σ (i + 1) = exec c s0 σ i) ∨ mu c (exec c s0 σ (i + 1)) < mu c (exec c s0 σ i) := by
  simp only [exec]
  split
  · exact Or.inl rfl
  · cases h : step c (exec c s0 σ i) (σ i).1 (σ i).2 with
    | none => exact Or.inl rfl
    | some s' => exact Or.inr (by simpa using step_mu hv h)

theorem exec_mu_mono (c : Cfg) (hv : c.variant = .recheck) (s0 : State) (σ : Nat → Nat × Act) (i : Nat) :
    ∀ d, mu c (exec c s0 σ (i + d)) ≤ mu c (exec c s0 σ i) := by
  intro d
  induction d with
  | zero => exact Nat.le_refl _
  | succ d ih =>
    rcases exec_mu_step c hv s0 σ (i + d) with h | h
    · rw [← Nat.add_assoc, h]; exact ih
    · rw [← Nat.add_assoc]; omega

/-- `liveness_recheck`: every crash-free execution that satisfies `Progress` reaches a quiescent
state within finitely many ticks; by `recovery_recheck` every live caller then holds `ok src`.
(Proof: the ranking function `mu` never increases along the execution and strictly decreases at
every tick that moves somebody.) -/
theorem liveness_recheck (c : Cfg) (hv : c.variant = .recheck) (s0 : State) (σ : Nat → Nat × Act)
    (hfair : Progress c s0 σ) : ∃ T, Quiescent c (exec c s0 σ T) := by
  suffices h : ∀ m i, mu c (exec c s0 σ i) ≤ m → ∃ T, Quiescent c (exec c s0 σ T) from h _ 0 (Nat.le_refl _)
  intro m
  induction m with
  | zero =>
    intro i hm
    refine ⟨i, ?_⟩
    intro p a _
    cases h : step c (exec c s0 σ i) p a with
    | none => rfl
    | some s' => have := step_mu hv h; omega
  | succ m ih =>
    intro i hm
    by_cases hq : Quiescent c (exec c s0 σ i)
    · exact ⟨i, hq⟩
    · obtain ⟨j, hij, hne⟩ := hfair i hq
      have hmono := exec_mu_mono c hv s0 σ i (j - i)
      have hji : i + (j - i) = j := by omega
      rw [hji] at hmono
      rcases exec_mu_step c hv s0 σ j with h | h
      · exact absurd h hne
      · exact ih (j + 1) (by omega)

/-- Non-vacuity of `Progress`/`liveness_recheck`/`recovery_recheck`: a concrete run of two callers
from "stale library + leftover lock" in which caller 0 dies holding the lock; caller 1 still ends
with the current version. -/
example : (run { K := 1, mayFail := false } (mkInit 2 (some ⟨1, true⟩) true 2)
    [(0, .check), (0, .tryLock), (0, .poll), (0, .poll), (0, .check), (0, .tryLock), (0, .compileBegin), (0, .crash),
     (1, .check), (1, .tryLock), (1, .poll), (1, .poll), (1, .check), (1, .tryLock), (1, .compileBegin),
     (1, .compileFinish), (1, .rename), (1, .unlock), (1, .load)]).map (fun s => (s.procs.map (·.pc), s.lock))
    = some ([.dead, .done (.ok 2)], none) := by decide

/-! ## Full strength: every interleaving, crashes at any point, safety and recovery in one statement -/

theorem Reach.trans {c : Cfg} {s t u : State} (h1 : Reach c s t) (h2 : Reach c t u) : Reach c s u := by
  induction h2 with
  | refl => exact h1
  | tail p a _ hs ih => exact Reach.tail p a ih hs

/-- An execution in which crashes happen too: at tick `i` caller `(σ i).1` does `(σ i).2` — a protocol
step or a crash — if that is enabled, otherwise nothing happens.  `σ` is arbitrary: it fixes the
interleaving of any number of callers AND where who dies. -/
def execC (c : Cfg) (s0 : State) (σ : Nat → Nat × Act) : Nat → State
  | 0 => s0
  | i + 1 => (step c (execC c s0 σ i) (σ i).1 (σ i).2).getD (execC c s0 σ i)

theorem execC_reach (c : Cfg) (s0 : State) (σ : Nat → Nat × Act) : ∀ i, Reach c s0 (execC c s0 σ i) := by
  intro i
  induction i with
  | zero => exact Reach.refl _
  | succ i ih =>
    simp only [execC]
    cases h : step c (execC c s0 σ i) (σ i).1 (σ i).2 with
    | none => simpa using ih
    | some s' => simpa using Reach.tail _ _ ih h

/-- Fairness for executions with crashes: as long as some live caller can still take a protocol step,
some later tick changes the state (by a step or by a crash). -/
def ProgressC (c : Cfg) (s0 : State) (σ : Nat → Nat × Act) : Prop :=
  ∀ i, ¬ Quiescent c (execC c s0 σ i) → ∃ j, i ≤ j ∧ execC c s0 σ (j + 1) ≠ execC c s0 σ j

theorem execC_mu_step (c : Cfg) (hv : c.variant = .recheck) (s0 : State) (σ : Nat → Nat × Act) (i : Nat) :
    (execC c s0 σ (i + 1) = execC c s0 σ i) ∨ mu c (execC c s0 σ (i + 1)) < mu c (execC c s0 σ i) := by
  simp only [execC]
  cases h : step c (execC c s0 σ i) (σ i).1 (σ i).2 with
  | none => exact Or.inl rfl
  | some s' => exact Or.inr (by simpa using step_mu hv h)

theorem execC_mu_mono (c : Cfg) (hv : c.variant = .recheck) (s0 : State) (σ : Nat → Nat × Act) (i : Nat) :
    ∀ d, mu c (execC c s0 σ (i + d)) ≤ mu c (execC c s0 σ i) := by
  intro d
  induction d with
  | zero => exact Nat.le_refl _
  | succ d ih =>
    rcases execC_mu_step c hv s0 σ (i + d) with h | h
    · rw [← Nat.add_assoc, h]; exact ih
    · rw [← Nat.add_assoc]; omega

/-- Liveness with crashes anywhere: every fair execution becomes quiescent (the ranking function `mu`
also decreases at a crash). -/
theorem liveness_with_crashes (c : Cfg) (hv : c.variant = .recheck) (s0 : State) (σ : Nat → Nat × Act)
    (hfair : ProgressC c s0 σ) : ∃ T, Quiescent c (execC c s0 σ T) := by
  suffices h : ∀ m i, mu c (execC c s0 σ i) ≤ m → ∃ T, Quiescent c (execC c s0 σ T) from h _ 0 (Nat.le_refl _)
  intro m
  induction m with
  | zero =>
    intro i hm
    refine ⟨i, ?_⟩
    intro p a _
    cases h : step c (execC c s0 σ i) p a with
    | none => rfl
    | some s' => have := step_mu hv h; omega
  | succ m ih =>
    intro i hm
    by_cases hq : Quiescent c (execC c s0 σ i)
    · exact ⟨i, hq⟩
    · obtain ⟨j, hij, hne⟩ := hfair i hq
      have hmono := execC_mu_mono c hv s0 σ i (j - i)
      have hji : i + (j - i) = j := by omega
      rw [hji] at hmono
      rcases execC_mu_step c hv s0 σ j with h | h
      · exact absurd h hne
      · exact ih (j + 1) (by omega)

/-- In a quiescent state nothing at all is enabled, crashes included (everybody has finished). -/
theorem quiescent_stuck {c : Cfg} {s : State} (hq : Quiescent c s) (p : Nat) (a : Act) : step c s p a = none := by
  by_cases ha : a = .crash
  · subst ha
    unfold step
    cases hp : s.procs[p]? with
    | none => rfl
    | some pr =>
      have hf := quiescent_finished hq p pr hp
      cases hpc : pr.pc <;> simp [hpc, Pc.finished] at hf ⊢
  · exact hq p a ha

theorem execC_const_after_quiescent (c : Cfg) (s0 : State) (σ : Nat → Nat × Act) (T : Nat)
    (hq : Quiescent c (execC c s0 σ T)) : ∀ d, execC c s0 σ (T + d) = execC c s0 σ T := by
  intro d
  induction d with
  | zero => rfl
  | succ d ih =>
    rw [← Nat.add_assoc]
    simp only [execC]
    rw [ih, quiescent_stuck hq]
    rfl

/-- The fairness predicate is exactly "the execution does not stall before it is finished": a scheduler
is fair iff its execution becomes quiescent.  So `ProgressC` excludes nothing but schedulers that stop
scheduling enabled steps forever, and it is satisfiable from every state (`completion_exists`). -/
theorem progressC_iff (c : Cfg) (hv : c.variant = .recheck) (s0 : State) (σ : Nat → Nat × Act) :
    ProgressC c s0 σ ↔ ∃ T, Quiescent c (execC c s0 σ T) := by
  constructor
  · exact liveness_with_crashes c hv s0 σ
  · rintro ⟨T, hq⟩ i hni
    apply Classical.byContradiction
    intro hno
    have hconst : ∀ d, execC c s0 σ (i + d) = execC c s0 σ i := by
      intro d
      induction d with
      | zero => rfl
      | succ d ih =>
        have : execC c s0 σ (i + d + 1) = execC c s0 σ (i + d) := by
          apply Classical.byContradiction
          intro hne
          exact hno ⟨i + d, by omega, hne⟩
        rw [← Nat.add_assoc, this, ih]
    rcases Nat.lt_or_ge i T with hlt | hge
    · have := hconst (T - i)
      rw [show i + (T - i) = T by omega] at this
      rw [this] at hq
      exact hni hq
    · have := execC_const_after_quiescent c s0 σ T hq (i - T)
      rw [show T + (i - T) = i by omega] at this
      rw [← this] at hq
      exact hni hq

/-- **C19 at full strength, for the committed protocol** (`recheck`: re-check after waiting, steal a
lock that outlived the timeout).  For any number `N` of callers, any initial cache (library absent /
stale / fresh, leftover lock of a dead process, leftover temp files), any scheduler `σ` — i.e. every
interleaving and every placement of crashes —:

* *safety, at every tick*: the file at the library path is never partially written; a caller that
  is about to `dlopen` sees a library built from the current sources; a caller that has returned
  success loaded the current version; nobody ever returns "partial library";
* *recovery*: if the scheduler is fair, then after finitely many ticks nobody can move any more, and
  then every caller that did not die itself has returned the current version — or the compile error,
  when the sources do not compile.  No timeout, no missing file, no stale version. -/
theorem c19_full_strength (c : Cfg) (hv : c.variant = .recheck) {s0 : State} (hi : Init s0)
    (σ : Nat → Nat × Act) :
    (∀ i, (∀ f, (execC c s0 σ i).lib = some f → f.complete = true) ∧
      ∀ (p : Nat) (pr : Proc), (execC c s0 σ i).procs[p]? = some pr →
        (∀ v, pr.pc = .done (.ok v) → v = s0.src) ∧
        (pr.pc = .loading → Fresh s0.src (execC c s0 σ i).lib) ∧
        pr.pc ≠ .done (.err .partialLib)) ∧
    (ProgressC c s0 σ → ∃ T, Quiescent c (execC c s0 σ T) ∧
      ∀ (p : Nat) (pr : Proc), (execC c s0 σ T).procs[p]? = some pr →
        pr.pc = .dead ∨ pr.pc = .done (.ok s0.src) ∨ (pr.pc = .done (.err .compile) ∧ c.mayFail = true)) := by
  refine ⟨?_, ?_⟩
  · intro i
    have hr := execC_reach c s0 σ i
    have hnp := no_partial c hi hr
    refine ⟨hnp.1, ?_⟩
    intro p pr hp
    have hs := safety c (Or.inr hv) hi hr p pr hp
    refine ⟨fun v hv' => (hs.1 v hv').1, ?_, hnp.2.2 p pr hp⟩
    intro hl
    have := hs.2.1 hl
    rwa [reach_src hr] at this
  · intro hfair
    obtain ⟨T, hq⟩ := liveness_with_crashes c hv s0 σ hfair
    exact ⟨T, hq, fun p pr hp => recovery_recheck_failing c hv hi (execC_reach c s0 σ T) hq p pr hp⟩

/-- Non-vacuity: a scheduler for two callers on "stale library + leftover lock" in which caller 0 dies
while compiling; the execution is quiescent after 19 ticks and caller 1 holds the current version. -/
example :
    let σ : Nat → Nat × Act := fun i =>
      ([(0, .check), (0, .tryLock), (0, .poll), (0, .poll), (0, .check), (0, .tryLock), (0, .compileBegin), (0, .crash),
        (1, .check), (1, .tryLock), (1, .poll), (1, .poll), (1, .check), (1, .tryLock), (1, .compileBegin),
        (1, .compileFinish), (1, .rename), (1, .unlock), (1, .load)] : List (Nat × Act)).getD i (0, .check)
    ((execC { K := 1, mayFail := false } (mkInit 2 (some ⟨1, true⟩) true 2) σ 19).procs.map (·.pc)) = [.dead, .done (.ok 2)] := by
  decide

/-! ## "Within bounded time", made concrete: one later loader against a stale lock -/

/-- The state of a single waiter that has seen the stale lock `j` times. -/
def soloWaiting (src : Nat) (j : Nat) : State :=
  { src, lib := none, lock := some 1, procs := [{ pc := .waiting j, temp := none }] }

theorem run_polls (c : Cfg) (src : Nat) (rest : List (Nat × Act)) : ∀ (d j : Nat), j + d ≤ c.K →
    run c (soloWaiting src j) (List.replicate d (0, Act.poll) ++ rest) = run c (soloWaiting src (j + d)) rest
  | 0, j, _ => by simp
  | d + 1, j, h => by
    have hlt : j < c.K := by omega
    have hstep : step c (soloWaiting src j) 0 .poll = some (soloWaiting src (j + 1)) := by
      simp [step, soloWaiting, State.setProc, hlt]
    rw [List.replicate_succ, List.cons_append]
    simp only [run, hstep]
    rw [run_polls c src rest d (j + 1) (by omega)]
    congr 2
    omega

/-- **A later loader that finds a stale lock and no library** (the worst case for "bounded time": nobody
else is alive to remove the lock) ends with the current version after exactly `K + 10` own steps, for
every `K`: check, lock attempt, `K` polls that see the lock, the poll that gives up and removes it,
re-check, lock, compile, rename, unlock, load.  With the loader's default (`defaultK = 33` polls = at most
30.5 s, Timed.lean) plus the compile time this is the bound the `default` case of the check measures. -/
theorem solo_recovery_steps (c : Cfg) (hv : c.variant = .recheck) (src : Nat) :
    (run c (mkInit src none true 1)
      ([(0, .check), (0, .tryLock)] ++ List.replicate c.K (0, Act.poll) ++
       [(0, .poll), (0, .check), (0, .tryLock), (0, .compileBegin), (0, .compileFinish), (0, .rename), (0, .unlock), (0, .load)])).map
      (fun s => (s.procs.map (·.pc), s.lock, s.lib))
    = some ([.done (.ok src)], none, some ⟨src, true⟩) := by
  have h0 : run c (mkInit src none true 1) [(0, .check), (0, .tryLock)] = some (soloWaiting src 0) := by
    simp [run, step, mkInit, State.setProc, Fresh, soloWaiting]
  have hsplit : ∀ (a b : List (Nat × Act)) (s t : State), run c s a = some t → run c s (a ++ b) = run c t b := by
    intro a
    induction a with
    | nil => intro b s t h; simp [run] at h; subst h; rfl
    | cons x xs ih =>
      intro b s t h
      obtain ⟨p, act⟩ := x
      simp only [run, List.cons_append] at h ⊢
      cases hs : step c s p act with
      | none => rw [hs] at h; cases h
      | some s' => rw [hs] at h; simp only; exact ih b s' t h
  rw [List.append_assoc, hsplit _ _ _ _ h0, run_polls c src _ c.K 0 (by omega)]
  simp [run, step, soloWaiting, State.setProc, hv, Fresh]

example : ([(0, Act.check), (0, Act.tryLock)] ++ List.replicate defaultK (0, Act.poll) ++
    [(0, Act.poll), (0, .check), (0, .tryLock), (0, .compileBegin), (0, .compileFinish), (0, .rename), (0, .unlock), (0, .load)]).length
    = defaultK + 10 := by decide

end TsVerif.C19
