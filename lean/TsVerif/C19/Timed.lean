import TsVerif.C19.Model
/-!
# C19 — the staleness test on exact modification times

`Model.lean` abstracts `needs_recompile` to "the library was built from the current version of every
source" (`Fresh`).  This file justifies the abstraction for the comparison the loader really makes
— `fs::metadata(path)?.modified()? > lib_mtime`, a **strict `>` on exact timestamps**, over *every*
path in `paths_to_check` — and refutes it for a comparison at a coarser resolution (the seeded
change `C19-r4-mtime-whole-seconds`).

Timestamps are natural numbers (nanoseconds).  The file system / clock discipline that the
abstraction needs is stated explicitly as `WellTimed`; it is an ASSUMPTION about the environment
(not hook-observed): a source that was not modified since the library was built is not newer than
the library, and a source that was modified afterwards carries a strictly later timestamp.
-/
namespace TsVerif.C19

structure Src where
  mtime : Nat
  ver : Nat
  deriving DecidableEq, Repr

/-- The library file with the versions of the sources it was compiled from (ghost). -/
structure TLib where
  mtime : Nat
  builtFrom : List Nat
  deriving DecidableEq, Repr

/-- `needs_recompile(lib_path, paths_to_check)` with the comparison `newer src_mtime lib_mtime` as a
parameter: the library is missing, or ANY source is newer. -/
def needsRecompile (newer : Nat → Nat → Bool) (lib : Option TLib) (srcs : List Src) : Bool :=
  match lib with
  | none => true
  | some l => srcs.any fun s => newer s.mtime l.mtime

/-- The loader's comparison: strict, on the exact timestamps. -/
def exactNewer (a b : Nat) : Bool := decide (b < a)

/-- The comparison of the seeded change: whole seconds. -/
def wholeSecondsNewer (a b : Nat) : Bool := decide (b / 1000000000 < a / 1000000000)

/-- The library was built from the current version of every source. -/
def UpToDate (lib : Option TLib) (srcs : List Src) : Prop :=
  ∃ l, lib = some l ∧ l.builtFrom = srcs.map (·.ver)

/-- Two lists related element by element (core Lean has no `Forall₂`). -/
inductive Paired {α β : Type} (R : α → β → Prop) : List α → List β → Prop
  | nil : Paired R [] []
  | cons {a : α} {b : β} {as : List α} {bs : List β} : R a b → Paired R as bs → Paired R (a :: as) (b :: bs)

/-- Clock discipline: per source, unchanged since the build ⇒ not newer than the library;
changed since the build ⇒ strictly newer. -/
def WellTimed (l : TLib) (srcs : List Src) : Prop :=
  Paired (fun (s : Src) (v : Nat) => (s.ver = v → s.mtime ≤ l.mtime) ∧ (s.ver ≠ v → l.mtime < s.mtime))
    srcs l.builtFrom

theorem any_exact_iff {T : Nat} {srcs : List Src} {built : List Nat}
    (h : Paired (fun (s : Src) (v : Nat) => (s.ver = v → s.mtime ≤ T) ∧ (s.ver ≠ v → T < s.mtime)) srcs built) :
    (srcs.any fun s => exactNewer s.mtime T) = false ↔ built = srcs.map (·.ver) := by
  induction h with
  | nil => simp
  | @cons s v srcs built hsv _ ih =>
    simp only [List.any_cons, List.map_cons, Bool.or_eq_false_iff, List.cons.injEq]
    constructor
    · rintro ⟨h1, h2⟩
      refine ⟨?_, ih.mp h2⟩
      by_cases hv : s.ver = v
      · exact hv.symm
      · have := hsv.2 hv
        simp [exactNewer] at h1
        omega
    · rintro ⟨h1, h2⟩
      refine ⟨?_, ih.mpr h2⟩
      have := hsv.1 h1.symm
      simp [exactNewer]
      omega

/-- **The exact strict comparison decides staleness**: under the clock discipline, the loader
rebuilds iff the library is missing or was built from another version of some source. -/
theorem needs_recompile_exact (lib : Option TLib) (srcs : List Src)
    (hw : ∀ l, lib = some l → WellTimed l srcs) :
    needsRecompile exactNewer lib srcs = false ↔ UpToDate lib srcs := by
  cases lib with
  | none => simp [needsRecompile, UpToDate]
  | some l =>
    simp only [needsRecompile, UpToDate]
    rw [any_exact_iff (hw l rfl)]
    constructor
    · intro h; exact ⟨l, rfl, h⟩
    · rintro ⟨l', hl, h⟩; cases hl; exact h

/-- **A comparison in whole seconds is refuted** (the seeded change): a well-timed cache whose
source was rewritten 1 ns after the library, in the same second, is taken for up to date. -/
theorem whole_seconds_misses_same_second :
    ∃ (l : TLib) (srcs : List Src), WellTimed l srcs ∧
      needsRecompile wholeSecondsNewer (some l) srcs = false ∧ ¬ UpToDate (some l) srcs := by
  refine ⟨⟨5000000000, [1]⟩, [⟨5000000001, 2⟩], ?_, by decide, ?_⟩
  · exact Paired.cons ⟨by decide, by decide⟩ Paired.nil
  · rintro ⟨l, hl, h⟩; cases hl; simp at h

/-- The same for the other sub-second distances the real runs use (1 ms, 999 ms), and the exact
comparison does rebuild in each of them. -/
example : needsRecompile wholeSecondsNewer (some ⟨5000000000, [1]⟩) [⟨5999000000, 2⟩] = false := by decide
example : needsRecompile exactNewer (some ⟨5000000000, [1]⟩) [⟨5000000001, 2⟩] = true := by decide
example : needsRecompile exactNewer (some ⟨5000000000, [1, 1]⟩) [⟨4000000000, 1⟩, ⟨5001000000, 2⟩] = true := by decide
/-- A library that is newer than every source by 1 ns is NOT rebuilt. -/
example : needsRecompile exactNewer (some ⟨5000000000, [2, 2]⟩) [⟨4999999999, 2⟩, ⟨4999999999, 2⟩] = false := by decide
/-- A non-strict comparison would rebuild a library written in the same instant as its source. -/
example : needsRecompile (fun a b => decide (b ≤ a)) (some ⟨5, [2]⟩) [⟨5, 2⟩] = true := by decide

/-- `rename` of a library just compiled from the current sources keeps the discipline, provided
the clock did not run backwards (its timestamp is at least every source's). -/
theorem wellTimed_after_build (srcs : List Src) (T : Nat) (hT : ∀ s ∈ srcs, s.mtime ≤ T) :
    WellTimed ⟨T, srcs.map (·.ver)⟩ srcs := by
  unfold WellTimed
  induction srcs with
  | nil => exact Paired.nil
  | cons s rest ih =>
    refine Paired.cons ⟨fun _ => hT s (by simp), fun h => absurd rfl h⟩ (ih ?_)
    intro x hx; exact hT x (by simp [hx])

/-- The abstraction map into `Model.lean`: the tuple of source versions is encoded as one number by
any injective `enc`; then `Fresh` of the abstract state is exactly `UpToDate`. -/
theorem fresh_iff_upToDate (enc : List Nat → Nat) (hinj : ∀ a b, enc a = enc b → a = b)
    (lib : Option TLib) (srcs : List Src) :
    Fresh (enc (srcs.map (·.ver))) (lib.map fun l => ⟨enc l.builtFrom, true⟩) ↔ UpToDate lib srcs := by
  cases lib with
  | none => simp [Fresh, UpToDate]
  | some l =>
    simp only [Fresh, UpToDate, Option.map_some]
    constructor
    · rintro ⟨f, hf, hv⟩; cases hf; exact ⟨l, rfl, hinj _ _ hv⟩
    · rintro ⟨l', hl, h⟩; cases hl; exact ⟨_, rfl, by simp [h]⟩

/-- So the model's `check` step (`if Fresh … then loading else needLock`) is the loader's test. -/
theorem check_is_exact_test (enc : List Nat → Nat) (hinj : ∀ a b, enc a = enc b → a = b)
    (lib : Option TLib) (srcs : List Src) (hw : ∀ l, lib = some l → WellTimed l srcs) :
    needsRecompile exactNewer lib srcs = false ↔
      Fresh (enc (srcs.map (·.ver))) (lib.map fun l => ⟨enc l.builtFrom, true⟩) :=
  (needs_recompile_exact lib srcs hw).trans (fresh_iff_upToDate enc hinj lib srcs).symm

/-! ## The constants behind "within bounded time"

The model's `K` ("a waiter gives up at its `K`-th unsuccessful poll") is abstract.  The loader's actual
numbers — constants of the theorems' interpretation, measured on every run by the `default` case of the
check (a stale lock, library absent, NO timeout override: a working language within `defaultLoadBoundMs`) —: -/

/-- `Duration::from_secs(30)` at the call site of `LockFile::wait_for_removal`. -/
def lockTimeoutMs : Nat := 30000

/-- The `i`-th sleep of `wait_for_removal`: 100 ms, doubling, capped at 1000 ms. -/
def sleepMs (i : Nat) : Nat := min (100 * 2 ^ i) 1000

/-- Time slept before the `n`-th re-examination of the lock. -/
def elapsedAfter (n : Nat) : Nat := ((List.range n).map sleepMs).sum

/-- The `K` of the model that corresponds to the default: the number of polls that still see the lock
before the deadline test `Instant::now() > deadline` can succeed. -/
def defaultK : Nat := 33

/-- After 33 sleeps the deadline has passed, after 32 it has not; the waiter overshoots the 30 s by at
most one maximal sleep. -/
theorem default_timeout_polls :
    lockTimeoutMs < elapsedAfter defaultK ∧ elapsedAfter (defaultK - 1) ≤ lockTimeoutMs ∧
    elapsedAfter defaultK ≤ lockTimeoutMs + 1000 := by decide

/-- What the check allows a later loader that finds a stale lock and no library: the timeout, one
maximal sleep, and 13.5 s for `cc` and `dlopen` (the compile takes about 1 s here). -/
def defaultLoadBoundMs : Nat := 45000

example : elapsedAfter defaultK + 13500 ≤ defaultLoadBoundMs := by decide

/-- The seeded unit mix-up (`Duration::from_secs(30_000)`): the same waiter would sit out more than
eight hours — far beyond any bound the check allows. -/
example : defaultLoadBoundMs * 600 < 30000 * 1000 := by decide

end TsVerif.C19
