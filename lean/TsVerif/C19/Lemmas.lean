import TsVerif.C19.Model
/-!
# C19 — invariants of the loading protocol (helper lemmas for Props.lean)
-/
namespace TsVerif.C19

theorem getElem?_setProc {s : State} {p : Nat} {pr : Proc} (pr' : Proc) (q : Nat)
    (h : s.procs[p]? = some pr) :
    (s.setProc p pr').procs[q]? = if q = p then some pr' else s.procs[q]? := by
  have hp : p < s.procs.length := by
    rcases Nat.lt_or_ge p s.procs.length with h1 | h1
    · exact h1
    · rw [List.getElem?_eq_none h1] at h; cases h
  unfold State.setProc
  simp only [List.getElem?_set]
  by_cases hq : q = p
  · subst hq; simp [hp]
  · have : ¬ p = q := fun e => hq e.symm
    simp [hq, this]

@[simp] theorem setProc_src (s : State) (p : Nat) (pr : Proc) : (s.setProc p pr).src = s.src := rfl
@[simp] theorem setProc_lib (s : State) (p : Nat) (pr : Proc) : (s.setProc p pr).lib = s.lib := rfl
@[simp] theorem setProc_lock (s : State) (p : Nat) (pr : Proc) : (s.setProc p pr).lock = s.lock := rfl
@[simp] theorem setProc_len (s : State) (p : Nat) (pr : Proc) :
    (s.setProc p pr).procs.length = s.procs.length := by simp [State.setProc]

/-- The protocol is safe when compiles cannot fail-and-return, or when waiters re-check. -/
def Cfg.safe (c : Cfg) : Prop := c.mayFail = false ∨ c.variant = .recheck

/-- What must hold of one caller, given the shared files. -/
def procOk (c : Cfg) (src : Nat) (lib : Option File) (lock : Option Nat) (pr : Proc) : Prop :=
  match pr.pc with
  | .wroteTemp => pr.temp = some ⟨src, true⟩
  | .renamed => Fresh src lib
  | .loading => Fresh src lib
  | .done (.ok v) => v = src
  | .done (.err e) => e = .timeout ∨ e = .compile
  | .waiting _ => c.variant = .orig → lock = none → Fresh src lib
  | .failed => c.mayFail = true
  | _ => True

structure Inv (c : Cfg) (s : State) : Prop where
  libOk : ∀ f, s.lib = some f → f.complete = true
  procs : ∀ (q : Nat) (pr : Proc), s.procs[q]? = some pr → procOk c s.src s.lib s.lock pr

theorem procOk_mono {c : Cfg} {src : Nat} {lib lib' : Option File} {lock lock' : Option Nat} {pr : Proc}
    (hf : Fresh src lib → Fresh src lib')
    (hl : c.variant = .orig → lock' = none → lock = none ∨ Fresh src lib')
    (h : procOk c src lib lock pr) : procOk c src lib' lock' pr := by
  obtain ⟨pc, temp⟩ := pr
  cases pc with
  | waiting k =>
    intro hv hn
    rcases hl hv hn with h1 | h1
    · exact hf (h hv h1)
    · exact h1
  | renamed => exact hf h
  | loading => exact hf h
  | done r => cases r <;> exact h
  | _ => exact h

/-- Updating caller `p` and the shared files preserves the invariant when the new caller state is
fine, freshness is kept, the library stays complete, and the lock only disappears when the
library is fresh (unchanged-tree variant). -/
theorem inv_update {c : Cfg} {s : State} {p : Nat} {pr pr' : Proc} {lib' : Option File} {lock' : Option Nat}
    (hinv : Inv c s) (hp : s.procs[p]? = some pr)
    (hlib : ∀ f, lib' = some f → f.complete = true)
    (hf : Fresh s.src s.lib → Fresh s.src lib')
    (hl : c.variant = .orig → lock' = none → s.lock = none ∨ Fresh s.src lib')
    (hnew : procOk c s.src lib' lock' pr') :
    Inv c ({ s with lib := lib', lock := lock' }.setProc p pr') := by
  have hp' : ({ s with lib := lib', lock := lock' } : State).procs[p]? = some pr := hp
  refine ⟨by simpa using hlib, ?_⟩
  intro q prq hq
  rw [getElem?_setProc pr' q hp'] at hq
  simp only [setProc_src, setProc_lib, setProc_lock]
  by_cases hqp : q = p
  · simp [hqp] at hq; subst hq; exact hnew
  · simp [hqp] at hq
    exact procOk_mono hf hl (hinv.procs q prq hq)

theorem inv_update_local {c : Cfg} {s : State} {p : Nat} {pr pr' : Proc}
    (hinv : Inv c s) (hp : s.procs[p]? = some pr)
    (hnew : procOk c s.src s.lib s.lock pr') : Inv c (s.setProc p pr') := by
  have := inv_update (c := c) (s := s) (p := p) (pr := pr) (pr' := pr') (lib' := s.lib) (lock' := s.lock)
    hinv hp hinv.libOk id (fun _ h => Or.inl h) hnew
  simpa using this

theorem step_src {c : Cfg} {s s' : State} {p : Nat} {a : Act} (h : step c s p a = some s') : s'.src = s.src := by
  unfold step at h
  repeat' split at h
  all_goals (cases h <;> rfl)

end TsVerif.C19
