import TsVerif.C19.Model
/-!
# C19 — invariants of the loading protocol (helper lemmas for Props.lean)
-/
namespace TsVerif.C19

theorem getElem?_setProc {s : State} {p : Nat} {pr : Proc} (pr' : Proc) (q : Nat)
    (h : s.procs[p]? = some pr) :
    (s.setProc p pr').procs[q]? = if q = p then some pr' else s.procs[q]? := by
  have hp : p < s.procs.length := by
    rcases Nat.lt_or_ge p s.procs.length with h1 | h1
    · exact h1
    · rw [List.getElem?_eq_none h1] at h; cases h
  unfold State.setProc
  simp only [List.getElem?_set]
  by_cases hq : q = p
  · subst hq; simp [hp]
  · have : ¬ p = q := fun e => hq e.symm
    simp [hq, this]

@[simp] theorem setProc_src (s : State) (p : Nat) (pr : Proc) : (s.setProc p pr).src = s.src := rfl
@[simp] theorem setProc_lib (s : State) (p : Nat) (pr : Proc) : (s.setProc p pr).lib = s.lib := rfl
@[simp] theorem setProc_lock (s : State) (p : Nat) (pr : Proc) : (s.setProc p pr).lock = s.lock := rfl
@[simp] theorem setProc_len (s : State) (p : Nat) (pr : Proc) :
    (s.setProc p pr).procs.length = s.procs.length := by simp [State.setProc]

/-- The protocol is safe when compiles cannot fail-and-return, or when waiters re-check. -/
def Cfg.safe (c : Cfg) : Prop := c.mayFail = false ∨ c.variant = .recheck

/-- What must hold of one caller, given the shared files. -/
def procOk (c : Cfg) (src : Nat) (lib : Option File) (lock : Option Nat) (pr : Proc) : Prop :=
  match pr.pc with
  | .wroteTemp => pr.temp = some ⟨src, true⟩
  | .renamed => Fresh src lib
  | .loading => c.safe → Fresh src lib
  | .done (.ok v) => c.safe → v = src ∧ Fresh src lib
  | .done (.err e) => e ≠ .partialLib ∧ (c.safe → e = .timeout ∨ (e = .compile ∧ c.mayFail = true))
  | .waiting _ => c.safe → c.variant = .orig → lock = none → Fresh src lib
  | .failed => c.mayFail = true
  | _ => True

structure Inv (c : Cfg) (s : State) : Prop where
  libOk : ∀ f, s.lib = some f → f.complete = true
  procs : ∀ (q : Nat) (pr : Proc), s.procs[q]? = some pr → procOk c s.src s.lib s.lock pr

theorem procOk_mono {c : Cfg} {src : Nat} {lib lib' : Option File} {lock lock' : Option Nat} {pr : Proc}
    (hf : Fresh src lib → Fresh src lib')
    (hl : c.safe → c.variant = .orig → lock' = none → lock = none ∨ Fresh src lib')
    (h : procOk c src lib lock pr) : procOk c src lib' lock' pr := by
  obtain ⟨pc, temp⟩ := pr
  cases pc with
  | waiting k =>
    intro hs hv hn
    rcases hl hs hv hn with h1 | h1
    · exact hf (h hs hv h1)
    · exact h1
  | renamed => exact hf h
  | loading => exact fun hs => hf (h hs)
  | done r =>
    cases r with
    | ok v => exact fun hs => ⟨(h hs).1, hf (h hs).2⟩
    | err e => exact h
  | _ => exact h

/-- Updating caller `p` and the shared files preserves the invariant when the new caller state is
fine, freshness is kept, the library stays complete, and the lock only disappears when the
library is fresh (unchanged-tree variant). -/
theorem inv_update {c : Cfg} {s : State} {p : Nat} {pr pr' : Proc} {lib' : Option File} {lock' : Option Nat}
    (hinv : Inv c s) (hp : s.procs[p]? = some pr)
    (hlib : ∀ f, lib' = some f → f.complete = true)
    (hf : Fresh s.src s.lib → Fresh s.src lib')
    (hl : c.safe → c.variant = .orig → lock' = none → s.lock = none ∨ Fresh s.src lib')
    (hnew : procOk c s.src lib' lock' pr') :
    Inv c ({ s with lib := lib', lock := lock' }.setProc p pr') := by
  have hp' : ({ s with lib := lib', lock := lock' } : State).procs[p]? = some pr := hp
  refine ⟨by simpa using hlib, ?_⟩
  intro q prq hq
  rw [getElem?_setProc pr' q hp'] at hq
  simp only [setProc_src, setProc_lib, setProc_lock]
  by_cases hqp : q = p
  · simp [hqp] at hq; subst hq; exact hnew
  · simp [hqp] at hq
    exact procOk_mono hf hl (hinv.procs q prq hq)

theorem inv_update_local {c : Cfg} {s : State} {p : Nat} {pr pr' : Proc}
    (hinv : Inv c s) (hp : s.procs[p]? = some pr)
    (hnew : procOk c s.src s.lib s.lock pr') : Inv c (s.setProc p pr') := by
  have := inv_update (c := c) (s := s) (p := p) (pr := pr) (pr' := pr') (lib' := s.lib) (lock' := s.lock)
    hinv hp hinv.libOk id (fun _ _ h => Or.inl h) hnew
  simpa using this

theorem step_src {c : Cfg} {s s' : State} {p : Nat} {a : Act} (h : step c s p a = some s') : s'.src = s.src := by
  unfold step at h
  repeat' split at h
  all_goals (cases h <;> rfl)


theorem step_inv {c : Cfg} {s s' : State} {p : Nat} {a : Act}
    (hinv : Inv c s) (h : step c s p a = some s') : Inv c s' := by
  unfold step at h
  split at h
  · cases h
  · rename_i pr hp
    have hok := hinv.procs p pr hp
    obtain ⟨pc, temp⟩ := pr
    cases a
    case check =>
      cases pc <;> try (simp at h; done)
      simp only [Option.some.injEq] at h; subst h
      apply inv_update_local hinv hp
      by_cases hfr : Fresh s.src s.lib
      · simp only [hfr, if_true]; exact fun _ => hfr
      · simp only [hfr, if_false]; trivial
    case tryLock =>
      cases pc <;> try (simp at h; done)
      simp only at h
      split at h
      · simp only [Option.some.injEq] at h; subst h
        exact inv_update (lib' := s.lib) (lock' := some p) hinv hp hinv.libOk id (by simp) trivial
      · rename_i o hl
        simp only [Option.some.injEq] at h; subst h
        apply inv_update_local hinv hp
        intro _ _ hn; rw [hl] at hn; cases hn
    case compileBegin =>
      cases pc <;> try (simp at h; done)
      simp only [Option.some.injEq] at h; subst h
      exact inv_update_local hinv hp trivial
    case compileFinish =>
      cases pc <;> try (simp at h; done)
      simp only [Option.some.injEq] at h; subst h
      exact inv_update_local hinv hp rfl
    case compileFail =>
      cases pc <;> try (simp at h; done)
      simp only at h
      split at h
      · rename_i hm
        simp only [Option.some.injEq] at h; subst h
        exact inv_update_local hinv hp hm
      · cases h
    case rename =>
      cases pc <;> try (simp at h; done)
      simp only at h
      have ht : temp = some ⟨s.src, true⟩ := hok
      subst ht
      simp only [Option.some.injEq] at h; subst h
      have hfr : Fresh s.src (some ⟨s.src, true⟩) := ⟨_, rfl, rfl⟩
      exact inv_update (lib' := some ⟨s.src, true⟩) (lock' := s.lock) hinv hp
        (by intro f hf; cases hf; rfl) (fun _ => hfr) (fun _ _ h => Or.inl h) hfr
    case unlock =>
      cases pc <;> try (simp at h; done)
      · simp only [Option.some.injEq] at h; subst h
        have hfr : Fresh s.src s.lib := hok
        exact inv_update (lib' := s.lib) (lock' := none) hinv hp hinv.libOk id (fun _ _ _ => Or.inr hfr)
          (fun _ => hfr)
      · simp only [Option.some.injEq] at h; subst h
        have hm : c.mayFail = true := hok
        have hv : c.safe → c.variant = .recheck := by
          intro hs
          rcases hs with h1 | h1
          · rw [h1] at hm; cases hm
          · exact h1
        exact inv_update (lib' := s.lib) (lock' := none) hinv hp hinv.libOk id
          (fun hs ho => by rw [hv hs] at ho; cases ho) ⟨by simp, fun _ => Or.inr ⟨rfl, hm⟩⟩
    case poll =>
      cases pc <;> try (simp at h; done)
      rename_i k
      simp only at h
      split at h
      · rename_i hl
        split at h
        · rename_i hv
          simp only [Option.some.injEq] at h; subst h
          apply inv_update_local hinv hp
          exact fun hs => hok hs hv hl
        · simp only [Option.some.injEq] at h; subst h
          exact inv_update_local hinv hp trivial
      · rename_i o hl
        split at h
        · simp only [Option.some.injEq] at h; subst h
          apply inv_update_local hinv hp
          intro _ _ hn; rw [hl] at hn; cases hn
        · split at h
          · simp only [Option.some.injEq] at h; subst h
            exact inv_update_local hinv hp ⟨by simp, fun _ => Or.inl rfl⟩
          · rename_i hv
            simp only [Option.some.injEq] at h; subst h
            exact inv_update (lib' := s.lib) (lock' := none) hinv hp hinv.libOk id
              (fun _ ho => by rw [hv] at ho; cases ho) trivial
    case load =>
      cases pc <;> try (simp at h; done)
      have hfr : c.safe → Fresh s.src s.lib := hok
      simp only at h
      split at h
      · rename_i hn
        simp only [Option.some.injEq] at h; subst h
        apply inv_update_local hinv hp
        refine ⟨by simp, ?_⟩
        intro hs
        obtain ⟨g, hg, _⟩ := hfr hs
        rw [hg] at hn; cases hn
      · rename_i f hf
        have hc := hinv.libOk f hf
        simp only [hc, if_true, Option.some.injEq] at h; subst h
        apply inv_update_local hinv hp
        intro hs
        obtain ⟨g, hg, hgv⟩ := hfr hs
        have hfg : g = f := by rw [hg] at hf; exact Option.some.inj hf
        rw [hfg] at hgv hg
        exact ⟨hgv, f, hg, hgv⟩
    case crash =>
      simp only at h
      split at h
      · cases h
      · simp only [Option.some.injEq] at h; subst h
        exact inv_update_local hinv hp trivial

theorem reach_inv {c : Cfg} {s t : State} (hinv : Inv c s) (h : Reach c s t) : Inv c t := by
  induction h with
  | refl => exact hinv
  | tail p a _ hstep ih => exact step_inv ih hstep

theorem reach_src {c : Cfg} {s t : State} (h : Reach c s t) : t.src = s.src := by
  induction h with
  | refl => rfl
  | tail p a _ hstep ih => rw [step_src hstep, ih]

theorem init_inv {c : Cfg} {s : State} (hi : Init s) : Inv c s := by
  refine ⟨hi.libComplete, ?_⟩
  intro q pr hq
  have := hi.allStart q pr hq
  obtain ⟨pc, temp⟩ := pr
  simp only at this; subst this
  trivial


/-! ## Mutual exclusion (unchanged-tree variant) -/

def Pc.holder : Pc → Bool
  | .haveLock | .compiling | .wroteTemp | .renamed | .failed => true
  | _ => false

/-- Every caller in a lock-holding pc is the owner recorded in the lock. -/
def MInv (s : State) : Prop :=
  ∀ (q : Nat) (pr : Proc), s.procs[q]? = some pr → pr.pc.holder = true → s.lock = some q

theorem minv_update {s : State} {p : Nat} {pr pr' : Proc} {lib' : Option File} {lock' : Option Nat}
    (hinv : MInv s) (hp : s.procs[p]? = some pr)
    (hnew : pr'.pc.holder = true → lock' = some p)
    (hl : ∀ q, q ≠ p → s.lock = some q → lock' = some q) :
    MInv ({ s with lib := lib', lock := lock' }.setProc p pr') := by
  have hp' : ({ s with lib := lib', lock := lock' } : State).procs[p]? = some pr := hp
  intro q prq hq hh
  rw [getElem?_setProc pr' q hp'] at hq
  simp only [setProc_lock]
  by_cases hqp : q = p
  · simp [hqp] at hq; subst hq; subst hqp; exact hnew hh
  · simp [hqp] at hq
    exact hl q hqp (hinv q prq hq hh)

theorem minv_update_local {s : State} {p : Nat} {pr pr' : Proc}
    (hinv : MInv s) (hp : s.procs[p]? = some pr)
    (hnew : pr'.pc.holder = true → s.lock = some p) : MInv (s.setProc p pr') := by
  have := minv_update (lib' := s.lib) (lock' := s.lock) hinv hp hnew (fun _ _ h => h)
  simpa using this

theorem step_minv {c : Cfg} (hv : c.variant = .orig) {s s' : State} {p : Nat} {a : Act}
    (hinv : MInv s) (h : step c s p a = some s') : MInv s' := by
  unfold step at h
  split at h
  · cases h
  · rename_i pr hp
    have hown := hinv p pr hp
    obtain ⟨pc, temp⟩ := pr
    cases a
    case check =>
      cases pc <;> try (simp at h; done)
      simp only [Option.some.injEq] at h; subst h
      apply minv_update_local hinv hp
      by_cases hfr : Fresh s.src s.lib <;> simp [hfr, Pc.holder]
    case tryLock =>
      cases pc <;> try (simp at h; done)
      simp only at h
      split at h
      · rename_i hl
        simp only [Option.some.injEq] at h; subst h
        exact minv_update (lib' := s.lib) (lock' := some p) hinv hp (fun _ => rfl)
          (fun q _ hq => by rw [hl] at hq; cases hq)
      · simp only [Option.some.injEq] at h; subst h
        exact minv_update_local hinv hp (by simp [Pc.holder])
    case compileBegin =>
      cases pc <;> try (simp at h; done)
      simp only [Option.some.injEq] at h; subst h
      exact minv_update_local hinv hp (fun _ => hown rfl)
    case compileFinish =>
      cases pc <;> try (simp at h; done)
      simp only [Option.some.injEq] at h; subst h
      exact minv_update_local hinv hp (fun _ => hown rfl)
    case compileFail =>
      cases pc <;> try (simp at h; done)
      simp only at h
      split at h
      · simp only [Option.some.injEq] at h; subst h
        exact minv_update_local hinv hp (fun _ => hown rfl)
      · cases h
    case rename =>
      cases pc <;> try (simp at h; done)
      simp only at h
      split at h
      · rename_i _ f
        simp only [Option.some.injEq] at h; subst h
        exact minv_update (lib' := some f) (lock' := s.lock) hinv hp (fun _ => hown rfl) (fun _ _ h => h)
      · simp only [Option.some.injEq] at h; subst h
        exact minv_update_local hinv hp (fun _ => hown rfl)
    case unlock =>
      have hrel : ∀ q, q ≠ p → s.lock = some q → (none : Option Nat) = some q := by
        intro q hq hl
        have : pc.holder = true → s.lock = some p := hown
        cases pc <;> try (simp at h; done)
        all_goals (rw [this rfl] at hl; cases hl; exact absurd rfl hq)
      cases pc <;> try (simp at h; done)
      · simp only [Option.some.injEq] at h; subst h
        exact minv_update (lib' := s.lib) (lock' := none) hinv hp (by simp [Pc.holder]) hrel
      · simp only [Option.some.injEq] at h; subst h
        exact minv_update (lib' := s.lib) (lock' := none) hinv hp (by simp [Pc.holder]) hrel
    case poll =>
      cases pc <;> try (simp at h; done)
      simp only [hv] at h
      split at h
      · simp only [Option.some.injEq] at h; subst h
        exact minv_update_local hinv hp (by simp [Pc.holder])
      · split at h
        · simp only [Option.some.injEq] at h; subst h
          exact minv_update_local hinv hp (by simp [Pc.holder])
        · simp only [Option.some.injEq] at h; subst h
          exact minv_update_local hinv hp (by simp [Pc.holder])
    case load =>
      cases pc <;> try (simp at h; done)
      simp only at h
      split at h
      · simp only [Option.some.injEq] at h; subst h
        exact minv_update_local hinv hp (by simp [Pc.holder])
      · split at h
        · simp only [Option.some.injEq] at h; subst h
          exact minv_update_local hinv hp (by simp [Pc.holder])
        · simp only [Option.some.injEq] at h; subst h
          exact minv_update_local hinv hp (by simp [Pc.holder])
    case crash =>
      simp only at h
      split at h
      · cases h
      · simp only [Option.some.injEq] at h; subst h
        exact minv_update_local hinv hp (by simp [Pc.holder])

theorem reach_minv {c : Cfg} (hv : c.variant = .orig) {s t : State} (hinv : MInv s) (h : Reach c s t) : MInv t := by
  induction h with
  | refl => exact hinv
  | tail p a _ hstep ih => exact step_minv hv ih hstep

theorem init_minv {s : State} (hi : Init s) : MInv s := by
  intro q pr hq hh
  have := hi.allStart q pr hq
  rw [this] at hh; cases hh


/-! ## A lock whose owner is gone (unchanged-tree variant) -/

def Pc.stuckOk : Pc → Bool
  | .start | .needLock | .waiting _ | .dead => true
  | .done (.err .timeout) => true
  | _ => false

/-- The lock exists, the library is not up to date, and nobody is in a lock-holding or loading pc. -/
structure Stuck (s : State) : Prop where
  locked : ∃ q, s.lock = some q
  stale : ¬ Fresh s.src s.lib
  pcs : ∀ (p : Nat) (pr : Proc), s.procs[p]? = some pr → pr.pc.stuckOk = true

theorem stuck_update_local {s : State} {p : Nat} {pr pr' : Proc}
    (hst : Stuck s) (hp : s.procs[p]? = some pr) (hnew : pr'.pc.stuckOk = true) : Stuck (s.setProc p pr') := by
  refine ⟨hst.locked, hst.stale, ?_⟩
  intro q prq hq
  rw [getElem?_setProc pr' q hp] at hq
  by_cases hqp : q = p
  · simp [hqp] at hq; subst hq; exact hnew
  · simp [hqp] at hq; exact hst.pcs q prq hq

theorem step_stuck {c : Cfg} (hv : c.variant = .orig) {s s' : State} {p : Nat} {a : Act}
    (hst : Stuck s) (h : step c s p a = some s') : Stuck s' := by
  obtain ⟨o, hlock⟩ := hst.locked
  unfold step at h
  split at h
  · cases h
  · rename_i pr hp
    have hpc := hst.pcs p pr hp
    obtain ⟨pc, temp⟩ := pr
    cases a
    case check =>
      cases pc <;> try (simp at h; done)
      simp only [hst.stale, if_false, Option.some.injEq] at h; subst h
      exact stuck_update_local hst hp rfl
    case tryLock =>
      cases pc <;> try (simp at h; done)
      simp only [hlock, Option.some.injEq] at h; subst h
      exact stuck_update_local hst hp rfl
    case poll =>
      cases pc <;> try (simp at h; done)
      simp only [hlock, hv] at h
      split at h
      · simp only [Option.some.injEq] at h; subst h
        exact stuck_update_local hst hp rfl
      · simp only [Option.some.injEq] at h; subst h
        exact stuck_update_local hst hp rfl
    case crash =>
      simp only at h
      split at h
      · cases h
      · simp only [Option.some.injEq] at h; subst h
        exact stuck_update_local hst hp rfl
    all_goals (cases pc <;> first | (simp at h; done) | (simp [Pc.stuckOk] at hpc; done))

theorem reach_stuck {c : Cfg} (hv : c.variant = .orig) {s t : State} (hst : Stuck s) (h : Reach c s t) : Stuck t := by
  induction h with
  | refl => exact hst
  | tail p a _ hstep ih => exact step_stuck hv ih hstep

/-! ## Termination measure (unchanged-tree variant) -/

theorem sum_map_set {α : Type} (f : α → Nat) : ∀ (l : List α) (p : Nat) (x y : α), l[p]? = some x →
    ((l.set p y).map f).sum + f x = (l.map f).sum + f y
  | [], p, x, y, h => by simp at h
  | a :: l, 0, x, y, h => by
    simp at h; subst h
    simp only [List.set_cons_zero, List.map_cons, List.sum_cons]; omega
  | a :: l, p + 1, x, y, h => by
    simp at h
    have := sum_map_set f l p x y h
    simp only [List.set_cons_succ, List.map_cons, List.sum_cons]; omega

theorem measure_setProc {c : Cfg} {s : State} {p : Nat} {pr pr' : Proc} (hp : s.procs[p]? = some pr) :
    measure c (s.setProc p pr') + rank c pr.pc = measure c s + rank c pr'.pc := by
  unfold measure State.setProc
  exact sum_map_set (fun pr => rank c pr.pc) s.procs p pr pr' hp

theorem measure_setProc_lt {c : Cfg} {s : State} {p : Nat} {pr pr' : Proc} (hp : s.procs[p]? = some pr)
    (h : rank c pr'.pc < rank c pr.pc) : measure c (s.setProc p pr') < measure c s := by
  have := measure_setProc (c := c) (pr' := pr') hp
  omega

theorem step_decreases {c : Cfg} (hv : c.variant = .orig) {s s' : State} {p : Nat} {a : Act}
    (h : step c s p a = some s') : measure c s' < measure c s := by
  unfold step at h
  split at h
  · cases h
  · rename_i pr hp
    obtain ⟨pc, temp⟩ := pr
    cases a <;> cases pc <;> try (simp at h; done)
    all_goals simp only [hv] at h
    all_goals repeat' split at h
    all_goals first
      | (cases h; done)
      | (simp [Pc.finished] at *; done)
      | (simp only [Option.some.injEq] at h; subst h
         first
           | (apply measure_setProc_lt hp; simp [rank]; done)
           | (apply measure_setProc_lt hp; simp [rank]; omega)
           | (apply measure_setProc_lt (s := { s with lock := _ }) hp; simp [rank]; done)
           | (apply measure_setProc_lt (s := { s with lock := _ }) hp; simp [rank]; omega)
           | (apply measure_setProc_lt (s := { s with lib := _ }) hp; simp [rank]; done))

theorem run_length {c : Cfg} (hv : c.variant = .orig) : ∀ (sched : List (Nat × Act)) (s t : State),
    run c s sched = some t → sched.length + measure c t ≤ measure c s
  | [], s, t, h => by simp [run] at h; subst h; simp
  | (p, a) :: rest, s, t, h => by
    simp only [run] at h
    split at h
    · cases h
    · rename_i s' hs'
      have h1 := step_decreases hv hs'
      have h2 := run_length hv rest s' t h
      simp only [List.length_cons]; omega

/-- A caller that has not finished can always take its next protocol step (no caller ever blocks
on another one: waiting is polling). -/
theorem next_enabled (c : Cfg) (s : State) (p : Nat) (pr : Proc) (hp : s.procs[p]? = some pr)
    (hf : pr.pc.finished = false) : ∃ a, a ∈ actsAt c pr.pc ∧ a ≠ Act.crash ∧ (step c s p a).isSome = true := by
  obtain ⟨pc, temp⟩ := pr
  cases pc
  case start => exact ⟨.check, by simp [actsAt], by simp, by simp [step, hp]⟩
  case needLock =>
    cases hl : s.lock
    · exact ⟨.tryLock, by simp [actsAt], by simp, by simp [step, hp, hl]⟩
    · exact ⟨.tryLock, by simp [actsAt], by simp, by simp [step, hp, hl]⟩
  case haveLock => exact ⟨.compileBegin, by simp [actsAt], by simp, by simp [step, hp]⟩
  case compiling => exact ⟨.compileFinish, by simp [actsAt]; split <;> simp, by simp, by simp [step, hp]⟩
  case wroteTemp =>
    cases temp
    · exact ⟨.rename, by simp [actsAt], by simp, by simp [step, hp]⟩
    · exact ⟨.rename, by simp [actsAt], by simp, by simp [step, hp]⟩
  case renamed => exact ⟨.unlock, by simp [actsAt], by simp, by simp [step, hp]⟩
  case failed => exact ⟨.unlock, by simp [actsAt], by simp, by simp [step, hp]⟩
  case waiting k =>
    cases hl : s.lock
    · cases hv : c.variant
      · exact ⟨.poll, by simp [actsAt], by simp, by simp [step, hp, hl, hv]⟩
      · exact ⟨.poll, by simp [actsAt], by simp, by simp [step, hp, hl, hv]⟩
    · by_cases hk : k < c.K
      · exact ⟨.poll, by simp [actsAt], by simp, by simp [step, hp, hl, hk]⟩
      · cases hv : c.variant
        · exact ⟨.poll, by simp [actsAt], by simp, by simp [step, hp, hl, hk, hv]⟩
        · exact ⟨.poll, by simp [actsAt], by simp, by simp [step, hp, hl, hk, hv]⟩
  case loading =>
    cases hl : s.lib with
    | none => exact ⟨.load, by simp [actsAt], by simp, by simp [step, hp, hl]⟩
    | some f =>
      by_cases hc : f.complete = true
      · exact ⟨.load, by simp [actsAt], by simp, by simp [step, hp, hl, hc]⟩
      · exact ⟨.load, by simp [actsAt], by simp, by simp [step, hp, hl, hc]⟩
  case done r => simp [Pc.finished] at hf
  case dead => simp [Pc.finished] at hf


/-! ## Whoever is recorded as the lock's owner is still on its way to removing it (both variants) -/

/-- If the lock's recorded owner is one of the callers, that caller is in a lock-holding pc (and
will remove the lock file with its next `unlock`) or died. -/
def LInv (s : State) : Prop :=
  ∀ (q : Nat) (pr : Proc), s.lock = some q → s.procs[q]? = some pr → pr.pc.holder = true ∨ pr.pc = .dead

theorem linv_update {s : State} {p : Nat} {pr pr' : Proc} {lib' : Option File} {lock' : Option Nat}
    (hinv : LInv s) (hp : s.procs[p]? = some pr)
    (hnew : lock' = some p → pr'.pc.holder = true ∨ pr'.pc = .dead)
    (hl : ∀ q, q ≠ p → lock' = some q → s.lock = some q) :
    LInv ({ s with lib := lib', lock := lock' }.setProc p pr') := by
  have hp' : ({ s with lib := lib', lock := lock' } : State).procs[p]? = some pr := hp
  intro q prq hlq hq
  rw [getElem?_setProc pr' q hp'] at hq
  simp only [setProc_lock] at hlq
  by_cases hqp : q = p
  · simp [hqp] at hq; subst hq; subst hqp; exact hnew hlq
  · simp [hqp] at hq
    exact hinv q prq (hl q hqp hlq) hq

theorem linv_update_local {s : State} {p : Nat} {pr pr' : Proc}
    (hinv : LInv s) (hp : s.procs[p]? = some pr)
    (hnew : s.lock = some p → pr'.pc.holder = true ∨ pr'.pc = .dead) : LInv (s.setProc p pr') := by
  have := linv_update (lib' := s.lib) (lock' := s.lock) hinv hp hnew (fun _ _ h => h)
  simpa using this

theorem step_linv {c : Cfg} {s s' : State} {p : Nat} {a : Act}
    (hinv : LInv s) (h : step c s p a = some s') : LInv s' := by
  unfold step at h
  split at h
  · cases h
  · rename_i pr hp
    have hown : s.lock = some p → pr.pc.holder = true ∨ pr.pc = .dead := fun hl => hinv p pr hl hp
    obtain ⟨pc, temp⟩ := pr
    cases a
    case check =>
      cases pc <;> try (simp at h; done)
      simp only [Option.some.injEq] at h; subst h
      exact linv_update_local hinv hp (fun hl => by have := hown hl; simp [Pc.holder] at this)
    case tryLock =>
      cases pc <;> try (simp at h; done)
      simp only at h
      split at h
      · rename_i hl
        simp only [Option.some.injEq] at h; subst h
        exact linv_update (lib' := s.lib) (lock' := some p) hinv hp (fun _ => Or.inl rfl)
          (fun q hq hlq => by simp at hlq; exact absurd hlq.symm hq)
      · simp only [Option.some.injEq] at h; subst h
        exact linv_update_local hinv hp (fun hl => by have := hown hl; simp [Pc.holder] at this)
    case compileBegin =>
      cases pc <;> try (simp at h; done)
      simp only [Option.some.injEq] at h; subst h
      exact linv_update_local hinv hp (fun _ => Or.inl rfl)
    case compileFinish =>
      cases pc <;> try (simp at h; done)
      simp only [Option.some.injEq] at h; subst h
      exact linv_update_local hinv hp (fun _ => Or.inl rfl)
    case compileFail =>
      cases pc <;> try (simp at h; done)
      simp only at h
      split at h
      · simp only [Option.some.injEq] at h; subst h
        exact linv_update_local hinv hp (fun _ => Or.inl rfl)
      · cases h
    case rename =>
      cases pc <;> try (simp at h; done)
      simp only at h
      split at h
      · rename_i _ f
        simp only [Option.some.injEq] at h; subst h
        exact linv_update (lib' := some f) (lock' := s.lock) hinv hp (fun _ => Or.inl rfl) (fun _ _ h => h)
      · simp only [Option.some.injEq] at h; subst h
        exact linv_update_local hinv hp (fun _ => Or.inl rfl)
    case unlock =>
      cases pc <;> try (simp at h; done)
      · simp only [Option.some.injEq] at h; subst h
        exact linv_update (lib' := s.lib) (lock' := none) hinv hp (fun hl => by cases hl) (fun _ _ hl => by cases hl)
      · simp only [Option.some.injEq] at h; subst h
        exact linv_update (lib' := s.lib) (lock' := none) hinv hp (fun hl => by cases hl) (fun _ _ hl => by cases hl)
    case poll =>
      cases pc <;> try (simp at h; done)
      simp only at h
      have hno : s.lock = some p → False := fun hl => by have := hown hl; simp [Pc.holder] at this
      split at h
      · split at h
        · simp only [Option.some.injEq] at h; subst h
          exact linv_update_local hinv hp (fun hl => (hno hl).elim)
        · simp only [Option.some.injEq] at h; subst h
          exact linv_update_local hinv hp (fun hl => (hno hl).elim)
      · split at h
        · simp only [Option.some.injEq] at h; subst h
          exact linv_update_local hinv hp (fun hl => (hno hl).elim)
        · split at h
          · simp only [Option.some.injEq] at h; subst h
            exact linv_update_local hinv hp (fun hl => (hno hl).elim)
          · simp only [Option.some.injEq] at h; subst h
            exact linv_update (lib' := s.lib) (lock' := none) hinv hp (fun hl => by cases hl) (fun _ _ hl => by cases hl)
    case load =>
      cases pc <;> try (simp at h; done)
      simp only at h
      have hno : s.lock = some p → False := fun hl => by have := hown hl; simp [Pc.holder] at this
      split at h
      · simp only [Option.some.injEq] at h; subst h
        exact linv_update_local hinv hp (fun hl => (hno hl).elim)
      · split at h
        · simp only [Option.some.injEq] at h; subst h
          exact linv_update_local hinv hp (fun hl => (hno hl).elim)
        · simp only [Option.some.injEq] at h; subst h
          exact linv_update_local hinv hp (fun hl => (hno hl).elim)
    case crash =>
      simp only at h
      split at h
      · cases h
      · simp only [Option.some.injEq] at h; subst h
        exact linv_update_local hinv hp (fun _ => Or.inr rfl)

theorem reach_linv {c : Cfg} {s t : State} (hinv : LInv s) (h : Reach c s t) : LInv t := by
  induction h with
  | refl => exact hinv
  | tail p a _ hstep ih => exact step_linv ih hstep

theorem step_len {c : Cfg} {s s' : State} {p : Nat} {a : Act} (h : step c s p a = some s') :
    s'.procs.length = s.procs.length := by
  unfold step at h
  repeat' split at h
  all_goals (cases h <;> simp [State.setProc])

theorem reach_len {c : Cfg} {s t : State} (h : Reach c s t) : t.procs.length = s.procs.length := by
  induction h with
  | refl => rfl
  | tail p a _ hstep ih => rw [step_len hstep, ih]

/-- A lock owner that is not a caller can only be the initial (leftover) one. -/
theorem step_foreign {c : Cfg} {s s' : State} {p : Nat} {a : Act} (h : step c s p a = some s')
    (q : Nat) (hq : s'.lock = some q) (hf : s.procs.length ≤ q) : s.lock = some q := by
  unfold step at h
  split at h
  · cases h
  · rename_i pr hp
    have hplt : p < s.procs.length := by
      rcases Nat.lt_or_ge p s.procs.length with h1 | h1
      · exact h1
      · rw [List.getElem?_eq_none h1] at hp; cases hp
    repeat' split at h
    all_goals (cases h <;> (simp at hq <;> first | exact hq | (subst hq; omega)))

end TsVerif.C19
