import TsVerif.C05.Props
import TsVerif.C05.VerifyProps
import TsVerif.C05.GroupProps
import TsVerif.C05.JudgeProps
#print axioms TsVerif.C05.mem_seqOne_iff
#print axioms TsVerif.C05.mem_seqMany_iff
#print axioms TsVerif.C05.mem_seq_iff
#print axioms TsVerif.C05.mem_matchPat_iff
#print axioms TsVerif.C05.mem_matchItem_iff
#print axioms TsVerif.C05.mem_matchItems_iff
#print axioms TsVerif.C05.matchAll_sound
#print axioms TsVerif.C05.matchAll_complete
#print axioms TsVerif.C05.matchAll_complete_qfree
#print axioms TsVerif.C05.matchAll_nodup
#print axioms TsVerif.C05.count_Seq
#print axioms TsVerif.C05.count_SatItem
#print axioms TsVerif.C05.capture_count_within_quantifier
#print axioms TsVerif.C05.rep_seqOneS
#print axioms TsVerif.C05.rep_seqManyS
#print axioms TsVerif.C05.rep_seqS
#print axioms TsVerif.C05.rep_verifyItem
#print axioms TsVerif.C05.satItemV_perm
#print axioms TsVerif.C05.satItem_permV
#print axioms TsVerif.C05.verifyAnywhere_iff
#print axioms TsVerif.C05.verifyAnywhere_sound
#print axioms TsVerif.C05.verifyAnywhere_complete
#print axioms TsVerif.C05.SatVsK_len
#print axioms TsVerif.C05.expandBs_sound
#print axioms TsVerif.C05.expandBs_complete
#print axioms TsVerif.C05.expandBs_direct
#print axioms TsVerif.C05.satVsK_finalize
#print axioms TsVerif.C05.buildNode_direct
#print axioms TsVerif.C05.mem_matchAll_iff
#print axioms TsVerif.C05.matchAll_exactly_once
#print axioms TsVerif.C05.mem_modelMatches_iff
#print axioms TsVerif.C05.canon_perm
#print axioms TsVerif.C05.counts_eq_of_sound_complete
#print axioms TsVerif.C05.kids_le_maxFanout
