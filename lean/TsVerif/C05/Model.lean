/-!
# C05 — spec-level model of query pattern semantics (`QuerySem`)

* `VT` — the *visible* tree as the public API shows it (dumped by the harness through a
  `TreeCursor` walk: kind, named, field name, missing/error/extra, byte range, children).
* `Pat` / `Item` — patterns: node tests (named kind, anonymous literal, `(_)`, `_`, `(MISSING …)`,
  `(ERROR)`), negated fields, children with anchors, a trailing anchor, alternations; an `Item`
  adds the leading anchor, field name, quantifier and captures.
* `SatPat/SatItem/SatItems` — the semantics (recursive over the pattern, with the inductive
  sibling relations `One` / `Many` for "an order-preserving selection of children").
* `matchPat/matchItem/matchItems`, `matchAll` — the executable backtracking enumeration.  It is
  structurally recursive on the pattern and (inside `seqOne`/`seqMany`) on the sibling list, so no
  fuel is needed.
-/
namespace TsVerif.C05

structure VInfo where
  id : Nat
  kind : String
  named : Bool
  missing : Bool
  error : Bool
  extra : Bool
  field : Option String
  sb : Nat
  eb : Nat
  sups : List String := []   -- hidden supertype nodes between this node and its visible parent
  deriving Repr, Inhabited, DecidableEq

inductive VT where
  | mk (i : VInfo) (kids : List VT)
  deriving Repr, Inhabited

namespace VT
def info : VT → VInfo | .mk i _ => i
def kids : VT → List VT | .mk _ k => k
end VT

inductive NodeTest where
  | kind (name : String) (named : Bool)
  | wildNamed
  | wildAny
  | missingAny
  | missingKind (name : String) (named : Bool)
  | error
  | super (sup : String) (sub : Option (String × Bool))   -- `(sup)` / `(sup/sub)`, `(sup/"lit")`
  deriving Repr, Inhabited, DecidableEq

inductive Quant where | one | opt | star | plus
  deriving Repr, Inhabited, DecidableEq

/-- The `.` before a child pattern: `loose` ignores anonymous nodes (the documented rule),
`strict` admits no node in between (the code's exception when the previous sibling pattern is the
unnamed wildcard `_`: `seeking_immediate_match`). -/
inductive Anchor where | none | loose | strict
  deriving Repr, Inhabited, DecidableEq

mutual
  inductive Pat where
    | node (t : NodeTest) (neg : List String) (kids : List Item) (lastAnchor : Bool)
    | alt (alts : List Item)
  inductive Item where
    | mk (imm : Anchor) (field : Option String) (p : Pat) (q : Quant) (caps : List String)
end

instance : Inhabited Pat := ⟨.alt []⟩
instance : Inhabited Item := ⟨.mk .none none (.alt []) .one []⟩

namespace Item
def imm : Item → Anchor | .mk i _ _ _ _ => i
def quant : Item → Quant | .mk _ _ _ q _ => q
end Item

/-- A capture binding: (capture name, node id) pairs, in pattern order. -/
abbrev Binding := List (String × Nat)

/-- The node test of one step (`ts_query_cursor__advance`: `node_does_match`). -/
def testNode : NodeTest → VInfo → Bool
  | .kind name named, i => i.kind == name && i.named == named
  | .wildNamed, i => i.named && !i.error
  | .wildAny, i => !i.error
  | .missingAny, i => i.missing
  | .missingKind name named, i => i.missing && i.kind == name && i.named == named
  | .error, i => i.error
  | .super sup none, i => !i.error && i.sups.contains sup
  | .super sup (some (k, named)), i => i.kind == k && i.named == named && i.sups.contains sup

/-- `!field`: no child carries that field (`ts_node_child_by_field_id`).  An ERROR node has no
production, so that lookup finds nothing there even when the cursor reports field names on its
children: for ERROR nodes a negated field always holds (the implementation decides). -/
def negOk (neg : List String) (n : VT) : Bool :=
  n.info.error || neg.all fun f => n.kids.all fun k => k.info.field != some f

def fieldOk (f : Option String) (i : VInfo) : Bool :=
  match f with
  | none => true
  | some name => i.field == some name

/-- May the search for an anchored item pass over sibling `c`?  Not over a named node; not over
any node when the anchor is strict. -/
def blocked (imm : Anchor) (c : VT) : Bool :=
  match imm with
  | .none => false
  | .loose => c.info.named
  | .strict => true

def cross (xs ys : List Binding) : List Binding := xs.flatMap fun a => ys.map fun b => a ++ b

/-! ## Sibling sequencing: relations and enumerators (generic in the per-node / rest parts) -/

/-- Exactly one sibling is taken for this item (after passing over skippable ones), the rest
of the items continue on the siblings after it. -/
inductive One (imm : Anchor) (F : VT → Binding → Prop) (G : List VT → Binding → Prop) :
    List VT → Binding → Prop
  | take {c cs b1 b2} : F c b1 → G cs b2 → One imm F G (c :: cs) (b1 ++ b2)
  | skip {c cs b} : blocked imm c = false → One imm F G cs b → One imm F G (c :: cs) b

/-- One or more siblings are taken for this item (a repetition), in order. -/
inductive Many (imm : Anchor) (F : VT → Binding → Prop) (G : List VT → Binding → Prop) :
    List VT → Binding → Prop
  | takeStop {c cs b1 b2} : F c b1 → G cs b2 → Many imm F G (c :: cs) (b1 ++ b2)
  | takeMore {c cs b1 b2} : F c b1 → Many imm F G cs b2 → Many imm F G (c :: cs) (b1 ++ b2)
  | skip {c cs b} : blocked imm c = false → Many imm F G cs b → Many imm F G (c :: cs) b

/-- Sequencing of one item with quantifier `q`.  `G0` continues with the remaining items when
the item matched zero nodes (then the anchor of the next item is waived — "there is no node on
that side, so the anchor imposes no constraint"), `G1` after at least one node was taken. -/
def Seq (q : Quant) (imm : Anchor) (F : VT → Binding → Prop) (G0 G1 : List VT → Binding → Prop)
    (sibs : List VT) (b : Binding) : Prop :=
  match q with
  | .one => One imm F G1 sibs b
  | .opt => G0 sibs b ∨ One imm F G1 sibs b
  | .star => G0 sibs b ∨ Many imm F G1 sibs b
  | .plus => Many imm F G1 sibs b

def seqOne (imm : Anchor) (f : VT → List Binding) (g : List VT → List Binding) : List VT → List Binding
  | [] => []
  | c :: cs => cross (f c) (g cs) ++ (if blocked imm c then [] else seqOne imm f g cs)

def seqMany (imm : Anchor) (f : VT → List Binding) (g : List VT → List Binding) : List VT → List Binding
  | [] => []
  | c :: cs => cross (f c) (g cs) ++ cross (f c) (seqMany imm f g cs) ++
      (if blocked imm c then [] else seqMany imm f g cs)

def seq (q : Quant) (imm : Anchor) (f : VT → List Binding) (g0 g1 : List VT → List Binding)
    (sibs : List VT) : List Binding :=
  match q with
  | .one => seqOne imm f g1 sibs
  | .opt => g0 sibs ++ seqOne imm f g1 sibs
  | .star => g0 sibs ++ seqMany imm f g1 sibs
  | .plus => seqMany imm f g1 sibs

def waived (w : Bool) (a : Anchor) : Anchor := if w then .none else a

/-! ## Semantics -/

/-- After the last item: nothing more is bound; with a trailing anchor no named sibling remains
after the last node that was matched (`last` is already false when no child was matched at all:
"the constraint applies to the nearest node that the pattern does match"). -/
def EndOk (last : Bool) (sibs : List VT) (b : Binding) : Prop :=
  b = [] ∧ (last = true → ∀ c ∈ sibs, c.info.named = false)

mutual
  def SatPat : Pat → VT → Binding → Prop
    | .node t neg kids last, n, b =>
      testNode t n.info = true ∧ negOk neg n = true ∧ SatItems kids last false false n.kids b
    | .alt alts, n, b => SatAlts alts n b
  def SatAlts : List Item → VT → Binding → Prop
    | [], _, _ => False
    | it :: rest, n, b => SatItem it n b ∨ SatAlts rest n b
  def SatItem : Item → VT → Binding → Prop
    | .mk _ f p _ caps, n, b =>
      fieldOk f n.info = true ∧ ∃ b', SatPat p n b' ∧ b = caps.map (fun c => (c, n.info.id)) ++ b'
  /-- `w`: the previous item matched zero nodes (its anchor to us is waived);
  `any`: some earlier item of this node pattern matched a node. -/
  def SatItems : List Item → Bool → Bool → Bool → List VT → Binding → Prop
    | [], last, _, any, sibs, b => EndOk (last && any) sibs b
    | it :: rest, last, w, any, sibs, b =>
      Seq it.quant (waived w it.imm) (SatItem it) (SatItems rest last true any) (SatItems rest last false true) sibs b
end

/-! ## Enumeration -/

def endOk (last : Bool) (sibs : List VT) : List Binding :=
  if last && sibs.any (fun c => c.info.named) then [] else [[]]

mutual
  def matchPat : Pat → VT → List Binding
    | .node t neg kids last, n =>
      if testNode t n.info && negOk neg n then matchItems kids last false false n.kids else []
    | .alt alts, n => matchAlts alts n
  def matchAlts : List Item → VT → List Binding
    | [], _ => []
    | it :: rest, n => matchItem it n ++ matchAlts rest n
  def matchItem : Item → VT → List Binding
    | .mk _ f p _ caps, n =>
      if fieldOk f n.info then (matchPat p n).map fun b' => caps.map (fun c => (c, n.info.id)) ++ b' else []
  def matchItems : List Item → Bool → Bool → Bool → List VT → List Binding
    | [], last, _, any, sibs => endOk (last && any) sibs
    | it :: rest, last, w, any, sibs =>
      seq it.quant (waived w it.imm) (matchItem it) (matchItems rest last true any) (matchItems rest last false true) sibs
end

mutual
  def nodesOf : VT → List VT
    | .mk i kids => .mk i kids :: nodesOfList kids
  def nodesOfList : List VT → List VT
    | [] => []
    | t :: ts => nodesOf t ++ nodesOfList ts
end

/-- All matches of one top-level pattern: (root node id, binding), every derivation. -/
def matchAllRaw (vt : VT) (it : Item) : List (Nat × Binding) :=
  (nodesOf vt).flatMap fun n => (matchItem it n).map fun b => (n.info.id, b)

/-- Remove repeated elements. -/
def dedup {α : Type} [DecidableEq α] : List α → List α
  | [] => []
  | a :: l => if a ∈ dedup l then dedup l else a :: dedup l

/-- … each distinct (root, binding) once. -/
def matchAll (vt : VT) (it : Item) : List (Nat × Binding) := dedup (matchAllRaw vt it)

end TsVerif.C05
