import TsVerif.C05.Props
import TsVerif.C05.Judge
/-!
# C05 — what the judge compares against is the semantics

* `mem_matchAll_iff` — `(r, β) ∈ matchAll vt p ⇔ ∃ node n of vt with id r, SatItem p n β` (both inclusions in
  one statement); `matchAll_exactly_once` — every member occurs exactly once.
* `mem_modelMatches_iff` — the list `modelMatches` that the driver compares the real matches with contains
  `(i, k)` exactly when pattern `i` of the query is satisfied at some node with a binding whose sorted form
  is `k`; `canon_perm` — sorting only rearranges the captures.
* `counts_eq_of_sound_complete` — the two Boolean tests of the driver together say that real and model
  matches are equal as multisets.
* `kids_le_maxFanout` — every node of the tree has at most `maxFanout vt` children: the hypothesis of
  `buildNode_direct` (GroupProps) holds at every node when the parser is given `maxFanout vt`.
-/
namespace TsVerif.C05

theorem mem_matchAll_iff (vt : VT) (p : Item) (r : Nat) (b : Binding) :
    (r, b) ∈ matchAll vt p ↔ ∃ n, n ∈ nodesOf vt ∧ n.info.id = r ∧ SatItem p n b := by
  constructor
  · exact matchAll_sound vt p r b
  · rintro ⟨n, hn, rfl, hs⟩
    exact matchAll_complete vt p n b hn hs

theorem matchAll_exactly_once (vt : VT) (p : Item) (x : Nat × Binding) (h : x ∈ matchAll vt p) :
    (matchAll vt p).count x = 1 := by
  have h1 := List.nodup_iff_count.1 (matchAll_nodup vt p) x
  have h2 := List.count_pos_iff.2 h
  omega

theorem canon_perm (b : Binding) : (canon b).Perm b := List.mergeSort_perm _ _

theorem mem_modelMatches_iff (vt : VT) (items : List Item) (i : Nat) (k : List (String × Nat)) :
    (i, k) ∈ modelMatches vt items ↔
      ∃ it, items[i]? = some it ∧ ∃ n, n ∈ nodesOf vt ∧ ∃ b, SatItem it n b ∧ k = canon b := by
  unfold modelMatches
  simp only [List.mem_flatMap, List.mem_map, Prod.mk.injEq, Prod.exists]
  constructor
  · rintro ⟨it, j, hj, r, b, hrb, rfl, rfl⟩
    obtain ⟨n, hn, _, hs⟩ := matchAll_sound vt it r b hrb
    exact ⟨it, List.mem_zipIdx_iff_getElem?.1 hj, n, hn, b, hs, rfl⟩
  · rintro ⟨it, hit, n, hn, b, hs, rfl⟩
    exact ⟨it, i, List.mem_zipIdx_iff_getElem?.2 hit, n.info.id, b, matchAll_complete vt it n b hn hs, rfl, rfl⟩

theorem countOf_pos_iff (x : MatchKey) (xs : List MatchKey) : 0 < countOf x xs ↔ x ∈ xs := by
  unfold countOf
  rw [List.length_pos_iff_exists_mem]
  constructor
  · rintro ⟨y, hy⟩
    obtain ⟨hm, he⟩ := List.mem_filter.1 hy
    have : y = x := by simpa using he
    subst this; exact hm
  · intro h; exact ⟨x, List.mem_filter.2 ⟨h, by simp⟩⟩

/-- the driver's two tests together: equal multisets -/
theorem counts_eq_of_sound_complete (impl model : List MatchKey)
    (hs : soundB impl model = true) (hc : completeB impl model = true) :
    ∀ x, countOf x impl = countOf x model := by
  unfold soundB at hs
  unfold completeB at hc
  simp only [List.all_eq_true, decide_eq_true_eq] at hs hc
  intro x
  by_cases hi : x ∈ impl
  · have h1 := hs x hi
    have hm : x ∈ model := (countOf_pos_iff x model).1 (by have := (countOf_pos_iff x impl).2 hi; omega)
    have h2 := hc x hm
    omega
  · by_cases hm : x ∈ model
    · have h2 := hc x hm
      have := (countOf_pos_iff x model).2 hm
      have h0 : ¬ 0 < countOf x impl := fun h => hi ((countOf_pos_iff x impl).1 h)
      omega
    · have h0 : ¬ 0 < countOf x impl := fun h => hi ((countOf_pos_iff x impl).1 h)
      have h1 : ¬ 0 < countOf x model := fun h => hm ((countOf_pos_iff x model).1 h)
      omega

mutual
  theorem kids_le_maxFanout : ∀ (vt n : VT), n ∈ nodesOf vt → n.kids.length ≤ maxFanout vt
    | .mk i kids, n, h => by
      unfold nodesOf at h
      unfold maxFanout
      rcases List.mem_cons.1 h with rfl | h'
      · simp only [VT.kids]; exact Nat.le_max_left _ _
      · exact Nat.le_trans (kids_le_maxFanoutList kids n h') (Nat.le_max_right _ _)
  theorem kids_le_maxFanoutList : ∀ (ts : List VT) (n : VT), n ∈ nodesOfList ts → n.kids.length ≤ maxFanoutList ts
    | [], n, h => by unfold nodesOfList at h; cases h
    | t :: ts, n, h => by
      unfold nodesOfList at h
      unfold maxFanoutList
      rcases List.mem_append.1 h with h' | h'
      · exact Nat.le_trans (kids_le_maxFanout t n h') (Nat.le_max_left _ _)
      · exact Nat.le_trans (kids_le_maxFanoutList ts n h') (Nat.le_max_right _ _)
end

end TsVerif.C05
