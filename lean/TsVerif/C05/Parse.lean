import TsVerif.C05.Model
/-!
# C05 — parser for the generated subset of the query language (driver only)

`parseQuery text` returns the top-level patterns as `Item`s, or `none` when the text uses
something outside the modelled subset (quantified / captured / top-level groups, predicates, anchored quantified
items, quantified roots): such cases are counted as *unsupported* by the check, never compared.
-/
namespace TsVerif.C05

inductive Tok where
  | lp | rp | lb | rb | dot | bang | colon | under | slash
  | ident (s : String)
  | str (s : String)
  | cap (s : String)
  | quant (q : Quant)
  | bad
  deriving Repr, Inhabited, DecidableEq

def isIdentChar (c : Char) : Bool := c.isAlphanum || c == '_' || c == '-' || c == '.'

def takeIdent : List Char → List Char → (String × List Char)
  | c :: rest, acc => if isIdentChar c then takeIdent rest (c :: acc) else (String.ofList acc.reverse, c :: rest)
  | [], acc => (String.ofList acc.reverse, [])

def takeStr : List Char → List Char → (String × List Char)
  | '\\' :: c :: rest, acc =>
    let d := if c == 'n' then '\n' else if c == 'r' then '\r' else if c == 't' then '\t' else if c == '0' then '\x00' else c
    takeStr rest (d :: acc)
  | '"' :: rest, acc => (String.ofList acc.reverse, rest)
  | c :: rest, acc => takeStr rest (c :: acc)
  | [], acc => (String.ofList acc.reverse, [])

def tokenize (fuel : Nat) (cs : List Char) (acc : Array Tok) : Array Tok :=
  match fuel with
  | 0 => acc
  | fuel + 1 =>
    match cs with
    | [] => acc
    | c :: rest =>
      if c == ' ' || c == '\n' || c == '\t' || c == '\r' then tokenize fuel rest acc
      else if c == '(' then tokenize fuel rest (acc.push .lp)
      else if c == ')' then tokenize fuel rest (acc.push .rp)
      else if c == '[' then tokenize fuel rest (acc.push .lb)
      else if c == ']' then tokenize fuel rest (acc.push .rb)
      else if c == '!' then tokenize fuel rest (acc.push .bang)
      else if c == ':' then tokenize fuel rest (acc.push .colon)
      else if c == '/' then tokenize fuel rest (acc.push .slash)
      else if c == '+' then tokenize fuel rest (acc.push (.quant .plus))
      else if c == '*' then tokenize fuel rest (acc.push (.quant .star))
      else if c == '?' then tokenize fuel rest (acc.push (.quant .opt))
      else if c == '"' then let (s, r) := takeStr rest []; tokenize fuel r (acc.push (.str s))
      else if c == '@' then let (s, r) := takeIdent rest []; tokenize fuel r (acc.push (.cap s))
      else if c == '.' then tokenize fuel rest (acc.push .dot)
      else if isIdentChar c then
        let (s, r) := takeIdent (c :: rest) []
        tokenize fuel r (acc.push (if s == "_" then .under else .ident s))
      else tokenize fuel rest (acc.push .bad)

def takeCaps : List Tok → List String → (List String × List Tok)
  | .cap s :: rest, acc => takeCaps rest (acc ++ [s])
  | ts, acc => (acc, ts)

/-- Surface child elements: a child pattern, or a parenthesised group of elements with an optional
quantifier and captures.  `dot`: a `.` precedes the element. -/
inductive Elem where
  | item (dot : Bool) (it : Item)
  | group (dot : Bool) (es : List Elem) (q : Quant) (caps : List String)
  deriving Inhabited

/-- Accumulator while reading the elements between `(` … `)`. -/
structure KidsAcc where
  elems : Array Elem := #[]
  neg : List String := []
  dot : Bool := false

def isWildAny : Item → Bool
  | .mk _ _ (.node .wildAny _ _ _) .one _ => true
  | _ => false

/-! ### Groups are desugared (`expandElems`)

The model has no group constructor.  A node pattern whose children contain groups is expanded into
VARIANTS of its child list; with more than one variant the node pattern becomes an alternation of the
variants (same node test, same negated fields):
* a plain group is spliced in; an anchor before it goes to its first item;
* captures on a group go to the first item of every repetition (the compiler adds them to the
  group's first step), after that item's own captures;
* `( … )?` = the variants without and with the items; `( … )*` / `( … )+` = 0/1 … `n` repetitions
  (`n` = the largest fan-out of the tree, at least 2: more repetitions cannot match); repetitions are
  an order-preserving selection like repetitions of a single child pattern;
* when a quantified group contributes no item (`V.gap`), the anchor of the next item is waived, as
  after a single optional child pattern that matched nothing;
* the strict anchor after the unnamed wildcard `_` does not reach across the end of a quantified
  group (`V.rep`): `("a" _)+ . "e"` skips anonymous nodes between the `_` and the `"e"`.
Outside the fragment (`none`): an anchor before a quantified group or inside a group at its start /
end, a captured or anchored group whose first element is quantified, a repeated group that itself
has variants or whose body can match nothing, more than 128 variants.
`GroupProps.lean` proves the expansion equal to a direct semantics of groups. -/

inductive V where
  | it (dot : Bool) (i : Item)
  | gap
  | rep   -- the end of one repetition of a quantified group (its repeat / skip step)
  deriving Inhabited

def concatAll (xs ys : List (List V)) : List (List V) := xs.flatMap fun a => ys.map fun b => a ++ b

def firstHasDot : List Elem → Bool
  | .item d _ :: _ => d
  | .group d _ _ _ :: _ => d
  | [] => false

/-! Step 1, purely syntactic: captures and the anchor written on a group are moved to the group's
first element (`pushFirstE/L`); afterwards every group is BARE (no dot, no captures of its own). -/
mutual
  def pushFirstE (caps : List String) (dot : Bool) : Elem → Option Elem
    | .item d (.mk i f p q cs) =>
      if caps.isEmpty && !dot then some (.item d (.mk i f p q cs))
      else if q == .one then some (.item (d || dot) (.mk i f p .one (cs ++ caps))) else none
    | .group d es q cs =>
      if caps.isEmpty && !dot then some (.group d es q cs)
      else if q == .one then
        match pushFirstL caps dot es with
        | some es' => some (.group d es' .one cs)
        | none => none
      else none
  def pushFirstL (caps : List String) (dot : Bool) : List Elem → Option (List Elem)
    | [] => if caps.isEmpty && !dot then some [] else none
    | e :: r =>
      match pushFirstE caps dot e with
      | some e' => some (e' :: r)
      | none => none
end

mutual
  def bareElem : Elem → Option Elem
    | .item d it => some (.item d it)
    | .group d es q caps =>
      if firstHasDot es || (d && q != .one) then none else
      match bareList es with
      | none => none
      | some es' =>
        match pushFirstL caps d es' with
        | none => none
        | some es'' => some (.group false es'' q [])
  def bareList : List Elem → Option (List Elem)
    | [] => some []
    | e :: r =>
      match bareElem e, bareList r with
      | some a, some b => some (a :: b)
      | _, _ => none
end

/-- The least number of nodes a variant takes (items with quantifier one / plus). -/
def minNodes : List V → Nat
  | [] => 0
  | .it _ (.mk _ _ _ q _) :: r => (if q == .one || q == .plus then 1 else 0) + minNodes r
  | _ :: r => minNodes r

/-! Step 2: variants of bare elements.  A repeated group must take at least one node per repetition
(`minNodes`), so that `n` repetitions suffice on `n` siblings. -/
/-- `k` copies of `x`. -/
def rpt (x : List V) : Nat → List V
  | 0 => []
  | k + 1 => x ++ rpt x k

/-- 1 … `n` repetitions of one repetition `x`. -/
def repVariants (n : Nat) (x : List V) : List (List V) := (List.range n).map fun k => rpt x (k + 1)

/-- The body of a repeated group: exactly one variant, which takes at least one node. -/
def single? : List (List V) → Option (List V)
  | [v] => if minNodes v == 0 then none else some v
  | _ => none

mutual
  def expandB (n : Nat) : Elem → Option (List (List V))
    | .item d it => some [[.it d it]]
    | .group _ es q _ =>
      match expandBs n es with
      | none => none
      | some vs =>
        match q with
        | .one => some vs
        | .opt => some ([.gap] :: vs.map (· ++ [.rep]))
        | .star =>
          match single? vs with
          | some v => some ([.gap] :: repVariants n (v ++ [.rep]))
          | none => none
        | .plus =>
          match single? vs with
          | some v => some (repVariants n (v ++ [.rep]))
          | none => none
  def expandBs (n : Nat) : List Elem → Option (List (List V))
    | [] => some [[]]
    | e :: rest =>
      match expandB n e, expandBs n rest with
      | some a, some b => let r := concatAll a b; if r.length > 128 then none else some r
      | _, _ => none
end

def expandElems (n : Nat) (es : List Elem) : Option (List (List V)) :=
  match bareList es with
  | none => none
  | some es' => expandBs n es'

/-- Decide the anchors: `.` is loose, strict after the unnamed wildcard `_`, waived after a gap. -/
def finalizeV : List V → Bool → Bool → List Item
  | [], _, _ => []
  | .gap :: r, pw, _ => finalizeV r pw true
  -- the strict `_`-before-anchor rule looks at the previous STEP; after a quantified group that is
  -- the group's repeat step, not the `_` (the implementation decides)
  | .rep :: r, _, w => finalizeV r false w
  | .it d (.mk _ f p q c) :: r, pw, w =>
    let a : Anchor := if d && !w then (if pw then .strict else .loose) else .none
    let it : Item := .mk a f p q c
    it :: finalizeV r (isWildAny it) false

def buildNode (n : Nat) (t : NodeTest) (acc : KidsAcc) : Option Pat :=
  let mk (v : List V) : Pat :=
    let items := finalizeV v false false
    .node t acc.neg items (acc.dot && !items.isEmpty)
  match expandElems n acc.elems.toList with
  | none => none
  | some [] => none
  | some [v] => some (mk v)
  | some vs => some (.alt (vs.map fun v => .mk .none none (mk v) .one []))

mutual
  /-- item := [ident ':'] core [quant] cap* -/
  def parseItem (sups : List String) (n : Nat) (fuel : Nat) (ts : List Tok) : Option (Item × List Tok) :=
    match fuel with
    | 0 => none
    | fuel + 1 =>
      let (field, ts) := match ts with
        | .ident f :: .colon :: rest => (some f, rest)
        | _ => (none, ts)
      match parseCore sups n fuel ts with
      | none => none
      | some (p, ts) =>
        let (q, ts) := match ts with
          | .quant q :: rest => (q, rest)
          | _ => (Quant.one, ts)
        let (caps, ts) := takeCaps ts []
        some (.mk .none field p q caps, ts)
  def parseCore (sups : List String) (n : Nat) (fuel : Nat) (ts : List Tok) : Option (Pat × List Tok) :=
    match fuel with
    | 0 => none
    | fuel + 1 =>
      match ts with
      | .str s :: rest => some (.node (.kind s false) [] [] false, rest)
      | .under :: rest => some (.node .wildAny [] [] false, rest)
      | .lb :: rest => parseAlts sups n fuel rest #[]
      | .lp :: .ident "MISSING" :: .rp :: rest => some (.node .missingAny [] [] false, rest)
      | .lp :: .ident "MISSING" :: .ident k :: .rp :: rest => some (.node (.missingKind k true) [] [] false, rest)
      | .lp :: .ident "MISSING" :: .str k :: .rp :: rest => some (.node (.missingKind k false) [] [] false, rest)
      | .lp :: .ident "ERROR" :: rest => parseKids sups n fuel .error rest
      | .lp :: .ident k :: .slash :: .ident sub :: rest => parseKids sups n fuel (.super k (some (sub, true))) rest
      | .lp :: .ident k :: .slash :: .str sub :: rest => parseKids sups n fuel (.super k (some (sub, false))) rest
      | .lp :: .ident k :: rest =>
        parseKids sups n fuel (if sups.contains k then .super k none else .kind k true) rest
      | .lp :: .under :: rest => parseKids sups n fuel .wildNamed rest
      | _ => none
  def parseKids (sups : List String) (n : Nat) (fuel : Nat) (t : NodeTest) (ts : List Tok) : Option (Pat × List Tok) :=
    match fuel with
    | 0 => none
    | fuel + 1 =>
      match parseElems sups n fuel ts {} with
      | none => none
      | some (acc, rest) =>
        match buildNode n t acc with
        | none => none
        | some p => some (p, rest)
  /-- Elements up to and including the closing `)`. -/
  def parseElems (sups : List String) (n : Nat) (fuel : Nat) (ts : List Tok) (acc : KidsAcc) : Option (KidsAcc × List Tok) :=
    match fuel with
    | 0 => none
    | fuel + 1 =>
      match ts with
      | .rp :: rest => some (acc, rest)
      | .dot :: rest => if acc.dot then none else parseElems sups n fuel rest { acc with dot := true }
      | .bang :: .ident f :: rest =>
        if acc.dot then none else parseElems sups n fuel rest { acc with neg := acc.neg ++ [f] }
      | .lp :: .rp :: _ => none
      | .lp :: .lp :: rest => parseGroup sups n fuel (.lp :: rest) acc
      | .lp :: .lb :: rest => parseGroup sups n fuel (.lb :: rest) acc
      | .lp :: .str x :: rest => parseGroup sups n fuel (.str x :: rest) acc
      | _ =>
        match parseItem sups n fuel ts with
        | none => none
        | some (it, rest) =>
          -- an anchor before a quantified child pattern is outside the fragment
          if acc.dot && it.quant != .one then none
          else parseElems sups n fuel rest { acc with elems := acc.elems.push (.item acc.dot it), dot := false }
  /-- A group (its `(` already consumed), then its quantifier and captures. -/
  def parseGroup (sups : List String) (n : Nat) (fuel : Nat) (ts : List Tok) (acc : KidsAcc) : Option (KidsAcc × List Tok) :=
    match fuel with
    | 0 => none
    | fuel + 1 =>
      match parseElems sups n fuel ts {} with
      | none => none
      | some (g, rest) =>
        if g.dot || !g.neg.isEmpty || g.elems.isEmpty then none else
        let (q, rest) := match rest with
          | .quant q :: r => (q, r)
          | _ => (Quant.one, rest)
        let (caps, rest) := takeCaps rest []
        parseElems sups n fuel rest { acc with elems := acc.elems.push (.group acc.dot g.elems.toList q caps), dot := false }
  def parseAlts (sups : List String) (n : Nat) (fuel : Nat) (ts : List Tok) (acc : Array Item) : Option (Pat × List Tok) :=
    match fuel with
    | 0 => none
    | fuel + 1 =>
      match ts with
      | .rb :: rest => if acc.isEmpty then none else some (.alt acc.toList, rest)
      | _ =>
        match parseItem sups n fuel ts with
        | none => none
        | some (it, rest) => if it.quant != .one then none else parseAlts sups n fuel rest (acc.push it)
end

def parseTop (sups : List String) (n : Nat) (fuel : Nat) (ts : List Tok) (acc : Array Item) : Option (List Item) :=
  match fuel with
  | 0 => none
  | fuel + 1 =>
    match ts with
    | [] => some acc.toList
    | _ =>
      match parseItem sups n (5 * ts.length + 8) ts with
      | none => none
      | some (it, rest) =>
        match it with
        | .mk _ f _ q _ => if q != .one || f.isSome then none else parseTop sups n fuel rest (acc.push it)

/-- `maxRep`: how often a starred group is unrolled (the largest fan-out of the tree suffices). -/
def parseQuery (text : String) (sups : List String := []) (maxRep : Nat := 3) : Option (List Item) :=
  let toks := (tokenize (text.length + 1) text.toList #[]).toList
  if toks.contains .bad then none else parseTop sups (max maxRep 2) (toks.length + 1) toks #[]

mutual
  def Pat.hasQuant : Pat → Bool
    | .node _ _ kids _ => Item.anyQuant kids
    | .alt alts => Item.anyQuant alts
  def Item.hasQuant : Item → Bool
    | .mk _ _ p q _ => q != .one || p.hasQuant
  def Item.anyQuant : List Item → Bool
    | [] => false
    | it :: rest => it.hasQuant || Item.anyQuant rest
end

end TsVerif.C05
