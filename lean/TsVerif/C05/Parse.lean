import TsVerif.C05.Model
/-!
# C05 — parser for the generated subset of the query language (driver only)

`parseQuery text` returns the top-level patterns as `Item`s, or `none` when the text uses
something outside the modelled subset (quantified / captured / top-level groups, predicates, anchored quantified
items, quantified roots): such cases are counted as *unsupported* by the check, never compared.
-/
namespace TsVerif.C05

inductive Tok where
  | lp | rp | lb | rb | dot | bang | colon | under | slash
  | ident (s : String)
  | str (s : String)
  | cap (s : String)
  | quant (q : Quant)
  | bad
  deriving Repr, Inhabited, DecidableEq

def isIdentChar (c : Char) : Bool := c.isAlphanum || c == '_' || c == '-' || c == '.'

def takeIdent : List Char → List Char → (String × List Char)
  | c :: rest, acc => if isIdentChar c then takeIdent rest (c :: acc) else (String.ofList acc.reverse, c :: rest)
  | [], acc => (String.ofList acc.reverse, [])

def takeStr : List Char → List Char → (String × List Char)
  | '\\' :: c :: rest, acc =>
    let d := if c == 'n' then '\n' else if c == 'r' then '\r' else if c == 't' then '\t' else if c == '0' then '\x00' else c
    takeStr rest (d :: acc)
  | '"' :: rest, acc => (String.ofList acc.reverse, rest)
  | c :: rest, acc => takeStr rest (c :: acc)
  | [], acc => (String.ofList acc.reverse, [])

def tokenize (fuel : Nat) (cs : List Char) (acc : Array Tok) : Array Tok :=
  match fuel with
  | 0 => acc
  | fuel + 1 =>
    match cs with
    | [] => acc
    | c :: rest =>
      if c == ' ' || c == '\n' || c == '\t' || c == '\r' then tokenize fuel rest acc
      else if c == '(' then tokenize fuel rest (acc.push .lp)
      else if c == ')' then tokenize fuel rest (acc.push .rp)
      else if c == '[' then tokenize fuel rest (acc.push .lb)
      else if c == ']' then tokenize fuel rest (acc.push .rb)
      else if c == '!' then tokenize fuel rest (acc.push .bang)
      else if c == ':' then tokenize fuel rest (acc.push .colon)
      else if c == '/' then tokenize fuel rest (acc.push .slash)
      else if c == '+' then tokenize fuel rest (acc.push (.quant .plus))
      else if c == '*' then tokenize fuel rest (acc.push (.quant .star))
      else if c == '?' then tokenize fuel rest (acc.push (.quant .opt))
      else if c == '"' then let (s, r) := takeStr rest []; tokenize fuel r (acc.push (.str s))
      else if c == '@' then let (s, r) := takeIdent rest []; tokenize fuel r (acc.push (.cap s))
      else if c == '.' then tokenize fuel rest (acc.push .dot)
      else if isIdentChar c then
        let (s, r) := takeIdent (c :: rest) []
        tokenize fuel r (acc.push (if s == "_" then .under else .ident s))
      else tokenize fuel rest (acc.push .bad)

def takeCaps : List Tok → List String → (List String × List Tok)
  | .cap s :: rest, acc => takeCaps rest (acc ++ [s])
  | ts, acc => (acc, ts)

/-- Accumulator while reading the children of a node pattern. -/
structure KidsAcc where
  items : Array Item := #[]
  neg : List String := []
  dot : Bool := false
  prevWild : Bool := false   -- the previous child pattern is the unnamed wildcard `_`
  group : Nat := 0           -- open non-quantified groups `( … )` whose items are spliced in

def isWildAny : Item → Bool
  | .mk _ _ (.node .wildAny _ _ _) .one _ => true
  | _ => false

mutual
  /-- item := [ident ':'] core [quant] cap* ; `imm` = a '.' preceded it. -/
  def parseItem (sups : List String) (fuel : Nat) (imm : Anchor) (ts : List Tok) : Option (Item × List Tok) :=
    match fuel with
    | 0 => none
    | fuel + 1 =>
      let (field, ts) := match ts with
        | .ident f :: .colon :: rest => (some f, rest)
        | _ => (none, ts)
      match parseCore sups fuel ts with
      | none => none
      | some (p, ts) =>
        let (q, ts) := match ts with
          | .quant q :: rest => (q, rest)
          | _ => (Quant.one, ts)
        let (caps, ts) := takeCaps ts []
        if imm != .none && q != .one then none else some (.mk imm field p q caps, ts)
  def parseCore (sups : List String) (fuel : Nat) (ts : List Tok) : Option (Pat × List Tok) :=
    match fuel with
    | 0 => none
    | fuel + 1 =>
      match ts with
      | .str s :: rest => some (.node (.kind s false) [] [] false, rest)
      | .under :: rest => some (.node .wildAny [] [] false, rest)
      | .lb :: rest => parseAlts sups fuel rest #[]
      | .lp :: .ident "MISSING" :: .rp :: rest => some (.node .missingAny [] [] false, rest)
      | .lp :: .ident "MISSING" :: .ident k :: .rp :: rest => some (.node (.missingKind k true) [] [] false, rest)
      | .lp :: .ident "MISSING" :: .str k :: .rp :: rest => some (.node (.missingKind k false) [] [] false, rest)
      | .lp :: .ident "ERROR" :: rest => parseKids sups fuel .error rest {}
      | .lp :: .ident k :: .slash :: .ident sub :: rest => parseKids sups fuel (.super k (some (sub, true))) rest {}
      | .lp :: .ident k :: .slash :: .str sub :: rest => parseKids sups fuel (.super k (some (sub, false))) rest {}
      | .lp :: .ident k :: rest =>
        parseKids sups fuel (if sups.contains k then .super k none else .kind k true) rest {}
      | .lp :: .under :: rest => parseKids sups fuel .wildNamed rest {}
      | _ => none
  def parseKids (sups : List String) (fuel : Nat) (t : NodeTest) (ts : List Tok) (acc : KidsAcc) : Option (Pat × List Tok) :=
    match fuel with
    | 0 => none
    | fuel + 1 =>
      match ts with
      | .rp :: rest =>
        if acc.group > 0 then
          -- end of a non-quantified, uncaptured group: its items were spliced into the sibling
          -- sequence (a quantified or captured group is outside the fragment)
          match rest with
          | .quant _ :: _ => none
          | .cap _ :: _ => none
          | _ => if acc.dot then none else parseKids sups fuel t rest { acc with group := acc.group - 1 }
        else
        some (.node t acc.neg acc.items.toList (acc.dot && !acc.items.isEmpty), rest)
      | .dot :: rest => if acc.dot then none else parseKids sups fuel t rest { acc with dot := true }
      | .bang :: .ident f :: rest =>
        if acc.dot then none else parseKids sups fuel t rest { acc with neg := acc.neg ++ [f] }
      | .lp :: .rp :: _ => none
      | .lp :: .lp :: rest => parseKids sups fuel t (.lp :: rest) { acc with group := acc.group + 1 }
      | .lp :: .lb :: rest => parseKids sups fuel t (.lb :: rest) { acc with group := acc.group + 1 }
      | .lp :: .str x :: rest => parseKids sups fuel t (.str x :: rest) { acc with group := acc.group + 1 }
      | _ =>
        let a : Anchor := if acc.dot then (if acc.prevWild then .strict else .loose) else .none
        match parseItem sups fuel a ts with
        | none => none
        | some (it, rest) =>
          parseKids sups fuel t rest { acc with items := acc.items.push it, dot := false, prevWild := isWildAny it }
  def parseAlts (sups : List String) (fuel : Nat) (ts : List Tok) (acc : Array Item) : Option (Pat × List Tok) :=
    match fuel with
    | 0 => none
    | fuel + 1 =>
      match ts with
      | .rb :: rest => if acc.isEmpty then none else some (.alt acc.toList, rest)
      | _ =>
        match parseItem sups fuel .none ts with
        | none => none
        | some (it, rest) => if it.quant != .one then none else parseAlts sups fuel rest (acc.push it)
end

def parseTop (sups : List String) (fuel : Nat) (ts : List Tok) (acc : Array Item) : Option (List Item) :=
  match fuel with
  | 0 => none
  | fuel + 1 =>
    match ts with
    | [] => some acc.toList
    | _ =>
      match parseItem sups (ts.length + 2) .none ts with
      | none => none
      | some (it, rest) =>
        match it with
        | .mk _ f _ q _ => if q != .one || f.isSome then none else parseTop sups fuel rest (acc.push it)

def parseQuery (text : String) (sups : List String := []) : Option (List Item) :=
  let toks := (tokenize (text.length + 1) text.toList #[]).toList
  if toks.contains .bad then none else parseTop sups (toks.length + 1) toks #[]

mutual
  def Pat.hasQuant : Pat → Bool
    | .node _ _ kids _ => Item.anyQuant kids
    | .alt alts => Item.anyQuant alts
  def Item.hasQuant : Item → Bool
    | .mk _ _ p q _ => q != .one || p.hasQuant
  def Item.anyQuant : List Item → Bool
    | [] => false
    | it :: rest => it.hasQuant || Item.anyQuant rest
end

end TsVerif.C05
