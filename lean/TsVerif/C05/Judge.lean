import TsVerif.C05.Parse
/-!
# C05 — judge: the implementation's matches against the model's `matchAll`
-/
namespace TsVerif.C05

/-- A reported match: pattern index and its captures (order irrelevant → sorted). -/
abbrev MatchKey := Nat × List (String × Nat)

def capLe (a b : String × Nat) : Bool := a.1 < b.1 || (a.1 == b.1 && a.2 ≤ b.2)

def canon (b : Binding) : List (String × Nat) := b.mergeSort capLe

/-- Model matches of all patterns of a query, one entry per distinct (pattern, root, binding). -/
def modelMatches (vt : VT) (items : List Item) : List MatchKey :=
  (items.zipIdx).flatMap fun (it, i) => (matchAll vt it).map fun rb => (i, canon rb.2)

def countOf (x : MatchKey) (xs : List MatchKey) : Nat := (xs.filter fun y => y == x).length

/-- Every implementation match is a model match, counted with multiplicity. -/
def soundB (impl model : List MatchKey) : Bool := impl.all fun x => countOf x impl ≤ countOf x model

/-- Every model match is reported (with multiplicity). -/
def completeB (impl model : List MatchKey) : Bool := model.all fun x => countOf x model ≤ countOf x impl

/-- `xs` is a sub-multiset of `ys` (both sorted or not). -/
def subBag (xs ys : List (String × Nat)) : Bool :=
  xs.all fun x => (xs.filter (· == x)).length ≤ (ys.filter (· == x)).length

mutual
  def maxFanout : VT → Nat
    | .mk _ kids => max kids.length (maxFanoutList kids)
  def maxFanoutList : List VT → Nat
    | [] => 0
    | t :: ts => max (maxFanout t) (maxFanoutList ts)
end

end TsVerif.C05
