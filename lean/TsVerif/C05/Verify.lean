import TsVerif.C05.Model
/-!
# C05 — a Sat-verifier for one given binding (no enumeration)

`verifyItem tgt it n` decides whether the pattern `it` matches at node `n` with exactly the capture
sequence `tgt` (pattern order).  Instead of enumerating bindings it pushes *sets of positions* in
`tgt` through the pattern: a position `p` means "the first `p` captures of `tgt` have been produced".
Every combinator maps a set of positions to a set of positions, so quantified patterns over wide
sibling lists cost (siblings × |tgt|) instead of 2^siblings.  Used by the driver for quantified
queries on trees with a large fan-out, where `matchAll` is not run.
-/
namespace TsVerif.C05

abbrev PosSet := List Nat

def pdedup (l : List Nat) : List Nat := dedup l

/-- Emit the captures `caps` on node `id` from position `p`: the next `caps.length` entries of the
target must be exactly these. -/
def emitCaps (tgt : Array (String × Nat)) (caps : List String) (id : Nat) (p : Nat) : Option Nat :=
  match caps with
  | [] => some p
  | c :: rest => if tgt[p]? == some (c, id) then emitCaps tgt rest id (p + 1) else none

/-- One sibling is taken for this item: `f c P` are the positions after matching the item at `c`
from positions `P`; `g cs P` continues with the remaining items on the siblings after it. -/
def seqOneS (imm : Anchor) (f : VT → PosSet → PosSet) (g : List VT → PosSet → PosSet) :
    List VT → PosSet → PosSet
  | [], _ => []
  | c :: cs, P =>
    if P.isEmpty then [] else
    pdedup (g cs (f c P) ++ seqOneS imm f g cs (if blocked imm c then [] else P))

/-- One or more siblings: `P0` = positions that have not taken a node yet, `P1` = have taken ≥ 1. -/
def seqManyS (imm : Anchor) (f : VT → PosSet → PosSet) (g : List VT → PosSet → PosSet) :
    List VT → PosSet → PosSet → PosSet
  | [], _, _ => []
  | c :: cs, P0, P1 =>
    if P0.isEmpty && P1.isEmpty then [] else
    let taken := pdedup (f c P0 ++ f c P1)
    let keep (P : PosSet) : PosSet := if blocked imm c then [] else P
    pdedup (g cs taken ++ seqManyS imm f g cs (keep P0) (pdedup (taken ++ keep P1)))

def seqS (q : Quant) (imm : Anchor) (f : VT → PosSet → PosSet) (g0 g1 : List VT → PosSet → PosSet)
    (sibs : List VT) (P : PosSet) : PosSet :=
  match q with
  | .one => seqOneS imm f g1 sibs P
  | .opt => pdedup (g0 sibs P ++ seqOneS imm f g1 sibs P)
  | .star => pdedup (g0 sibs P ++ seqManyS imm f g1 sibs P [])
  | .plus => seqManyS imm f g1 sibs P []

mutual
  /-- `extra`: captures written on enclosing alternations; the compiler adds them to the first step
  of every branch, so they follow the branch root's own captures. -/
  def verifyPat (tgt : Array (String × Nat)) : Pat → List String → VT → PosSet → PosSet
    | .node t neg kids last, caps, n, P =>
      if testNode t n.info && negOk neg n then
        verifyItems tgt kids last false false n.kids (pdedup (P.filterMap fun q => emitCaps tgt caps n.info.id q))
      else []
    | .alt alts, caps, n, P => pdedup (verifyAlts tgt alts caps n P)
  def verifyAlts (tgt : Array (String × Nat)) : List Item → List String → VT → PosSet → PosSet
    | [], _, _, _ => []
    | it :: rest, extra, n, P => verifyItem tgt it extra n P ++ verifyAlts tgt rest extra n P
  def verifyItem (tgt : Array (String × Nat)) : Item → List String → VT → PosSet → PosSet
    | .mk _ f p _ caps, extra, n, P =>
      if fieldOk f n.info then verifyPat tgt p (caps ++ extra) n P else []
  def verifyItems (tgt : Array (String × Nat)) : List Item → Bool → Bool → Bool → List VT → PosSet → PosSet
    | [], last, _, any, sibs, P => if (last && any) && sibs.any (fun c => c.info.named) then [] else P
    | it :: rest, last, w, any, sibs, P =>
      seqS it.quant (waived w it.imm) (fun c Q => verifyItem tgt it [] c Q)
        (verifyItems tgt rest last true any) (verifyItems tgt rest last false true) sibs P
end

/-- Does some node of the tree satisfy `it` with exactly the capture sequence `tgt`? -/
def verifyAnywhere (vt : VT) (it : Item) (tgt : List (String × Nat)) : Bool :=
  let a := tgt.toArray
  (nodesOf vt).any fun n => (verifyItem a it [] n [0]).contains a.size

end TsVerif.C05
