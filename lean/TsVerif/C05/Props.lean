import TsVerif.C05.Model
import TsVerif.C05.CapQuant
import TsVerif.C11.Props
/-!
# C05 — Query results are exactly the matches the pattern semantics define

Property text: *Running a query over a tree returns only matches that satisfy the pattern (node
types, wildcards, fields and negated fields, anchors, supertypes, MISSING/ERROR, alternations,
quantifiers) with captures bound to the nodes that satisfy it, and for quantifier-free patterns it
returns every distinct binding of the captures exactly once.  Impossible patterns are rejected at
compile time with an error offset inside the source, and no pattern that matches some error-free
tree of the language is rejected.*

## Clause map: each phrase of the property text → theorems, with status

Status: **proved** (kernel-checked, for all inputs of the fragment) · **partial** (under the stated
hypothesis) · **judged** (decided by the Lean judge on the real `Query::new` / `QueryCursor::matches` of every
generated case) · **nothing** (not decided by anything here).  Files: (P) this file, (J) JudgeProps.lean,
(V) VerifyProps.lean, (G) GroupProps.lean.  All theorems are about the model (`Model.lean`, trusted to be the
documented semantics) and the judge; everything about the IMPLEMENTATION is judged.

1. *"returns only matches that satisfy the pattern (node types, wildcards, fields and negated fields, anchors,
   supertypes, MISSING/ERROR, alternations, quantifiers) with captures bound to the nodes that satisfy it"*
   - the semantics: `SatPat/SatAlts/SatItem/SatItems` with `testNode` (kinds, `(_)`, `_`, MISSING, ERROR,
     supertypes), `fieldOk`, `negOk`, `blocked`/`One`/`Many`/`EndOk` (anchors), `Seq` (quantifiers) — definitions.
   - enumeration = semantics: `matchAll_sound`, `mem_matchAll_iff` (J) (BOTH inclusions:
     `(r, β) ∈ matchAll ⇔ ∃ node with id r, SatItem p n β`), `mem_matchPat/Item/Items_iff`, `mem_seq*_iff` —
     **proved**, whole fragment (quantified patterns included).
   - what the judge compares with IS the semantics: `mem_modelMatches_iff` (J), `canon_perm` (J) (captures are
     compared sorted: order inside a match is not part of the claim) — **proved**.
   - real matches ⊆ model matches: **judged** on every case, quantified or not (`impl.all model.contains`).
   - wide trees (fan-out > 9, quantified): every real match is checked by the position-set verifier:
     `verifyAnywhere_iff`, `verifyAnywhere_sound`, `verifyAnywhere_complete` (V) — **proved**; the run is **judged**.
2. *"for quantifier-free patterns it returns every distinct binding of the captures exactly once"*
   - `matchAll_complete` (= `matchAll_complete_qfree`), `matchAll_nodup`, `matchAll_exactly_once` (J) — **proved**
     ("distinct" = distinct (root node, capture assignment); solutions that differ only in uncaptured nodes
     are one binding).  Proved for ALL patterns of the fragment; the implementation is held to it for
     quantifier-free ones.
   - the driver's test is multiset equality: `counts_eq_of_sound_complete` (J) — **proved**; the real run is
     **judged** (known findings: `duplicate`, `incomplete-subsumed`).
   - (beyond the text) quantified patterns: "the longest binding is covered" (`?`-only queries) and "every
     (capture, node) pair of the model is bound in some real match" — **judged** only.
3. *"Impossible patterns are rejected at compile time with an error offset inside the source"*
   - offset ≤ source length for every rejected query: **judged**.
   - "impossible ⇒ rejected": **nothing** (impossibility quantifies over all trees of the language; a compiled
     pattern without any model match on the explored trees is only counted, `qempty`).
4. *"no pattern that matches some error-free tree of the language is rejected"* — **judged**, and only against the
   explored error-free trees: a rejected pattern with a model match there is a violation
   (`rejected-but-matches`; known findings for impossible alternation branches / optional children).
5. (supporting, not in the text) capture quantifiers: `count_Seq`, `count_SatItem`,
   `capture_count_within_quantifier` — **proved** (uses the GENERATED `quantifier_add/join/mul`); the compiler's
   table = `capQItem`: **judged** (obligation `corr:capQItem`).
6. (supporting) groups: `expandBs_direct`, `satVsK_finalize`, `buildNode_direct` (G) — **partial**: for nodes with at
   most `n` children; `kids_le_maxFanout` (J) discharges that for every node of the tree when the parser is
   given `n = maxFanout vt` (the driver does) — the parser's expansion of groups equals the direct semantics
   `SatE/SatEs`; step 1 of the desugaring (`bareElem`) is syntactic and trusted.

Fragment (compared): named nodes, anonymous literals, `(_)`, `_`, `(MISSING)`, `(MISSING kind)`, `(ERROR …)`,
supertypes `(sup)` / `(sup/sub)`, fields, negated fields, children in order, anchors (leading / between /
trailing), alternations (also nested, at the root, quantified), quantifiers `? * +` on child patterns, groups
among children (plain, captured, quantified).
OUTSIDE the fragment — the query is parsed to `none`, counted as `skip_unsupported` and NOT compared (nothing
decides its results in C05; C11 still judges the agreement of the cursor's views on such queries, not their
meaning): top-level sibling groups (non-rooted patterns); an anchor before a quantified child pattern or group;
a quantified or field-prefixed root; a quantifier on an alternation BRANCH; a repeated group that has variants
(contains an optional group) or whose body can match nothing; a captured / anchored group whose first element
is quantified; an anchor at the start or end inside a group; negated fields inside a group; more than 128
variants; predicates and directives (`#eq?` … are C11's); query comments; `(MISSING …)` with children.
≈ 2.8 % of the thorough tier's generated queries (2 286 of 81 636).

Choices where the docs are silent — the implementation decided (each was a model/implementation
disagreement that was repaired in the model):
* `(kind)` also matches a MISSING node of that kind; `(_)` matches MISSING named nodes but not ERROR;
* an anchor ignores anonymous nodes (`Anchor.loose`), except that after the unnamed wildcard `_`
  nothing may be skipped (`Anchor.strict`, `seeking_immediate_match`);
* when an optional/starred child pattern matches zero nodes the anchor of the next child pattern
  is waived (`waived`); a trailing anchor then applies to the last node that did match (`EndOk`),
  and to nothing when no child pattern matched a node at all;
* repetitions of a quantified child need not be adjacent (order-preserving selection);
* capture order inside a match is irrelevant (bindings are compared sorted).
Compile verdicts and the comparison with the real cursor are judged (Judge.lean, Drivers/C05.lean).
-/
namespace TsVerif.C05

theorem mem_cross {xs ys : List Binding} {b : Binding} :
    b ∈ cross xs ys ↔ ∃ b1, b1 ∈ xs ∧ ∃ b2, b2 ∈ ys ∧ b = b1 ++ b2 := by
  unfold cross
  simp only [List.mem_flatMap, List.mem_map]
  constructor
  · rintro ⟨a, ha, c, hc, rfl⟩; exact ⟨a, ha, c, hc, rfl⟩
  · rintro ⟨a, ha, c, hc, rfl⟩; exact ⟨a, ha, c, hc, rfl⟩

section generic
variable {imm : Anchor} {f : VT → List Binding} {g : List VT → List Binding}
variable {F : VT → Binding → Prop} {G : List VT → Binding → Prop}

theorem mem_seqOne_iff (hf : ∀ c b, b ∈ f c ↔ F c b) (hg : ∀ s b, b ∈ g s ↔ G s b) :
    ∀ (sibs : List VT) (b : Binding), b ∈ seqOne imm f g sibs ↔ One imm F G sibs b
  | [], b => by
    simp only [seqOne, List.not_mem_nil, false_iff]
    intro h; cases h
  | c :: cs, b => by
    have ih := mem_seqOne_iff hf hg cs
    simp only [seqOne, List.mem_append, mem_cross]
    constructor
    · rintro (⟨b1, h1, b2, h2, rfl⟩ | h)
      · exact One.take ((hf _ _).1 h1) ((hg _ _).1 h2)
      · by_cases hb : blocked imm c = true
        · simp [hb] at h
        · simp only [hb] at h
          exact One.skip (by simpa using hb) ((ih b).1 (by simpa using h))
    · intro h
      cases h with
      | take h1 h2 => exact Or.inl ⟨_, (hf _ _).2 h1, _, (hg _ _).2 h2, rfl⟩
      | skip hb h => exact Or.inr (by simp [hb]; exact (ih b).2 h)

theorem mem_seqMany_iff (hf : ∀ c b, b ∈ f c ↔ F c b) (hg : ∀ s b, b ∈ g s ↔ G s b) :
    ∀ (sibs : List VT) (b : Binding), b ∈ seqMany imm f g sibs ↔ Many imm F G sibs b
  | [], b => by
    simp only [seqMany, List.not_mem_nil, false_iff]
    intro h; cases h
  | c :: cs, b => by
    have ih := mem_seqMany_iff hf hg cs
    simp only [seqMany, List.mem_append, mem_cross]
    constructor
    · rintro ((⟨b1, h1, b2, h2, rfl⟩ | ⟨b1, h1, b2, h2, rfl⟩) | h)
      · exact Many.takeStop ((hf _ _).1 h1) ((hg _ _).1 h2)
      · exact Many.takeMore ((hf _ _).1 h1) ((ih _).1 h2)
      · by_cases hb : blocked imm c = true
        · simp [hb] at h
        · simp only [hb] at h
          exact Many.skip (by simpa using hb) ((ih b).1 (by simpa using h))
    · intro h
      cases h with
      | takeStop h1 h2 => exact Or.inl (Or.inl ⟨_, (hf _ _).2 h1, _, (hg _ _).2 h2, rfl⟩)
      | takeMore h1 h2 => exact Or.inl (Or.inr ⟨_, (hf _ _).2 h1, _, (ih _).2 h2, rfl⟩)
      | skip hb h => exact Or.inr (by simp [hb]; exact (ih b).2 h)

theorem mem_seq_iff {g0 g1 : List VT → List Binding} {G0 G1 : List VT → Binding → Prop}
    (hf : ∀ c b, b ∈ f c ↔ F c b) (hg0 : ∀ s b, b ∈ g0 s ↔ G0 s b) (hg1 : ∀ s b, b ∈ g1 s ↔ G1 s b)
    (q : Quant) (sibs : List VT) (b : Binding) :
    b ∈ seq q imm f g0 g1 sibs ↔ Seq q imm F G0 G1 sibs b := by
  cases q <;> simp only [seq, Seq, List.mem_append, mem_seqOne_iff hf hg1, mem_seqMany_iff hf hg1, hg0]

end generic

theorem mem_endOk_iff (last : Bool) (sibs : List VT) (b : Binding) :
    b ∈ endOk last sibs ↔ EndOk last sibs b := by
  unfold endOk EndOk
  cases last <;> simp
  exact And.comm

theorem mem_dedup {α : Type} [DecidableEq α] (a : α) : ∀ (l : List α), a ∈ dedup l ↔ a ∈ l
  | [] => by simp [dedup]
  | x :: l => by
    have ih := mem_dedup a l
    unfold dedup
    by_cases h : x ∈ dedup l
    · rw [if_pos h, ih, List.mem_cons]
      constructor
      · exact Or.inr
      · rintro (rfl | h')
        · exact (mem_dedup a l).1 h
        · exact h'
    · rw [if_neg h, List.mem_cons, List.mem_cons, ih]

theorem nodup_dedup {α : Type} [DecidableEq α] : ∀ (l : List α), (dedup l).Nodup
  | [] => by simp [dedup]
  | x :: l => by
    have ih := nodup_dedup l
    unfold dedup
    by_cases h : x ∈ dedup l
    · rw [if_pos h]; exact ih
    · rw [if_neg h]; exact List.nodup_cons.2 ⟨h, ih⟩

mutual
  theorem mem_matchPat_iff : ∀ (p : Pat) (n : VT) (b : Binding), b ∈ matchPat p n ↔ SatPat p n b
    | .node t neg kids last, n, b => by
      unfold matchPat SatPat
      by_cases h : (testNode t n.info && negOk neg n) = true
      · rw [if_pos h, mem_matchItems_iff kids last false false n.kids b]
        simp only [Bool.and_eq_true] at h
        simp [h.1, h.2]
      · rw [if_neg h]
        simp only [Bool.and_eq_true] at h
        simp only [List.not_mem_nil, false_iff]
        intro ⟨h1, h2, _⟩
        exact h ⟨h1, h2⟩
    | .alt alts, n, b => by
      unfold matchPat SatPat
      exact mem_matchAlts_iff alts n b
  theorem mem_matchAlts_iff : ∀ (alts : List Item) (n : VT) (b : Binding),
      b ∈ matchAlts alts n ↔ SatAlts alts n b
    | [], n, b => by unfold matchAlts SatAlts; simp
    | it :: rest, n, b => by
      unfold matchAlts SatAlts
      rw [List.mem_append, mem_matchItem_iff it n b, mem_matchAlts_iff rest n b]
  theorem mem_matchItem_iff : ∀ (it : Item) (n : VT) (b : Binding), b ∈ matchItem it n ↔ SatItem it n b
    | .mk imm f p q caps, n, b => by
      unfold matchItem SatItem
      by_cases h : fieldOk f n.info = true
      · rw [if_pos h]
        simp only [List.mem_map, h, true_and]
        constructor
        · rintro ⟨b', hb', rfl⟩; exact ⟨b', (mem_matchPat_iff p n b').1 hb', rfl⟩
        · rintro ⟨b', hb', rfl⟩; exact ⟨b', (mem_matchPat_iff p n b').2 hb', rfl⟩
      · rw [if_neg h]
        simp only [List.not_mem_nil, false_iff]
        intro ⟨h1, _⟩
        exact h h1
  theorem mem_matchItems_iff : ∀ (items : List Item) (last w any : Bool) (sibs : List VT) (b : Binding),
      b ∈ matchItems items last w any sibs ↔ SatItems items last w any sibs b
    | [], last, w, any, sibs, b => by
      unfold matchItems SatItems
      exact mem_endOk_iff (last && any) sibs b
    | it :: rest, last, w, any, sibs, b => by
      unfold matchItems SatItems
      exact mem_seq_iff (fun c b => mem_matchItem_iff it c b)
        (fun s b => mem_matchItems_iff rest last true any s b)
        (fun s b => mem_matchItems_iff rest last false true s b) _ _ _
end

/-- `matchAll_sound`: everything the enumeration returns satisfies the pattern at a node of the tree. -/
theorem matchAll_sound (vt : VT) (p : Item) (r : Nat) (b : Binding) (h : (r, b) ∈ matchAll vt p) :
    ∃ n, n ∈ nodesOf vt ∧ n.info.id = r ∧ SatItem p n b := by
  unfold matchAll at h
  rw [mem_dedup] at h
  unfold matchAllRaw at h
  simp only [List.mem_flatMap, List.mem_map, Prod.mk.injEq] at h
  obtain ⟨n, hn, b', hb', rfl, rfl⟩ := h
  exact ⟨n, hn, rfl, (mem_matchItem_iff p n _).1 hb'⟩

/-- `matchAll_complete`: every satisfying (node, binding) is returned — for every pattern of the
fragment (quantified ones included). -/
theorem matchAll_complete (vt : VT) (p : Item) (n : VT) (b : Binding)
    (hn : n ∈ nodesOf vt) (h : SatItem p n b) : (n.info.id, b) ∈ matchAll vt p := by
  unfold matchAll
  rw [mem_dedup]
  unfold matchAllRaw
  simp only [List.mem_flatMap, List.mem_map, Prod.mk.injEq]
  exact ⟨n, hn, b, (mem_matchItem_iff p n b).2 h, rfl, rfl⟩

/-- `matchAll_nodup`: each distinct (root, binding) exactly once. -/
theorem matchAll_nodup (vt : VT) (p : Item) : (matchAll vt p).Nodup := by
  unfold matchAll
  exact nodup_dedup _

/-- `matchAll_complete_qfree`: the instance the implementation is held to with equality. -/
theorem matchAll_complete_qfree (vt : VT) (p : Item) (n : VT) (b : Binding)
    (hn : n ∈ nodesOf vt) (h : SatItem p n b) : (n.info.id, b) ∈ matchAll vt p :=
  matchAll_complete vt p n b hn h

/-! Non-vacuity: `(paren (item) @x . ")")` on the tree of `( a b )`. -/
def exLeaf (id : Nat) (kind : String) (named : Bool) : VT :=
  .mk { id := id, kind := kind, named := named, missing := false, error := false, extra := false,
        field := none, sb := id, eb := id + 1 } []
def exTree : VT :=
  .mk { id := 0, kind := "paren", named := true, missing := false, error := false, extra := false,
        field := none, sb := 0, eb := 9 }
    [exLeaf 1 "(" false, exLeaf 2 "item" true, exLeaf 3 "item" true, exLeaf 4 ")" false]
def exPat : Item :=
  .mk .none none (.node (.kind "paren" true) []
    [.mk .none none (.node (.kind "item" true) [] [] false) .one ["x"],
     .mk .loose none (.node (.kind ")" false) [] [] false) .one []] false) .one []

example : matchAll exTree exPat = [(0, [("x", 3)])] := by decide
example : SatItem exPat exTree [("x", 3)] :=
  (mem_matchItem_iff exPat exTree _).1 (by decide)
example : ∃ n, n ∈ nodesOf exTree ∧ n.info.id = 0 ∧ SatItem exPat n [("x", 3)] :=
  matchAll_sound exTree exPat 0 _ (by decide)


/-! ## Capture quantifiers -/
section capq
open TsGen TsVerif.C11

theorem countCap_append (c : String) (a b : Binding) : countCap c (a ++ b) = countCap c a + countCap c b := by
  simp [countCap]

theorem countCap_caps (c : String) (caps : List String) (id : Nat) :
    countCap c (caps.map fun x => (x, id)) = countName c caps := by
  induction caps with
  | nil => rfl
  | cons x t ih =>
    simp only [List.map_cons, countCap, countName, List.filter_cons] at *
    by_cases h : x = c <;> simp [h, ih]

theorem occ_natQ (k : Nat) : occ (natQ k) k := by
  match k with
  | 0 => simp [natQ, occ]
  | 1 => simp [natQ, occ]
  | k + 2 => simp [natQ, occ]

/-- zero repetitions are always allowed by `? *`. -/
theorem occ_mul_zero (q : TSQuantifier) :
    occ (quantifier_mul .TSQuantifierZeroOrOne q) 0 ∧ occ (quantifier_mul .TSQuantifierZeroOrMore q) 0 := by
  cases q <;> simp [occ, quantifier_mul]

theorem occ_mul_one (q : TSQuantifier) (m : Nat) (h : occ q m) :
    occ (quantifier_mul .TSQuantifierOne q) m ∧ occ (quantifier_mul .TSQuantifierZeroOrOne q) m ∧
    occ (quantifier_mul .TSQuantifierOneOrMore q) m ∧ occ (quantifier_mul .TSQuantifierZeroOrMore q) m := by
  cases q <;> simp [occ, quantifier_mul] at * <;> omega

/-- one more repetition stays inside the `+` / `*` quantifier. -/
theorem occ_mul_more (q : TSQuantifier) (m k : Nat) (h : occ q m) :
    (occ (quantifier_mul .TSQuantifierOneOrMore q) k → occ (quantifier_mul .TSQuantifierOneOrMore q) (m + k)) ∧
    (occ (quantifier_mul .TSQuantifierZeroOrMore q) k → occ (quantifier_mul .TSQuantifierZeroOrMore q) (m + k)) := by
  cases q <;> simp [occ, quantifier_mul] at * <;> omega

section seq
variable {imm : Anchor} {F : VT → Binding → Prop} {G : List VT → Binding → Prop}
variable (c : String) (qf qg : TSQuantifier)

theorem count_One (hF : ∀ n b, F n b → occ qf (countCap c b)) (hG : ∀ s b, G s b → occ qg (countCap c b))
    (sibs : List VT) (b : Binding) (h : One imm F G sibs b) :
    ∃ m n, countCap c b = m + n ∧ occ qf m ∧ occ qg n := by
  induction h with
  | take h1 h2 => exact ⟨_, _, countCap_append _ _ _, hF _ _ h1, hG _ _ h2⟩
  | skip _ _ ih => exact ih

theorem count_Many (hF : ∀ n b, F n b → occ qf (countCap c b)) (hG : ∀ s b, G s b → occ qg (countCap c b))
    (sibs : List VT) (b : Binding) (h : Many imm F G sibs b) :
    ∃ m n, countCap c b = m + n ∧ occ (quantifier_mul .TSQuantifierOneOrMore qf) m ∧
      occ (quantifier_mul .TSQuantifierZeroOrMore qf) m ∧ occ qg n := by
  induction h with
  | takeStop h1 h2 =>
    have := occ_mul_one qf _ (hF _ _ h1)
    exact ⟨_, _, countCap_append _ _ _, this.2.2.1, this.2.2.2, hG _ _ h2⟩
  | takeMore h1 _ ih =>
    obtain ⟨m, n, he, hm1, hm2, hn⟩ := ih
    have := occ_mul_more qf _ m (hF _ _ h1)
    refine ⟨countCap c _ + m, n, ?_, this.1 hm1, this.2 hm2, hn⟩
    rw [countCap_append, he]; omega
  | skip _ _ ih => exact ih

theorem count_Seq (q : Quant) {G0 G1 : List VT → Binding → Prop}
    (hF : ∀ n b, F n b → occ qf (countCap c b))
    (hG0 : ∀ s b, G0 s b → occ qg (countCap c b)) (hG1 : ∀ s b, G1 s b → occ qg (countCap c b))
    (sibs : List VT) (b : Binding) (h : Seq q imm F G0 G1 sibs b) :
    occ (quantifier_add (quantifier_mul (qOf q) qf) qg) (countCap c b) := by
  cases q with
  | one =>
    obtain ⟨m, n, he, hm, hn⟩ := count_One c qf qg hF hG1 sibs b h
    rw [he]; exact quantifier_add_sound _ _ _ _ (occ_mul_one qf m hm).1 hn
  | opt =>
    rcases h with h | h
    · have := quantifier_add_sound _ _ 0 _ (occ_mul_zero qf).1 (hG0 _ _ h)
      simpa [qOf] using this
    · obtain ⟨m, n, he, hm, hn⟩ := count_One c qf qg hF hG1 sibs b h
      rw [he]; exact quantifier_add_sound _ _ _ _ (occ_mul_one qf m hm).2.1 hn
  | star =>
    rcases h with h | h
    · have := quantifier_add_sound _ _ 0 _ (occ_mul_zero qf).2 (hG0 _ _ h)
      simpa [qOf] using this
    · obtain ⟨m, n, he, _, hm, hn⟩ := count_Many c qf qg hF hG1 sibs b h
      rw [he]; exact quantifier_add_sound _ _ _ _ hm hn
  | plus =>
    obtain ⟨m, n, he, hm, _, hn⟩ := count_Many c qf qg hF hG1 sibs b h
    rw [he]; exact quantifier_add_sound _ _ _ _ hm hn
end seq

mutual
  theorem count_SatPat (c : String) : ∀ (p : Pat) (n : VT) (b : Binding), SatPat p n b → occ (capQPat c p) (countCap c b)
    | .node t neg kids last, n, b => by
      unfold SatPat capQPat
      intro ⟨_, _, h⟩
      exact count_SatItems c kids last false false n.kids b h
    | .alt alts, n, b => by
      unfold SatPat capQPat
      intro h
      obtain ⟨q, hq, ho⟩ := count_SatAlts c alts n b h
      rw [hq]; exact ho
  theorem count_SatAlts (c : String) : ∀ (alts : List Item) (n : VT) (b : Binding), SatAlts alts n b →
      ∃ q, capQAlts c alts = some q ∧ occ q (countCap c b)
    | [], n, b => by unfold SatAlts; intro h; exact h.elim
    | it :: rest, n, b => by
      unfold SatAlts capQAlts
      intro h
      cases hr : capQAlts c rest with
      | none =>
        refine ⟨_, rfl, ?_⟩
        rcases h with h | h
        · exact count_SatItem c it n b h
        · obtain ⟨q, hq, _⟩ := count_SatAlts c rest n b h
          rw [hr] at hq; cases hq
      | some q =>
        refine ⟨_, rfl, ?_⟩
        rcases h with h | h
        · exact quantifier_join_sound _ _ _ (Or.inl (count_SatItem c it n b h))
        · obtain ⟨q', hq, ho⟩ := count_SatAlts c rest n b h
          rw [hr] at hq; cases hq
          exact quantifier_join_sound _ _ _ (Or.inr ho)
  theorem count_SatItem (c : String) : ∀ (it : Item) (n : VT) (b : Binding), SatItem it n b → occ (capQItem c it) (countCap c b)
    | .mk imm f p q caps, n, b => by
      unfold SatItem capQItem
      intro ⟨_, b', hp, he⟩
      subst he
      rw [countCap_append, countCap_caps]
      exact quantifier_add_sound _ _ _ _ (occ_natQ _) (count_SatPat c p n b' hp)
  theorem count_SatItems (c : String) : ∀ (items : List Item) (last w any : Bool) (sibs : List VT) (b : Binding),
      SatItems items last w any sibs b → occ (capQItems c items) (countCap c b)
    | [], last, w, any, sibs, b => by
      unfold SatItems capQItems EndOk
      intro ⟨h, _⟩
      subst h; simp [countCap, occ]
    | it :: rest, last, w, any, sibs, b => by
      unfold SatItems capQItems
      intro h
      exact count_Seq c _ _ it.quant (fun n b h => count_SatItem c it n b h)
        (fun s b h => count_SatItems c rest last true any s b h)
        (fun s b h => count_SatItems c rest last false true s b h) sibs b h
end

/-- `capture_count_within_quantifier`: in every match the model enumerates, capture `c` occurs a
number of times allowed by the quantifier computed with the generated tables. -/
theorem capture_count_within_quantifier (vt : VT) (p : Item) (c : String) (r : Nat) (b : Binding)
    (h : (r, b) ∈ matchAll vt p) : occ (capQItem c p) (countCap c b) := by
  obtain ⟨n, _, _, hs⟩ := matchAll_sound vt p r b h
  exact count_SatItem c p n b hs


end capq

end TsVerif.C05
