import TsVerif.C05.Props
import TsVerif.C05.Parse
/-!
# C05 — the desugaring of groups equals a direct semantics of groups

`Parse.lean` has no group constructor in `Pat`: a node pattern whose children contain (captured /
quantified) groups is expanded into VARIANTS of its child list (`expandBs`, `finalizeV`, `buildNode`).
Here a DIRECT semantics of child elements with groups is defined and the expansion is proved equal to it.

* `SatE / SatEs` — direct semantics of (bare) elements in continuation-passing style.  A state `St`
  carries what the anchor of the next child pattern depends on: `pw` (previous pattern is the unnamed
  wildcard: strict anchor), `gw` (a quantified group that matched nothing directly precedes: anchor
  waived), `w` (the previous child pattern matched zero nodes), `any` (some child pattern matched a
  node).  `( … )?` = nothing or the elements once; `( … )*` = nothing or `k ≥ 1` repetitions in sequence
  (`reps`, NO bound on `k`); `( … )+` = `k ≥ 1` repetitions.
* `SatVsK` — the semantics of one variant (a `List V`), same style.
* `expandBs_sound` / `expandBs_complete` — for sibling lists of length ≤ `n` the direct semantics holds
  iff some variant of `expandBs n` holds (`expandBs_direct`).  The bound is where "`n` repetitions
  suffice" is proved: a repetition takes at least one node (`SatVsK_len`, `minNodes`).
* `satVsK_finalize` — a variant's semantics is `SatItems` of its finalized item list (the static anchors
  computed by `finalizeV` are the dynamic ones of `St`).
* `buildNode_direct` — the node pattern built by the parser (one node pattern, or an alternation of one
  node pattern per variant) is satisfied exactly when node test and negated fields hold and the direct
  semantics of the (bare) child elements holds on the node's children, for nodes with ≤ `n` children.

What stays trusted: step 1 of the desugaring (`bareElem`: captures / anchor of a group go to its first
element — purely syntactic) and that `SatE` is the intended reading of groups.
-/
namespace TsVerif.C05

/-! ## Generic facts about `One` / `Many` / `Seq` -/
section generic
variable {imm : Anchor} {F : VT → Binding → Prop}

theorem One_mono_len {G G' : List VT → Binding → Prop} {sibs : List VT} {b : Binding}
    (h : One imm F G sibs b) : (∀ s b, s.length < sibs.length → G s b → G' s b) → One imm F G' sibs b := by
  induction h with
  | take h1 h2 => intro hm; exact One.take h1 (hm _ _ (by simp) h2)
  | skip hb _ ih => intro hm; exact One.skip hb (ih fun s b hl => hm s b (by simp; omega))

theorem Many_mono_len {G G' : List VT → Binding → Prop} {sibs : List VT} {b : Binding}
    (h : Many imm F G sibs b) : (∀ s b, s.length < sibs.length → G s b → G' s b) → Many imm F G' sibs b := by
  induction h with
  | takeStop h1 h2 => intro hm; exact Many.takeStop h1 (hm _ _ (by simp) h2)
  | takeMore h1 _ ih => intro hm; exact Many.takeMore h1 (ih fun s b hl => hm s b (by simp; omega))
  | skip hb _ ih => intro hm; exact Many.skip hb (ih fun s b hl => hm s b (by simp; omega))

theorem Seq_mono_len {q : Quant} {G0 G1 G0' G1' : List VT → Binding → Prop} {sibs : List VT} {b : Binding}
    (h0 : ∀ s b, s.length ≤ sibs.length → G0 s b → G0' s b)
    (h1 : ∀ s b, s.length ≤ sibs.length → G1 s b → G1' s b)
    (h : Seq q imm F G0 G1 sibs b) : Seq q imm F G0' G1' sibs b := by
  cases q with
  | one => exact One_mono_len h fun s b hl => h1 s b (Nat.le_of_lt hl)
  | opt =>
    rcases h with h | h
    · exact Or.inl (h0 _ _ (Nat.le_refl _) h)
    · exact Or.inr (One_mono_len h fun s b hl => h1 s b (Nat.le_of_lt hl))
  | star =>
    rcases h with h | h
    · exact Or.inl (h0 _ _ (Nat.le_refl _) h)
    · exact Or.inr (Many_mono_len h fun s b hl => h1 s b (Nat.le_of_lt hl))
  | plus => exact Many_mono_len h fun s b hl => h1 s b (Nat.le_of_lt hl)

theorem Seq_congr {q : Quant} {G0 G1 G0' G1' : List VT → Binding → Prop} {sibs : List VT} {b : Binding}
    (h0 : ∀ s b, G0 s b ↔ G0' s b) (h1 : ∀ s b, G1 s b ↔ G1' s b) :
    Seq q imm F G0 G1 sibs b ↔ Seq q imm F G0' G1' sibs b :=
  ⟨Seq_mono_len (fun s b _ => (h0 s b).1) (fun s b _ => (h1 s b).1),
   Seq_mono_len (fun s b _ => (h0 s b).2) (fun s b _ => (h1 s b).2)⟩

theorem One_exists {α : Type} {P : α → Prop} {G : α → List VT → Binding → Prop} {sibs : List VT} {b : Binding}
    (h : One imm F (fun s b => ∃ x, P x ∧ G x s b) sibs b) : ∃ x, P x ∧ One imm F (G x) sibs b := by
  induction h with
  | take h1 h2 => obtain ⟨x, px, g⟩ := h2; exact ⟨x, px, One.take h1 g⟩
  | skip hb _ ih => obtain ⟨x, px, g⟩ := ih; exact ⟨x, px, One.skip hb g⟩

theorem Many_exists {α : Type} {P : α → Prop} {G : α → List VT → Binding → Prop} {sibs : List VT} {b : Binding}
    (h : Many imm F (fun s b => ∃ x, P x ∧ G x s b) sibs b) : ∃ x, P x ∧ Many imm F (G x) sibs b := by
  induction h with
  | takeStop h1 h2 => obtain ⟨x, px, g⟩ := h2; exact ⟨x, px, Many.takeStop h1 g⟩
  | takeMore h1 _ ih => obtain ⟨x, px, g⟩ := ih; exact ⟨x, px, Many.takeMore h1 g⟩
  | skip hb _ ih => obtain ⟨x, px, g⟩ := ih; exact ⟨x, px, Many.skip hb g⟩

theorem Seq_exists {α : Type} {P : α → Prop} {q : Quant} {G0 G1 : α → List VT → Binding → Prop}
    {sibs : List VT} {b : Binding}
    (h : Seq q imm F (fun s b => ∃ x, P x ∧ G0 x s b) (fun s b => ∃ x, P x ∧ G1 x s b) sibs b) :
    ∃ x, P x ∧ Seq q imm F (G0 x) (G1 x) sibs b := by
  cases q with
  | one => exact One_exists h
  | opt =>
    rcases h with ⟨x, px, g⟩ | h
    · exact ⟨x, px, Or.inl g⟩
    · obtain ⟨x, px, g⟩ := One_exists h; exact ⟨x, px, Or.inr g⟩
  | star =>
    rcases h with ⟨x, px, g⟩ | h
    · exact ⟨x, px, Or.inl g⟩
    · obtain ⟨x, px, g⟩ := Many_exists h; exact ⟨x, px, Or.inr g⟩
  | plus => exact Many_exists h

/-- One node is taken: the continuation runs on a strictly shorter sibling list. -/
theorem One_consume {G : List VT → Binding → Prop} {sibs : List VT} {b : Binding}
    (h : One imm F G sibs b) : ∃ s b', G s b' ∧ s.length + 1 ≤ sibs.length := by
  induction h with
  | take _ h2 => exact ⟨_, _, h2, by simp⟩
  | skip _ _ ih => obtain ⟨s, b', g, hl⟩ := ih; exact ⟨s, b', g, by simp; omega⟩

theorem Many_consume {G : List VT → Binding → Prop} {sibs : List VT} {b : Binding}
    (h : Many imm F G sibs b) : ∃ s b', G s b' ∧ s.length + 1 ≤ sibs.length := by
  induction h with
  | takeStop _ h2 => exact ⟨_, _, h2, by simp⟩
  | takeMore _ _ ih => obtain ⟨s, b', g, hl⟩ := ih; exact ⟨s, b', g, by simp; omega⟩
  | skip _ _ ih => obtain ⟨s, b', g, hl⟩ := ih; exact ⟨s, b', g, by simp; omega⟩

end generic

/-! ## States, continuations, one child pattern -/

structure St where
  pw : Bool
  gw : Bool
  w : Bool
  any : Bool

abbrev Kont := St → List VT → Binding → Prop

def st0 : St := { pw := false, gw := false, w := false, any := false }

/-- The anchor of a child pattern written with (`d`) or without a `.` in state `st`. -/
def anchorOf (d : Bool) (st : St) : Anchor :=
  if d && !st.gw then (if st.pw then .strict else .loose) else .none

/-- after the child pattern matched no node / at least one node -/
def after0 (it : Item) (st : St) : St := { pw := isWildAny it, gw := false, w := true, any := st.any }
def after1 (it : Item) (_st : St) : St := { pw := isWildAny it, gw := false, w := false, any := true }

/-- after a quantified group that matched nothing / after one repetition of a quantified group -/
def gapSt (st : St) : St := { st with gw := true }
def repSt (st : St) : St := { st with pw := false }

def itemStep (d : Bool) (it : Item) (st : St) (K : Kont) : List VT → Binding → Prop :=
  Seq it.quant (waived st.w (anchorOf d st)) (SatItem it) (K (after0 it st)) (K (after1 it st))

/-- `K ≤ K'` on sibling lists of length ≤ `n`. -/
def KLe (n : Nat) (K K' : Kont) : Prop := ∀ st s b, s.length ≤ n → K st s b → K' st s b

theorem itemStep_mono {n : Nat} {d : Bool} {it : Item} {st : St} {K K' : Kont} {sibs : List VT} {b : Binding}
    (hl : sibs.length ≤ n) (hk : KLe n K K') (h : itemStep d it st K sibs b) : itemStep d it st K' sibs b :=
  Seq_mono_len (fun s b hs => hk _ s b (Nat.le_trans hs hl)) (fun s b hs => hk _ s b (Nat.le_trans hs hl)) h

/-! ## Semantics of one variant -/

def SatVsK : List V → St → Kont → List VT → Binding → Prop
  | [], st, K => K st
  | .gap :: r, st, K => SatVsK r (gapSt st) K
  | .rep :: r, st, K => SatVsK r (repSt st) K
  | .it d it :: r, st, K =>
    Seq it.quant (waived st.w (anchorOf d st)) (SatItem it) (SatVsK r (after0 it st) K) (SatVsK r (after1 it st) K)

theorem SatVsK_append (K : Kont) : ∀ (a r : List V) (st : St),
    SatVsK (a ++ r) st K = SatVsK a st (fun st' => SatVsK r st' K)
  | [], r, st => by simp [SatVsK]
  | .gap :: a, r, st => by simp only [List.cons_append, SatVsK]; exact SatVsK_append K a r _
  | .rep :: a, r, st => by simp only [List.cons_append, SatVsK]; exact SatVsK_append K a r _
  | .it d it :: a, r, st => by
    simp only [List.cons_append, SatVsK]
    rw [SatVsK_append K a r, SatVsK_append K a r]

theorem SatVsK_mono {n : Nat} {K K' : Kont} (hk : KLe n K K') : ∀ (v : List V) (st : St) (sibs : List VT) (b : Binding),
    sibs.length ≤ n → SatVsK v st K sibs b → SatVsK v st K' sibs b
  | [], st, sibs, b, hl, h => by simp only [SatVsK] at h ⊢; exact hk st sibs b hl h
  | .gap :: r, st, sibs, b, hl, h => by simp only [SatVsK] at h ⊢; exact SatVsK_mono hk r _ sibs b hl h
  | .rep :: r, st, sibs, b, hl, h => by simp only [SatVsK] at h ⊢; exact SatVsK_mono hk r _ sibs b hl h
  | .it d it :: r, st, sibs, b, hl, h => by
    simp only [SatVsK] at h ⊢
    exact Seq_mono_len (fun s b hs => SatVsK_mono hk r _ s b (Nat.le_trans hs hl))
      (fun s b hs => SatVsK_mono hk r _ s b (Nat.le_trans hs hl)) h

/-- monotone in the continuation, without a length condition -/
theorem SatVsK_mono' {K K' : Kont} (hk : ∀ st s b, K st s b → K' st s b) (v : List V) (st : St)
    (sibs : List VT) (b : Binding) (h : SatVsK v st K sibs b) : SatVsK v st K' sibs b :=
  SatVsK_mono (n := sibs.length) (fun st s b _ => hk st s b) v st sibs b (Nat.le_refl _) h

theorem SatVsK_exists {α : Type} {P : α → Prop} {K : α → Kont} : ∀ (v : List V) (st : St) (sibs : List VT) (b : Binding),
    SatVsK v st (fun st' s b => ∃ x, P x ∧ K x st' s b) sibs b → ∃ x, P x ∧ SatVsK v st (K x) sibs b
  | [], st, sibs, b, h => by simp only [SatVsK] at h ⊢; exact h
  | .gap :: r, st, sibs, b, h => by simp only [SatVsK] at h ⊢; exact SatVsK_exists r _ sibs b h
  | .rep :: r, st, sibs, b, h => by simp only [SatVsK] at h ⊢; exact SatVsK_exists r _ sibs b h
  | .it d it :: r, st, sibs, b, h => by
    simp only [SatVsK] at h ⊢
    have h' := Seq_mono_len (G0' := fun s b => ∃ x, P x ∧ SatVsK r (after0 it st) (K x) s b)
      (G1' := fun s b => ∃ x, P x ∧ SatVsK r (after1 it st) (K x) s b)
      (fun s b _ hh => SatVsK_exists r _ s b hh) (fun s b _ hh => SatVsK_exists r _ s b hh) h
    exact Seq_exists h'

theorem minNodes_append : ∀ (a r : List V), minNodes (a ++ r) = minNodes a + minNodes r
  | [], r => by simp [minNodes]
  | .gap :: a, r => by simp only [List.cons_append, minNodes]; exact minNodes_append a r
  | .rep :: a, r => by simp only [List.cons_append, minNodes]; exact minNodes_append a r
  | .it d (.mk i f p q c) :: a, r => by
    simp only [List.cons_append, minNodes, minNodes_append a r]; omega

/-- a variant takes at least `minNodes` nodes -/
theorem SatVsK_len {K : Kont} : ∀ (v : List V) (st : St) (sibs : List VT) (b : Binding),
    SatVsK v st K sibs b → minNodes v ≤ sibs.length
  | [], _, _, _, _ => by simp [minNodes]
  | .gap :: r, st, sibs, b, h => by simp only [SatVsK, minNodes] at h ⊢; exact SatVsK_len r _ sibs b h
  | .rep :: r, st, sibs, b, h => by simp only [SatVsK, minNodes] at h ⊢; exact SatVsK_len r _ sibs b h
  | .it d (.mk i f p q c) :: r, st, sibs, b, h => by
    simp only [SatVsK, minNodes, Item.quant] at h ⊢
    cases q with
    | one =>
      obtain ⟨s, b', g, hl⟩ := One_consume h
      have := SatVsK_len r _ s b' g
      simp; omega
    | opt =>
      rcases h with g | h
      · have := SatVsK_len r _ sibs b g; simpa using this
      · obtain ⟨s, b', g, hl⟩ := One_consume h
        have := SatVsK_len r _ s b' g
        simp; omega
    | star =>
      rcases h with g | h
      · have := SatVsK_len r _ sibs b g; simpa using this
      · obtain ⟨s, b', g, hl⟩ := Many_consume h
        have := SatVsK_len r _ s b' g
        simp; omega
    | plus =>
      obtain ⟨s, b', g, hl⟩ := Many_consume h
      have := SatVsK_len r _ s b' g
      simp; omega

/-! ## Direct semantics of elements with groups -/

/-- `k` repetitions in sequence; `one` is the semantics of one repetition. -/
def reps (one : St → Kont → List VT → Binding → Prop) : Nat → St → Kont → List VT → Binding → Prop
  | 0, st, K => K st
  | k + 1, st, K => one st (fun st' => reps one k (repSt st') K)

mutual
  def SatE : Elem → St → Kont → List VT → Binding → Prop
    | .item d it, st, K, s, b => itemStep d it st K s b
    | .group _ es q _, st, K, s, b =>
      match q with
      | .one => SatEs es st K s b
      | .opt => K (gapSt st) s b ∨ SatEs es st (fun st' => K (repSt st')) s b
      | .star => K (gapSt st) s b ∨ ∃ k, reps (fun st K s b => SatEs es st K s b) (k + 1) st K s b
      | .plus => ∃ k, reps (fun st K s b => SatEs es st K s b) (k + 1) st K s b
  def SatEs : List Elem → St → Kont → List VT → Binding → Prop
    | [], st, K, s, b => K st s b
    | e :: r, st, K, s, b => SatE e st (fun st' s' b' => SatEs r st' K s' b') s b
end

section reps
variable {one : St → Kont → List VT → Binding → Prop} {n : Nat}

theorem reps_mono (hone : ∀ st K K' s b, s.length ≤ n → KLe n K K' → one st K s b → one st K' s b)
    {K K' : Kont} (hk : KLe n K K') : ∀ (k : Nat) (st : St) (s : List VT) (b : Binding),
    s.length ≤ n → reps one k st K s b → reps one k st K' s b
  | 0, st, s, b, hl, h => hk st s b hl h
  | k + 1, st, s, b, hl, h => by
    simp only [reps] at h ⊢
    exact hone st _ _ s b hl (fun st' s' b' hl' hh => reps_mono hone hk k _ s' b' hl' hh) h

theorem SatVsK_rep_cons (x : List V) (K : Kont) (st : St) :
    SatVsK (.rep :: x) st K = SatVsK x (repSt st) K := by simp [SatVsK]

theorem reps_of_rpt {v1 : List V} (H : ∀ st K s b, SatVsK v1 st K s b → one st K s b) :
    ∀ (k : Nat) (st : St) (K : Kont) (s : List VT) (b : Binding),
    SatVsK (rpt (v1 ++ [.rep]) k) st K s b → reps one k st K s b
  | 0, st, K, s, b, h => by simpa [rpt, SatVsK, reps] using h
  | k + 1, st, K, s, b, h => by
    simp only [rpt, reps] at h ⊢
    rw [List.append_assoc, SatVsK_append] at h
    apply H
    refine SatVsK_mono' ?_ v1 st s b h
    intro st' s' b' hh
    rw [List.singleton_append, SatVsK_rep_cons] at hh
    exact reps_of_rpt H k _ K s' b' hh

theorem rpt_of_reps {v1 : List V} (H : ∀ st K s b, s.length ≤ n → one st K s b → SatVsK v1 st K s b)
    (hone : ∀ st K K' s b, s.length ≤ n → KLe n K K' → one st K s b → one st K' s b) :
    ∀ (k : Nat) (st : St) (K : Kont) (s : List VT) (b : Binding), s.length ≤ n →
    reps one k st K s b → SatVsK (rpt (v1 ++ [.rep]) k) st K s b
  | 0, st, K, s, b, _, h => by simpa [rpt, SatVsK, reps] using h
  | k + 1, st, K, s, b, hl, h => by
    simp only [rpt, reps] at h ⊢
    rw [List.append_assoc, SatVsK_append]
    apply H st _ s b hl
    refine hone st _ _ s b hl ?_ h
    intro st' s' b' hl' hh
    rw [List.singleton_append, SatVsK_rep_cons]
    exact rpt_of_reps H hone k _ K s' b' hl' hh

end reps

mutual
  theorem SatE_mono {n : Nat} : ∀ (e : Elem) (st : St) (K K' : Kont) (s : List VT) (b : Binding),
      s.length ≤ n → KLe n K K' → SatE e st K s b → SatE e st K' s b
    | .item d it, st, K, K', s, b, hl, hk, h => by
      unfold SatE at h ⊢; exact itemStep_mono hl hk h
    | .group _ es q _, st, K, K', s, b, hl, hk, h => by
      unfold SatE at h ⊢
      cases q with
      | one => exact SatEs_mono es st K K' s b hl hk h
      | opt =>
        rcases h with h | h
        · exact Or.inl (hk _ s b hl h)
        · exact Or.inr (SatEs_mono es st _ _ s b hl (fun st' s' b' hl' hh => hk _ s' b' hl' hh) h)
      | star =>
        rcases h with h | ⟨k, h⟩
        · exact Or.inl (hk _ s b hl h)
        · exact Or.inr ⟨k, reps_mono (fun st K K' s b hl hk h => SatEs_mono es st K K' s b hl hk h) hk (k + 1) st s b hl h⟩
      | plus =>
        obtain ⟨k, h⟩ := h
        exact ⟨k, reps_mono (fun st K K' s b hl hk h => SatEs_mono es st K K' s b hl hk h) hk (k + 1) st s b hl h⟩
  theorem SatEs_mono {n : Nat} : ∀ (es : List Elem) (st : St) (K K' : Kont) (s : List VT) (b : Binding),
      s.length ≤ n → KLe n K K' → SatEs es st K s b → SatEs es st K' s b
    | [], st, K, K', s, b, hl, hk, h => by unfold SatEs at h ⊢; exact hk st s b hl h
    | e :: r, st, K, K', s, b, hl, hk, h => by
      unfold SatEs at h ⊢
      exact SatE_mono e st _ _ s b hl (fun st' s' b' hl' hh => SatEs_mono r st' K K' s' b' hl' hk hh) h
end

/-! ## Expansion = direct semantics -/

theorem mem_concatAll {xs ys : List (List V)} {v : List V} :
    v ∈ concatAll xs ys ↔ ∃ a, a ∈ xs ∧ ∃ b, b ∈ ys ∧ v = a ++ b := by
  unfold concatAll
  simp only [List.mem_flatMap, List.mem_map]
  constructor
  · rintro ⟨a, ha, c, hc, rfl⟩; exact ⟨a, ha, c, hc, rfl⟩
  · rintro ⟨a, ha, c, hc, rfl⟩; exact ⟨a, ha, c, hc, rfl⟩

theorem single?_some {vs : List (List V)} {v : List V} (h : single? vs = some v) : vs = [v] ∧ 1 ≤ minNodes v := by
  match vs, h with
  | [x], h =>
    simp only [single?] at h
    by_cases hm : (minNodes x == 0) = true
    · simp [hm] at h
    · simp only [hm] at h
      have : x = v := by simpa using h
      subst this
      refine ⟨rfl, ?_⟩
      have : minNodes x ≠ 0 := by simpa using hm
      omega
  | [], h => simp [single?] at h
  | _ :: _ :: _, h => simp [single?] at h

theorem mem_repVariants {n : Nat} {x v : List V} : v ∈ repVariants n x ↔ ∃ k, k < n ∧ v = rpt x (k + 1) := by
  unfold repVariants
  simp only [List.mem_map, List.mem_range]
  constructor
  · rintro ⟨k, hk, rfl⟩; exact ⟨k, hk, rfl⟩
  · rintro ⟨k, hk, rfl⟩; exact ⟨k, hk, rfl⟩

theorem minNodes_rpt (x : List V) : ∀ k, minNodes (rpt x k) = k * minNodes x
  | 0 => by simp [rpt, minNodes]
  | k + 1 => by simp only [rpt, minNodes_append, minNodes_rpt x k]; rw [Nat.succ_mul]; omega

theorem expandBs_cons {n : Nat} {e : Elem} {rest : List Elem} {vs : List (List V)}
    (h : expandBs n (e :: rest) = some vs) :
    ∃ a b, expandB n e = some a ∧ expandBs n rest = some b ∧ vs = concatAll a b := by
  unfold expandBs at h
  cases ha : expandB n e with
  | none => simp [ha] at h
  | some a =>
    cases hb : expandBs n rest with
    | none => simp [ha, hb] at h
    | some b =>
      simp only [ha, hb] at h
      by_cases hl : (concatAll a b).length > 128
      · simp [hl] at h
      · simp only [hl, if_false, Option.some.injEq] at h
        exact ⟨a, b, rfl, rfl, h.symm⟩

/-- the shape of `expandB` on a group -/
theorem expandB_group {n : Nat} {d : Bool} {es : List Elem} {q : Quant} {caps : List String} {vs : List (List V)}
    (h : expandB n (.group d es q caps) = some vs) :
    ∃ vs0, expandBs n es = some vs0 ∧
      match q with
      | .one => vs = vs0
      | .opt => vs = [.gap] :: vs0.map (· ++ [.rep])
      | .star => ∃ v, single? vs0 = some v ∧ vs = [.gap] :: repVariants n (v ++ [.rep])
      | .plus => ∃ v, single? vs0 = some v ∧ vs = repVariants n (v ++ [.rep]) := by
  unfold expandB at h
  cases hes : expandBs n es with
  | none => simp [hes] at h
  | some vs0 =>
    refine ⟨vs0, rfl, ?_⟩
    simp only [hes] at h
    cases q with
    | one => simpa using h.symm
    | opt => simpa using h.symm
    | star =>
      cases hs : single? vs0 with
      | none => simp [hs] at h
      | some v => simp only [hs, Option.some.injEq] at h; exact ⟨v, rfl, h.symm⟩
    | plus =>
      cases hs : single? vs0 with
      | none => simp [hs] at h
      | some v => simp only [hs, Option.some.injEq] at h; exact ⟨v, rfl, h.symm⟩

mutual
  /-- every variant implies the direct semantics (no length condition) -/
  theorem expandB_complete (n : Nat) : ∀ (e : Elem) (vs : List (List V)), expandB n e = some vs →
      ∀ v, v ∈ vs → ∀ (st : St) (K : Kont) (s : List VT) (b : Binding), SatVsK v st K s b → SatE e st K s b
    | .item d it, vs, h, v, hv, st, K, s, b, hs => by
      unfold expandB at h
      have : vs = [[.it d it]] := by simpa using h.symm
      subst this
      have : v = [.it d it] := by simpa using hv
      subst this
      unfold SatE
      simpa [SatVsK, itemStep] using hs
    | .group d es q caps, vs, h, v, hv, st, K, s, b, hs => by
      obtain ⟨vs0, hes, hq⟩ := expandB_group h
      unfold SatE
      cases q with
      | one =>
        simp only at hq; subst hq
        exact expandBs_complete n es vs hes v hv st K s b hs
      | opt =>
        simp only at hq; subst hq
        rcases List.mem_cons.1 hv with rfl | hv'
        · exact Or.inl (by simpa [SatVsK] using hs)
        · obtain ⟨v0, hv0, rfl⟩ := List.mem_map.1 hv'
          rw [SatVsK_append] at hs
          refine Or.inr (expandBs_complete n es vs0 hes v0 hv0 st _ s b (SatVsK_mono' ?_ v0 st s b hs))
          intro st' s' b' hh
          simpa [SatVsK] using hh
      | star =>
        obtain ⟨v1, hs1, rfl⟩ := hq
        obtain ⟨rfl, _⟩ := single?_some hs1
        rcases List.mem_cons.1 hv with rfl | hv'
        · exact Or.inl (by simpa [SatVsK] using hs)
        · obtain ⟨k, _, rfl⟩ := mem_repVariants.1 hv'
          exact Or.inr ⟨k, reps_of_rpt (fun st K s b hh => expandBs_complete n es [v1] hes v1 (by simp) st K s b hh)
            (k + 1) st K s b hs⟩
      | plus =>
        obtain ⟨v1, hs1, rfl⟩ := hq
        obtain ⟨rfl, _⟩ := single?_some hs1
        obtain ⟨k, _, rfl⟩ := mem_repVariants.1 hv
        exact ⟨k, reps_of_rpt (fun st K s b hh => expandBs_complete n es [v1] hes v1 (by simp) st K s b hh)
          (k + 1) st K s b hs⟩
  theorem expandBs_complete (n : Nat) : ∀ (es : List Elem) (vs : List (List V)), expandBs n es = some vs →
      ∀ v, v ∈ vs → ∀ (st : St) (K : Kont) (s : List VT) (b : Binding), SatVsK v st K s b → SatEs es st K s b
    | [], vs, h, v, hv, st, K, s, b, hs => by
      unfold expandBs at h
      have : vs = [[]] := by simpa using h.symm
      subst this
      have : v = [] := by simpa using hv
      subst this
      unfold SatEs
      simpa [SatVsK] using hs
    | e :: rest, vs, h, v, hv, st, K, s, b, hs => by
      obtain ⟨a, c, ha, hc, rfl⟩ := expandBs_cons h
      obtain ⟨v1, hv1, v2, hv2, rfl⟩ := mem_concatAll.1 hv
      unfold SatEs
      rw [SatVsK_append] at hs
      refine expandB_complete n e a ha v1 hv1 st _ s b (SatVsK_mono' ?_ v1 st s b hs)
      intro st' s' b' hh
      exact expandBs_complete n rest c hc v2 hv2 st' K s' b' hh
end

mutual
  /-- on at most `n` siblings the direct semantics implies some variant -/
  theorem expandB_sound (n : Nat) : ∀ (e : Elem) (vs : List (List V)), expandB n e = some vs →
      ∀ (st : St) (K : Kont) (s : List VT) (b : Binding), s.length ≤ n → SatE e st K s b →
      ∃ v, v ∈ vs ∧ SatVsK v st K s b
    | .item d it, vs, h, st, K, s, b, _, hs => by
      unfold expandB at h
      have : vs = [[.it d it]] := by simpa using h.symm
      subst this
      unfold SatE at hs
      exact ⟨[.it d it], by simp, by simpa [SatVsK, itemStep] using hs⟩
    | .group d es q caps, vs, h, st, K, s, b, hl, hs => by
      obtain ⟨vs0, hes, hq⟩ := expandB_group h
      unfold SatE at hs
      cases q with
      | one =>
        simp only at hq hs; subst hq
        exact expandBs_sound n es vs hes st K s b hl hs
      | opt =>
        simp only at hq hs; subst hq
        rcases hs with hs | hs
        · exact ⟨[.gap], by simp, by simpa [SatVsK] using hs⟩
        · obtain ⟨v0, hv0, hh⟩ := expandBs_sound n es vs0 hes st _ s b hl hs
          refine ⟨v0 ++ [.rep], List.mem_cons_of_mem _ (List.mem_map.2 ⟨v0, hv0, rfl⟩), ?_⟩
          rw [SatVsK_append]
          refine SatVsK_mono' ?_ v0 st s b hh
          intro st' s' b' h'
          simpa [SatVsK] using h'
      | star =>
        simp only at hs
        obtain ⟨v1, hs1, rfl⟩ := hq
        obtain ⟨rfl, hmin⟩ := single?_some hs1
        rcases hs with hs | ⟨k, hs⟩
        · exact ⟨[.gap], by simp, by simpa [SatVsK] using hs⟩
        · have H : ∀ st K s b, s.length ≤ n → SatEs es st K s b → SatVsK v1 st K s b := by
            intro st K s b hl' hh
            obtain ⟨v, hv, hv'⟩ := expandBs_sound n es [v1] hes st K s b hl' hh
            have : v = v1 := by simpa using hv
            subst this; exact hv'
          have hr := rpt_of_reps (one := fun st K s b => SatEs es st K s b) H
            (fun st K K' s b hl hk hh => SatEs_mono es st K K' s b hl hk hh) (k + 1) st K s b hl hs
          have hlen := SatVsK_len _ st s b hr
          rw [minNodes_rpt, minNodes_append] at hlen
          have hk : k < n := by
            have : k + 1 ≤ (k + 1) * (minNodes v1 + minNodes [V.rep]) := Nat.le_mul_of_pos_right _ (by omega)
            omega
          exact ⟨_, List.mem_cons_of_mem _ (mem_repVariants.2 ⟨k, hk, rfl⟩), hr⟩
      | plus =>
        simp only at hs
        obtain ⟨v1, hs1, rfl⟩ := hq
        obtain ⟨rfl, hmin⟩ := single?_some hs1
        obtain ⟨k, hs⟩ := hs
        have H : ∀ st K s b, s.length ≤ n → SatEs es st K s b → SatVsK v1 st K s b := by
          intro st K s b hl' hh
          obtain ⟨v, hv, hv'⟩ := expandBs_sound n es [v1] hes st K s b hl' hh
          have : v = v1 := by simpa using hv
          subst this; exact hv'
        have hr := rpt_of_reps (one := fun st K s b => SatEs es st K s b) H
          (fun st K K' s b hl hk hh => SatEs_mono es st K K' s b hl hk hh) (k + 1) st K s b hl hs
        have hlen := SatVsK_len _ st s b hr
        rw [minNodes_rpt, minNodes_append] at hlen
        have hk : k < n := by
          have : k + 1 ≤ (k + 1) * (minNodes v1 + minNodes [V.rep]) := Nat.le_mul_of_pos_right _ (by omega)
          omega
        exact ⟨_, mem_repVariants.2 ⟨k, hk, rfl⟩, hr⟩
  theorem expandBs_sound (n : Nat) : ∀ (es : List Elem) (vs : List (List V)), expandBs n es = some vs →
      ∀ (st : St) (K : Kont) (s : List VT) (b : Binding), s.length ≤ n → SatEs es st K s b →
      ∃ v, v ∈ vs ∧ SatVsK v st K s b
    | [], vs, h, st, K, s, b, _, hs => by
      unfold expandBs at h
      have : vs = [[]] := by simpa using h.symm
      subst this
      unfold SatEs at hs
      exact ⟨[], by simp, by simpa [SatVsK] using hs⟩
    | e :: rest, vs, h, st, K, s, b, hl, hs => by
      obtain ⟨a, c, ha, hc, rfl⟩ := expandBs_cons h
      unfold SatEs at hs
      have hs' : SatE e st (fun st' s' b' => ∃ v2, v2 ∈ c ∧ SatVsK v2 st' K s' b') s b :=
        SatE_mono e st _ _ s b hl (fun st' s' b' hl' hh => expandBs_sound n rest c hc st' K s' b' hl' hh) hs
      obtain ⟨v1, hv1, h1⟩ := expandB_sound n e a ha st _ s b hl hs'
      obtain ⟨v2, hv2, h2⟩ := SatVsK_exists v1 st s b h1
      exact ⟨v1 ++ v2, mem_concatAll.2 ⟨v1, hv1, v2, hv2, rfl⟩, by rw [SatVsK_append]; exact h2⟩
end

/-- `expandBs_direct`: on at most `n` siblings, the direct semantics of the elements holds exactly when
some variant of the expansion holds. -/
theorem expandBs_direct (n : Nat) (es : List Elem) (vs : List (List V)) (h : expandBs n es = some vs)
    (st : St) (K : Kont) (s : List VT) (b : Binding) (hl : s.length ≤ n) :
    SatEs es st K s b ↔ ∃ v, v ∈ vs ∧ SatVsK v st K s b :=
  ⟨expandBs_sound n es vs h st K s b hl, fun ⟨v, hv, hs⟩ => expandBs_complete n es vs h v hv st K s b hs⟩

/-! ## A variant is its finalized item list -/

theorem isWildAny_reimm (a i : Anchor) (f : Option String) (p : Pat) (q : Quant) (c : List String) :
    isWildAny (.mk a f p q c) = isWildAny (.mk i f p q c) := by
  cases p with
  | node t _ _ _ => cases t <;> cases q <;> rfl
  | alt _ => rfl

theorem satItem_reimm (a i : Anchor) (f : Option String) (p : Pat) (q : Quant) (c : List String) :
    SatItem (.mk a f p q c) = SatItem (.mk i f p q c) := by
  funext n b; unfold SatItem; rfl

/-- the continuation at the end of a node pattern's children -/
def endK (L : Bool) : Kont := fun st s b => EndOk (L && st.any) s b

theorem satVsK_finalize (L : Bool) : ∀ (v : List V) (st : St) (sibs : List VT) (b : Binding),
    SatVsK v st (endK L) sibs b ↔ SatItems (finalizeV v st.pw st.gw) L st.w st.any sibs b
  | [], st, sibs, b => by
    unfold SatItems
    simp [SatVsK, finalizeV, endK]
  | .gap :: r, st, sibs, b => by
    simp only [SatVsK, finalizeV]
    exact satVsK_finalize L r (gapSt st) sibs b
  | .rep :: r, st, sibs, b => by
    simp only [SatVsK, finalizeV]
    exact satVsK_finalize L r (repSt st) sibs b
  | .it d (.mk i f p q c) :: r, st, sibs, b => by
    simp only [SatVsK, finalizeV]
    unfold SatItems
    simp only [Item.quant, Item.imm, anchorOf]
    rw [satItem_reimm]
    apply Seq_congr
    · intro s b
      have := satVsK_finalize L r (after0 (.mk i f p q c) st) s b
      have e := isWildAny_reimm (anchorOf d st) i f p q c
      simp only [anchorOf] at e
      simp only [after0] at this ⊢
      rw [e]
      exact this
    · intro s b
      have := satVsK_finalize L r (after1 (.mk i f p q c) st) s b
      have e := isWildAny_reimm (anchorOf d st) i f p q c
      simp only [anchorOf] at e
      simp only [after1] at this ⊢
      rw [e]
      exact this

/-! ## The node pattern built by the parser -/

theorem satItems_last_irrelevant (items : List Item) (dot : Bool) (sibs : List VT) (b : Binding) :
    SatItems items (dot && !items.isEmpty) false false sibs b ↔ SatItems items dot false false sibs b := by
  cases items with
  | nil => unfold SatItems; simp
  | cons _ _ => simp

theorem satItem_wrap (p : Pat) (n : VT) (b : Binding) : SatItem (.mk .none none p .one []) n b ↔ SatPat p n b := by
  unfold SatItem
  simp [fieldOk]

theorem satAlts_map (f : List V → Pat) : ∀ (vs : List (List V)) (n : VT) (b : Binding),
    SatAlts (vs.map fun v => .mk .none none (f v) .one []) n b ↔ ∃ v, v ∈ vs ∧ SatPat (f v) n b
  | [], n, b => by unfold SatAlts; simp
  | v :: vs, n, b => by
    simp only [List.map_cons]
    unfold SatAlts
    rw [satItem_wrap, satAlts_map f vs n b]
    constructor
    · rintro (h | ⟨x, hx, h⟩)
      · exact ⟨v, by simp, h⟩
      · exact ⟨x, by simp [hx], h⟩
    · rintro ⟨x, hx, h⟩
      rcases List.mem_cons.1 hx with rfl | hx'
      · exact Or.inl h
      · exact Or.inr ⟨x, hx', h⟩

/-- the node pattern of one variant -/
def mkNode (t : NodeTest) (acc : KidsAcc) (v : List V) : Pat :=
  .node t acc.neg (finalizeV v false false) (acc.dot && !(finalizeV v false false).isEmpty)

theorem satPat_mkNode (t : NodeTest) (acc : KidsAcc) (v : List V) (node : VT) (b : Binding) :
    SatPat (mkNode t acc v) node b ↔
      testNode t node.info = true ∧ negOk acc.neg node = true ∧ SatVsK v st0 (endK acc.dot) node.kids b := by
  unfold mkNode SatPat
  rw [satItems_last_irrelevant, satVsK_finalize]
  simp [st0]

theorem buildNode_variants {n : Nat} {t : NodeTest} {acc : KidsAcc} {p : Pat} (h : buildNode n t acc = some p) :
    ∃ vs, expandElems n acc.elems.toList = some vs ∧
      ∀ (node : VT) (b : Binding), SatPat p node b ↔ ∃ v, v ∈ vs ∧ SatPat (mkNode t acc v) node b := by
  unfold buildNode at h
  cases hx : expandElems n acc.elems.toList with
  | none => simp [hx] at h
  | some vs =>
    refine ⟨vs, rfl, ?_⟩
    simp only [hx] at h
    match vs, h with
    | [], h => simp at h
    | [v], h =>
      have : p = mkNode t acc v := by simpa [mkNode] using h.symm
      subst this
      intro node b
      simp
    | v1 :: v2 :: rest, h =>
      have : p = .alt ((v1 :: v2 :: rest).map fun v => .mk .none none (mkNode t acc v) .one []) := by
        simpa [mkNode] using h.symm
      subst this
      intro node b
      unfold SatPat
      exact satAlts_map (mkNode t acc) _ node b

/-- `buildNode_direct`: the pattern the parser builds for a node with groups among its children is
satisfied at a node with at most `n` children exactly when the node test and the negated fields hold
and the DIRECT semantics of the (bare) child elements holds on the node's children. -/
theorem buildNode_direct {n : Nat} {t : NodeTest} {acc : KidsAcc} {p : Pat} (h : buildNode n t acc = some p) :
    ∃ es', bareList acc.elems.toList = some es' ∧
      ∀ (node : VT) (b : Binding), node.kids.length ≤ n →
        (SatPat p node b ↔ testNode t node.info = true ∧ negOk acc.neg node = true ∧
          SatEs es' st0 (endK acc.dot) node.kids b) := by
  obtain ⟨vs, hx, hp⟩ := buildNode_variants h
  unfold expandElems at hx
  cases hb : bareList acc.elems.toList with
  | none => simp [hb] at hx
  | some es' =>
    simp only [hb] at hx
    refine ⟨es', rfl, ?_⟩
    intro node b hl
    rw [hp node b, expandBs_direct n es' vs hx st0 (endK acc.dot) node.kids b hl]
    constructor
    · rintro ⟨v, hv, hs⟩
      obtain ⟨h1, h2, h3⟩ := (satPat_mkNode t acc v node b).1 hs
      exact ⟨h1, h2, v, hv, h3⟩
    · rintro ⟨h1, h2, v, hv, h3⟩
      exact ⟨v, hv, (satPat_mkNode t acc v node b).2 ⟨h1, h2, h3⟩⟩

/-! Non-vacuity: the children `((item) @x (item) @y)*` on the tree of `( a b )`. -/
def exGroupItem (c : String) : Item := .mk .none none (.node (.kind "item" true) [] [] false) .one [c]
def exGroupEs : List Elem := [.group false [.item false (exGroupItem "x"), .item false (exGroupItem "y")] .star []]
def exGroupV : List V := [.it false (exGroupItem "x"), .it false (exGroupItem "y"), .rep]

theorem exGroup_expand : expandBs 4 exGroupEs = some ([.gap] :: repVariants 4 exGroupV) := rfl
example : SatEs exGroupEs st0 (endK false) exTree.kids [("x", 2), ("y", 3)] := by
  have hv : SatVsK exGroupV st0 (endK false) exTree.kids [("x", 2), ("y", 3)] :=
    (satVsK_finalize false exGroupV st0 _ _).2 ((mem_matchItems_iff _ _ _ _ _ _).1 (by decide))
  refine expandBs_complete 4 exGroupEs _ exGroup_expand exGroupV ?_ st0 _ _ _ hv
  exact List.mem_cons_of_mem _ (mem_repVariants.2 ⟨0, by omega, by simp [rpt]⟩)

end TsVerif.C05
