import TsVerif.C05.Model
import TsVerif.Gen.Query
/-!
# C05 — capture quantifiers of a pattern

`capQItem c it` computes, with the tables *generated* from `lib/src/query.c`
(`quantifier_add / quantifier_join / quantifier_mul`), how often capture `c` can occur in a match
of `it`: siblings add, alternation branches join, a quantified item multiplies.  This is the
computation `ts_query__parse_pattern` performs into `capture_quantifiers`
(`ts_query_capture_quantifier_for_id`, Rust `Query::capture_quantifiers`).
-/
namespace TsVerif.C05
open TsGen

def qOf : Quant → TSQuantifier
  | .one => .TSQuantifierOne
  | .opt => .TSQuantifierZeroOrOne
  | .star => .TSQuantifierZeroOrMore
  | .plus => .TSQuantifierOneOrMore

/-- Quantifier of "exactly k times". -/
def natQ : Nat → TSQuantifier
  | 0 => .TSQuantifierZero
  | 1 => .TSQuantifierOne
  | _ => .TSQuantifierOneOrMore

def countName (c : String) (caps : List String) : Nat := (caps.filter fun x => x == c).length

mutual
  def capQPat (c : String) : Pat → TSQuantifier
    | .node _ _ kids _ => capQItems c kids
    | .alt alts => (capQAlts c alts).getD .TSQuantifierZero
  def capQAlts (c : String) : List Item → Option TSQuantifier
    | [] => none
    | it :: rest =>
      match capQAlts c rest with
      | none => some (capQItem c it)
      | some q => some (quantifier_join (capQItem c it) q)
  /-- One occurrence of the item (its own quantifier is applied by the enclosing sequence). -/
  def capQItem (c : String) : Item → TSQuantifier
    | .mk _ _ p _ caps => quantifier_add (natQ (countName c caps)) (capQPat c p)
  def capQItems (c : String) : List Item → TSQuantifier
    | [] => .TSQuantifierZero
    | it :: rest => quantifier_add (quantifier_mul (qOf it.quant) (capQItem c it)) (capQItems c rest)
end

/-- How often capture `c` is bound in a binding. -/
def countCap (c : String) (b : Binding) : Nat := (b.filter fun x => x.1 == c).length

end TsVerif.C05
