import TsVerif.C05.Props
import TsVerif.C05.Verify
/-!
# C05 — the Sat-verifier decides the pattern semantics

`Verify.lean` pushes *sets of positions* of a given capture sequence through the pattern instead of
enumerating bindings.  Here it is proved correct, in two stages.

1. `SatPatV/SatItemV/…` is the pattern semantics with the captures in the order the implementation
   produces them (captures written on an alternation FOLLOW the branch root's own captures — the
   compiler adds them to the first step of every branch; in `Sat*` they come first).
   `rep_verifyItem` etc.: every combinator of the verifier *represents* the corresponding `SatV`
   relation: `p' ∈ verify… P ↔ ∃ p ∈ P, ∃ b, SatV… b ∧ the target reads b from position p to p'`
   (mutual structural induction on the pattern; `rep_seqOneS`, `rep_seqManyS`, `rep_seqS` for the
   sibling sequences).
2. `satItemV_perm` / `satItem_permV`: `SatV` and `Sat` have the same bindings up to the order of the
   captures (`List.Perm`) — the order the check ignores anyway (bindings are compared sorted).

Results:
* `verifyAnywhere_iff`   — verdict true ⇔ some node satisfies the pattern (implementation capture
  order) with exactly the given capture sequence;
* `verifyAnywhere_sound` — verdict true ⇒ a permutation of the capture sequence is in `matchAll`
  (what the driver's obligation `corr:verifyAnywhere=membership-in-matchAll` samples);
* `verifyAnywhere_complete` — every element of `matchAll` has an ordering that the verifier accepts.
-/
namespace TsVerif.C05

/-- The target reads `b` from position `p` up to position `p'`. -/
def Seg (tgt : Array (String × Nat)) : Nat → Nat → Binding → Prop
  | p, p', [] => p' = p
  | p, p', x :: b => tgt[p]? = some x ∧ Seg tgt (p + 1) p' b

theorem seg_append {tgt : Array (String × Nat)} : ∀ (b1 b2 : Binding) (p p' : Nat),
    Seg tgt p p' (b1 ++ b2) ↔ ∃ q, Seg tgt p q b1 ∧ Seg tgt q p' b2
  | [], b2, p, p' => by
    simp only [List.nil_append, Seg]
    constructor
    · intro h; exact ⟨p, rfl, h⟩
    · rintro ⟨q, rfl, h⟩; exact h
  | x :: b1, b2, p, p' => by
    simp only [List.cons_append, Seg, seg_append b1 b2 (p + 1) p']
    constructor
    · rintro ⟨hx, q, h1, h2⟩; exact ⟨q, ⟨hx, h1⟩, h2⟩
    · rintro ⟨q, ⟨hx, h1⟩, h2⟩; exact ⟨hx, q, h1, h2⟩

theorem emitCaps_iff {tgt : Array (String × Nat)} (id : Nat) : ∀ (caps : List String) (p q : Nat),
    emitCaps tgt caps id p = some q ↔ Seg tgt p q (caps.map fun c => (c, id))
  | [], p, q => by
    simp only [emitCaps, List.map_nil, Seg, Option.some.injEq]
    exact eq_comm
  | c :: rest, p, q => by
    simp only [emitCaps, List.map_cons, Seg]
    by_cases h : tgt[p]? = some (c, id)
    · simp only [h, beq_self_eq_true, if_true, true_and]
      exact emitCaps_iff id rest (p + 1) q
    · have : (tgt[p]? == some (c, id)) = false := by simpa using h
      simp [this, h]

/-- `h` maps a set of start positions to the set of end positions of the bindings in `S`. -/
def Rep (tgt : Array (String × Nat)) (h : PosSet → PosSet) (S : Binding → Prop) : Prop :=
  ∀ (P : PosSet) (p' : Nat), p' ∈ h P ↔ ∃ p, p ∈ P ∧ ∃ b, S b ∧ Seg tgt p p' b

theorem mem_pdedup (a : Nat) (l : List Nat) : a ∈ pdedup l ↔ a ∈ l := mem_dedup a l

theorem isEmpty_false_of_mem {p : Nat} {P : PosSet} (h : p ∈ P) : P.isEmpty = false := by
  cases P with
  | nil => cases h
  | cons _ _ => rfl

section generic
variable {tgt : Array (String × Nat)} {imm : Anchor}
variable {f : VT → PosSet → PosSet} {g : List VT → PosSet → PosSet}
variable {F : VT → Binding → Prop} {G : List VT → Binding → Prop}

theorem rep_seqOneS (hf : ∀ c, Rep tgt (f c) (F c)) (hg : ∀ s, Rep tgt (g s) (G s)) :
    ∀ (sibs : List VT), Rep tgt (seqOneS imm f g sibs) (One imm F G sibs)
  | [] => by
    intro P p'
    simp only [seqOneS, List.not_mem_nil, false_iff]
    rintro ⟨_, _, _, h, _⟩; cases h
  | c :: cs => by
    have ih := rep_seqOneS hf hg cs
    intro P p'
    unfold seqOneS
    by_cases hP : P.isEmpty = true
    · rw [if_pos hP]
      have : P = [] := by simpa using hP
      subst this
      simp
    · rw [if_neg hP, mem_pdedup, List.mem_append, hg cs, ih]
      constructor
      · rintro (⟨q, hq, b2, h2, s2⟩ | ⟨p, hp, b, hb, s⟩)
        · obtain ⟨p, hp, b1, h1, s1⟩ := (hf c P q).1 hq
          exact ⟨p, hp, b1 ++ b2, One.take h1 h2, (seg_append _ _ _ _).2 ⟨q, s1, s2⟩⟩
        · by_cases hb' : blocked imm c = true
          · simp [hb'] at hp
          · simp only [hb'] at hp
            exact ⟨p, by simpa using hp, b, One.skip (by simpa using hb') hb, s⟩
      · rintro ⟨p, hp, b, hb, s⟩
        cases hb with
        | take h1 h2 =>
          obtain ⟨q, s1, s2⟩ := (seg_append _ _ _ _).1 s
          exact Or.inl ⟨q, (hf c P q).2 ⟨p, hp, _, h1, s1⟩, _, h2, s2⟩
        | skip hb' h => exact Or.inr ⟨p, by simp [hb', hp], b, h, s⟩

theorem rep_seqManyS (hf : ∀ c, Rep tgt (f c) (F c)) (hg : ∀ s, Rep tgt (g s) (G s)) :
    ∀ (sibs : List VT) (P0 P1 : PosSet) (p' : Nat), p' ∈ seqManyS imm f g sibs P0 P1 ↔
      ∃ p, (p ∈ P0 ∨ p ∈ P1) ∧ ∃ b, Many imm F G sibs b ∧ Seg tgt p p' b
  | [], P0, P1, p' => by
    simp only [seqManyS, List.not_mem_nil, false_iff]
    rintro ⟨_, _, _, h, _⟩; cases h
  | c :: cs, P0, P1, p' => by
    have ih := rep_seqManyS hf hg cs
    unfold seqManyS
    by_cases hP : (P0.isEmpty && P1.isEmpty) = true
    · rw [if_pos hP]
      simp only [Bool.and_eq_true, List.isEmpty_iff] at hP
      obtain ⟨rfl, rfl⟩ := hP
      simp
    · rw [if_neg hP]
      have hg' : ∀ (Q : PosSet) (r : Nat), r ∈ g cs Q ↔ ∃ q, q ∈ Q ∧ ∃ b, G cs b ∧ Seg tgt q r b := hg cs
      simp only [mem_pdedup, List.mem_append, hg', ih, mem_pdedup, List.mem_append]
      have htaken : ∀ q, (q ∈ f c P0 ∨ q ∈ f c P1) ↔ ∃ p, (p ∈ P0 ∨ p ∈ P1) ∧ ∃ b1, F c b1 ∧ Seg tgt p q b1 := by
        intro q
        rw [hf c P0 q, hf c P1 q]
        constructor
        · rintro (⟨p, hp, r⟩ | ⟨p, hp, r⟩)
          · exact ⟨p, Or.inl hp, r⟩
          · exact ⟨p, Or.inr hp, r⟩
        · rintro ⟨p, hp | hp, r⟩
          · exact Or.inl ⟨p, hp, r⟩
          · exact Or.inr ⟨p, hp, r⟩
      constructor
      · rintro (⟨q, hq, b2, h2, s2⟩ | ⟨q, hq, b, hb, s⟩)
        · obtain ⟨p, hp, b1, h1, s1⟩ := (htaken q).1 hq
          exact ⟨p, hp, b1 ++ b2, Many.takeStop h1 h2, (seg_append _ _ _ _).2 ⟨q, s1, s2⟩⟩
        · by_cases hb' : blocked imm c = true
          · simp only [hb', if_true, List.not_mem_nil, false_or, or_false] at hq
            obtain ⟨p, hp, b1, h1, s1⟩ := (htaken q).1 hq
            exact ⟨p, hp, b1 ++ b, Many.takeMore h1 hb, (seg_append _ _ _ _).2 ⟨q, s1, s⟩⟩
          · simp only [hb'] at hq
            have hnb : blocked imm c = false := by simpa using hb'
            rcases hq with hq | hq | hq
            · exact ⟨q, Or.inl (by simpa using hq), b, Many.skip hnb hb, s⟩
            · obtain ⟨p, hp, b1, h1, s1⟩ := (htaken q).1 hq
              exact ⟨p, hp, b1 ++ b, Many.takeMore h1 hb, (seg_append _ _ _ _).2 ⟨q, s1, s⟩⟩
            · exact ⟨q, Or.inr (by simpa using hq), b, Many.skip hnb hb, s⟩
      · rintro ⟨p, hp, b, hb, s⟩
        cases hb with
        | takeStop h1 h2 =>
          obtain ⟨q, s1, s2⟩ := (seg_append _ _ _ _).1 s
          exact Or.inl ⟨q, (htaken q).2 ⟨p, hp, _, h1, s1⟩, _, h2, s2⟩
        | takeMore h1 h2 =>
          obtain ⟨q, s1, s2⟩ := (seg_append _ _ _ _).1 s
          exact Or.inr ⟨q, Or.inr (Or.inl ((htaken q).2 ⟨p, hp, _, h1, s1⟩)), _, h2, s2⟩
        | skip hb' h =>
          refine Or.inr ⟨p, ?_, b, h, s⟩
          rcases hp with hp | hp
          · exact Or.inl (by simp [hb', hp])
          · exact Or.inr (Or.inr (by simp [hb', hp]))

theorem rep_seqS {g0 g1 : List VT → PosSet → PosSet} {G0 G1 : List VT → Binding → Prop}
    (hf : ∀ c, Rep tgt (f c) (F c)) (hg0 : ∀ s, Rep tgt (g0 s) (G0 s)) (hg1 : ∀ s, Rep tgt (g1 s) (G1 s))
    (q : Quant) (sibs : List VT) : Rep tgt (seqS q imm f g0 g1 sibs) (Seq q imm F G0 G1 sibs) := by
  intro P p'
  cases q with
  | one => exact rep_seqOneS hf hg1 sibs P p'
  | opt =>
    simp only [seqS, Seq, mem_pdedup, List.mem_append, hg0 sibs P p', rep_seqOneS hf hg1 sibs P p']
    constructor
    · rintro (⟨p, hp, b, hb, s⟩ | ⟨p, hp, b, hb, s⟩)
      · exact ⟨p, hp, b, Or.inl hb, s⟩
      · exact ⟨p, hp, b, Or.inr hb, s⟩
    · rintro ⟨p, hp, b, hb | hb, s⟩
      · exact Or.inl ⟨p, hp, b, hb, s⟩
      · exact Or.inr ⟨p, hp, b, hb, s⟩
  | star =>
    simp only [seqS, Seq, mem_pdedup, List.mem_append, hg0 sibs P p', rep_seqManyS hf hg1 sibs P [] p',
      List.not_mem_nil, or_false]
    constructor
    · rintro (⟨p, hp, b, hb, s⟩ | ⟨p, hp, b, hb, s⟩)
      · exact ⟨p, hp, b, Or.inl hb, s⟩
      · exact ⟨p, hp, b, Or.inr hb, s⟩
    · rintro ⟨p, hp, b, hb | hb, s⟩
      · exact Or.inl ⟨p, hp, b, hb, s⟩
      · exact Or.inr ⟨p, hp, b, hb, s⟩
  | plus =>
    simp only [seqS, Seq, rep_seqManyS hf hg1 sibs P [] p', List.not_mem_nil, or_false]

end generic

/-! ## The semantics in the implementation's capture order -/

mutual
  def SatPatV : Pat → List String → VT → Binding → Prop
    | .node t neg kids last, caps, n, b =>
      testNode t n.info = true ∧ negOk neg n = true ∧
        ∃ b', SatItemsV kids last false false n.kids b' ∧ b = caps.map (fun c => (c, n.info.id)) ++ b'
    | .alt alts, caps, n, b => SatAltsV alts caps n b
  def SatAltsV : List Item → List String → VT → Binding → Prop
    | [], _, _, _ => False
    | it :: rest, extra, n, b => SatItemV it extra n b ∨ SatAltsV rest extra n b
  def SatItemV : Item → List String → VT → Binding → Prop
    | .mk _ f p _ caps, extra, n, b => fieldOk f n.info = true ∧ SatPatV p (caps ++ extra) n b
  def SatItemsV : List Item → Bool → Bool → Bool → List VT → Binding → Prop
    | [], last, _, any, sibs, b => EndOk (last && any) sibs b
    | it :: rest, last, w, any, sibs, b =>
      Seq it.quant (waived w it.imm) (SatItemV it []) (SatItemsV rest last true any) (SatItemsV rest last false true) sibs b
end

mutual
  theorem rep_verifyPat (tgt : Array (String × Nat)) : ∀ (p : Pat) (caps : List String) (n : VT),
      Rep tgt (verifyPat tgt p caps n) (SatPatV p caps n)
    | .node t neg kids last, caps, n => by
      intro P p'
      unfold verifyPat SatPatV
      by_cases h : (testNode t n.info && negOk neg n) = true
      · rw [if_pos h, rep_verifyItems tgt kids last false false n.kids]
        simp only [Bool.and_eq_true] at h
        simp only [mem_pdedup, List.mem_filterMap, h.1, h.2, true_and]
        constructor
        · rintro ⟨q, ⟨p, hp, he⟩, b', hb', s⟩
          exact ⟨p, hp, _, ⟨b', hb', rfl⟩, (seg_append _ _ _ _).2 ⟨q, (emitCaps_iff _ _ _ _).1 he, s⟩⟩
        · rintro ⟨p, hp, b, ⟨b', hb', rfl⟩, s⟩
          obtain ⟨q, s1, s2⟩ := (seg_append _ _ _ _).1 s
          exact ⟨q, ⟨p, hp, (emitCaps_iff _ _ _ _).2 s1⟩, b', hb', s2⟩
      · rw [if_neg h]
        simp only [Bool.and_eq_true] at h
        simp only [List.not_mem_nil, false_iff]
        rintro ⟨_, _, _, ⟨h1, h2, _⟩, _⟩
        exact h ⟨h1, h2⟩
    | .alt alts, caps, n => by
      intro P p'
      unfold verifyPat SatPatV
      rw [mem_pdedup]
      exact rep_verifyAlts tgt alts caps n P p'
  theorem rep_verifyAlts (tgt : Array (String × Nat)) : ∀ (alts : List Item) (extra : List String) (n : VT),
      Rep tgt (verifyAlts tgt alts extra n) (SatAltsV alts extra n)
    | [], extra, n => by
      intro P p'
      unfold verifyAlts SatAltsV
      simp
    | it :: rest, extra, n => by
      intro P p'
      unfold verifyAlts SatAltsV
      rw [List.mem_append, rep_verifyItem tgt it extra n P p', rep_verifyAlts tgt rest extra n P p']
      constructor
      · rintro (⟨p, hp, b, hb, s⟩ | ⟨p, hp, b, hb, s⟩)
        · exact ⟨p, hp, b, Or.inl hb, s⟩
        · exact ⟨p, hp, b, Or.inr hb, s⟩
      · rintro ⟨p, hp, b, hb | hb, s⟩
        · exact Or.inl ⟨p, hp, b, hb, s⟩
        · exact Or.inr ⟨p, hp, b, hb, s⟩
  theorem rep_verifyItem (tgt : Array (String × Nat)) : ∀ (it : Item) (extra : List String) (n : VT),
      Rep tgt (verifyItem tgt it extra n) (SatItemV it extra n)
    | .mk imm f p q caps, extra, n => by
      intro P p'
      unfold verifyItem SatItemV
      by_cases h : fieldOk f n.info = true
      · rw [if_pos h, rep_verifyPat tgt p (caps ++ extra) n P p']
        simp only [h, true_and]
      · rw [if_neg h]
        simp only [List.not_mem_nil, false_iff]
        rintro ⟨_, _, _, ⟨h1, _⟩, _⟩
        exact h h1
  theorem rep_verifyItems (tgt : Array (String × Nat)) : ∀ (items : List Item) (last w any : Bool) (sibs : List VT),
      Rep tgt (verifyItems tgt items last w any sibs) (SatItemsV items last w any sibs)
    | [], last, w, any, sibs => by
      intro P p'
      unfold verifyItems SatItemsV EndOk
      by_cases h : ((last && any) && sibs.any (fun c => c.info.named)) = true
      · rw [if_pos h]
        simp only [List.not_mem_nil, false_iff]
        rintro ⟨_, _, _, ⟨_, hall⟩, _⟩
        simp only [Bool.and_eq_true, List.any_eq_true] at h
        obtain ⟨hl, c, hc, hn⟩ := h
        have := hall (by simp [hl.1, hl.2]) c hc
        rw [this] at hn; cases hn
      · rw [if_neg h]
        constructor
        · intro hp
          refine ⟨p', hp, [], ⟨rfl, ?_⟩, rfl⟩
          intro hl c hc
          cases hcn : c.info.named with
          | false => rfl
          | true =>
            exfalso; apply h
            simp only [Bool.and_eq_true, List.any_eq_true]
            exact ⟨by simpa using hl, c, hc, hcn⟩
        · rintro ⟨p, hp, b, ⟨rfl, _⟩, s⟩
          simp only [Seg] at s
          subst s; exact hp
    | it :: rest, last, w, any, sibs => by
      intro P p'
      unfold verifyItems SatItemsV
      exact rep_seqS (fun c => rep_verifyItem tgt it [] c)
        (fun s => rep_verifyItems tgt rest last true any s)
        (fun s => rep_verifyItems tgt rest last false true s) _ _ P p'
end

/-! ## `SatV` and `Sat` agree up to the order of captures -/

section perm
variable {imm : Anchor} {F F' : VT → Binding → Prop} {G G' : List VT → Binding → Prop}

theorem One_perm (hF : ∀ c b, F c b → ∃ b', F' c b' ∧ b.Perm b') (hG : ∀ s b, G s b → ∃ b', G' s b' ∧ b.Perm b')
    {sibs : List VT} {b : Binding} (h : One imm F G sibs b) : ∃ b', One imm F' G' sibs b' ∧ b.Perm b' := by
  induction h with
  | take h1 h2 =>
    obtain ⟨b1', h1', p1⟩ := hF _ _ h1
    obtain ⟨b2', h2', p2⟩ := hG _ _ h2
    exact ⟨_, One.take h1' h2', p1.append p2⟩
  | skip hb _ ih =>
    obtain ⟨b', h', p⟩ := ih
    exact ⟨b', One.skip hb h', p⟩

theorem Many_perm (hF : ∀ c b, F c b → ∃ b', F' c b' ∧ b.Perm b') (hG : ∀ s b, G s b → ∃ b', G' s b' ∧ b.Perm b')
    {sibs : List VT} {b : Binding} (h : Many imm F G sibs b) : ∃ b', Many imm F' G' sibs b' ∧ b.Perm b' := by
  induction h with
  | takeStop h1 h2 =>
    obtain ⟨b1', h1', p1⟩ := hF _ _ h1
    obtain ⟨b2', h2', p2⟩ := hG _ _ h2
    exact ⟨_, Many.takeStop h1' h2', p1.append p2⟩
  | takeMore h1 _ ih =>
    obtain ⟨b1', h1', p1⟩ := hF _ _ h1
    obtain ⟨b2', h2', p2⟩ := ih
    exact ⟨_, Many.takeMore h1' h2', p1.append p2⟩
  | skip hb _ ih =>
    obtain ⟨b', h', p⟩ := ih
    exact ⟨b', Many.skip hb h', p⟩

theorem Seq_perm {G0 G0' G1 G1' : List VT → Binding → Prop}
    (hF : ∀ c b, F c b → ∃ b', F' c b' ∧ b.Perm b')
    (hG0 : ∀ s b, G0 s b → ∃ b', G0' s b' ∧ b.Perm b') (hG1 : ∀ s b, G1 s b → ∃ b', G1' s b' ∧ b.Perm b')
    (q : Quant) {sibs : List VT} {b : Binding} (h : Seq q imm F G0 G1 sibs b) :
    ∃ b', Seq q imm F' G0' G1' sibs b' ∧ b.Perm b' := by
  cases q with
  | one => exact One_perm hF hG1 h
  | opt =>
    rcases h with h | h
    · obtain ⟨b', h', p⟩ := hG0 _ _ h; exact ⟨b', Or.inl h', p⟩
    · obtain ⟨b', h', p⟩ := One_perm hF hG1 h; exact ⟨b', Or.inr h', p⟩
  | star =>
    rcases h with h | h
    · obtain ⟨b', h', p⟩ := hG0 _ _ h; exact ⟨b', Or.inl h', p⟩
    · obtain ⟨b', h', p⟩ := Many_perm hF hG1 h; exact ⟨b', Or.inr h', p⟩
  | plus => exact Many_perm hF hG1 h
end perm

theorem perm_caps_swap (caps extra : List String) (id : Nat) (b : Binding) :
    ((caps ++ extra).map (fun c => (c, id)) ++ b).Perm
      (extra.map (fun c => (c, id)) ++ (caps.map (fun c => (c, id)) ++ b)) := by
  rw [List.map_append, ← List.append_assoc (extra.map _)]
  exact List.Perm.append_right b List.perm_append_comm

mutual
  theorem satPatV_perm : ∀ (p : Pat) (caps : List String) (n : VT) (b : Binding), SatPatV p caps n b →
      ∃ b', SatPat p n b' ∧ b.Perm (caps.map (fun c => (c, n.info.id)) ++ b')
    | .node t neg kids last, caps, n, b => by
      unfold SatPatV SatPat
      rintro ⟨h1, h2, b0, h0, rfl⟩
      obtain ⟨b0', h0', p0⟩ := satItemsV_perm kids last false false n.kids b0 h0
      exact ⟨b0', ⟨h1, h2, h0'⟩, List.Perm.append_left _ p0⟩
    | .alt alts, caps, n, b => by
      unfold SatPatV SatPat
      exact satAltsV_perm alts caps n b
  theorem satAltsV_perm : ∀ (alts : List Item) (extra : List String) (n : VT) (b : Binding), SatAltsV alts extra n b →
      ∃ b', SatAlts alts n b' ∧ b.Perm (extra.map (fun c => (c, n.info.id)) ++ b')
    | [], extra, n, b => by unfold SatAltsV; intro h; exact h.elim
    | it :: rest, extra, n, b => by
      unfold SatAltsV SatAlts
      rintro (h | h)
      · obtain ⟨b', h', p⟩ := satItemV_perm it extra n b h; exact ⟨b', Or.inl h', p⟩
      · obtain ⟨b', h', p⟩ := satAltsV_perm rest extra n b h; exact ⟨b', Or.inr h', p⟩
  theorem satItemV_perm : ∀ (it : Item) (extra : List String) (n : VT) (b : Binding), SatItemV it extra n b →
      ∃ b', SatItem it n b' ∧ b.Perm (extra.map (fun c => (c, n.info.id)) ++ b')
    | .mk imm f p q caps, extra, n, b => by
      unfold SatItemV SatItem
      rintro ⟨hf, h⟩
      obtain ⟨b', h', pm⟩ := satPatV_perm p (caps ++ extra) n b h
      exact ⟨_, ⟨hf, b', h', rfl⟩, pm.trans (perm_caps_swap caps extra n.info.id b')⟩
  theorem satItemsV_perm : ∀ (items : List Item) (last w any : Bool) (sibs : List VT) (b : Binding),
      SatItemsV items last w any sibs b → ∃ b', SatItems items last w any sibs b' ∧ b.Perm b'
    | [], last, w, any, sibs, b => by
      unfold SatItemsV SatItems
      intro h; exact ⟨b, h, List.Perm.refl b⟩
    | it :: rest, last, w, any, sibs, b => by
      unfold SatItemsV SatItems
      intro h
      exact Seq_perm
        (fun c b h => by
          obtain ⟨b', h', p⟩ := satItemV_perm it [] c b h
          exact ⟨b', h', by simpa using p⟩)
        (fun s b h => satItemsV_perm rest last true any s b h)
        (fun s b h => satItemsV_perm rest last false true s b h) it.quant h
end

mutual
  theorem satPat_permV : ∀ (p : Pat) (caps : List String) (n : VT) (b' : Binding), SatPat p n b' →
      ∃ b, SatPatV p caps n b ∧ b.Perm (caps.map (fun c => (c, n.info.id)) ++ b')
    | .node t neg kids last, caps, n, b' => by
      unfold SatPatV SatPat
      rintro ⟨h1, h2, h0⟩
      obtain ⟨b0, h0', p0⟩ := satItems_permV kids last false false n.kids b' h0
      exact ⟨_, ⟨h1, h2, b0, h0', rfl⟩, List.Perm.append_left _ p0⟩
    | .alt alts, caps, n, b' => by
      unfold SatPatV SatPat
      exact satAlts_permV alts caps n b'
  theorem satAlts_permV : ∀ (alts : List Item) (extra : List String) (n : VT) (b' : Binding), SatAlts alts n b' →
      ∃ b, SatAltsV alts extra n b ∧ b.Perm (extra.map (fun c => (c, n.info.id)) ++ b')
    | [], extra, n, b' => by unfold SatAlts; intro h; exact h.elim
    | it :: rest, extra, n, b' => by
      unfold SatAltsV SatAlts
      rintro (h | h)
      · obtain ⟨b, h', p⟩ := satItem_permV it extra n b' h; exact ⟨b, Or.inl h', p⟩
      · obtain ⟨b, h', p⟩ := satAlts_permV rest extra n b' h; exact ⟨b, Or.inr h', p⟩
  theorem satItem_permV : ∀ (it : Item) (extra : List String) (n : VT) (b' : Binding), SatItem it n b' →
      ∃ b, SatItemV it extra n b ∧ b.Perm (extra.map (fun c => (c, n.info.id)) ++ b')
    | .mk imm f p q caps, extra, n, b' => by
      unfold SatItemV SatItem
      rintro ⟨hf, b0, h0, rfl⟩
      obtain ⟨b, h', pm⟩ := satPat_permV p (caps ++ extra) n b0 h0
      exact ⟨b, ⟨hf, h'⟩, pm.trans (perm_caps_swap caps extra n.info.id b0)⟩
  theorem satItems_permV : ∀ (items : List Item) (last w any : Bool) (sibs : List VT) (b' : Binding),
      SatItems items last w any sibs b' → ∃ b, SatItemsV items last w any sibs b ∧ b.Perm b'
    | [], last, w, any, sibs, b' => by
      unfold SatItemsV SatItems
      intro h; exact ⟨b', h, List.Perm.refl b'⟩
    | it :: rest, last, w, any, sibs, b' => by
      unfold SatItemsV SatItems
      intro h
      obtain ⟨b, hb, p⟩ := Seq_perm (F' := SatItemV it [])
        (G0' := SatItemsV rest last true any) (G1' := SatItemsV rest last false true)
        (fun c b h => by
          obtain ⟨b', h', p⟩ := satItem_permV it [] c b h
          exact ⟨b', h', by simpa using p.symm⟩)
        (fun s b h => by
          obtain ⟨b', h', p⟩ := satItems_permV rest last true any s b h
          exact ⟨b', h', p.symm⟩)
        (fun s b h => by
          obtain ⟨b', h', p⟩ := satItems_permV rest last false true s b h
          exact ⟨b', h', p.symm⟩) it.quant h
      exact ⟨b, hb, p.symm⟩
end

/-! ## The verdict -/

theorem seg_full_eq {a : Array (String × Nat)} : ∀ (b : Binding) (p : Nat), Seg a p a.size b → b = a.toList.drop p
  | [], p, h => by
    simp only [Seg] at h
    rw [← h]; simp
  | x :: b, p, h => by
    simp only [Seg] at h
    obtain ⟨hx, hr⟩ := h
    have ih := seg_full_eq b (p + 1) hr
    have hp : p < a.toList.length := by
      rcases Nat.lt_or_ge p a.size with hlt | hge
      · simpa using hlt
      · rw [Array.getElem?_eq_none hge] at hx; cases hx
    rw [List.drop_eq_getElem_cons hp, ← ih]
    congr 1
    have : a[p]? = some (a.toList[p]) := by
      rw [Array.getElem?_eq_getElem (by simpa using hp)]; simp
    rw [this] at hx
    exact (Option.some.inj hx).symm

theorem seg_full_of_eq {a : Array (String × Nat)} : ∀ (b : Binding) (p : Nat), p ≤ a.size → b = a.toList.drop p →
    Seg a p a.size b
  | [], p, hp, h => by
    simp only [Seg]
    have h1 := congrArg List.length h
    simp only [List.length_nil, List.length_drop, Array.length_toList] at h1
    omega
  | x :: b, p, hp, h => by
    simp only [Seg]
    have hlt : p < a.toList.length := by
      have := congrArg List.length h
      simp at this; simp; omega
    rw [List.drop_eq_getElem_cons hlt] at h
    injection h with h1 h2
    refine ⟨?_, seg_full_of_eq b (p + 1) (by have := hlt; simp at this; omega) h2⟩
    rw [Array.getElem?_eq_getElem (by simpa using hlt), h1]; simp

/-- `verifyAnywhere_iff`: the verdict is true exactly when some node of the tree satisfies the
pattern — captures in the implementation's order — with exactly the given capture sequence. -/
theorem verifyAnywhere_iff (vt : VT) (it : Item) (tgt : List (String × Nat)) :
    verifyAnywhere vt it tgt = true ↔ ∃ n, n ∈ nodesOf vt ∧ SatItemV it [] n tgt := by
  unfold verifyAnywhere
  simp only [List.any_eq_true, List.contains_iff_mem]
  constructor
  · rintro ⟨n, hn, hm⟩
    obtain ⟨p, hp, b, hb, s⟩ := (rep_verifyItem tgt.toArray it [] n [0] _).1 hm
    have hp0 : p = 0 := by simpa using hp
    subst hp0
    have := seg_full_eq b 0 s
    simp at this
    subst this
    exact ⟨n, hn, hb⟩
  · rintro ⟨n, hn, hb⟩
    refine ⟨n, hn, (rep_verifyItem tgt.toArray it [] n [0] _).2 ⟨0, by simp, tgt, hb, ?_⟩⟩
    exact seg_full_of_eq tgt 0 (Nat.zero_le _) (by simp)

/-- `verifyAnywhere_sound`: an accepted capture sequence is, up to the order of its captures, a
match that `matchAll` enumerates (hence, by `matchAll_sound`, satisfies `SatItem` at a node). -/
theorem verifyAnywhere_sound (vt : VT) (it : Item) (tgt : List (String × Nat))
    (h : verifyAnywhere vt it tgt = true) : ∃ r b, (r, b) ∈ matchAll vt it ∧ tgt.Perm b := by
  obtain ⟨n, hn, hv⟩ := (verifyAnywhere_iff vt it tgt).1 h
  obtain ⟨b, hb, p⟩ := satItemV_perm it [] n tgt hv
  exact ⟨n.info.id, b, matchAll_complete vt it n b hn hb, by simpa using p⟩

/-- `verifyAnywhere_complete`: every enumerated match has an ordering of its captures (the
implementation's) that the verifier accepts. -/
theorem verifyAnywhere_complete (vt : VT) (it : Item) (r : Nat) (b : Binding)
    (h : (r, b) ∈ matchAll vt it) : ∃ tgt, tgt.Perm b ∧ verifyAnywhere vt it tgt = true := by
  obtain ⟨n, hn, _, hs⟩ := matchAll_sound vt it r b h
  obtain ⟨tgt, hv, p⟩ := satItem_permV it [] n b hs
  exact ⟨tgt, by simpa using p, (verifyAnywhere_iff vt it tgt).2 ⟨n, hn, hv⟩⟩

/-! Non-vacuity: `(paren (item) @x . ")")` on the tree of `( a b )`; an alternation with a capture
written on it, where the two orders differ. -/
example : verifyAnywhere exTree exPat [("x", 3)] = true := by decide
example : verifyAnywhere exTree exPat [("x", 2)] = false := by decide
example : ∃ r b, (r, b) ∈ matchAll exTree exPat ∧ [("x", 3)].Perm b :=
  verifyAnywhere_sound exTree exPat _ (by decide)

def exAltPat : Item :=
  .mk .none none (.node (.kind "paren" true) []
    [.mk .none none (.alt [.mk .none none (.node (.kind "item" true) [] [] false) .one ["i"],
                           .mk .none none (.node (.kind ")" false) [] [] false) .one []]) .one ["v"]] false) .one []
-- model order: the alternation's capture first; implementation order: the branch's own capture first
example : (0, [("v", 2), ("i", 2)]) ∈ matchAll exTree exAltPat := by decide
example : verifyAnywhere exTree exAltPat [("i", 2), ("v", 2)] = true := by decide
example : verifyAnywhere exTree exAltPat [("v", 2), ("i", 2)] = false := by decide

end TsVerif.C05
