import TsVerif.C15.Props
#print axioms TsVerif.C15.sim_preserves
#print axioms TsVerif.C15.findSim_sound
#print axioms TsVerif.C15.optimised_preserves_accepted
#print axioms TsVerif.C15.tables_equivalent
#print axioms TsVerif.C15.canonicalize_perm
#print axioms TsVerif.C15.optimised_accepted_is_accepted_unoptimised
#print axioms TsVerif.C15.merged_pair_equivalent
#print axioms TsVerif.C15.merged_pair_equivalent_up_to_names
