import TsVerif.C15.Lemmas
import TsVerif.C15.Judge
import TsVerif.C15.Canon
import TsVerif.C15.Converse
/-!
# C15 — Generation is deterministic and table optimisation never changes results

Property text: generating a parser twice from the same grammar, in separate processes, yields
byte-identical parser source and node-types output.  Turning the optional state-merging
optimisation off changes no observable result: the two parsers accept the same strings and produce
identical trees on every accepted string.

## Clause-by-clause map

`A` is the table of the `OptLevel::empty()` parser, `B` the table of the `OptLevel::MergeStates`
parser, both dumped from the loaded `TSLanguage` by the runtime's own lookup functions.  The driver
is the shared `TsVerif.C03.run` (single-version LR driver, port of ts_parser__advance/reduce/accept),
tied to both REAL parsers per explored string (accept/reject and tree).
Status: **proved** = ∀-theorem; **partial** = proved under decidable hypotheses evaluated per
generated pair (fractions: thorough tier, seed 1, 1601 pairs, 963 of them with merged states);
**judged** = implementation against implementation on explored inputs.

| phrase of the property text | theorems | status |
|---|---|---|
| "generating a parser twice from the same grammar, in separate processes, yields byte-identical parser source and node-types output" | — | judged: ≥ 4 (quick 6) fresh processes per optimisation level per grammar, bytes of parser.c / node-types.json compared (`allEqual`); 1601/1601 |
| … the re-interning of action lists before rendering does not depend on the interning history | `canonicalize_perm` (Canon.lean: hand port of `ActionListPool::canonicalize`) | proved about the port |
| "turning the optimisation off changes no observable result": unoptimised accepts with tree `t` ⇒ optimised accepts with the same `t`, ALL token strings | `sim_preserves`, `findSim_sound`, `optimised_preserves_accepted` | partial: `findSim A B` succeeds — 1601/1601 (failing is a violation) |
| optimised accepts with tree `t` ⇒ unoptimised accepts with the same `t`, pairs where nothing was merged state-wise | `tables_equivalent` | partial: `findSim B A` succeeds — 639/1601 (`rsim`) |
| optimised accepts with tree `t` ⇒ unoptimised accepts with the same `t`, pairs with merged states | `optimised_accepted_is_accepted_unoptimised`, `merged_pair_equivalent`, `merged_pair_equivalent_up_to_names` (through the source grammar: C03 `parser_sound` on `B`, `parser_complete` on `A`, determinism of the driver; strings of non-extra terminals, existential fuel) | partial: `simCheck ∧ tableSafe B ∧ relOK g B ∧ coverOK g A P ∧ completeOK A P ∧ sameTerminals` — 1105/1601, of which 505 of the 963 merged pairs (for LR(1)-by-construction pairs failing is a violation); either converse: 1143/1601 |
| "the two parsers accept the same strings and produce identical trees on every accepted string" — the rest | — | judged: both REAL parsers on every explored string (`agree`; 6.2 M strings incl. sentences written without separators for lexically conflicting look-aheads, 113702 accepted by both, 0 differing) |

OPEN: the converse for merged pairs outside the grammar route (precedence-resolved conflicts,
aliases, hidden terminal rules, > 100 states) is only sampled; process-level determinism is sampled.
-/
namespace TsVerif.C15
open TsVerif.C03

/-- `sim_preserves`: if `f` passes the decidable simulation check from table `A` to table `B`,
then every accepting run of the driver on `A` is an accepting run on `B` with the SAME tree —
for all token strings. -/
theorem sim_preserves (A B : Table) (f : SMap) (h : simCheck A B f = true)
    (toks : List Nat) (t : PTree) (hA : run A toks = .accepted t) : run B toks = .accepted t := by
  unfold run at hA ⊢
  have := runLoop_sim A B f (sim_of_check A B f h) _ { stack := [], toks := toks } t
    (by intro e he; cases he) hA
  simpa [mapStack] using this

/-- `findSim_sound`: the map computed by lock-step exploration satisfies the premise of `sim_preserves`. -/
theorem findSim_sound (A B : Table) (f : SMap) (h : findSim A B = some f) : simCheck A B f = true := by
  unfold findSim at h
  split at h
  · next f' _ =>
    split at h
    · next hc => cases h; exact hc
    · cases h
  · cases h

/-- The per-pair statement the check evaluates: `findSim` succeeded ⇒ everything `A` accepts, `B`
accepts with the same tree. -/
theorem optimised_preserves_accepted (A B : Table) (f : SMap) (h : findSim A B = some f)
    (toks : List Nat) (t : PTree) (hA : run A toks = .accepted t) : run B toks = .accepted t :=
  sim_preserves A B f (findSim_sound A B f h) toks t hA

/-- The converse direction for the pairs on which a state-wise simulation from the optimised to the
unoptimised table exists (`findSim B A` succeeds — reported per pair as `rsim`): together with
`optimised_preserves_accepted` the two tables then accept exactly the same token strings with the
same trees. -/
theorem tables_equivalent (A B : Table) (f f' : SMap) (h : findSim A B = some f) (h' : findSim B A = some f')
    (toks : List Nat) (t : PTree) : run A toks = .accepted t ↔ run B toks = .accepted t :=
  ⟨optimised_preserves_accepted A B f h toks t, optimised_preserves_accepted B A f' h' toks t⟩

/-- `optimised_accepted_is_accepted_unoptimised`: the converse direction for pairs in which states WERE
merged, validated through the source grammar `g` (Converse.lean): `B` accepts ⇒ `g` derives
(`C03.parser_sound`, premises `tableSafe B`, `relOK g B auxB`) ⇒ `A` accepts (`C03.parser_complete`,
premises `coverOK g A auxA P start`, `completeOK A P … ann start`) and then with the SAME tree
(`simCheck A B f` and the driver being a function).  For ALL strings of non-extra terminals; the
five premises are decidable and evaluated per generated pair (`conv=true` on the `P` line). -/
theorem optimised_accepted_is_accepted_unoptimised (g : Grammar) (A B : Table) (f : SMap) (auxA auxB : AuxMap)
    (P : List Prod) (ann : Ann) (start : Nat)
    (hsim : simCheck A B f = true)
    (hsafeB : tableSafe B = true) (hrelB : relOK g B auxB = true)
    (hcovA : coverOK g A auxA P start = true) (hokA : completeOK A P (auxAllow auxA) ann start = true)
    (hnames : sameTerminals A B = true)
    (toks : List Nat) (htoks : ∀ a, a ∈ toks → a < A.tokenCount ∧ a ≠ 0 ∧ isExtraSym B a = false)
    (fuel : Nat) (t : PTree) (hB : runLoop B fuel { stack := [], toks := toks } = .accepted t) :
    ∃ fuel', runLoop A fuel' { stack := [], toks := toks } = .accepted t :=
  converse_through_grammar g A B f auxA auxB P ann start hsim hsafeB hrelB hcovA hokA hnames toks htoks fuel t hB

/-- `merged_pair_equivalent`: both directions for a validated pair, merged states or not: the two
tables accept exactly the same strings of non-extra terminals with exactly the same trees. -/
theorem merged_pair_equivalent (g : Grammar) (A B : Table) (f : SMap) (auxA auxB : AuxMap)
    (P : List Prod) (ann : Ann) (start : Nat)
    (hsim : simCheck A B f = true)
    (hsafeB : tableSafe B = true) (hrelB : relOK g B auxB = true)
    (hcovA : coverOK g A auxA P start = true) (hokA : completeOK A P (auxAllow auxA) ann start = true)
    (hnames : sameTerminals A B = true)
    (toks : List Nat) (htoks : ∀ a, a ∈ toks → a < A.tokenCount ∧ a ≠ 0 ∧ isExtraSym B a = false) (t : PTree) :
    (∃ fuel, runLoop A fuel { stack := [], toks := toks } = .accepted t) ↔
    (∃ fuel, runLoop B fuel { stack := [], toks := toks } = .accepted t) :=
  merged_tables_equivalent g A B f auxA auxB P ann start hsim hsafeB hrelB hcovA hokA hnames toks htoks t

/-- `merged_pair_equivalent_up_to_names`: the form the check evaluates — the validations run on the two
tables with their non-terminals renamed by untrusted maps (a rule aliased at every use carries the
alias as its symbol name; names of non-terminals are immaterial), the grammar is read through
`C03.tokenView`; the equivalence is about the two dumped tables themselves. -/
theorem merged_pair_equivalent_up_to_names (g : Grammar) (A B : Table) (renA renB : List (Nat × String))
    (f : SMap) (auxA auxB : AuxMap) (P : List Prod) (ann : Ann) (start : Nat)
    (hsim : simCheck (renameNT A renA) (renameNT B renB) f = true)
    (hsafeB : tableSafe (renameNT B renB) = true) (hrelB : relOK g (renameNT B renB) auxB = true)
    (hcovA : coverOK g (renameNT A renA) auxA P start = true)
    (hokA : completeOK (renameNT A renA) P (auxAllow auxA) ann start = true)
    (hnames : sameTerminals (renameNT A renA) (renameNT B renB) = true)
    (toks : List Nat) (htoks : ∀ a, a ∈ toks → a < A.tokenCount ∧ a ≠ 0 ∧ isExtraSym B a = false) (t : PTree) :
    (∃ fuel, runLoop A fuel { stack := [], toks := toks } = .accepted t) ↔
    (∃ fuel, runLoop B fuel { stack := [], toks := toks } = .accepted t) :=
  merged_tables_equivalent_renamed g A B renA renB f auxA auxB P ann start hsim hsafeB hrelB hcovA hokA hnames toks htoks t

/-! ## non-vacuity: a table with a duplicated state and its merged version -/

/-- `S → a | b`, with two copies (2 and 4) of the state after the token -/
def tA : Table :=
  { symbolCount := 4, tokenCount := 3, stateCount := 5
    acts := #[[], [(1, [.shift 2 false false]), (2, [.shift 4 false false])],
              [(0, [.reduce 3 1 0 0])], [(0, [.accept])], [(0, [.reduce 3 1 0 0])]]
    gotos := #[[], [(3, 3)], [], [], []]
    lexState := #[0, 0, 0, 0, 0] }
def tB : Table :=
  { symbolCount := 4, tokenCount := 3, stateCount := 4
    acts := #[[], [(1, [.shift 2 false false]), (2, [.shift 2 false false])],
              [(0, [.reduce 3 1 0 0])], [(0, [.accept])]]
    gotos := #[[], [(3, 3)], [], []]
    lexState := #[0, 0, 0, 0] }

example : (findSim tA tB).isSome = true := by decide
example : (findSim tB tB).isSome = true := by decide   -- the converse map exists only where nothing was merged (here: tB against itself; `findSim tB tA` fails: state 2 of tB stands for states 2 and 4 of tA)
example : (findSim tB tA).isSome = false := by decide
example : simCheck tA tB [(4, 2), (2, 2), (3, 3), (1, 1)] = true := by decide
example : (match run tA [2], run tB [2] with | .accepted a, .accepted b => a.leaves == b.leaves | _, _ => false) = true := by decide
/-- the premises of `merged_pair_equivalent` on this merged pair, with the grammar `s: choice('a', 'b')` -/
def tSyms : Array SymInfo :=
  #[⟨false, true, false, 0, "end"⟩, ⟨true, false, false, 1, "a"⟩, ⟨true, false, false, 2, "b"⟩, ⟨true, true, false, 3, "s"⟩]
def tAn : Table := { tA with syms := tSyms }
def tBn : Table := { tB with syms := tSyms }
def tG : Grammar := { name := "t", rules := [("s", .choice (.str "a") (.str "b"))] }
def tAnn : Ann :=
  { items := #[[], [⟨3, [1], 0, 0, 0, none⟩, ⟨3, [2], 0, 0, 0, none⟩], [⟨3, [1], 0, 1, 0, none⟩], [], [⟨3, [2], 0, 1, 0, none⟩]],
    nullable := [], first := [(3, [1, 2])] }
example : simCheck tAn tBn [(4, 2), (2, 2), (3, 3), (1, 1)] = true := by decide
example : tableSafe tBn = true := by decide
example : relOK tG tBn [] = true := by decide
example : coverOK tG tAn [] [(3, [1], 0), (3, [2], 0)] 3 = true := by decide
example : completeOK tAn [(3, [1], 0), (3, [2], 0)] (auxAllow []) tAnn 3 = true := by decide
example : sameTerminals tAn tBn = true := by decide
/-- a wrong merge (state 4 of `A` reduces 2 children, the merged state 1) is refused -/
def tA' : Table := { tA with acts := #[[], [(1, [.shift 2 false false]), (2, [.shift 4 false false])],
              [(0, [.reduce 3 1 0 0])], [(0, [.accept])], [(0, [.reduce 3 2 0 0])]] }
example : (findSim tA' tB).isSome = false := by decide

end TsVerif.C15
