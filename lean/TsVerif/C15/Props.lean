import TsVerif.C15.Lemmas
import TsVerif.C15.Judge
import TsVerif.C15.Canon
/-!
# C15 — Generation is deterministic and table optimisation never changes results

Property text: generating a parser twice from the same grammar, in separate processes, yields
byte-identical parser source and node-types output.  Turning the optional state-merging
optimisation off changes no observable result: the two parsers accept the same strings and produce
identical trees on every accepted string.

| clause | how it is covered |
|---|---|
| byte-identical output across processes | implementation vs implementation: ≥ 4 fresh processes per optimisation level per grammar, bytes of parser.c / node-types.json compared (judge `allEqual`) — sampled, not proved |
| unoptimised accepts with tree `t` ⇒ optimised accepts with the same `t`, for ALL token strings | `sim_preserves` (premise `simCheck A B f`, decidable) + `findSim_sound`; evaluated per generated pair on the tables the runtime decodes |
| optimised accepts ⇒ unoptimised accepts; trees equal on explored strings | sampled: both REAL parsers run on every explored string (judge `agree`) |

`A` is the table of the `OptLevel::empty()` parser, `B` the table of the `OptLevel::MergeStates`
parser, both dumped from the loaded `TSLanguage` by the runtime's own lookup functions.  The driver
is the shared `TsVerif.C03.run` (single-version LR driver, port of ts_parser__advance/reduce/accept).

| the re-interning of action lists before rendering does not depend on the interning history | `canonicalize_perm` (Canon.lean: hand port of `ActionListPool::canonicalize`) |
| both directions where a state-wise converse map exists | `tables_equivalent` (`findSim B A` succeeds only for pairs where nothing was merged: reported as `rsim`) |

OPEN: the converse simulation (B ⇒ A) does not hold state-by-state when states were merged (merged
states have more look-aheads; the argument is the LALR-vs-LR one about extra reductions before an
error, not a simulation) and is only sampled; process-level determinism is sampled.
-/
namespace TsVerif.C15
open TsVerif.C03

/-- `sim_preserves`: if `f` passes the decidable simulation check from table `A` to table `B`,
then every accepting run of the driver on `A` is an accepting run on `B` with the SAME tree —
for all token strings. -/
theorem sim_preserves (A B : Table) (f : SMap) (h : simCheck A B f = true)
    (toks : List Nat) (t : PTree) (hA : run A toks = .accepted t) : run B toks = .accepted t := by
  unfold run at hA ⊢
  have := runLoop_sim A B f (sim_of_check A B f h) _ { stack := [], toks := toks } t
    (by intro e he; cases he) hA
  simpa [mapStack] using this

/-- `findSim_sound`: the map computed by lock-step exploration satisfies the premise of `sim_preserves`. -/
theorem findSim_sound (A B : Table) (f : SMap) (h : findSim A B = some f) : simCheck A B f = true := by
  unfold findSim at h
  split at h
  · next f' _ =>
    split at h
    · next hc => cases h; exact hc
    · cases h
  · cases h

/-- The per-pair statement the check evaluates: `findSim` succeeded ⇒ everything `A` accepts, `B`
accepts with the same tree. -/
theorem optimised_preserves_accepted (A B : Table) (f : SMap) (h : findSim A B = some f)
    (toks : List Nat) (t : PTree) (hA : run A toks = .accepted t) : run B toks = .accepted t :=
  sim_preserves A B f (findSim_sound A B f h) toks t hA

/-- The converse direction for the pairs on which a state-wise simulation from the optimised to the
unoptimised table exists (`findSim B A` succeeds — reported per pair as `rsim`): together with
`optimised_preserves_accepted` the two tables then accept exactly the same token strings with the
same trees. -/
theorem tables_equivalent (A B : Table) (f f' : SMap) (h : findSim A B = some f) (h' : findSim B A = some f')
    (toks : List Nat) (t : PTree) : run A toks = .accepted t ↔ run B toks = .accepted t :=
  ⟨optimised_preserves_accepted A B f h toks t, optimised_preserves_accepted B A f' h' toks t⟩

/-! ## non-vacuity: a table with a duplicated state and its merged version -/

/-- `S → a | b`, with two copies (2 and 4) of the state after the token -/
def tA : Table :=
  { symbolCount := 4, tokenCount := 3, stateCount := 5
    acts := #[[], [(1, [.shift 2 false false]), (2, [.shift 4 false false])],
              [(0, [.reduce 3 1 0 0])], [(0, [.accept])], [(0, [.reduce 3 1 0 0])]]
    gotos := #[[], [(3, 3)], [], [], []]
    lexState := #[0, 0, 0, 0, 0] }
def tB : Table :=
  { symbolCount := 4, tokenCount := 3, stateCount := 4
    acts := #[[], [(1, [.shift 2 false false]), (2, [.shift 2 false false])],
              [(0, [.reduce 3 1 0 0])], [(0, [.accept])]]
    gotos := #[[], [(3, 3)], [], []]
    lexState := #[0, 0, 0, 0] }

example : (findSim tA tB).isSome = true := by decide
example : (findSim tB tB).isSome = true := by decide   -- the converse map exists only where nothing was merged (here: tB against itself; `findSim tB tA` fails: state 2 of tB stands for states 2 and 4 of tA)
example : (findSim tB tA).isSome = false := by decide
example : simCheck tA tB [(4, 2), (2, 2), (3, 3), (1, 1)] = true := by decide
example : (match run tA [2], run tB [2] with | .accepted a, .accepted b => a.leaves == b.leaves | _, _ => false) = true := by decide
/-- a wrong merge (state 4 of `A` reduces 2 children, the merged state 1) is refused -/
def tA' : Table := { tA with acts := #[[], [(1, [.shift 2 false false]), (2, [.shift 4 false false])],
              [(0, [.reduce 3 1 0 0])], [(0, [.accept])], [(0, [.reduce 3 2 0 0])]] }
example : (findSim tA' tB).isSome = false := by decide

end TsVerif.C15
