import TsVerif.C15.Model
import TsVerif.C03.DriverLemmas2
/-!
# Proof of `sim_preserves`
-/
namespace TsVerif.C15
open TsVerif.C03

def mapStack (f : SMap) (st : Stack) : Stack := st.map fun e => (ap f e.1, e.2)

def AllDom (f : SMap) (st : Stack) : Prop := ∀ e, e ∈ st → inDom f e.1 = true

structure Sim (A B : Table) (f : SMap) : Prop where
  dom1 : inDom f 1 = true
  start : ap f 1 = 1
  st : ∀ s, inDom f s = true → stateOK A B f s = true

theorem inDom_mem (f : SMap) (s : Nat) (h : inDom f s = true) : ∃ t, (s, t) ∈ f := by
  unfold inDom at h
  cases hl : f.lookup s with
  | none => simp [hl] at h
  | some t => exact ⟨t, lookup_mem s f t hl⟩

theorem sim_of_check (A B : Table) (f : SMap) (h : simCheck A B f = true) : Sim A B f := by
  unfold simCheck at h
  simp only [Bool.and_eq_true, beq_iff_eq, List.all_eq_true] at h
  refine ⟨h.1.1, h.1.2, ?_⟩
  intro s hs
  obtain ⟨t, ht⟩ := inDom_mem f s hs
  exact h.2 (s, t) ht

theorem topState_map (f : SMap) (hstart : ap f 1 = 1) (st : Stack) : topState (mapStack f st) = ap f (topState st) := by
  cases st with
  | nil => simp [mapStack, topState, hstart]
  | cons e tl => simp [mapStack, topState]

theorem topState_dom (f : SMap) (h1 : inDom f 1 = true) (st : Stack) (h : AllDom f st) : inDom f (topState st) = true := by
  cases st with
  | nil => simpa [topState] using h1
  | cons e tl => exact h e List.mem_cons_self

theorem popN_map (f : SMap) : ∀ (st : Stack) (n : Nat),
    popN n (mapStack f st) = (popN n st).map fun r => (r.1, mapStack f r.2) := by
  intro st
  induction st with
  | nil => intro n; cases n <;> simp [popN, mapStack]
  | cons e tl ih =>
    intro n
    obtain ⟨s, t⟩ := e
    cases n with
    | zero => simp [popN, mapStack]
    | succ n =>
      have := ih (if t.isExtra = true then n + 1 else n)
      simp only [mapStack, List.map_cons, popN] at this ⊢
      rw [this]
      cases popN (if t.isExtra = true then n + 1 else n) tl <;> simp

theorem popN_sub : ∀ (st : Stack) (n : Nat) (ks : List PTree) (rest : Stack),
    popN n st = some (ks, rest) → ∀ e, e ∈ rest → e ∈ st := by
  intro st
  induction st with
  | nil =>
    intro n ks rest h
    cases n with
    | zero => simp [popN] at h; obtain ⟨_, rfl⟩ := h; intro e he; exact he
    | succ n => simp [popN] at h
  | cons x tl ih =>
    intro n ks rest h
    obtain ⟨s, t⟩ := x
    cases n with
    | zero => simp [popN] at h; obtain ⟨_, rfl⟩ := h; intro e he; exact he
    | succ n =>
      simp only [popN] at h
      cases hp : popN (if t.isExtra = true then n + 1 else n) tl with
      | none => simp [hp] at h
      | some r =>
        obtain ⟨ks', r'⟩ := r
        simp [hp] at h
        obtain ⟨_, rfl⟩ := h
        intro e he
        exact List.mem_cons_of_mem _ (ih _ ks' r' hp e he)

theorem acceptTree_map (f : SMap) (st : Stack) : acceptTree (mapStack f st) = acceptTree st := by
  unfold acceptTree mapStack
  simp [List.map_map, Function.comp_def]

theorem cell_of_sim (A B : Table) (f : SMap) (hs : Sim A B f) (s a : Nat) (hd : inDom f s = true)
    (x : Action) (hx : effective (A.actions s a) = [x]) :
    effective (B.actions (ap f s) a) = [mapAct f x] ∧ shiftDomOK f x = true := by
  have hst := hs.st s hd
  unfold stateOK at hst
  simp only [Bool.and_eq_true, List.all_eq_true] at hst
  have hmem := actions_mem A s a x (effective_single _ _ hx)
  have := hst.1.2 (a, A.actions s a) hmem
  unfold cellOK at this
  simp only [hx, List.isEmpty_cons, Bool.false_or, List.map_cons, List.map_nil, List.all_cons, List.all_nil,
    Bool.and_true, Bool.and_eq_true, beq_iff_eq] at this
  exact this

theorem goto_of_sim (A B : Table) (f : SMap) (hs : Sim A B f) (s X : Nat) (hd : inDom f s = true)
    (hq : A.goto s X ≠ 0) :
    inDom f (A.goto s X) = true ∧ B.goto (ap f s) X = ap f (A.goto s X) ∧
    (eoeSym A f X = true → ((A.goto s X == s) = (ap f (A.goto s X) == ap f s))) := by
  have hst := hs.st s hd
  unfold stateOK at hst
  simp only [Bool.and_eq_true, List.all_eq_true] at hst
  have := hst.2 (X, A.goto s X) (goto_mem A s X hq)
  unfold gotoOK at this
  simp only [Bool.or_eq_true, beq_iff_eq, Bool.and_eq_true, Bool.not_eq_true'] at this
  rcases this with h0 | ⟨⟨h1, h2⟩, h3⟩
  · exact absurd h0 hq
  · refine ⟨h1, h2, ?_⟩
    intro he
    rcases h3 with h3 | h3
    · rw [he] at h3; cases h3
    · exact h3

theorem state_of_sim (A B : Table) (f : SMap) (hs : Sim A B f) (s : Nat) (hd : inDom f s = true) :
    ap f s ≠ 0 ∧ ap f s < B.stateCount ∧ A.lexEnd s = B.lexEnd (ap f s) := by
  have hst := hs.st s hd
  unfold stateOK at hst
  simp only [Bool.and_eq_true, bne_iff_ne, ne_eq, decide_eq_true_eq, beq_iff_eq] at hst
  exact ⟨hst.1.1.1.1, hst.1.1.1.2, hst.1.1.2⟩

theorem eoeSym_of (A : Table) (f : SMap) (s X n : Nat) (dp : Int) (pid : Nat) (hd : inDom f s = true)
    (hl : A.lexEnd s = true) (hx : effective (A.actions s 0) = [Action.reduce X n dp pid]) : eoeSym A f X = true := by
  obtain ⟨t, ht⟩ := inDom_mem f s hd
  unfold eoeSym
  simp only [List.any_eq_true, Bool.and_eq_true]
  refine ⟨(s, t), ht, hl, ?_⟩
  unfold hasReduceOf
  simp only [List.any_eq_true]
  exact ⟨_, effective_single _ _ hx, by simp⟩

/-- A reduce of `A` is mirrored by `B` on the mapped stack. -/
theorem reduce_sim (A B : Table) (f : SMap) (hs : Sim A B f) (st st' : Stack) (hdom : AllDom f st)
    (X n : Nat) (dp : Int) (pid : Nat) (eoe : Bool) (heoe : eoe = true → eoeSym A f X = true)
    (h : reduce A st X n dp pid eoe = .ok st') :
    reduce B (mapStack f st) X n dp pid eoe = .ok (mapStack f st') ∧ AllDom f st' := by
  unfold reduce at h ⊢
  rw [popN_map]
  cases hp : popN n st with
  | none => simp [hp] at h
  | some r =>
    obtain ⟨kids, rest⟩ := r
    simp only [hp] at h
    simp only [Option.map_some]
    have hrest : AllDom f rest := fun e he => hdom e (popN_sub st n kids rest hp e he)
    have hpd := topState_dom f hs.dom1 rest hrest
    split at h
    · cases h
    · next hno =>
      cases h
      have hq0 : A.goto (topState rest) X ≠ 0 := by omega
      obtain ⟨hqd, hqB, hself⟩ := goto_of_sim A B f hs (topState rest) X hpd hq0
      obtain ⟨hb0, hbS, _⟩ := state_of_sim A B f hs _ hqd
      rw [topState_map f hs.start, hqB]
      have hnoB : ¬ (ap f (A.goto (topState rest) X) = 0 ∨ B.stateCount ≤ ap f (A.goto (topState rest) X)) := by omega
      simp only [hnoB, if_false]
      have hflag : (eoe && ap f (A.goto (topState rest) X) == ap f (topState rest)) =
          (eoe && A.goto (topState rest) X == topState rest) := by
        cases eoe with
        | false => simp
        | true => simp only [Bool.true_and]; exact (hself (heoe rfl)).symm
      refine ⟨?_, ?_⟩
      · rw [hflag]
        simp [mapStack, List.map_append, List.map_map, Function.comp_def]
      · intro e he
        rcases List.mem_append.mp he with he | he
        · simp only [List.mem_map] at he
          obtain ⟨t, _, rfl⟩ := he
          exact hqd
        · rcases List.mem_cons.mp he with rfl | he
          · exact hqd
          · exact hrest e he

/-- One step of `A` is mirrored by `B`. -/
theorem step_sim (A B : Table) (f : SMap) (hs : Sim A B f) (c : Conf) (hdom : AllDom f c.stack) :
    (∀ c', step A c = .inl c' →
        step B { stack := mapStack f c.stack, toks := c.toks } = .inl { stack := mapStack f c'.stack, toks := c'.toks } ∧
        AllDom f c'.stack) ∧
    (∀ t, step A c = .inr (.accepted t) →
        step B { stack := mapStack f c.stack, toks := c.toks } = .inr (.accepted t)) := by
  have hsd := topState_dom f hs.dom1 c.stack hdom
  obtain ⟨_, _, hlex⟩ := state_of_sim A B f hs _ hsd
  have htop := topState_map f hs.start c.stack
  unfold step
  simp only [htop, ← hlex]
  split
  · -- end of a non-terminal extra
    next hle =>
    split
    · exact ⟨(by intro c' h; cases h), (by intro t h; cases h)⟩
    · next X n dp pid heff =>
      obtain ⟨hB, _⟩ := cell_of_sim A B f hs _ 0 hsd _ heff
      rw [hB]
      simp only [mapAct]
      cases hr : reduce A c.stack X n dp pid true with
      | error e => exact ⟨(by intro c' h; cases h), (by intro t h; cases h)⟩
      | ok st' =>
        obtain ⟨hrB, hd'⟩ := reduce_sim A B f hs c.stack st' hdom X n dp pid true
          (fun _ => eoeSym_of A f _ X n dp pid hsd hle heff) hr
        rw [hrB]
        exact ⟨(by intro c' h; cases h; exact ⟨rfl, hd'⟩), (by intro t h; cases h)⟩
    · exact ⟨(by intro c' h; cases h), (by intro t h; cases h)⟩
  · next hle =>
    split
    · exact ⟨(by intro c' h; cases h), (by intro t h; cases h)⟩
    · next s' extra rep heff =>
      obtain ⟨hB, hsh⟩ := cell_of_sim A B f hs _ _ hsd _ heff
      rw [hB]
      simp only [mapAct]
      cases htoks : c.toks with
      | nil => exact ⟨(by intro c' h; cases h), (by intro t h; cases h)⟩
      | cons a rest =>
        simp only
        cases extra with
        | true =>
          simp only [if_true]
          split
          · exact ⟨(by intro c' h; cases h), (by intro t h; cases h)⟩
          · obtain ⟨hb0, hbS, _⟩ := state_of_sim A B f hs _ hsd
            have hnoB : ¬ (ap f (topState c.stack) = 0 ∨ B.stateCount ≤ ap f (topState c.stack)) := by omega
            simp only [hnoB, if_false]
            refine ⟨?_, (by intro t h; cases h)⟩
            intro c' h; cases h
            refine ⟨by simp [mapStack], ?_⟩
            intro e he
            rcases List.mem_cons.mp he with rfl | he
            · exact hsd
            · exact hdom e he
        | false =>
          simp only [Bool.false_eq_true, if_false]
          have hd' : inDom f s' = true := by simpa [shiftDomOK] using hsh
          split
          · exact ⟨(by intro c' h; cases h), (by intro t h; cases h)⟩
          · obtain ⟨hb0, hbS, _⟩ := state_of_sim A B f hs _ hd'
            have hnoB : ¬ (ap f s' = 0 ∨ B.stateCount ≤ ap f s') := by omega
            simp only [hnoB, if_false]
            refine ⟨?_, (by intro t h; cases h)⟩
            intro c' h; cases h
            refine ⟨by simp [mapStack], ?_⟩
            intro e he
            rcases List.mem_cons.mp he with rfl | he
            · exact hd'
            · exact hdom e he
    · next X n dp pid heff =>
      obtain ⟨hB, _⟩ := cell_of_sim A B f hs _ _ hsd _ heff
      rw [hB]
      simp only [mapAct]
      cases hr : reduce A c.stack X n dp pid false with
      | error e => exact ⟨(by intro c' h; cases h), (by intro t h; cases h)⟩
      | ok st' =>
        obtain ⟨hrB, hd'⟩ := reduce_sim A B f hs c.stack st' hdom X n dp pid false (by intro h; cases h) hr
        rw [hrB]
        exact ⟨(by intro c' h; cases h; exact ⟨rfl, hd'⟩), (by intro t h; cases h)⟩
    · next heff =>
      obtain ⟨hB, _⟩ := cell_of_sim A B f hs _ _ hsd _ heff
      rw [hB]
      simp only [mapAct, acceptTree_map]
      exact ⟨(by intro c' h; split at h <;> (try split at h) <;> cases h), (by intro t h; exact h)⟩
    · next heff =>
      obtain ⟨hB, _⟩ := cell_of_sim A B f hs _ _ hsd _ heff
      rw [hB]
      exact ⟨(by intro c' h; cases h), (by intro t h; cases h)⟩
    · exact ⟨(by intro c' h; cases h), (by intro t h; cases h)⟩

theorem runLoop_sim (A B : Table) (f : SMap) (hs : Sim A B f) :
    ∀ (fuel : Nat) (c : Conf) (t : PTree), AllDom f c.stack → runLoop A fuel c = .accepted t →
      runLoop B fuel { stack := mapStack f c.stack, toks := c.toks } = .accepted t := by
  intro fuel
  induction fuel with
  | zero => intro c t _ h; simp [runLoop] at h
  | succ k ih =>
    intro c t hdom h
    have hst := step_sim A B f hs c hdom
    unfold runLoop at h ⊢
    cases hstep : step A c with
    | inl c' =>
      rw [hstep] at h
      simp only at h
      obtain ⟨hB, hd'⟩ := hst.1 c' hstep
      rw [hB]
      exact ih c' t hd' h
    | inr o =>
      rw [hstep] at h
      simp only at h
      subst h
      rw [hst.2 t hstep]

end TsVerif.C15
