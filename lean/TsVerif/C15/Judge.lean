import TsVerif.C15.Model
import TsVerif.C03.Judge
/-!
# C15 — judge on the implementation's outputs
-/
namespace TsVerif.C15
open TsVerif.C03

/-- determinism: all processes produced the same bytes (hashes) for parser.c and node-types.json -/
def allEqual (hs : List String) : Bool :=
  match hs with
  | [] => false
  | h :: rest => rest.all (· == h)

/-- both real parsers agree on has_error and, when error-free, on the tree -/
def agree (errA errB same : Bool) : Bool := errA == errB && (errA || same)

def outcomeTree : Outcome → Option STree
  | .accepted t => some (ofPTree t)
  | _ => none

end TsVerif.C15
