import TsVerif.C15.Lemmas
import TsVerif.C03.Cover
import TsVerif.C03.Rename
/-!
# C15 — the converse direction for merged pairs, through the source grammar

Merging states adds look-aheads to reduce actions, so the optimised table `B` does not simulate back
into the unoptimised table `A` state by state.  The classical argument (a merged table performs at most
some extra reductions before it reports the same error) is replaced here by the two C03 theorems, both
of which hold for ALL token strings and are validated per pair by decidable checks on the two dumped
tables:

* `B` accepts `toks`  ⇒ the grammar derives `toks`          (`parser_sound`, premises `tableSafe B`, `relOK g B`)
* the grammar derives `toks` ⇒ `A` accepts `toks`           (`parser_complete`, premises `coverOK g A P`, `completeOK A P`)
* `A` accepts with tree `t'` ⇒ `B` accepts with tree `t'`    (`runLoop_sim`, premise `simCheck A B f`)

and the driver is a function, so `t' = t`: the unoptimised table accepts exactly the same strings
with exactly the same trees (`converse_through_grammar`, `merged_tables_equivalent`).
-/
namespace TsVerif.C15
open TsVerif.C03

/-- more fuel does not change a run that ended -/
theorem runLoop_mono (tbl : Table) : ∀ (f k : Nat) (c : Conf) (t : PTree),
    runLoop tbl f c = .accepted t → runLoop tbl (f + k) c = .accepted t := by
  intro f
  induction f with
  | zero => intro k c t h; simp [runLoop] at h
  | succ n ih =>
    intro k c t h
    have : n + 1 + k = (n + k) + 1 := by omega
    rw [this]
    unfold runLoop at h ⊢
    cases hs : step tbl c with
    | inl c' =>
      rw [hs] at h
      simp only at h ⊢
      exact ih k c' t h
    | inr o =>
      rw [hs] at h
      simp only at h ⊢
      exact h

/-- the driver is a function: two accepting runs with any amounts of fuel build the same tree -/
theorem runLoop_det (tbl : Table) (f1 f2 : Nat) (c : Conf) (t1 t2 : PTree)
    (h1 : runLoop tbl f1 c = .accepted t1) (h2 : runLoop tbl f2 c = .accepted t2) : t1 = t2 := by
  have a := runLoop_mono tbl f1 f2 c t1 h1
  have b := runLoop_mono tbl f2 f1 c t2 h2
  rw [Nat.add_comm] at b
  rw [a] at b
  cases b
  rfl

/-- the two tables name their terminals alike -/
def sameTerminals (A B : Table) : Bool :=
  A.tokenCount == B.tokenCount && (List.range A.tokenCount).all fun a => tokOf A a == tokOf B a

theorem map_tokOf_eq (A B : Table) (h : sameTerminals A B = true) (toks : List Nat)
    (ht : ∀ a, a ∈ toks → a < A.tokenCount) : toks.map (tokOf A) = toks.map (tokOf B) := by
  unfold sameTerminals at h
  simp only [Bool.and_eq_true, List.all_eq_true, List.mem_range, beq_iff_eq] at h
  apply List.map_congr_left
  intro a ha
  exact h.2 a (ht a ha)

/-- `converse_through_grammar`: for a pair validated through its source grammar, whatever the
optimised table accepts, the unoptimised table accepts with the same tree — for ALL strings of
non-extra terminals. -/
theorem converse_through_grammar (g : Grammar) (A B : Table) (f : SMap) (auxA auxB : AuxMap)
    (P : List Prod) (ann : Ann) (start : Nat)
    (hsim : simCheck A B f = true)
    (hsafeB : tableSafe B = true) (hrelB : relOK g B auxB = true)
    (hcovA : coverOK g A auxA P start = true) (hokA : completeOK A P (auxAllow auxA) ann start = true)
    (hnames : sameTerminals A B = true)
    (toks : List Nat) (htoks : ∀ a, a ∈ toks → a < A.tokenCount ∧ a ≠ 0 ∧ isExtraSym B a = false)
    (fuel : Nat) (t : PTree) (hB : runLoop B fuel { stack := [], toks := toks } = .accepted t) :
    ∃ fuel', runLoop A fuel' { stack := [], toks := toks } = .accepted t := by
  have hd := parser_sound_fuel g B auxB hsafeB hrelB toks (fun a ha => (htoks a ha).2.1) t fuel hB
  have hf : (toks.filter fun a => !isExtraSym B a) = toks := by
    apply List.filter_eq_self.mpr
    intro a ha
    simp [(htoks a ha).2.2]
  rw [hf, ← map_tokOf_eq A B hnames toks (fun a ha => (htoks a ha).1)] at hd
  obtain ⟨fa, t', hA⟩ := parser_complete g A auxA P ann start hcovA hokA toks
    (fun a ha => ⟨(htoks a ha).1, (htoks a ha).2.1⟩) hd
  have hB' := runLoop_sim A B f (sim_of_check A B f hsim) fa { stack := [], toks := toks } t'
    (by intro e he; cases he) hA
  have hB'' : runLoop B fa { stack := [], toks := toks } = .accepted t' := by simpa [mapStack] using hB'
  have := runLoop_det B fuel fa _ t t' hB hB''
  subst this
  exact ⟨fa, hA⟩

/-- `merged_tables_equivalent`: both directions for a merged pair — same strings, same trees. -/
theorem merged_tables_equivalent (g : Grammar) (A B : Table) (f : SMap) (auxA auxB : AuxMap)
    (P : List Prod) (ann : Ann) (start : Nat)
    (hsim : simCheck A B f = true)
    (hsafeB : tableSafe B = true) (hrelB : relOK g B auxB = true)
    (hcovA : coverOK g A auxA P start = true) (hokA : completeOK A P (auxAllow auxA) ann start = true)
    (hnames : sameTerminals A B = true)
    (toks : List Nat) (htoks : ∀ a, a ∈ toks → a < A.tokenCount ∧ a ≠ 0 ∧ isExtraSym B a = false) (t : PTree) :
    (∃ fuel, runLoop A fuel { stack := [], toks := toks } = .accepted t) ↔
    (∃ fuel, runLoop B fuel { stack := [], toks := toks } = .accepted t) := by
  constructor
  · rintro ⟨fa, hA⟩
    have hB' := runLoop_sim A B f (sim_of_check A B f hsim) fa { stack := [], toks := toks } t
      (by intro e he; cases he) hA
    exact ⟨fa, by simpa [mapStack] using hB'⟩
  · rintro ⟨fb, hB⟩
    exact converse_through_grammar g A B f auxA auxB P ann start hsim hsafeB hrelB hcovA hokA hnames toks htoks fb t hB

/-- the same with the validations evaluated on the tables with renamed non-terminals (`renameNT`:
names of non-terminals are immaterial to the driver and to the statement) -/
theorem merged_tables_equivalent_renamed (g : Grammar) (A B : Table) (renA renB : List (Nat × String))
    (f : SMap) (auxA auxB : AuxMap) (P : List Prod) (ann : Ann) (start : Nat)
    (hsim : simCheck (renameNT A renA) (renameNT B renB) f = true)
    (hsafeB : tableSafe (renameNT B renB) = true) (hrelB : relOK g (renameNT B renB) auxB = true)
    (hcovA : coverOK g (renameNT A renA) auxA P start = true)
    (hokA : completeOK (renameNT A renA) P (auxAllow auxA) ann start = true)
    (hnames : sameTerminals (renameNT A renA) (renameNT B renB) = true)
    (toks : List Nat) (htoks : ∀ a, a ∈ toks → a < A.tokenCount ∧ a ≠ 0 ∧ isExtraSym B a = false) (t : PTree) :
    (∃ fuel, runLoop A fuel { stack := [], toks := toks } = .accepted t) ↔
    (∃ fuel, runLoop B fuel { stack := [], toks := toks } = .accepted t) := by
  have := merged_tables_equivalent g (renameNT A renA) (renameNT B renB) f auxA auxB P ann start
    hsim hsafeB hrelB hcovA hokA hnames toks htoks t
  simp only [runLoop_rename] at this
  exact this

end TsVerif.C15
