/-!
# C15 — `ActionListPool::canonicalize` (crates/generate/src/tables.rs): independence of the old numbering

Before rendering, the generator re-interns every action list in the order in which the parse
states' cells mention them: a fresh pool that starts with the empty list, a cache `old_to_new`
indexed by the OLD list id, and `intern` (look the content up, append if absent).  The OLD ids are
whatever the table construction happened to assign (interning history).  `canonicalize_perm` says
the result depends only on the sequence of list CONTENTS met in table order — any renumbering
(permutation, even a non-injective one) of the old ids gives the same new ids.  Hand port; the
determinism runs of the check are its tie to the code.
-/
namespace TsVerif.C15

variable {C : Type} [DecidableEq C]

def findIdx' (x : C) : List C → Option Nat
  | [] => none
  | y :: ys => if y = x then some 0 else (findIdx' x ys).map (· + 1)

/-- `intern`: the index of the content in the pool, appended when absent -/
def intern (pool : List C) (x : C) : List C × Nat :=
  match findIdx' x pool with
  | some i => (pool, i)
  | none => (pool ++ [x], pool.length)

/-- the loop of `canonicalize` over the old ids in table order -/
def canonLoop (content : Nat → C) : List Nat → List (Nat × Nat) → List C → List Nat
  | [], _, _ => []
  | o :: rest, cache, pool =>
    match cache.lookup o with
    | some n => n :: canonLoop content rest cache pool
    | none =>
      (intern pool (content o)).2 ::
        canonLoop content rest ((o, (intern pool (content o)).2) :: cache) (intern pool (content o)).1

/-- the same without the cache: intern every content as it comes -/
def byContent : List C → List C → List Nat
  | [], _ => []
  | x :: rest, pool => (intern pool x).2 :: byContent rest (intern pool x).1

def canonicalize (empty : C) (content : Nat → C) (ids : List Nat) : List Nat :=
  canonLoop content ids [] [empty]

theorem findIdx'_append (x y : C) : ∀ (pool : List C) (i : Nat), findIdx' x pool = some i →
    findIdx' x (pool ++ [y]) = some i := by
  intro pool
  induction pool with
  | nil => intro i h; simp [findIdx'] at h
  | cons z zs ih =>
    intro i h
    simp only [findIdx', List.cons_append] at h ⊢
    split
    · next hz => simpa [hz] using h
    · next hz =>
      simp only [hz, if_false] at h
      cases hf : findIdx' x zs with
      | none => simp [hf] at h
      | some j => simp [hf] at h; simp [ih j hf, h]

theorem findIdx'_self (x : C) : ∀ (pool : List C), findIdx' x pool = none →
    findIdx' x (pool ++ [x]) = some pool.length := by
  intro pool
  induction pool with
  | nil => intro _; simp [findIdx']
  | cons z zs ih =>
    intro h
    simp only [findIdx', List.cons_append] at h ⊢
    split
    · next hz => simp [hz] at h
    · next hz =>
      simp only [hz, if_false] at h
      cases hf : findIdx' x zs with
      | none => simp [ih hf]
      | some j => simp [hf] at h

/-- once a content is in the pool, interning it again returns the same index and leaves the pool alone,
also after the pool has grown -/
def Known (pool : List C) (x : C) (n : Nat) : Prop := findIdx' x pool = some n

theorem known_intern (pool : List C) (x : C) (n : Nat) (h : Known pool x n) : intern pool x = (pool, n) := by
  unfold intern; rw [h]

theorem known_after (pool : List C) (x y : C) (n : Nat) (h : Known pool x n) : Known (intern pool y).1 x n := by
  unfold intern
  cases hy : findIdx' y pool with
  | some j => exact h
  | none => exact findIdx'_append x y pool n h

theorem intern_known (pool : List C) (x : C) : Known (intern pool x).1 x (intern pool x).2 := by
  unfold intern
  cases hx : findIdx' x pool with
  | some j => exact hx
  | none => exact findIdx'_self x pool hx

theorem canonLoop_eq (content : Nat → C) : ∀ (ids : List Nat) (cache : List (Nat × Nat)) (pool : List C),
    (∀ o n, cache.lookup o = some n → Known pool (content o) n) →
    canonLoop content ids cache pool = byContent (ids.map content) pool := by
  intro ids
  induction ids with
  | nil => intro cache pool _; rfl
  | cons o rest ih =>
    intro cache pool hinv
    simp only [canonLoop, List.map_cons, byContent]
    cases hl : cache.lookup o with
    | some n =>
      simp only
      have hk := hinv o n hl
      rw [known_intern pool (content o) n hk]
      simp only
      rw [ih cache pool hinv]
    | none =>
      simp only
      congr 1
      apply ih
      intro o' n' h'
      simp only [List.lookup] at h'
      split at h'
      · next heq =>
        have : o' = o := by simpa using heq
        subst this
        cases h'
        exact intern_known pool (content o')
      · exact known_after pool _ _ n' (hinv o' n' h')

/-- `canonicalize_perm`: two poolings whose cells carry the same contents in table order get the
same new ids, whatever their old ids were. -/
theorem canonicalize_perm (empty : C) (content content' : Nat → C) (ids ids' : List Nat)
    (h : ids.map content = ids'.map content') :
    canonicalize empty content ids = canonicalize empty content' ids' := by
  unfold canonicalize
  rw [canonLoop_eq content ids [] [empty] (by intro o n h; simp at h),
      canonLoop_eq content' ids' [] [empty] (by intro o n h; simp at h), h]

-- non-vacuity: old ids 7,3,7,9 vs 1,2,1,5 with the same contents
example : canonicalize "" (fun o => if o = 7 then "S5" else if o = 3 then "R2" else "S5") [7, 3, 7, 9]
        = canonicalize "" (fun o => if o = 1 then "S5" else if o = 2 then "R2" else "S5") [1, 2, 1, 5] := by decide
example : canonicalize "" (fun o => if o = 7 then "S5" else if o = 3 then "R2" else "S5") [7, 3, 7, 9] = [1, 2, 1, 1] := by decide

end TsVerif.C15
