import TsVerif.C03.Driver
/-!
# C15 — simulation between two parse tables (unoptimised → optimised)

`simCheck A B f` is the decidable premise of `sim_preserves`: `f` maps the states of `A` that can be
reached from the start state to states of `B` such that every cell of `A` that has an (effective)
action is mirrored in `B` through `f`, gotos likewise, and the `end of non-terminal extra` lex marker
agrees.  `findSim` computes `f` by lock-step exploration from `(1, 1)` and validates it with
`simCheck`.
-/
namespace TsVerif.C15
open TsVerif.C03

abbrev SMap := List (Nat × Nat)

def ap (f : SMap) (s : Nat) : Nat := (f.lookup s).getD 0
def inDom (f : SMap) (s : Nat) : Bool := (f.lookup s).isSome

def mapAct (f : SMap) : Action → Action
  | .shift s e r => .shift (if e then s else ap f s) e r
  | a => a

def shiftDomOK (f : SMap) : Action → Bool
  | .shift s e _ => e || inDom f s
  | _ => true

/-- the cell `(s, a)` of `A`, if it has an effective action, is mirrored in `B` -/
def cellOK (A B : Table) (f : SMap) (s a : Nat) : Bool :=
  let ea := effective (A.actions s a)
  ea.isEmpty ||
    (effective (B.actions (ap f s) a) == ea.map (mapAct f) && ea.all (shiftDomOK f))

/-- `X` is reduced at the end of a non-terminal extra (null look-ahead) in some mapped state: only
for such symbols does the runtime compare the goto target with the current state (`extra` flag). -/
def eoeSym (A : Table) (f : SMap) (X : Nat) : Bool :=
  f.any fun e => A.lexEnd e.1 && hasReduceOf X (A.actions e.1 0)

def gotoOK (A B : Table) (f : SMap) (s X : Nat) : Bool :=
  let q := A.goto s X
  q == 0 ||
    (inDom f q && B.goto (ap f s) X == ap f q &&
      (!eoeSym A f X || ((q == s) == (ap f q == ap f s))))

def stateOK (A B : Table) (f : SMap) (s : Nat) : Bool :=
  ap f s != 0 && decide (ap f s < B.stateCount) &&
  (A.lexEnd s == B.lexEnd (ap f s)) &&
  ((A.acts.getD s []).all fun e => cellOK A B f s e.1) &&
  ((A.gotos.getD s []).all fun e => gotoOK A B f s e.1)

/-- The decidable premise of `sim_preserves`. -/
def simCheck (A B : Table) (f : SMap) : Bool :=
  inDom f 1 && ap f 1 == 1 && f.all fun e => stateOK A B f e.1

/-! ## computing the map by lock-step exploration -/

def nonExtraShiftTargets (as : List Action) : List Nat :=
  (effective as).filterMap fun a => match a with
    | .shift s false _ => some s
    | _ => none

def successors (A B : Table) (s s' : Nat) : List (Nat × Nat) :=
  ((A.acts.getD s []).flatMap fun e =>
      (nonExtraShiftTargets e.2).zip (nonExtraShiftTargets (B.actions s' e.1))) ++
  ((A.gotos.getD s []).filterMap fun e =>
      let q' := B.goto s' e.1
      if q' != 0 then some (e.2, q') else none)

def findSimLoop (A B : Table) : Nat → List (Nat × Nat) → SMap → Option SMap
  | 0, _, _ => none
  | _ + 1, [], f => some f
  | fuel + 1, (s, s') :: work, f =>
    match f.lookup s with
    | some t => if t == s' then findSimLoop A B fuel work f else none
    | none => findSimLoop A B fuel (successors A B s s' ++ work) ((s, s') :: f)

def findSim (A B : Table) : Option SMap :=
  match findSimLoop A B (2 * A.stateCount * (A.symbolCount + 4) + 1000) [(1, 1)] [] with
  | some f => if simCheck A B f then some f else none
  | none => none

/-- why a map fails (diagnostics for the check's message; not used by any theorem) -/
def simDiag (A B : Table) (f : SMap) : String :=
  if !(inDom f 1 && ap f 1 == 1) then "start state not mapped to start state" else
  match f.find? (fun e => !stateOK A B f e.1) with
  | none => "ok"
  | some (s, s') =>
    if !(ap f s != 0 && decide (ap f s < B.stateCount)) then s!"state {s} maps to a non-existing state {s'}"
    else if A.lexEnd s != B.lexEnd (ap f s) then s!"lex-end marker differs at state {s}→{s'}"
    else match (A.acts.getD s []).find? (fun e => !cellOK A B f s e.1) with
      | some e => s!"actions differ at state {s}→{s'} on symbol {e.1}: A={repr (effective (A.actions s e.1))} B={repr (effective (B.actions s' e.1))}"
      | none => match (A.gotos.getD s []).find? (fun e => !gotoOK A B f s e.1) with
        | some e => s!"goto differs at state {s}→{s'} on symbol {e.1}: A→{A.goto s e.1} B→{B.goto s' e.1}"
        | none => "?"

end TsVerif.C15
