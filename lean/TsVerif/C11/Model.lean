import TsVerif.Gen.C11
import TsVerif.Gen.Query
/-!
# C11 — model: match / capture streams, cursor ranges, text predicates

* `range_intersects`, `range_within` are *generated* from `lib/src/query.c` (`TsGen`, T-gen).
* `setByteRange` / `setPointRange` are hand ports of `ts_query_cursor_set_byte_range` /
  `ts_query_cursor_set_point_range` (and of the `containing` variants, which are the same code on
  another field).
* `captureOutside` is a hand port of the `node_outside_of_range` test of
  `ts_query_cursor_next_capture`.
* `captureStream` is the *spec* of the capture view of a match list.
* `evalImpl` is a code-shaped port of `QueryMatch::satisfies_text_predicates`
  (lib/binding_rust/lib.rs) with its early returns; `evalFixed` is the same code after
  `fixes/C11-any-predicates.diff`; `evalSpec` is the documented reading
  (docs/src/using-parsers/queries/3-predicates-and-directives.md).
-/
namespace TsVerif.C11
open TsGen

abbrev Bytes := List Nat

structure Cap where
  idx : Nat
  node : Nat
  r : TSRange
  deriving DecidableEq, Repr, Inhabited

structure Match where
  id : Nat
  pat : Nat
  root : TSRange
  depth : Nat
  hasPar : Bool
  hasRoot : Bool
  par : TSRange
  caps : List Cap
  deriving DecidableEq, Repr, Inhabited

/-- One element of the capture stream: match id, pattern, position in the match's capture list. -/
structure CapEv where
  id : Nat
  pat : Nat
  k : Nat
  cap : Cap
  deriving DecidableEq, Repr, Inhabited

abbrev Triple := Nat × Nat × Nat

def CapEv.triple (e : CapEv) : Triple := (e.pat, e.cap.idx, e.cap.node)

/-! ## The capture view of a match list (spec) -/

def eventsOf (m : Match) : List CapEv :=
  (m.caps.zipIdx).map fun ck => { id := m.id, pat := m.pat, k := ck.2, cap := ck.1 }

def allEvents (ms : List Match) : List CapEv := ms.flatMap eventsOf

/-- Document order of captures: start ascending, end descending (outer before inner),
then pattern index, then position in the match. -/
def evLe (a b : CapEv) : Bool :=
  decide (a.cap.r.start_byte < b.cap.r.start_byte ∨
    (a.cap.r.start_byte = b.cap.r.start_byte ∧
      (b.cap.r.end_byte < a.cap.r.end_byte ∨
        (a.cap.r.end_byte = b.cap.r.end_byte ∧
          (a.pat < b.pat ∨ (a.pat = b.pat ∧ a.k ≤ b.k))))))

def captureStream (ms : List Match) : List CapEv := (allEvents ms).mergeSort evLe

def triplesOfMatches (ms : List Match) : List Triple := (allEvents ms).map CapEv.triple

/-- Start bytes never decrease. -/
def startSorted : List CapEv → Bool
  | a :: b :: rest => decide (a.cap.r.start_byte ≤ b.cap.r.start_byte) && startSorted (b :: rest)
  | _ => true

def subsetB (xs ys : List Triple) : Bool := xs.all fun x => ys.contains x

/-! ## Cursor ranges -/

def UINT32_MAX : Nat := 4294967295

def defaultRange : TSRange :=
  { start_point := POINT_ZERO, end_point := POINT_MAX, start_byte := 0, end_byte := UINT32_MAX }

/-- Port of `ts_query_cursor_set_byte_range` (and `..._set_containing_byte_range`). -/
def setByteRange (r : TSRange) (s e : Nat) : TSRange :=
  let e := if e = 0 then UINT32_MAX else e
  if s > e then r else { r with start_byte := s, end_byte := e }

/-- Port of `ts_query_cursor_set_point_range` (and `..._set_containing_point_range`). -/
def setPointRange (r : TSRange) (s e : TSPoint) : TSRange :=
  let e := if e.row = 0 ∧ e.column = 0 then POINT_MAX else e
  if point_gt s e then r else { r with start_point := s, end_point := e }

/-- Port of `ts_query_cursor__node_precedes_range` (commit 5d2fccd): a zero-width node exactly at
the start of the range is inside it, as for `range_intersects`. -/
def nodePrecedesRange (n inc : TSRange) : Bool :=
  if n.start_byte = n.end_byte then
    decide (n.end_byte < inc.start_byte) || point_lt n.end_point inc.start_point
  else
    decide (n.end_byte ≤ inc.start_byte) || point_lte n.end_point inc.start_point

/-- The expression the helper replaced (selected when the behavioural probe shows the old behaviour). -/
def nodePrecedesRangeOld (n inc : TSRange) : Bool :=
  decide (n.end_byte ≤ inc.start_byte) || point_lte n.end_point inc.start_point

/-- Port of the `node_outside_of_range` test in `ts_query_cursor_next_capture`.  `old` selects
the test as it was before commit 5d2fccd; which one the code under test implements is decided on
every run by a behavioural probe (captures() on a zero-width node at the range start), not by a
source anchor: a rename of the helper changes nothing, a reverted fix selects the old variant —
and is then reported by clause (a), because the unrestricted capture stream loses the node. -/
def captureOutside (n inc : TSRange) (old : Bool := false) : Bool :=
  (if old then nodePrecedesRangeOld n inc else nodePrecedesRange n inc) ||
  (decide (n.start_byte ≥ inc.end_byte) || point_gte n.start_point inc.end_point)

def PLt (p q : TSPoint) : Prop := p.row < q.row ∨ (p.row = q.row ∧ p.column < q.column)
def PLe (p q : TSPoint) : Prop := p.row < q.row ∨ (p.row = q.row ∧ p.column ≤ q.column)
instance (p q : TSPoint) : Decidable (PLt p q) := by unfold PLt; infer_instance
instance (p q : TSPoint) : Decidable (PLe p q) := by unfold PLe; infer_instance

/-- Spec of "node range `a` intersects range `b`": half-open overlap in bytes and in points; an
empty node (start = end) at position p meets `b` iff `b.start ≤ p < b.end`.
(`range_intersects_spec`: the function generated from query.c equals this.) -/
def intersectsSpec (a b : TSRange) : Bool :=
  if a.start_byte = a.end_byte then
    decide ((b.start_byte ≤ a.start_byte ∧ a.start_byte < b.end_byte) ∧
      (PLe b.start_point a.end_point ∧ PLt a.start_point b.end_point))
  else
    decide ((a.end_byte > b.start_byte ∧ a.start_byte < b.end_byte) ∧
      (PLt b.start_point a.end_point ∧ PLt a.start_point b.end_point))

/-- Spec of "node range `a` lies within range `b`". -/
def withinSpec (a b : TSRange) : Bool :=
  decide ((b.start_byte ≤ a.start_byte ∧ a.end_byte ≤ b.end_byte) ∧
    (PLe b.start_point a.start_point ∧ PLe a.end_point b.end_point))

/-- Which unrestricted matches a cursor restricted to the intersecting range `inc` returns:
those whose root node intersects the range (and whose parent does, as the code requires both). -/
def keepIntersect (inc : TSRange) (m : Match) : Bool :=
  intersectsSpec m.root inc && (!m.hasPar || intersectsSpec m.par inc)

/-- … and to the containing range `con`: those whose root node lies within it. -/
def keepWithin (con : TSRange) (m : Match) : Bool := withinSpec m.root con

/-! ## Text predicates -/

inductive TextPred where
  | eqCapture (i j : Nat) (pos all : Bool)
  | eqString (i : Nat) (s : Bytes) (pos all : Bool)
  | matchString (i : Nat) (re : Bytes) (pos all : Bool)
  | anyString (i : Nat) (vs : List Bytes) (pos : Bool)
  deriving Repr, Inhabited

/-- `all`-quantified (or `any-of?`, which the code always evaluates over all nodes). -/
def TextPred.isAll : TextPred → Bool
  | .eqCapture _ _ _ a => a
  | .eqString _ _ _ a => a
  | .matchString _ _ _ a => a
  | .anyString _ _ _ => true

/-- Port of the operator-name table of `Query::from_raw_parts`: name ↦ (is_positive, match_all). -/
def opFlags (name : String) : Option (String × Bool × Bool) :=
  if name = "eq?" then some ("eq", true, true)
  else if name = "not-eq?" then some ("eq", false, true)
  else if name = "any-eq?" then some ("eq", true, false)
  else if name = "any-not-eq?" then some ("eq", false, false)
  else if name = "match?" then some ("match", true, true)
  else if name = "not-match?" then some ("match", false, true)
  else if name = "any-match?" then some ("match", true, false)
  else if name = "any-not-match?" then some ("match", false, false)
  else if name = "any-of?" then some ("anyof", true, true)
  else if name = "not-any-of?" then some ("anyof", false, true)
  else none

/-- Texts of the nodes captured under capture index `i`, in capture-list order
(`QueryMatch::nodes_for_capture_index`). -/
def nodesFor (caps : List (Nat × Bytes)) (i : Nat) : List Bytes :=
  (caps.filter fun c => c.1 == i).map (·.2)

/-- The `for node in nodes { … }` loop of the `EqString` / `MatchString` arms, as written:
early `false` for an `all` predicate, early `true` for an `any` predicate, `true` at the end. -/
def loopStrImpl (test : Bytes → Bool) (pos all : Bool) : List Bytes → Bool
  | [] => true
  | t :: ts =>
    if (test t != pos) && all then false
    else if (test t == pos) && !all then true
    else loopStrImpl test pos all ts

/-- The same loop after the fix: falling off the end yields `match_all_nodes`. -/
def loopStrFixed (test : Bytes → Bool) (pos all : Bool) : List Bytes → Bool
  | [] => all
  | t :: ts =>
    if (test t != pos) && all then false
    else if (test t == pos) && !all then true
    else loopStrFixed test pos all ts

/-- The `while nodes_1.peek().is_some() && nodes_2.peek().is_some()` loop of `EqCapture`. -/
def loopCapImpl (pos all : Bool) : List Bytes → List Bytes → Bool
  | t1 :: r1, t2 :: r2 =>
    if (decide (t1 = t2) != pos) && all then false
    else if (decide (t1 = t2) == pos) && !all then true
    else loopCapImpl pos all r1 r2
  | [], [] => true
  | _, _ => false

def loopCapFixed (pos all : Bool) : List Bytes → List Bytes → Bool
  | t1 :: r1, t2 :: r2 =>
    if (decide (t1 = t2) != pos) && all then false
    else if (decide (t1 = t2) == pos) && !all then true
    else loopCapFixed pos all r1 r2
  | [], [] => all
  | _, _ => false

def anyOfLoop (vs : List Bytes) (pos : Bool) (ts : List Bytes) : Bool :=
  ts.all fun t => (vs.any fun v => decide (v = t)) == pos

/-- `satisfies_text_predicates`, one predicate, as the unchanged code evaluates it.
`isMatch` stands for `regex::bytes::Regex::is_match` (a parameter: not tree-sitter code). -/
def evalImpl (isMatch : Bytes → Bytes → Bool) (caps : List (Nat × Bytes)) : TextPred → Bool
  | .eqCapture i j pos all => loopCapImpl pos all (nodesFor caps i) (nodesFor caps j)
  | .eqString i s pos all => loopStrImpl (fun t => decide (t = s)) pos all (nodesFor caps i)
  | .matchString i re pos all => loopStrImpl (isMatch re) pos all (nodesFor caps i)
  | .anyString i vs pos => anyOfLoop vs pos (nodesFor caps i)

def evalFixed (isMatch : Bytes → Bytes → Bool) (caps : List (Nat × Bytes)) : TextPred → Bool
  | .eqCapture i j pos all => loopCapFixed pos all (nodesFor caps i) (nodesFor caps j)
  | .eqString i s pos all => loopStrFixed (fun t => decide (t = s)) pos all (nodesFor caps i)
  | .matchString i re pos all => loopStrFixed (isMatch re) pos all (nodesFor caps i)
  | .anyString i vs pos => anyOfLoop vs pos (nodesFor caps i)

/-- Documented reading: `all` predicates hold for every captured node, `any-` predicates for
some node; `not-` forms are negated pointwise. -/
def specStr (test : Bytes → Bool) (pos all : Bool) (ts : List Bytes) : Bool :=
  if all then ts.all fun t => test t == pos else ts.any fun t => test t == pos

/-- Two-capture form: the nodes are compared pairwise in capture order (the docs only describe
one node per capture; the pairing and the equal-count requirement of the `all` form are the
implementation's choice, recorded here). -/
def specCap (pos all : Bool) (l1 l2 : List Bytes) : Bool :=
  if all then decide (l1.length = l2.length) && (l1.zip l2).all fun p => decide (p.1 = p.2) == pos
  else (l1.zip l2).any fun p => decide (p.1 = p.2) == pos

def evalSpec (isMatch : Bytes → Bytes → Bool) (caps : List (Nat × Bytes)) : TextPred → Bool
  | .eqCapture i j pos all => specCap pos all (nodesFor caps i) (nodesFor caps j)
  | .eqString i s pos all => specStr (fun t => decide (t = s)) pos all (nodesFor caps i)
  | .matchString i re pos all => specStr (isMatch re) pos all (nodesFor caps i)
  | .anyString i vs pos => (nodesFor caps i).all fun t => (vs.any fun v => decide (v = t)) == pos

def satisfies (ev : List (Nat × Bytes) → TextPred → Bool) (preds : List TextPred)
    (caps : List (Nat × Bytes)) : Bool :=
  preds.all (ev caps)

/-! ## Occurrence sets of quantifiers -/

/-- How many times something with quantifier `q` may occur. -/
def occ : TSQuantifier → Nat → Prop
  | .TSQuantifierZero, n => n = 0
  | .TSQuantifierZeroOrOne, n => n ≤ 1
  | .TSQuantifierZeroOrMore, _ => True
  | .TSQuantifierOne, n => n = 1
  | .TSQuantifierOneOrMore, n => 1 ≤ n

end TsVerif.C11
