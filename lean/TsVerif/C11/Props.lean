import TsVerif.C11.Judge
import TsVerif.C11.Heap
/-!
# C11 — Query cursor views agree: captures, matches, ranges, limits, predicates

Property text: *For one query and tree, the capture stream contains exactly the (pattern,
capture, node) triples that occur in the match stream, in document order; restricting the cursor
to a byte/point range yields precisely the unrestricted matches that intersect it (or, for
containing ranges, lie inside it), and re-executing a cursor or using a fresh one gives identical
results.  A match limit that drops matches is always reported, removing a match suppresses its
remaining captures only, and the Rust iterators return exactly the matches whose text predicates
hold for the source text.*

## Clause map: each phrase of the property text → theorems, with status

Status: **proved** (kernel-checked, for all inputs) · **partial** (proved under the stated hypothesis /
for the stated fragment) · **judged** (decided by the Lean judge on the real cursor's streams of every
generated case; no ∀-theorem about the implementation).  Theorems of `ViewProps.lean` are marked (V).
Everything about the IMPLEMENTATION is judged: the theorems are about the spec, the judges and the ports.

1. *"the capture stream contains exactly the (pattern, capture, node) triples that occur in the match stream"*
   - spec view = a rearrangement of the matches' captures, nothing added / dropped / duplicated:
     `captureStream_perm`, `captureStream_triples` — **proved** (multiset equality).
   - the judge demands both inclusions: `judgeA_iff` (V) (accepts ⇔ same triples AS A SET ∧ document order),
     `judgeA_triples`, `judgeA_captureStream` (the spec stream passes the judge) — **proved**.  Weakness kept on
     purpose: set, not multiset (a shared node is reported once per in-progress state, see conventions).
   - under a range: only `visible ⊆ captures ⊆ all` (`judgeA` with `inc`) — **partial** (two inclusions with
     different bounds; the cursor drops out-of-range captures of finished states only).
   - real `captures()` vs real `matches()`: **judged** (clause a; clause h with text predicates).
2. *"in document order"* — `captureStream_sorted`, `captureStream_startSorted`, `captureStream_keys_unique` (V)
   (any sorted rearrangement has the merge's key sequence) — **proved** for the spec; the judge demands
   non-decreasing START BYTE only (`startSorted`; ties by end / pattern are not demanded) — **judged**.
3. *"restricting the cursor to a byte/point range yields precisely the unrestricted matches that intersect it
   (or, for containing ranges, lie inside it)"*
   - the generated `range_intersects` / `range_within` ARE half-open overlap / containment (+ empty-node
     convention): `range_intersects_spec`, `range_within_spec`, `range_*_eq_spec`, `setByteRange_spec` — **proved**.
   - "precisely" = filter of the unrestricted stream: `judgeB_qfree_iff` (V) — **proved**, both inclusions and
     order, for queries WITHOUT quantifiers and alternations; with them only `judgeB_sound` (V) (every returned
     (pattern, root) is kept by the filter) — **partial** (⊆ only: a match completed past the range may be lost).
   - what "intersects" means for a match: root and root's parent (`keepIntersect`); `keepIntersect_eq_root` (V)
     (non-empty root inside its parent: just the root), `range_intersects_parent`, `range_within_mono` —
     **proved**; non-rooted patterns: the parent of the first node (convention, **judged**); zero-width roots:
     NOT constrained (`emptyRoot`; nothing decides them).
   - byte range vs point range of the same positions: `range_intersects_bytes_of_consistent`,
     `range_within_bytes_of_consistent` — **proved** for position-consistent ranges; real runs: **judged** (clause p).
   - rootedness flag used to choose the rule: clause r — **judged** against the pattern text.
4. *"re-executing a cursor or using a fresh one gives identical results"* — `judgeCm_iff`, `judgeCc_iff` (V) (the
   judge is equality, ids included) — trivial; the claim itself is **judged** (clauses c, cl, fl).  Behind it:
   `pool_reset`, `heap_inv`, `heap_pop_min` — **proved** for the ported structures.
5. *"a match limit that drops matches is always reported"*
   - `judgeDm_iff`, `judgeDc_iff` (V): a differing stream needs the flag — **proved** (judge), real runs **judged** (d).
   - on the pool model: `prepare_flag_eq`, `abandon_flag_eq`, `prepare_exhausted_drops`,
     `prepare_not_exhausted_keeps`, `abandon_erases_iff`, `flag_trace`, `flag_iff_dropped` (V) and
     `pool_flag_prepare/abandon`: flag set ⇔ a state or capture was dropped — **partial**: about the hand ports
     `prepareToCapture` / `abandonEarliest` (trusted to mirror the two C sites; the pool primitives under them
     are tied by `cunit_c11.c`), `pool_acquire`, `pool_release` — **proved**.
   - order in which finished matches leave: `precedes_*`, `heap_root_min`, `heap_inv` — **proved** (ports, tied by cunit).
6. *"removing a match suppresses its remaining captures only"* — **judged only** (`judgeE`: prefix unchanged always;
   others kept / nothing new / own captures gone only for quantifier-free queries with a unique match id).  No theorem.
7. *"the Rust iterators return exactly the matches whose text predicates hold for the source text"*
   - `predicates_spec_fixed` (repaired loops = documented reading, all predicates), `predicates_spec_partial`,
     `predicates_impl_any_str_true`, `any_eq_witness` — **proved** about the hand port of the loops in lib.rs
     (tie: `evalImpl | evalFixed` compared with the real verdict on every case).
   - `judgeF_iff`, `mem_filterBy` (V): the judge demands the filter of the raw stream, keys in order — **proved**;
     real `matches()` with predicates: **judged** (f); real `captures()` with predicates vs `matches()`: **judged** (h).
   - `#match?`: `miniRegex` stands in for the regex crate on the generated subset — trusted.
8. (quantifier over configurations) *max start depth*: `judgeG_simple_iff` (V) — **proved** (judge), runs **judged** (g).
9. quantifier algebra (feeds C05): `quantifier_add/join/mul_sound/least` — **proved** about the GENERATED tables.

Pairs of views and what connects them: matches↔captures (1, 2: theorems + judged) · unrestricted↔byte range (3) ·
byte↔point range (3) · fresh↔re-executed↔reused (4: judged) · unlimited↔limited (5) · before↔after removal
(6: judged only) · raw↔predicate-filtered matches (7) · filtered captures↔filtered matches (7: judged) ·
unrestricted↔start-depth-bounded (8).

Conventions fixed here where the docs are silent (the implementation decides):
* identity of a triple is (pattern index, capture index, node); the capture view is compared with
  the match view as *sets* of triples: one node captured by several matches of the same pattern
  (e.g. a shared root) is reported once per in-progress state, not once per match;
* a range-restricted capture stream additionally drops captures whose node is outside the range
  (`captureOutside`, the test used by `ts_query_cursor_next_capture`);
* "document order" is non-decreasing start byte;
* a match "intersects" a range when its root node and the root's parent do (`keepIntersect`);
  zero-width roots are not constrained (`emptyRoot`: `range_within` and the `range_intersects`
  that gates the descent disagree on them, see `range_intersects_parent` and its counterexample);
* for queries with quantifiers or alternations (split / twin states, deferred completion) the
  range clause requires soundness only and the removal clause only an unchanged prefix.
-/
namespace TsVerif.C11
open TsGen

/-! ## Quantifier algebra (generated `quantifier_add/join/mul`) -/

/-- Sum of two counts lies in the occurrence set of `quantifier_add`. -/
theorem quantifier_add_sound (a b : TSQuantifier) (m n : Nat) :
    occ a m → occ b n → occ (quantifier_add a b) (m + n) := by
  cases a <;> cases b <;> simp [occ, quantifier_add] <;> omega

/-- … and `quantifier_add a b` is the least of the five quantifiers with that property. -/
theorem quantifier_add_least (a b c : TSQuantifier)
    (h : ∀ m n, occ a m → occ b n → occ c (m + n)) : ∀ k, occ (quantifier_add a b) k → occ c k := by
  intro k hk
  have h00 := h 0 0; have h01 := h 0 1; have h10 := h 1 0; have h11 := h 1 1
  have h0k := h 0 k; have hk0 := h k 0; have h1k := h 1 (k - 1); have hk1 := h (k - 1) 1
  cases a <;> cases b <;> cases c <;> simp [occ, quantifier_add] at * <;> omega

/-- Either branch's count lies in the occurrence set of `quantifier_join`. -/
theorem quantifier_join_sound (a b : TSQuantifier) (n : Nat) :
    occ a n ∨ occ b n → occ (quantifier_join a b) n := by
  cases a <;> cases b <;> simp [occ, quantifier_join] <;> omega

theorem quantifier_join_least (a b c : TSQuantifier)
    (h : ∀ n, occ a n ∨ occ b n → occ c n) : ∀ k, occ (quantifier_join a b) k → occ c k := by
  intro k hk
  have h0 := h 0; have h1 := h 1; have h2 := h k
  cases a <;> cases b <;> cases c <;> simp [occ, quantifier_join] at * <;> omega

/-- A count repeated a number of times (outer quantifier `a`, inner `b`). -/
theorem quantifier_mul_sound (a b : TSQuantifier) (m n : Nat) :
    occ a m → occ b n → occ (quantifier_mul a b) (m * n) := by
  cases a <;> cases b <;> simp [occ, quantifier_mul] <;> intros <;> subst_vars <;> try omega
  · rename_i h1 h2
    exact Nat.le_trans (Nat.mul_le_mul h1 h2) (by omega)
  · rename_i h1 h2
    exact Nat.mul_pos h1 h2

theorem quantifier_mul_least (a b c : TSQuantifier)
    (h : ∀ m n, occ a m → occ b n → occ c (m * n)) : ∀ k, occ (quantifier_mul a b) k → occ c k := by
  intro k hk
  have h00 := h 0 0; have h01 := h 0 1; have h10 := h 1 0; have h11 := h 1 1
  have h1k := h 1 k; have hk1 := h k 1
  cases a <;> cases b <;> cases c <;> simp [occ, quantifier_mul] at * <;> omega

example : occ (quantifier_add .TSQuantifierOne .TSQuantifierZeroOrOne) 2 :=
  quantifier_add_sound _ _ 1 1 rfl (by simp [occ])

/-! ## Ranges (generated `range_intersects`, `range_within`) -/


theorem range_intersects_spec (a b : TSRange) :
    range_intersects a b = true ↔
      (if a.start_byte = a.end_byte then
          (b.start_byte ≤ a.start_byte ∧ a.start_byte < b.end_byte) ∧
          (PLe b.start_point a.end_point ∧ PLt a.start_point b.end_point)
        else
          (a.end_byte > b.start_byte ∧ a.start_byte < b.end_byte) ∧
          (PLt b.start_point a.end_point ∧ PLt a.start_point b.end_point)) := by
  unfold range_intersects point_gt point_eq point_lt PLe PLt
  cases a with | mk asp aep asb aeb =>
  cases b with | mk bsp bep bsb beb =>
  cases asp; cases aep; cases bsp; cases bep
  simp only [decide_eq_true_eq]
  split <;> (simp_all; try omega)


/-- The non-empty byte criterion is half-open interval overlap (for a non-empty range; an empty
range `[p,p)` is treated by the code as the point `p`: it meets every node with `s < p < e`). -/
theorem byte_overlap_iff_exists (as ae bs be : Nat) (h : as < ae) (hb : bs < be) :
    (ae > bs ∧ as < be) ↔ ∃ x, as ≤ x ∧ x < ae ∧ bs ≤ x ∧ x < be := by
  constructor
  · intro ⟨h1, h2⟩
    by_cases hc : as ≤ bs
    · exact ⟨bs, by omega, by omega, by omega, by omega⟩
    · exact ⟨as, by omega, by omega, by omega, by omega⟩
  · intro ⟨x, h1, h2, h3, h4⟩
    omega

theorem range_within_spec (a b : TSRange) :
    range_within a b = true ↔
      (b.start_byte ≤ a.start_byte ∧ a.end_byte ≤ b.end_byte) ∧
      (PLe b.start_point a.start_point ∧ PLe a.end_point b.end_point) := by
  unfold range_within point_gte point_lte PLe
  cases a with | mk asp aep asb aeb =>
  cases b with | mk bsp bep bsb beb =>
  cases asp; cases aep; cases bsp; cases bep
  simp only [decide_eq_true_eq]
  simp_all; omega

/-- The generated predicates ARE the spec functions the judge filters with. -/
theorem range_intersects_eq_spec (a b : TSRange) : range_intersects a b = intersectsSpec a b := by
  rw [Bool.eq_iff_iff, range_intersects_spec]
  unfold intersectsSpec
  split <;> simp

theorem range_within_eq_spec (a b : TSRange) : range_within a b = withinSpec a b := by
  rw [Bool.eq_iff_iff, range_within_spec]
  unfold withinSpec
  simp

/-- A range whose points are the images of its bytes under a position map. -/
def Consistent (pos : Nat → TSPoint) (r : TSRange) : Prop :=
  r.start_point = pos r.start_byte ∧ r.end_point = pos r.end_byte

/-- Strictly monotone position map (row/column of a byte offset in a fixed text). -/
def StrictMonoPos (pos : Nat → TSPoint) : Prop := ∀ i j, i < j ↔ PLt (pos i) (pos j)

theorem PLt_irrefl (p : TSPoint) : ¬ PLt p p := by unfold PLt; omega
theorem PLe_iff (p q : TSPoint) : PLe p q ↔ PLt p q ∨ p = q := by
  cases p; cases q; unfold PLe PLt; simp; omega

theorem mono_le (pos : Nat → TSPoint) (h : StrictMonoPos pos) (i j : Nat) : i ≤ j ↔ PLe (pos i) (pos j) := by
  rw [PLe_iff]
  constructor
  · intro hij
    rcases Nat.lt_or_eq_of_le hij with h1 | h1
    · exact Or.inl ((h i j).1 h1)
    · exact Or.inr (by rw [h1])
  · intro hh
    rcases hh with h1 | h1
    · exact Nat.le_of_lt ((h i j).2 h1)
    · rcases Nat.lt_or_ge j i with h2 | h2
      · have := (h j i).1 h2; rw [h1] at this; exact absurd this (PLt_irrefl _)
      · exact h2

/-- For position-consistent ranges the point conjuncts add nothing: the predicate is the byte
criterion alone (so byte ranges and point ranges select the same matches). -/
theorem range_intersects_bytes_of_consistent (pos : Nat → TSPoint) (hm : StrictMonoPos pos)
    (a b : TSRange) (ha : Consistent pos a) (hb : Consistent pos b) :
    range_intersects a b = true ↔
      (if a.start_byte = a.end_byte then b.start_byte ≤ a.start_byte ∧ a.start_byte < b.end_byte
       else a.end_byte > b.start_byte ∧ a.start_byte < b.end_byte) := by
  rw [range_intersects_spec]
  obtain ⟨ha1, ha2⟩ := ha
  obtain ⟨hb1, hb2⟩ := hb
  rw [ha1, ha2, hb1, hb2]
  split
  · rename_i he
    rw [← mono_le pos hm, ← hm]
    omega
  · rw [← hm, ← hm]
    omega

theorem range_within_bytes_of_consistent (pos : Nat → TSPoint) (hm : StrictMonoPos pos)
    (a b : TSRange) (ha : Consistent pos a) (hb : Consistent pos b) :
    range_within a b = true ↔ (b.start_byte ≤ a.start_byte ∧ a.end_byte ≤ b.end_byte) := by
  rw [range_within_spec]
  obtain ⟨ha1, ha2⟩ := ha
  obtain ⟨hb1, hb2⟩ := hb
  rw [ha1, ha2, hb1, hb2, ← mono_le pos hm, ← mono_le pos hm]
  omega

theorem PLe_trans {p q r : TSPoint} : PLe p q → PLe q r → PLe p r := by unfold PLe; omega

/-- Containment is inherited by everything inside: when the root of a match lies within the
containing range, so does every node of the match. -/
theorem range_within_mono (c a b : TSRange) (hca : range_within c a = true) (hab : range_within a b = true) :
    range_within c b = true := by
  rw [range_within_spec] at *
  obtain ⟨⟨h1, h2⟩, h3, h4⟩ := hca
  obtain ⟨⟨g1, g2⟩, g3, g4⟩ := hab
  exact ⟨⟨by omega, by omega⟩, PLe_trans g3 h3, PLe_trans h4 g4⟩

theorem PLt_of_le_lt {p q r : TSPoint} : PLe p q → PLt q r → PLt p r := by unfold PLe PLt; omega
theorem PLt_of_lt_le {p q r : TSPoint} : PLt p q → PLe q r → PLt p r := by unfold PLe PLt; omega

/-- A non-empty node that intersects the range makes every node containing it intersect too:
not descending into a non-intersecting parent loses no *non-empty* intersecting node. -/
theorem range_intersects_parent (c a b : TSRange) (hne : c.start_byte < c.end_byte)
    (hca : range_within c a = true) (hcb : range_intersects c b = true) :
    range_intersects a b = true := by
  rw [range_within_spec] at hca
  rw [range_intersects_spec] at *
  obtain ⟨⟨h1, h2⟩, h3, h4⟩ := hca
  rw [if_neg (by omega)] at hcb
  obtain ⟨⟨g1, g2⟩, g3, g4⟩ := hcb
  split
  · omega
  · exact ⟨⟨by omega, by omega⟩, PLt_of_lt_le g3 h4, PLt_of_le_lt h3 g4⟩

/-- … but an empty node at the end of its parent can intersect a range its parent misses
(the empty-node convention; e.g. a MISSING token at the parent's end, range starting there). -/
example : ∃ c a b : TSRange, range_within c a = true ∧ range_intersects c b = true ∧
    range_intersects a b = false :=
  ⟨⟨⟨0, 10⟩, ⟨0, 10⟩, 10, 10⟩, ⟨⟨0, 5⟩, ⟨0, 10⟩, 5, 10⟩, ⟨⟨0, 10⟩, ⟨0, 20⟩, 10, 20⟩, by decide⟩

theorem setByteRange_spec (r : TSRange) (s e : Nat) :
    (s ≤ (if e = 0 then UINT32_MAX else e) →
      (setByteRange r s e).start_byte = s ∧ (setByteRange r s e).end_byte = (if e = 0 then UINT32_MAX else e) ∧
      (setByteRange r s e).start_point = r.start_point ∧ (setByteRange r s e).end_point = r.end_point) ∧
    ((if e = 0 then UINT32_MAX else e) < s → setByteRange r s e = r) := by
  unfold setByteRange
  constructor
  · intro h; simp only; rw [if_neg (by omega)]; simp
  · intro h; simp only; rw [if_pos (by omega)]


/-! ## The capture view of a match list -/

theorem evLe_trans (a b c : CapEv) : evLe a b = true → evLe b c = true → evLe a c = true := by
  simp only [evLe, decide_eq_true_eq]; omega

theorem evLe_total (a b : CapEv) : (evLe a b || evLe b a) = true := by
  simp only [evLe, Bool.or_eq_true, decide_eq_true_eq]; omega

/-- The capture view is sorted by (start, end descending, pattern, position in match). -/
theorem captureStream_sorted (ms : List Match) : (captureStream ms).Pairwise (fun a b => evLe a b = true) :=
  List.pairwise_mergeSort evLe_trans evLe_total _

/-- It is a rearrangement of the captures of the matches: nothing added, dropped or duplicated. -/
theorem captureStream_perm (ms : List Match) : (captureStream ms).Perm (allEvents ms) :=
  List.mergeSort_perm _ _

/-- Hence the multiset of (pattern, capture, node) triples is that of the matches. -/
theorem captureStream_triples (ms : List Match) :
    ((captureStream ms).map CapEv.triple).Perm (triplesOfMatches ms) :=
  (captureStream_perm ms).map _

theorem startSorted_of_pairwise : ∀ (l : List CapEv),
    l.Pairwise (fun a b => evLe a b = true) → startSorted l = true
  | [], _ => rfl
  | [_], _ => rfl
  | a :: b :: rest, h => by
    unfold startSorted
    have h1 : evLe a b = true := (List.pairwise_cons.1 h).1 b (by simp)
    have h2 := startSorted_of_pairwise (b :: rest) (List.pairwise_cons.1 h).2
    simp only [evLe, decide_eq_true_eq] at h1
    simp only [Bool.and_eq_true, decide_eq_true_eq]
    exact ⟨by omega, h2⟩

/-- In particular it is in document order (start bytes never decrease). -/
theorem captureStream_startSorted (ms : List Match) : startSorted (captureStream ms) = true :=
  startSorted_of_pairwise _ (captureStream_sorted ms)

theorem subsetB_of_perm {xs ys : List Triple} (h : xs.Perm ys) : subsetB xs ys = true := by
  unfold subsetB
  rw [List.all_eq_true]
  intro x hx
  rw [List.contains_iff_mem]
  exact h.mem_iff.1 hx

theorem subsetB_of_subset {xs ys : List Triple} (h : ∀ x, x ∈ xs → x ∈ ys) : subsetB xs ys = true := by
  unfold subsetB
  rw [List.all_eq_true]
  intro x hx
  rw [List.contains_iff_mem]
  exact h x hx

/-- The spec stream passes the judge that is run on the implementation's capture stream, under
every range setting (so the judge demands nothing the spec does not have). -/
theorem judgeA_captureStream (ms : List Match) (inc : Option TSRange) (old : Bool) :
    judgeA ms (captureStream ms) inc old = true := by
  unfold judgeA
  simp only [Bool.and_eq_true]
  refine ⟨⟨subsetB_of_perm (captureStream_triples ms), ?_⟩, captureStream_startSorted ms⟩
  apply subsetB_of_subset
  intro x hx
  have hsub : ∀ e, e ∈ visibleEvents ms inc old → e ∈ allEvents ms := by
    intro e he
    unfold visibleEvents at he
    cases inc with
    | none => exact he
    | some r => exact (List.mem_filter.1 he).1
  obtain ⟨e, he, rfl⟩ := List.mem_map.1 hx
  exact (captureStream_triples ms).mem_iff.2 (List.mem_map.2 ⟨e, hsub e he, rfl⟩)

/-- Conversely the judge pins the triples down: a stream that passes has exactly the triples of
the matches (as a set). -/
theorem judgeA_triples (ms : List Match) (cs : List CapEv) (h : judgeA ms cs none = true) :
    ∀ t, t ∈ cs.map CapEv.triple ↔ t ∈ triplesOfMatches ms := by
  unfold judgeA visibleEvents subsetB at h
  simp only [Bool.and_eq_true, List.all_eq_true, List.contains_iff_mem] at h
  intro t
  exact ⟨fun ht => h.1.1 t ht, fun ht => h.1.2 t ht⟩

def exRange (s e : Nat) : TSRange := ⟨⟨0, s⟩, ⟨0, e⟩, s, e⟩
def exMatch : Match := ⟨0, 0, exRange 0 3, 0, false, true, exRange 0 0, [⟨0, 1, exRange 0 3⟩, ⟨1, 2, exRange 0 1⟩]⟩

example : judgeA [exMatch] [⟨0, 0, 0, ⟨0, 1, exRange 0 3⟩⟩, ⟨0, 0, 1, ⟨1, 2, exRange 0 1⟩⟩] none = true := by decide
example : judgeA [exMatch] [⟨0, 0, 1, ⟨1, 2, exRange 0 1⟩⟩] none = false := by decide


/-! ## Text predicates -/

theorem loopStrFixed_spec (test : Bytes → Bool) (pos all : Bool) :
    ∀ ts, loopStrFixed test pos all ts = specStr test pos all ts
  | [] => by cases all <;> simp [loopStrFixed, specStr]
  | t :: ts => by
    have ih := loopStrFixed_spec test pos all ts
    unfold loopStrFixed
    rw [ih]
    cases all <;> cases h : test t <;> cases pos <;> simp [specStr, h]

theorem loopStrImpl_all (test : Bytes → Bool) (pos : Bool) :
    ∀ ts, loopStrImpl test pos true ts = specStr test pos true ts
  | [] => by simp [loopStrImpl, specStr]
  | t :: ts => by
    have ih := loopStrImpl_all test pos ts
    unfold loopStrImpl
    rw [ih]
    cases h : test t <;> cases pos <;> simp [specStr, h]

/-- The defect: on the unchanged tree an `any-` string predicate is constantly true. -/
theorem loopStrImpl_any_true (test : Bytes → Bool) (pos : Bool) :
    ∀ ts, loopStrImpl test pos false ts = true
  | [] => by simp [loopStrImpl]
  | t :: ts => by
    have ih := loopStrImpl_any_true test pos ts
    unfold loopStrImpl
    rw [ih]
    cases h : test t <;> cases pos <;> simp

theorem loopCapFixed_spec (pos all : Bool) :
    ∀ l1 l2, loopCapFixed pos all l1 l2 = specCap pos all l1 l2
  | [], [] => by cases all <;> simp [loopCapFixed, specCap]
  | [], _ :: _ => by cases all <;> simp [loopCapFixed, specCap]
  | _ :: _, [] => by cases all <;> simp [loopCapFixed, specCap]
  | t1 :: r1, t2 :: r2 => by
    have ih := loopCapFixed_spec pos all r1 r2
    unfold loopCapFixed
    rw [ih]
    cases all <;> cases h : decide (t1 = t2) <;> cases pos <;> simp [specCap, h]

theorem loopCapImpl_all (pos : Bool) :
    ∀ l1 l2, loopCapImpl pos true l1 l2 = specCap pos true l1 l2
  | [], [] => by simp [loopCapImpl, specCap]
  | [], _ :: _ => by simp [loopCapImpl, specCap]
  | _ :: _, [] => by simp [loopCapImpl, specCap]
  | t1 :: r1, t2 :: r2 => by
    have ih := loopCapImpl_all pos r1 r2
    unfold loopCapImpl
    rw [ih]
    cases h : decide (t1 = t2) <;> cases pos <;> simp [specCap, h]

/-- `predicates_spec_fixed`: after fixes/C11-any-predicates.diff the evaluator is the documented
reading, for every predicate, capture list and regex engine. -/
theorem predicates_spec_fixed (isMatch : Bytes → Bytes → Bool) (caps : List (Nat × Bytes)) (p : TextPred) :
    evalFixed isMatch caps p = evalSpec isMatch caps p := by
  cases p with
  | eqCapture i j pos all => exact loopCapFixed_spec pos all _ _
  | eqString i s pos all => exact loopStrFixed_spec _ pos all _
  | matchString i re pos all => exact loopStrFixed_spec _ pos all _
  | anyString i vs pos => rfl

/-- `predicates_spec_partial`: the unchanged evaluator is the documented reading for every
predicate that quantifies over all nodes (`eq? not-eq? match? not-match? any-of? not-any-of?`).
Missing for the full statement: the `any-` forms, see `predicates_impl_any_str_true`. -/
theorem predicates_spec_partial (isMatch : Bytes → Bytes → Bool) (caps : List (Nat × Bytes)) (p : TextPred)
    (h : p.isAll = true) : evalImpl isMatch caps p = evalSpec isMatch caps p := by
  cases p with
  | eqCapture i j pos all => simp only [TextPred.isAll] at h; subst h; exact loopCapImpl_all pos _ _
  | eqString i s pos all => simp only [TextPred.isAll] at h; subst h; exact loopStrImpl_all _ pos _
  | matchString i re pos all => simp only [TextPred.isAll] at h; subst h; exact loopStrImpl_all _ pos _
  | anyString i vs pos => rfl

example : (TextPred.eqString 0 [122] true true).isAll = true := rfl

/-- `predicates_impl_any_str_true`: on the unchanged tree `#any-eq? @c "s"`, `#any-not-eq?`,
`#any-match?`, `#any-not-match?` accept every match, whatever the captured text. -/
theorem predicates_impl_any_str_true (isMatch : Bytes → Bytes → Bool) (caps : List (Nat × Bytes))
    (i : Nat) (s : Bytes) (pos : Bool) :
    evalImpl isMatch caps (.eqString i s pos false) = true ∧
    evalImpl isMatch caps (.matchString i s pos false) = true :=
  ⟨loopStrImpl_any_true _ pos _, loopStrImpl_any_true _ pos _⟩

/-- The confirmed counterexample (`(#any-eq? @w "zzz")` on words `a b c`): the unchanged code
accepts, the documented reading rejects — so the full-strength statement
`∀ p, evalImpl … p = evalSpec … p` is FALSE on the unchanged tree (kept OPEN in the header). -/
theorem any_eq_witness (isMatch : Bytes → Bytes → Bool) :
    ¬ (∀ caps p, evalImpl isMatch caps p = evalSpec isMatch caps p) := by
  intro h
  have := h [(0, [97]), (0, [98]), (0, [99])] (.eqString 0 [122, 122, 122] true false)
  simp [evalImpl, evalSpec, nodesFor, loopStrImpl, specStr] at this



/-! ## Finished-state heap and capture-list pool (ports in Heap.lean) -/


/-- `finished_state_precedes` as a formula: unfinished-capture states first, then by
(next capture byte, pattern index, insertion order). -/
theorem precedes_iff (a b : FS) : precedes a b = true ↔
    a.done = false ∧ (b.done = true ∨ (a.nextByte < b.nextByte ∨ (a.nextByte = b.nextByte ∧
      (a.pat < b.pat ∨ (a.pat = b.pat ∧ a.order < b.order))))) := by
  unfold precedes
  cases a.done <;> cases b.done <;> simp
  by_cases h1 : a.nextByte = b.nextByte
  · by_cases h2 : a.pat = b.pat
    · simp [h1, h2]
    · simp [h1, h2]
  · simp [h1]

theorem precedes_irrefl (a : FS) : precedes a a = false := by
  cases h : precedes a a
  · rfl
  · rw [precedes_iff] at h
    obtain ⟨h1, h2⟩ := h
    rw [h1] at h2
    simp at h2

theorem precedes_trans (a b c : FS) (h1 : precedes a b = true) (h2 : precedes b c = true) :
    precedes a c = true := by
  rw [precedes_iff] at *
  obtain ⟨ha, hab⟩ := h1
  obtain ⟨hb, hbc⟩ := h2
  refine ⟨ha, ?_⟩
  rw [hb] at hab
  simp at hab
  rcases hbc with hc | hbc
  · exact Or.inl hc
  · right; omega

/-- Incomparability is transitive: `precedes` is a strict weak order (ties only between two
states whose captures are all consumed, or the same state). -/
theorem precedes_negtrans (a b c : FS) (h1 : precedes a b = false) (h2 : precedes b c = false) :
    precedes a c = false := by
  cases h : precedes a c
  · rfl
  · exfalso
    have n1 : ¬ (precedes a b = true) := by simp [h1]
    have n2 : ¬ (precedes b c = true) := by simp [h2]
    rw [precedes_iff] at h n1 n2
    obtain ⟨ha, hac⟩ := h
    cases hb : b.done <;> cases hc : c.done <;> simp [ha, hb, hc] at n1 n2 hac <;> omega



/-- Heap property on the first `n` slots. -/
def IsHeap (a : Array FS) (n : Nat) : Prop :=
  ∀ i, 0 < i → i < n → precedes a[i]! a[(i - 1) / 2]! = false

theorem isHeapB_iff (a : Array FS) (n : Nat) : isHeapB a n = true ↔ IsHeap a n := by
  unfold isHeapB IsHeap
  simp only [List.all_eq_true, List.mem_range, Bool.or_eq_true, beq_iff_eq, Bool.not_eq_true']
  constructor
  · intro h i hi hn
    rcases h i hn with h0 | h1
    · omega
    · exact h1
  · intro h i hn
    by_cases h0 : i = 0
    · exact Or.inl h0
    · exact Or.inr (h i (by omega) hn)

/-- `heap_pop_min`: in a heap the root is a `precedes`-minimum — nothing in the heap precedes the
state that `finished_state_pop` / `next_capture` take from index 0. -/
theorem heap_root_min (a : Array FS) (n : Nat) (h : IsHeap a n) :
    ∀ i, i < n → precedes a[i]! a[0]! = false := by
  intro i
  induction i using Nat.strongRecOn with
  | _ i ih =>
    intro hi
    by_cases h0 : i = 0
    · subst h0; exact precedes_irrefl _
    · have hp : (i - 1) / 2 < i := by omega
      have h1 := ih ((i - 1) / 2) hp (by omega)
      have h2 := h i (by omega) hi
      exact precedes_negtrans _ _ _ h2 h1

/-! ## Pool -/

theorem count_split (l : List Bool) : countUsed l + countFree l = l.length := by
  induction l with
  | nil => rfl
  | cons b t ih => cases b <;> simp [countUsed, countFree] at * <;> omega

theorem firstFree_none (l : List Bool) (k : Nat) : firstFree l k = none ↔ countFree l = 0 := by
  induction l generalizing k with
  | nil => simp [firstFree, countFree]
  | cons b t ih => cases b <;> simp [firstFree, countFree] at * <;> exact ih _

theorem firstFree_some (l : List Bool) (k i : Nat) (h : firstFree l k = some i) :
    k ≤ i ∧ i - k < l.length ∧ l[i - k]? = some false := by
  induction l generalizing k with
  | nil => simp [firstFree] at h
  | cons b t ih =>
    cases b
    · simp [firstFree] at h; subst h; simp
    · simp [firstFree] at h
      obtain ⟨h1, h2, h3⟩ := ih _ h
      refine ⟨by omega, by simp; omega, ?_⟩
      have : i - k = (i - (k + 1)) + 1 := by omega
      rw [this]; simpa using h3

theorem countFree_set_true (l : List Bool) (j : Nat) (h : l[j]? = some false) :
    countFree (l.set j true) + 1 = countFree l := by
  induction l generalizing j with
  | nil => simp at h
  | cons b t ih =>
    cases j with
    | zero => simp at h; subst h; simp [countFree]
    | succ j => simp at h; cases b <;> simp [countFree] at * <;> have := ih j h <;> omega

theorem countFree_set_false (l : List Bool) (j : Nat) (h : l[j]? = some true) :
    countFree (l.set j false) = countFree l + 1 := by
  induction l generalizing j with
  | nil => simp at h
  | cons b t ih =>
    cases j with
    | zero => simp at h; subst h; simp [countFree]
    | succ j => simp at h; cases b <;> simp [countFree] at * <;> have := ih j h <;> omega



theorem countFree_all_false (l : List Bool) : countFree (l.map fun _ => false) = l.length := by
  induction l with
  | nil => rfl
  | cons b t ih => simp [countFree] at *; exact ih

/-- `pool_conservation` (1): after a reset the bookkeeping is exact, every list is free and at
most `max` lists remain allocated. -/
theorem pool_reset (p : Pool) :
    p.reset.Inv ∧ p.reset.inUse.length ≤ p.max ∧ countUsed p.reset.inUse = 0 ∧ p.reset.max = p.max := by
  unfold Pool.reset Pool.Inv
  simp only
  refine ⟨?_, ?_, ?_, by first | rfl | trivial⟩
  · rw [countFree_all_false]
  · simp; omega
  · have := count_split ((List.take p.max p.inUse).map fun _ => false)
    rw [countFree_all_false] at this
    simp at this
    simpa using this

/-- `pool_conservation` (2): `acquire` keeps the bookkeeping exact, never allocates beyond the
limit, hands out a list that was not in use, and fails only when every allocated list is in use
and the limit is reached (`is_empty`). -/
theorem pool_acquire (p : Pool) (hinv : p.Inv) :
    p.acquire.1.Inv ∧ p.acquire.1.max = p.max ∧
    (p.inUse.length ≤ p.max → p.acquire.1.inUse.length ≤ p.max) ∧
    (∀ i, p.acquire.2 = some i → p.inUse[i]? ≠ some true ∧ p.acquire.1.inUse[i]? = some true) ∧
    (p.acquire.2 = none → p.isEmpty = true ∧ countUsed p.inUse = p.inUse.length) := by
  unfold Pool.Inv at hinv
  unfold Pool.acquire
  by_cases hf : p.free > 0
  · -- a free list exists
    simp only [hf, if_true]
    cases hff : firstFree p.inUse 0 with
    | none =>
      rw [firstFree_none] at hff
      omega
    | some i =>
      obtain ⟨_, hlt, hget⟩ := firstFree_some _ _ _ hff
      simp only [Nat.sub_zero] at hlt hget
      have hc := countFree_set_true _ _ hget
      refine ⟨?_, rfl, ?_, ?_, ?_⟩
      · unfold Pool.Inv; simp only; omega
      · intro h; simpa using h
      · intro j hj
        simp at hj; subst hj
        refine ⟨by rw [hget]; simp, ?_⟩
        simp [hlt]
      · intro h; simp at h
  · have hf0 : p.free = 0 := by omega
    simp only [hf, if_false]
    by_cases hmax : p.inUse.length ≥ p.max
    · simp only [hmax, if_true]
      refine ⟨hinv, by first | rfl | trivial, fun h => h, ?_, ?_⟩
      · intro i h; simp at h
      · intro _
        refine ⟨by unfold Pool.isEmpty; simp [hf0, hmax], ?_⟩
        have := count_split p.inUse
        omega
    · simp only [hmax, if_false]
      refine ⟨?_, by first | rfl | trivial, ?_, ?_, ?_⟩
      · unfold Pool.Inv; simp only
        rw [hf0] at hinv
        rw [hf0]
        simp [countFree] at *
        exact hinv
      · intro _; simp; omega
      · intro i h
        simp at h; subst h
        simp
      · intro h; simp at h

/-- `pool_conservation` (3): releasing a list that is in use keeps the bookkeeping exact. -/
theorem pool_release (p : Pool) (id : Nat) (hinv : p.Inv) (h : p.inUse[id]? = some true) :
    (p.release id).Inv ∧ (p.release id).inUse.length = p.inUse.length ∧
    countUsed (p.release id).inUse + 1 = countUsed p.inUse := by
  unfold Pool.Inv at hinv
  have hlt : id < p.inUse.length := by
    rcases Nat.lt_or_ge id p.inUse.length with h1 | h1
    · exact h1
    · rw [List.getElem?_eq_none h1] at h; simp at h
  unfold Pool.release
  rw [if_neg (by omega)]
  have hc := countFree_set_false _ _ h
  refine ⟨?_, by simp, ?_⟩
  · unfold Pool.Inv; simp only; omega
  · have s1 := count_split p.inUse
    have s2 := count_split (p.inUse.set id false)
    simp at s2
    simp only
    omega



theorem map_dead_set (l : List PState) (i : Nat) (st st' : PState) (h : l[i]? = some st)
    (hd : st'.dead = st.dead) : (l.set i st').map (·.dead) = l.map (·.dead) := by
  induction l generalizing i with
  | nil => simp
  | cons x t ih =>
    cases i with
    | zero => simp at h; subst h; simp [hd]
    | succ i => simp at h; simp [ih i h]

/-- `pool_flag` (stealing): `ts_query_cursor__prepare_to_capture` either leaves every state alive
and provides a capture list, or it has set `did_exceed_match_limit` — a state is never killed and
a capture is never dropped silently. -/
theorem pool_flag_prepare (c : CursorPool) (idx : Nat) (victim preserve : Option Nat)
    (hidx : idx < c.states.length) :
    (prepareToCapture c idx victim preserve).1.flag = true ∨
    ((prepareToCapture c idx victim preserve).2 = true ∧
     (prepareToCapture c idx victim preserve).1.states.map (·.dead) = c.states.map (·.dead)) := by
  unfold prepareToCapture
  have hsome : c.states[idx]? = some c.states[idx] := List.getElem?_eq_getElem hidx
  rw [hsome]
  simp only
  cases hl : c.states[idx].list with
  | some id => right; simp
  | none =>
    simp only
    cases hacq : c.pool.acquire.2 with
    | some id =>
      right
      rcases hp : c.pool.acquire with ⟨pool', got⟩
      rw [hp] at hacq
      simp only at hacq
      subst hacq
      simp only
      exact ⟨trivial, map_dead_set _ _ _ _ hsome rfl⟩
    | none =>
      left
      rcases hp : c.pool.acquire with ⟨pool', got⟩
      rw [hp] at hacq
      simp only at hacq
      subst hacq
      simp only
      cases victim with
      | none => rfl
      | some v =>
        simp only
        split
        · split <;> rfl
        · rfl

/-- `pool_flag` (abandon): the abandon branch of `ts_query_cursor_next_capture` either changes
nothing or has set the flag (true since commit 7979252). -/
theorem pool_flag_abandon (c : CursorPool) (victim : Option Nat) :
    (abandonEarliest c victim).flag = true ∨ abandonEarliest c victim = c := by
  unfold abandonEarliest
  cases victim with
  | none => right; rfl
  | some v =>
    simp only
    split
    · split
      · left; rfl
      · right; rfl
    · right; rfl

/-- Non-vacuity: with a pool of one list in use by state 0, state 1 steals it: state 0 dies, flag set. -/
example : (prepareToCapture ⟨⟨[true], 0, 1⟩, [⟨some 0, false⟩, ⟨none, false⟩], false⟩ 1 (some 0) none) =
    (⟨⟨[true], 0, 1⟩, [⟨none, true⟩, ⟨some 0, false⟩], true⟩, true) := by decide



/-! ## heap_inv: the heap operations preserve the heap property -/

theorem swapAt_size (a : Array FS) (i j : Nat) : (swapAt a i j).size = a.size := by
  simp [swapAt]

theorem swapAt_get (a : Array FS) (i j k : Nat) (hi : i < a.size) (hj : j < a.size) :
    (swapAt a i j)[k]! = if k = j then a[i]! else if k = i then a[j]! else a[k]! := by
  unfold swapAt
  simp only [Array.set!_eq_setIfInBounds, getElem!_def, Array.getElem?_setIfInBounds, Array.size_setIfInBounds]
  by_cases h1 : k = j
  · subst h1; simp [hj]
  · by_cases h2 : k = i
    · subst h2; simp [hi, h1, Ne.symm h1]
    · simp [h1, h2, Ne.symm h1, Ne.symm h2]

/-- `x` is not after `y` in the heap order. -/
def le (x y : FS) : Prop := precedes y x = false

theorem le_refl (x : FS) : le x x := precedes_irrefl x
theorem le_trans {x y z : FS} (h1 : le x y) (h2 : le y z) : le x z := precedes_negtrans _ _ _ h2 h1
theorem le_of_precedes {x y : FS} (h : precedes x y = true) : le x y := by
  unfold le
  cases h' : precedes y x
  · rfl
  · have := precedes_trans _ _ _ h h'
    rw [precedes_irrefl] at this
    cases this

/-- Everything is in heap order except possibly the edge above `i`; and the children of `i` are
already in order with `i`'s parent (the invariant of `finished_state_sift_up`). -/
def UpInv (a : Array FS) (n i : Nat) : Prop :=
  (∀ j, 0 < j → j < n → j ≠ i → le a[(j - 1) / 2]! a[j]!) ∧
  (∀ j, 0 < j → j < n → (j - 1) / 2 = i → 0 < i → le a[(i - 1) / 2]! a[j]!)

theorem siftUp_size : ∀ (fuel : Nat) (a : Array FS) (i : Nat), (siftUp fuel a i).size = a.size
  | 0, a, i => rfl
  | fuel + 1, a, i => by
    unfold siftUp
    split
    · rfl
    · simp only
      split
      · rw [siftUp_size fuel, swapAt_size]
      · rfl

theorem siftUp_heap : ∀ (fuel : Nat) (a : Array FS) (n i : Nat), i < fuel → i < n → n ≤ a.size →
    UpInv a n i → IsHeap (siftUp fuel a i) n
  | 0, a, n, i, hf, _, _, _ => by omega
  | fuel + 1, a, n, i, hf, hin, hn, hinv => by
    obtain ⟨h1, h2⟩ := hinv
    unfold siftUp
    by_cases h0 : i = 0
    · rw [if_pos h0]
      intro j hj hjn
      exact h1 j hj hjn (by omega)
    · rw [if_neg h0]
      simp only
      have hp : (i - 1) / 2 < i := by omega
      by_cases hpre : precedes a[i]! a[(i - 1) / 2]! = true
      · rw [if_pos hpre]
        have hi_sz : i < a.size := by omega
        have hp_sz : (i - 1) / 2 < a.size := by omega
        apply siftUp_heap fuel _ n ((i - 1) / 2) (by omega) (by omega) (by rw [swapAt_size]; exact hn)
        have hlt := le_of_precedes hpre
        constructor
        · intro j hj hjn hjp
          rw [swapAt_get a i _ _ hi_sz hp_sz, swapAt_get a i _ _ hi_sz hp_sz]
          by_cases hji : j = i
          · subst hji
            simp only [if_pos rfl, if_neg hjp, if_pos rfl]
            exact hlt
          · rw [if_neg hjp, if_neg hji]
            by_cases hpj1 : (j - 1) / 2 = (i - 1) / 2
            · rw [if_pos hpj1]
              have := h1 j hj hjn hji
              rw [hpj1] at this
              exact le_trans hlt this
            · rw [if_neg hpj1]
              by_cases hpj2 : (j - 1) / 2 = i
              · rw [if_pos hpj2]
                exact h2 j hj hjn hpj2 (by omega)
              · rw [if_neg hpj2]
                exact h1 j hj hjn hji
        · intro j hj hjn hpj hp0
          have hpp : ((i - 1) / 2 - 1) / 2 < (i - 1) / 2 := by omega
          rw [swapAt_get a i _ _ hi_sz hp_sz, swapAt_get a i _ _ hi_sz hp_sz]
          rw [if_neg (by omega), if_neg (by omega)]
          have hpar := h1 ((i - 1) / 2) hp0 (by omega) (by omega)
          by_cases hji : j = i
          · subst hji
            rw [if_neg (by omega), if_pos rfl]
            exact hpar
          · rw [if_neg (by omega), if_neg hji]
            have := h1 j hj hjn hji
            rw [hpj] at this
            exact le_trans hpar this
      · rw [if_neg hpre]
        intro j hj hjn
        by_cases hji : j = i
        · subst hji
          cases hh : precedes a[j]! a[(j - 1) / 2]!
          · rfl
          · exact absurd hh hpre
        · exact h1 j hj hjn hji


theorem upInv_of_heap (a : Array FS) (hs : Nat) (h : IsHeap a hs) : UpInv a (hs + 1) hs := by
  constructor
  · intro j hj hjn hne
    exact h j hj (by omega)
  · intro j hj hjn hp _
    omega

/-- `heap_inv` (push / lazy heapify): `ts_query_cursor__heapify_finished_states` turns an array
whose first `hs` slots are a heap into a heap of the whole array — whatever was pushed behind the
boundary in the meantime. -/
theorem heapify_heap : ∀ (fuel : Nat) (a : Array FS) (hs : Nat), IsHeap a hs → hs ≤ a.size →
    a.size - hs ≤ fuel →
    IsHeap (heapify fuel a hs).1 (heapify fuel a hs).1.size ∧ (heapify fuel a hs).2 = (heapify fuel a hs).1.size ∧
    (heapify fuel a hs).1.size = a.size
  | 0, a, hs, h, hle, hf => by
    have : hs = a.size := by omega
    subst this
    simp [heapify, h]
  | fuel + 1, a, hs, h, hle, hf => by
    unfold heapify
    by_cases hlt : hs < a.size
    · rw [if_pos hlt]
      have hh := siftUp_heap a.size a (hs + 1) hs hlt (by omega) (by omega) (upInv_of_heap a hs h)
      have hsz := siftUp_size a.size a hs
      have ih := heapify_heap fuel (siftUp a.size a hs) (hs + 1) hh (by omega) (by omega)
      rw [hsz] at ih
      exact ih
    · rw [if_neg hlt]
      have : hs = a.size := by omega
      subst this
      simp [h]

/-- Pushing behind the heap boundary (plain `array_push`) keeps the heap prefix. -/
theorem push_heap (a : Array FS) (x : FS) (hs : Nat) (h : IsHeap a hs) (hle : hs ≤ a.size) :
    IsHeap (a.push x) hs := by
  intro j hj hjn
  have := h j hj hjn
  have h1 : (a.push x)[j]! = a[j]! := by
    simp [getElem!_def, Array.getElem?_push, show j ≠ a.size by omega]
  have h2 : (a.push x)[(j - 1) / 2]! = a[(j - 1) / 2]! := by
    simp [getElem!_def, Array.getElem?_push, show (j - 1) / 2 ≠ a.size by omega]
  rw [h1, h2]; exact this


/-- Everything is in heap order except possibly the edges below `i`; and the children of `i` are
in order with `i`'s parent (the invariant of `finished_state_sift_down`). -/
def DownInv (a : Array FS) (n i : Nat) : Prop :=
  (∀ j, 0 < j → j < n → (j - 1) / 2 ≠ i → le a[(j - 1) / 2]! a[j]!) ∧
  (∀ j, 0 < j → j < n → (j - 1) / 2 = i → 0 < i → le a[(i - 1) / 2]! a[j]!)

theorem siftDown_size : ∀ (fuel : Nat) (a : Array FS) (i : Nat), (siftDown fuel a i).size = a.size
  | 0, a, i => rfl
  | fuel + 1, a, i => by
    unfold siftDown
    simp only
    split
    · rfl
    · rw [siftDown_size fuel, swapAt_size]

theorem not_precedes_le {x y : FS} (h : ¬ precedes x y = true) : le y x := by
  unfold le; cases hh : precedes x y
  · rfl
  · exact absurd hh h

theorem siftDown_heap : ∀ (fuel : Nat) (a : Array FS) (i : Nat), a.size - i ≤ fuel → i < a.size →
    DownInv a a.size i → IsHeap (siftDown fuel a i) a.size
  | 0, a, i, hf, hi, _ => by omega
  | fuel + 1, a, i, hf, hi, hinv => by
    obtain ⟨h1, h2⟩ := hinv
    unfold siftDown
    simp only
    -- the two selection steps of the C code
    by_cases hL : (2 * i + 1 < a.size && precedes a[2 * i + 1]! a[i]!) = true
    · -- left child precedes i
      have hL0 := hL
      simp only [Bool.and_eq_true, decide_eq_true_eq] at hL
      obtain ⟨hLs, hLp⟩ := hL
      by_cases hR : (2 * i + 2 < a.size && precedes a[2 * i + 2]! a[2 * i + 1]!) = true
      · -- s = right
        have hs : smallest a i = 2 * i + 2 := by unfold smallest; simp only; rw [if_pos hL0, if_pos hR]
        rw [hs]
        simp only [Bool.and_eq_true, decide_eq_true_eq] at hR
        obtain ⟨hRs, hRp⟩ := hR
        rw [if_neg (by simp; omega)]
        have hsi : le a[2 * i + 2]! a[i]! := le_trans (le_of_precedes hRp) (le_of_precedes hLp)
        have hst : le a[2 * i + 2]! a[2 * i + 1]! := le_of_precedes hRp
        have := siftDown_heap fuel (swapAt a i (2 * i + 2)) (2 * i + 2) (by rw [swapAt_size]; omega)
          (by rw [swapAt_size]; exact hRs) ?_
        · rw [swapAt_size] at this; exact this
        · rw [swapAt_size]
          constructor
          · intro j hj hjn hpj
            rw [swapAt_get a i _ _ hi hRs, swapAt_get a i _ _ hi hRs]
            by_cases hjs : j = 2 * i + 2
            · subst hjs
              rw [if_pos rfl, if_neg (by omega), if_pos (by omega)]; exact hsi
            · rw [if_neg hjs, if_neg hpj]
              by_cases hji : j = i
              · subst hji
                rw [if_pos rfl, if_neg (by omega)]
                exact h2 (2 * j + 2) (by omega) hRs (by omega) hj
              · rw [if_neg hji]
                by_cases hpi : (j - 1) / 2 = i
                · rw [if_pos hpi]
                  have : j = 2 * i + 1 := by omega
                  subst this; exact hst
                · rw [if_neg hpi]; exact h1 j hj hjn hpi
          · intro j hj hjn hpj _
            rw [swapAt_get a i _ _ hi hRs, swapAt_get a i _ _ hi hRs]
            rw [if_neg (by omega), if_pos (by omega), if_neg (by omega), if_neg (by omega)]
            have := h1 j hj hjn (by omega)
            rw [hpj] at this; exact this
      · -- s = left
        have hs : smallest a i = 2 * i + 1 := by unfold smallest; simp only; rw [if_pos hL0, if_neg hR]
        rw [hs]
        rw [if_neg (by simp; omega)]
        have hsi : le a[2 * i + 1]! a[i]! := le_of_precedes hLp
        have := siftDown_heap fuel (swapAt a i (2 * i + 1)) (2 * i + 1) (by rw [swapAt_size]; omega)
          (by rw [swapAt_size]; exact hLs) ?_
        · rw [swapAt_size] at this; exact this
        · rw [swapAt_size]
          constructor
          · intro j hj hjn hpj
            rw [swapAt_get a i _ _ hi hLs, swapAt_get a i _ _ hi hLs]
            by_cases hjs : j = 2 * i + 1
            · subst hjs
              rw [if_pos rfl, if_neg (by omega), if_pos (by omega)]; exact hsi
            · rw [if_neg hjs, if_neg hpj]
              by_cases hji : j = i
              · subst hji
                rw [if_pos rfl, if_neg (by omega)]
                exact h2 (2 * j + 1) (by omega) hLs (by omega) hj
              · rw [if_neg hji]
                by_cases hpi : (j - 1) / 2 = i
                · rw [if_pos hpi]
                  have hj2 : j = 2 * i + 2 := by omega
                  subst hj2
                  simp only [Bool.and_eq_true, decide_eq_true_eq, not_and] at hR
                  exact not_precedes_le (hR hjn)
                · rw [if_neg hpi]; exact h1 j hj hjn hpi
          · intro j hj hjn hpj _
            rw [swapAt_get a i _ _ hi hLs, swapAt_get a i _ _ hi hLs]
            rw [if_neg (by omega), if_pos (by omega), if_neg (by omega), if_neg (by omega)]
            have := h1 j hj hjn (by omega)
            rw [hpj] at this; exact this
    · -- left child does not precede i
      by_cases hR : (2 * i + 2 < a.size && precedes a[2 * i + 2]! a[i]!) = true
      · -- s = right
        have hs : smallest a i = 2 * i + 2 := by unfold smallest; simp only; rw [if_neg hL, if_pos hR]
        rw [hs]
        simp only [Bool.and_eq_true, decide_eq_true_eq] at hR
        obtain ⟨hRs, hRp⟩ := hR
        rw [if_neg (by simp; omega)]
        have hsi : le a[2 * i + 2]! a[i]! := le_of_precedes hRp
        have hLs : 2 * i + 1 < a.size := by omega
        have hil : le a[i]! a[2 * i + 1]! := by
          simp only [Bool.and_eq_true, decide_eq_true_eq, not_and] at hL
          exact not_precedes_le (hL hLs)
        have := siftDown_heap fuel (swapAt a i (2 * i + 2)) (2 * i + 2) (by rw [swapAt_size]; omega)
          (by rw [swapAt_size]; exact hRs) ?_
        · rw [swapAt_size] at this; exact this
        · rw [swapAt_size]
          constructor
          · intro j hj hjn hpj
            rw [swapAt_get a i _ _ hi hRs, swapAt_get a i _ _ hi hRs]
            by_cases hjs : j = 2 * i + 2
            · subst hjs
              rw [if_pos rfl, if_neg (by omega), if_pos (by omega)]; exact hsi
            · rw [if_neg hjs, if_neg hpj]
              by_cases hji : j = i
              · subst hji
                rw [if_pos rfl, if_neg (by omega)]
                exact h2 (2 * j + 2) (by omega) hRs (by omega) hj
              · rw [if_neg hji]
                by_cases hpi : (j - 1) / 2 = i
                · rw [if_pos hpi]
                  have : j = 2 * i + 1 := by omega
                  subst this; exact le_trans hsi hil
                · rw [if_neg hpi]; exact h1 j hj hjn hpi
          · intro j hj hjn hpj _
            rw [swapAt_get a i _ _ hi hRs, swapAt_get a i _ _ hi hRs]
            rw [if_neg (by omega), if_pos (by omega), if_neg (by omega), if_neg (by omega)]
            have := h1 j hj hjn (by omega)
            rw [hpj] at this; exact this
      · -- s = i: nothing below precedes i
        have hs : smallest a i = i := by unfold smallest; simp only; rw [if_neg hL, if_neg hR]
        rw [hs, if_pos (by simp)]
        intro j hj hjn
        by_cases hpi : (j - 1) / 2 = i
        · simp only [Bool.and_eq_true, decide_eq_true_eq, not_and] at hL hR
          have hcase : j = 2 * i + 1 ∨ j = 2 * i + 2 := by omega
          rcases hcase with hc | hc
          · subst hc; rw [hpi]
            cases hh : precedes a[2 * i + 1]! a[i]!
            · rfl
            · exact absurd hh (hL hjn)
          · subst hc; rw [hpi]
            cases hh : precedes a[2 * i + 2]! a[i]!
            · rfl
            · exact absurd hh (hR hjn)
        · exact h1 j hj hjn hpi


theorem get_set (a : Array FS) (i : Nat) (x : FS) (j : Nat) (hj : j ≠ i) : (a.set! i x)[j]! = a[j]! := by
  simp [getElem!_def, Array.getElem?_setIfInBounds, Ne.symm hj]

theorem get_pop (a : Array FS) (j : Nat) (hj : j < a.size - 1) : a.pop[j]! = a[j]! := by
  have h1 : j < a.pop.size := by simp; exact hj
  have h2 : j < a.size := by omega
  simp [getElem!_def, Array.getElem?_pop, hj, Array.getElem?_eq_getElem h2]

/-- `heap_inv` (consume): after `next_capture` advanced the root's consumed count (its key grew),
`finished_state_sift_down(0)` restores the heap. -/
theorem consume_heap (a : Array FS) (x : FS) (h : IsHeap a a.size) (h0 : 0 < a.size) :
    IsHeap (siftDown a.size (a.set! 0 x) 0) a.size := by
  have hsz : (a.set! 0 x).size = a.size := by simp
  have := siftDown_heap a.size (a.set! 0 x) 0 (by rw [hsz]; omega) (by rw [hsz]; exact h0) ?_
  · rw [hsz] at this; exact this
  · rw [hsz]
    constructor
    · intro j hj hjn hp
      rw [get_set a 0 x j (by omega), get_set a 0 x _ hp]
      exact h j hj hjn
    · intro j _ _ _ h00; omega

/-- `heap_inv` (pop): `finished_state_pop` keeps the heap. -/
theorem pop_heap (a : Array FS) (h : IsHeap a a.size) : IsHeap (heapPop a) (heapPop a).size := by
  unfold heapPop
  by_cases h0 : a.size = 0
  · rw [if_pos h0]; exact h
  · rw [if_neg h0]
    simp only
    by_cases h1 : a.size > 1
    · -- root replaced by the last element
      rw [if_pos h1]
      have hsz : ((a.set! 0 a[a.size - 1]!).pop).size = a.size - 1 := by simp
      rw [if_pos (by rw [hsz]; omega)]
      have hd : DownInv (a.set! 0 a[a.size - 1]!).pop (a.size - 1) 0 := by
        constructor
        · intro j hj hjn hp
          rw [get_pop _ j (by simp; omega), get_pop _ _ (by simp; omega),
            get_set a 0 _ j (by omega), get_set a 0 _ _ hp]
          exact h j hj (by omega)
        · intro j _ _ _ h00; omega
      have := siftDown_heap ((a.set! 0 a[a.size - 1]!).pop).size ((a.set! 0 a[a.size - 1]!).pop) 0 (by omega) (by rw [hsz]; omega) (by rw [hsz]; exact hd)
      rw [siftDown_size, hsz]
      rw [hsz] at this
      exact this
    · rw [if_neg h1]
      have hsz : a.pop.size = 0 := by simp; omega
      rw [if_neg (by rw [hsz]; omega)]
      intro j hj hjn
      rw [hsz] at hjn; omega


theorem get_set_self (a : Array FS) (i : Nat) (x : FS) (hi : i < a.size) : (a.set! i x)[i]! = x := by
  simp [getElem!_def, Array.getElem?_setIfInBounds, hi]

/-- `heap_inv` (erase): `finished_state_erase` (used by `next_match` and `remove_match`) keeps the heap. -/
theorem erase_heap (a : Array FS) (i : Nat) (h : IsHeap a a.size) :
    IsHeap (heapErase a i) (heapErase a i).size := by
  unfold heapErase
  by_cases h0 : i ≥ a.size
  · rw [if_pos h0]; exact h
  · rw [if_neg h0]
    by_cases h1 : i = a.size - 1
    · rw [if_pos h1]
      intro j hj hjn
      have hs : a.pop.size = a.size - 1 := by simp
      rw [hs] at hjn
      rw [get_pop a j hjn, get_pop a _ (by omega)]
      exact h j hj (by omega)
    · rw [if_neg h1]
      simp only
      have hi : i < a.size - 1 := by omega
      have hsz : ((a.set! i a[a.size - 1]!).pop).size = a.size - 1 := by simp
      -- reading the array after the replacement
      have hb : ∀ j, j < a.size - 1 → ((a.set! i a[a.size - 1]!).pop)[j]! = if j = i then a[a.size - 1]! else a[j]! := by
        intro j hj
        rw [get_pop _ j (by simp; exact hj)]
        by_cases hji : j = i
        · subst hji; rw [if_pos rfl]; exact get_set_self a j _ (by omega)
        · rw [if_neg hji]; exact get_set a i _ j hji
      generalize hbdef : (a.set! i a[a.size - 1]!).pop = b at *
      by_cases hup : (decide (i > 0) && precedes b[i]! b[(i - 1) / 2]!) = true
      · rw [if_pos hup]
        simp only [Bool.and_eq_true, decide_eq_true_eq] at hup
        obtain ⟨hi0, hpre⟩ := hup
        rw [hb i hi, if_pos rfl, hb _ (by omega), if_neg (by omega)] at hpre
        have hlp : le a[a.size - 1]! a[(i - 1) / 2]! := le_of_precedes hpre
        have hpi : le a[(i - 1) / 2]! a[i]! := h i hi0 (by omega)
        rw [siftUp_size, hsz]
        apply siftUp_heap (a.size - 1) b (a.size - 1) i hi hi (by rw [hsz]; omega)
        constructor
        · intro j hj hjn hji
          rw [hb j hjn, if_neg hji, hb _ (by omega)]
          by_cases hp : (j - 1) / 2 = i
          · rw [if_pos hp]
            have hij : le a[i]! a[j]! := by have := h j hj (by omega); rw [hp] at this; exact this
            exact le_trans hlp (le_trans hpi hij)
          · rw [if_neg hp]; exact h j hj (by omega)
        · intro j hj hjn hp _
          rw [hb j hjn, if_neg (by omega), hb _ (by omega), if_neg (by omega)]
          have hij : le a[i]! a[j]! := by have := h j hj (by omega); rw [hp] at this; exact this
          exact le_trans hpi hij
      · rw [if_neg hup]
        rw [siftDown_size, hsz]
        have := siftDown_heap b.size b i (by omega) (by rw [hsz]; exact hi) ?_
        · rw [hsz] at this; exact this
        · rw [hsz]
          constructor
          · intro j hj hjn hp
            rw [hb j hjn, hb _ (by omega), if_neg hp]
            by_cases hji : j = i
            · subst hji
              rw [if_pos rfl]
              simp only [Bool.and_eq_true, decide_eq_true_eq, not_and] at hup
              have := hup hj
              rw [hb j hi, if_pos rfl, hb _ (by omega), if_neg (by omega)] at this
              exact not_precedes_le this
            · rw [if_neg hji]; exact h j hj (by omega)
          · intro j hj hjn hp hi0
            rw [hb j hjn, if_neg (by omega), hb _ (by omega), if_neg (by omega)]
            have hpi : le a[(i - 1) / 2]! a[i]! := h i hi0 (by omega)
            have hij : le a[i]! a[j]! := by have := h j hj (by omega); rw [hp] at this; exact this
            exact le_trans hpi hij


/-- The invariant of `finished_states`: the first `heapSize` slots are a heap. -/
def HeapInv (st : Array FS × Nat) : Prop := IsHeap st.1 st.2 ∧ st.2 ≤ st.1.size

theorem consumeRoot_heap (a : Array FS) (h : IsHeap a a.size) : IsHeap (consumeRoot a) a.size ∧ (consumeRoot a).size = a.size := by
  unfold consumeRoot
  by_cases h0 : a.size > 0
  · rw [if_pos h0]
    simp only
    refine ⟨consume_heap a _ h h0, ?_⟩
    rw [siftDown_size]; simp
  · rw [if_neg h0]; exact ⟨h, rfl⟩

/-- `heap_inv`: every operation the cursor performs on `finished_states` keeps the invariant. -/
theorem applyOp_inv (st : Array FS × Nat) (op : HOp) (h : HeapInv st) : HeapInv (applyOp st op) := by
  obtain ⟨hh, hle⟩ := h
  have hz := heapify_heap (st.1.size + 1) st.1 st.2 hh hle (by omega)
  cases op with
  | push x =>
    exact ⟨push_heap st.1 x st.2 hh hle, by simp [applyOp]; omega⟩
  | heapify =>
    unfold applyOp
    exact ⟨by rw [hz.2.1]; exact hz.1, by rw [hz.2.1]; exact Nat.le_refl _⟩
  | pop =>
    unfold applyOp
    exact ⟨pop_heap _ hz.1, Nat.le_refl _⟩
  | erase i =>
    unfold applyOp
    exact ⟨erase_heap _ i hz.1, Nat.le_refl _⟩
  | consume =>
    unfold applyOp
    simp only
    have hc := consumeRoot_heap _ hz.1
    rw [hz.2.1]
    exact ⟨hc.1, by show _ ≤ (consumeRoot _).size; rw [hc.2]; exact Nat.le_refl _⟩

/-- … hence after any history of pushes, lazy heapifies, pops, erases and consumes, starting from
the empty array of `ts_query_cursor_exec`. -/
theorem heap_inv (ops : List HOp) : HeapInv (ops.foldl applyOp (#[], 0)) := by
  have h0 : HeapInv ((#[], 0) : Array FS × Nat) := ⟨fun j _ hj => by omega, Nat.le_refl _⟩
  suffices ∀ st, HeapInv st → HeapInv (ops.foldl applyOp st) from this _ h0
  induction ops with
  | nil => intro st h; exact h
  | cons op rest ih => intro st h; exact ih _ (applyOp_inv st op h)

/-- `heap_pop_min` on histories: after any history followed by a heapify, no finished state
precedes the one at index 0 — `next_capture` always takes a `precedes`-minimum. -/
theorem heap_pop_min (ops : List HOp) :
    let st := applyOp (ops.foldl applyOp (#[], 0)) .heapify
    ∀ i, i < st.1.size → precedes st.1[i]! st.1[0]! = false := by
  intro st i hi
  have hinv := applyOp_inv _ .heapify (heap_inv ops)
  have hz : st.2 = st.1.size := by
    have := heapify_heap ((ops.foldl applyOp (#[], 0)).1.size + 1) (ops.foldl applyOp (#[], 0)).1
      (ops.foldl applyOp (#[], 0)).2 (heap_inv ops).1 (heap_inv ops).2 (by omega)
    exact this.2.1
  exact heap_root_min st.1 st.2 hinv.1 i (by rw [hz]; exact hi)

example : HeapInv ([HOp.push ⟨0, 0, [5], 0⟩, .push ⟨1, 0, [3], 0⟩, .heapify, .consume].foldl applyOp (#[], 0)) :=
  heap_inv _


end TsVerif.C11
