import TsVerif.C11.Judge
import TsVerif.C11.Heap
/-!
# C11 — Query cursor views agree: captures, matches, ranges, limits, predicates

Property text: *For one query and tree, the capture stream contains exactly the (pattern,
capture, node) triples that occur in the match stream, in document order; restricting the cursor
to a byte/point range yields precisely the unrestricted matches that intersect it (or, for
containing ranges, lie inside it), and re-executing a cursor or using a fresh one gives identical
results.  A match limit that drops matches is always reported, removing a match suppresses its
remaining captures only, and the Rust iterators return exactly the matches whose text predicates
hold for the source text.*

Clause map (theorem ↦ clause; what is *judged* on the implementation's streams is in Judge.lean):

* "capture stream = triples of the match stream, in document order":
  `captureStream_sorted`, `captureStream_perm`, `captureStream_triples`,
  `captureStream_startSorted`, `judgeA_captureStream` (the spec stream passes the very judge that
  is run on the implementation's capture stream).
* "matches that intersect the range / lie inside it": `range_intersects_spec`,
  `range_within_spec` (generated predicates = half-open overlap / containment incl. the
  empty-node convention), `range_intersects_bytes_of_consistent`,
  `range_within_bytes_of_consistent` (byte and point conjuncts agree for position-consistent
  ranges), `range_within_mono` (a node inside a contained root is contained: filtering by the
  root decides the whole match), `range_intersects_parent` (a non-empty node that intersects makes
  its parent intersect: pruning by the parent loses nothing) with the empty-node counterexample,
  `setByteRange_spec`.
* "the Rust iterators return exactly the matches whose text predicates hold":
  `predicates_spec_fixed` (the repaired code = documented reading, all predicates, all inputs),
  `predicates_spec_partial` (the unchanged code = documented reading for every `all` form and
  `any-of?`), `predicates_impl_any_str_true` (the unchanged `any-` string forms are constantly
  true — the defect), `any_eq_witness` (the concrete counterexample).
  OPEN (false on the unchanged tree, true after fixes/C11-any-predicates.diff):
  `∀ isMatch caps p, evalImpl isMatch caps p = evalSpec isMatch caps p`.
* "a match limit that drops matches is always reported" / ordering of the capture view — the
  structures behind them (hand ports in Heap.lean, tied by `cunit_c11.c` on every run):
  `precedes_iff`, `precedes_irrefl`, `precedes_trans`, `precedes_negtrans` (`finished_state_precedes`
  is a strict weak order on (next capture byte, pattern, insertion order), exhausted states last),
  `heap_root_min` (= heap_pop_min: in a heap nothing precedes index 0, the state `next_capture`
  takes), `isHeapB_iff` (the judged predicate is the heap property);
  `pool_reset`, `pool_acquire`, `pool_release` (= pool_conservation: cached free count exact,
  used + free = allocated ≤ limit after a reset, acquire fails only when `is_empty`);
  `pool_flag_prepare`, `pool_flag_abandon` (= pool_flag: the two transitions that kill or drop an
  in-progress state set `did_exceed_match_limit`).
  OPEN: `heap_inv` as a theorem (sift_up/sift_down/pop/erase/heapify preserve `IsHeap`) — the heap
  property is *judged* (`isHeapB`) after every operation of the unit-level scripts instead.
* quantifier algebra (feeds C05): `quantifier_add_sound/least`, `quantifier_join_sound/least`,
  `quantifier_mul_sound/least`.

Conventions fixed here where the docs are silent (the implementation decides):
* identity of a triple is (pattern index, capture index, node); the capture view is compared with
  the match view as *sets* of triples: one node captured by several matches of the same pattern
  (e.g. a shared root) is reported once per in-progress state, not once per match;
* a range-restricted capture stream additionally drops captures whose node is outside the range
  (`captureOutside`, the test used by `ts_query_cursor_next_capture`);
* "document order" is non-decreasing start byte;
* a match "intersects" a range when its root node and the root's parent do (`keepIntersect`);
  zero-width roots are not constrained (`emptyRoot`: `range_within` and the `range_intersects`
  that gates the descent disagree on them, see `range_intersects_parent` and its counterexample);
* for queries with quantifiers or alternations (split / twin states, deferred completion) the
  range clause requires soundness only and the removal clause only an unchanged prefix.
-/
namespace TsVerif.C11
open TsGen

/-! ## Quantifier algebra (generated `quantifier_add/join/mul`) -/

/-- Sum of two counts lies in the occurrence set of `quantifier_add`. -/
theorem quantifier_add_sound (a b : TSQuantifier) (m n : Nat) :
    occ a m → occ b n → occ (quantifier_add a b) (m + n) := by
  cases a <;> cases b <;> simp [occ, quantifier_add] <;> omega

/-- … and `quantifier_add a b` is the least of the five quantifiers with that property. -/
theorem quantifier_add_least (a b c : TSQuantifier)
    (h : ∀ m n, occ a m → occ b n → occ c (m + n)) : ∀ k, occ (quantifier_add a b) k → occ c k := by
  intro k hk
  have h00 := h 0 0; have h01 := h 0 1; have h10 := h 1 0; have h11 := h 1 1
  have h0k := h 0 k; have hk0 := h k 0; have h1k := h 1 (k - 1); have hk1 := h (k - 1) 1
  cases a <;> cases b <;> cases c <;> simp [occ, quantifier_add] at * <;> omega

/-- Either branch's count lies in the occurrence set of `quantifier_join`. -/
theorem quantifier_join_sound (a b : TSQuantifier) (n : Nat) :
    occ a n ∨ occ b n → occ (quantifier_join a b) n := by
  cases a <;> cases b <;> simp [occ, quantifier_join] <;> omega

theorem quantifier_join_least (a b c : TSQuantifier)
    (h : ∀ n, occ a n ∨ occ b n → occ c n) : ∀ k, occ (quantifier_join a b) k → occ c k := by
  intro k hk
  have h0 := h 0; have h1 := h 1; have h2 := h k
  cases a <;> cases b <;> cases c <;> simp [occ, quantifier_join] at * <;> omega

/-- A count repeated a number of times (outer quantifier `a`, inner `b`). -/
theorem quantifier_mul_sound (a b : TSQuantifier) (m n : Nat) :
    occ a m → occ b n → occ (quantifier_mul a b) (m * n) := by
  cases a <;> cases b <;> simp [occ, quantifier_mul] <;> intros <;> subst_vars <;> try omega
  · rename_i h1 h2
    exact Nat.le_trans (Nat.mul_le_mul h1 h2) (by omega)
  · rename_i h1 h2
    exact Nat.mul_pos h1 h2

theorem quantifier_mul_least (a b c : TSQuantifier)
    (h : ∀ m n, occ a m → occ b n → occ c (m * n)) : ∀ k, occ (quantifier_mul a b) k → occ c k := by
  intro k hk
  have h00 := h 0 0; have h01 := h 0 1; have h10 := h 1 0; have h11 := h 1 1
  have h1k := h 1 k; have hk1 := h k 1
  cases a <;> cases b <;> cases c <;> simp [occ, quantifier_mul] at * <;> omega

example : occ (quantifier_add .TSQuantifierOne .TSQuantifierZeroOrOne) 2 :=
  quantifier_add_sound _ _ 1 1 rfl (by simp [occ])

/-! ## Ranges (generated `range_intersects`, `range_within`) -/


theorem range_intersects_spec (a b : TSRange) :
    range_intersects a b = true ↔
      (if a.start_byte = a.end_byte then
          (b.start_byte ≤ a.start_byte ∧ a.start_byte < b.end_byte) ∧
          (PLe b.start_point a.end_point ∧ PLt a.start_point b.end_point)
        else
          (a.end_byte > b.start_byte ∧ a.start_byte < b.end_byte) ∧
          (PLt b.start_point a.end_point ∧ PLt a.start_point b.end_point)) := by
  unfold range_intersects point_gt point_eq point_lt PLe PLt
  cases a with | mk asp aep asb aeb =>
  cases b with | mk bsp bep bsb beb =>
  cases asp; cases aep; cases bsp; cases bep
  simp only [decide_eq_true_eq]
  split <;> (simp_all; try omega)


/-- The non-empty byte criterion is half-open interval overlap (for a non-empty range; an empty
range `[p,p)` is treated by the code as the point `p`: it meets every node with `s < p < e`). -/
theorem byte_overlap_iff_exists (as ae bs be : Nat) (h : as < ae) (hb : bs < be) :
    (ae > bs ∧ as < be) ↔ ∃ x, as ≤ x ∧ x < ae ∧ bs ≤ x ∧ x < be := by
  constructor
  · intro ⟨h1, h2⟩
    by_cases hc : as ≤ bs
    · exact ⟨bs, by omega, by omega, by omega, by omega⟩
    · exact ⟨as, by omega, by omega, by omega, by omega⟩
  · intro ⟨x, h1, h2, h3, h4⟩
    omega

theorem range_within_spec (a b : TSRange) :
    range_within a b = true ↔
      (b.start_byte ≤ a.start_byte ∧ a.end_byte ≤ b.end_byte) ∧
      (PLe b.start_point a.start_point ∧ PLe a.end_point b.end_point) := by
  unfold range_within point_gte point_lte PLe
  cases a with | mk asp aep asb aeb =>
  cases b with | mk bsp bep bsb beb =>
  cases asp; cases aep; cases bsp; cases bep
  simp only [decide_eq_true_eq]
  simp_all; omega

/-- The generated predicates ARE the spec functions the judge filters with. -/
theorem range_intersects_eq_spec (a b : TSRange) : range_intersects a b = intersectsSpec a b := by
  rw [Bool.eq_iff_iff, range_intersects_spec]
  unfold intersectsSpec
  split <;> simp

theorem range_within_eq_spec (a b : TSRange) : range_within a b = withinSpec a b := by
  rw [Bool.eq_iff_iff, range_within_spec]
  unfold withinSpec
  simp

/-- A range whose points are the images of its bytes under a position map. -/
def Consistent (pos : Nat → TSPoint) (r : TSRange) : Prop :=
  r.start_point = pos r.start_byte ∧ r.end_point = pos r.end_byte

/-- Strictly monotone position map (row/column of a byte offset in a fixed text). -/
def StrictMonoPos (pos : Nat → TSPoint) : Prop := ∀ i j, i < j ↔ PLt (pos i) (pos j)

theorem PLt_irrefl (p : TSPoint) : ¬ PLt p p := by unfold PLt; omega
theorem PLe_iff (p q : TSPoint) : PLe p q ↔ PLt p q ∨ p = q := by
  cases p; cases q; unfold PLe PLt; simp; omega

theorem mono_le (pos : Nat → TSPoint) (h : StrictMonoPos pos) (i j : Nat) : i ≤ j ↔ PLe (pos i) (pos j) := by
  rw [PLe_iff]
  constructor
  · intro hij
    rcases Nat.lt_or_eq_of_le hij with h1 | h1
    · exact Or.inl ((h i j).1 h1)
    · exact Or.inr (by rw [h1])
  · intro hh
    rcases hh with h1 | h1
    · exact Nat.le_of_lt ((h i j).2 h1)
    · rcases Nat.lt_or_ge j i with h2 | h2
      · have := (h j i).1 h2; rw [h1] at this; exact absurd this (PLt_irrefl _)
      · exact h2

/-- For position-consistent ranges the point conjuncts add nothing: the predicate is the byte
criterion alone (so byte ranges and point ranges select the same matches). -/
theorem range_intersects_bytes_of_consistent (pos : Nat → TSPoint) (hm : StrictMonoPos pos)
    (a b : TSRange) (ha : Consistent pos a) (hb : Consistent pos b) :
    range_intersects a b = true ↔
      (if a.start_byte = a.end_byte then b.start_byte ≤ a.start_byte ∧ a.start_byte < b.end_byte
       else a.end_byte > b.start_byte ∧ a.start_byte < b.end_byte) := by
  rw [range_intersects_spec]
  obtain ⟨ha1, ha2⟩ := ha
  obtain ⟨hb1, hb2⟩ := hb
  rw [ha1, ha2, hb1, hb2]
  split
  · rename_i he
    rw [← mono_le pos hm, ← hm]
    omega
  · rw [← hm, ← hm]
    omega

theorem range_within_bytes_of_consistent (pos : Nat → TSPoint) (hm : StrictMonoPos pos)
    (a b : TSRange) (ha : Consistent pos a) (hb : Consistent pos b) :
    range_within a b = true ↔ (b.start_byte ≤ a.start_byte ∧ a.end_byte ≤ b.end_byte) := by
  rw [range_within_spec]
  obtain ⟨ha1, ha2⟩ := ha
  obtain ⟨hb1, hb2⟩ := hb
  rw [ha1, ha2, hb1, hb2, ← mono_le pos hm, ← mono_le pos hm]
  omega

theorem PLe_trans {p q r : TSPoint} : PLe p q → PLe q r → PLe p r := by unfold PLe; omega

/-- Containment is inherited by everything inside: when the root of a match lies within the
containing range, so does every node of the match. -/
theorem range_within_mono (c a b : TSRange) (hca : range_within c a = true) (hab : range_within a b = true) :
    range_within c b = true := by
  rw [range_within_spec] at *
  obtain ⟨⟨h1, h2⟩, h3, h4⟩ := hca
  obtain ⟨⟨g1, g2⟩, g3, g4⟩ := hab
  exact ⟨⟨by omega, by omega⟩, PLe_trans g3 h3, PLe_trans h4 g4⟩

theorem PLt_of_le_lt {p q r : TSPoint} : PLe p q → PLt q r → PLt p r := by unfold PLe PLt; omega
theorem PLt_of_lt_le {p q r : TSPoint} : PLt p q → PLe q r → PLt p r := by unfold PLe PLt; omega

/-- A non-empty node that intersects the range makes every node containing it intersect too:
not descending into a non-intersecting parent loses no *non-empty* intersecting node. -/
theorem range_intersects_parent (c a b : TSRange) (hne : c.start_byte < c.end_byte)
    (hca : range_within c a = true) (hcb : range_intersects c b = true) :
    range_intersects a b = true := by
  rw [range_within_spec] at hca
  rw [range_intersects_spec] at *
  obtain ⟨⟨h1, h2⟩, h3, h4⟩ := hca
  rw [if_neg (by omega)] at hcb
  obtain ⟨⟨g1, g2⟩, g3, g4⟩ := hcb
  split
  · omega
  · exact ⟨⟨by omega, by omega⟩, PLt_of_lt_le g3 h4, PLt_of_le_lt h3 g4⟩

/-- … but an empty node at the end of its parent can intersect a range its parent misses
(the empty-node convention; e.g. a MISSING token at the parent's end, range starting there). -/
example : ∃ c a b : TSRange, range_within c a = true ∧ range_intersects c b = true ∧
    range_intersects a b = false :=
  ⟨⟨⟨0, 10⟩, ⟨0, 10⟩, 10, 10⟩, ⟨⟨0, 5⟩, ⟨0, 10⟩, 5, 10⟩, ⟨⟨0, 10⟩, ⟨0, 20⟩, 10, 20⟩, by decide⟩

theorem setByteRange_spec (r : TSRange) (s e : Nat) :
    (s ≤ (if e = 0 then UINT32_MAX else e) →
      (setByteRange r s e).start_byte = s ∧ (setByteRange r s e).end_byte = (if e = 0 then UINT32_MAX else e) ∧
      (setByteRange r s e).start_point = r.start_point ∧ (setByteRange r s e).end_point = r.end_point) ∧
    ((if e = 0 then UINT32_MAX else e) < s → setByteRange r s e = r) := by
  unfold setByteRange
  constructor
  · intro h; simp only; rw [if_neg (by omega)]; simp
  · intro h; simp only; rw [if_pos (by omega)]


/-! ## The capture view of a match list -/

theorem evLe_trans (a b c : CapEv) : evLe a b = true → evLe b c = true → evLe a c = true := by
  simp only [evLe, decide_eq_true_eq]; omega

theorem evLe_total (a b : CapEv) : (evLe a b || evLe b a) = true := by
  simp only [evLe, Bool.or_eq_true, decide_eq_true_eq]; omega

/-- The capture view is sorted by (start, end descending, pattern, position in match). -/
theorem captureStream_sorted (ms : List Match) : (captureStream ms).Pairwise (fun a b => evLe a b = true) :=
  List.pairwise_mergeSort evLe_trans evLe_total _

/-- It is a rearrangement of the captures of the matches: nothing added, dropped or duplicated. -/
theorem captureStream_perm (ms : List Match) : (captureStream ms).Perm (allEvents ms) :=
  List.mergeSort_perm _ _

/-- Hence the multiset of (pattern, capture, node) triples is that of the matches. -/
theorem captureStream_triples (ms : List Match) :
    ((captureStream ms).map CapEv.triple).Perm (triplesOfMatches ms) :=
  (captureStream_perm ms).map _

theorem startSorted_of_pairwise : ∀ (l : List CapEv),
    l.Pairwise (fun a b => evLe a b = true) → startSorted l = true
  | [], _ => rfl
  | [_], _ => rfl
  | a :: b :: rest, h => by
    unfold startSorted
    have h1 : evLe a b = true := (List.pairwise_cons.1 h).1 b (by simp)
    have h2 := startSorted_of_pairwise (b :: rest) (List.pairwise_cons.1 h).2
    simp only [evLe, decide_eq_true_eq] at h1
    simp only [Bool.and_eq_true, decide_eq_true_eq]
    exact ⟨by omega, h2⟩

/-- In particular it is in document order (start bytes never decrease). -/
theorem captureStream_startSorted (ms : List Match) : startSorted (captureStream ms) = true :=
  startSorted_of_pairwise _ (captureStream_sorted ms)

theorem subsetB_of_perm {xs ys : List Triple} (h : xs.Perm ys) : subsetB xs ys = true := by
  unfold subsetB
  rw [List.all_eq_true]
  intro x hx
  rw [List.contains_iff_mem]
  exact h.mem_iff.1 hx

theorem subsetB_of_subset {xs ys : List Triple} (h : ∀ x, x ∈ xs → x ∈ ys) : subsetB xs ys = true := by
  unfold subsetB
  rw [List.all_eq_true]
  intro x hx
  rw [List.contains_iff_mem]
  exact h x hx

/-- The spec stream passes the judge that is run on the implementation's capture stream, under
every range setting (so the judge demands nothing the spec does not have). -/
theorem judgeA_captureStream (ms : List Match) (inc : Option TSRange) :
    judgeA ms (captureStream ms) inc = true := by
  unfold judgeA
  simp only [Bool.and_eq_true]
  refine ⟨⟨subsetB_of_perm (captureStream_triples ms), ?_⟩, captureStream_startSorted ms⟩
  apply subsetB_of_subset
  intro x hx
  have hsub : ∀ e, e ∈ visibleEvents ms inc → e ∈ allEvents ms := by
    intro e he
    unfold visibleEvents at he
    cases inc with
    | none => exact he
    | some r => exact (List.mem_filter.1 he).1
  obtain ⟨e, he, rfl⟩ := List.mem_map.1 hx
  exact (captureStream_triples ms).mem_iff.2 (List.mem_map.2 ⟨e, hsub e he, rfl⟩)

/-- Conversely the judge pins the triples down: a stream that passes has exactly the triples of
the matches (as a set). -/
theorem judgeA_triples (ms : List Match) (cs : List CapEv) (h : judgeA ms cs none = true) :
    ∀ t, t ∈ cs.map CapEv.triple ↔ t ∈ triplesOfMatches ms := by
  unfold judgeA visibleEvents subsetB at h
  simp only [Bool.and_eq_true, List.all_eq_true, List.contains_iff_mem] at h
  intro t
  exact ⟨fun ht => h.1.1 t ht, fun ht => h.1.2 t ht⟩

def exRange (s e : Nat) : TSRange := ⟨⟨0, s⟩, ⟨0, e⟩, s, e⟩
def exMatch : Match := ⟨0, 0, exRange 0 3, 0, false, true, exRange 0 0, [⟨0, 1, exRange 0 3⟩, ⟨1, 2, exRange 0 1⟩]⟩

example : judgeA [exMatch] [⟨0, 0, 0, ⟨0, 1, exRange 0 3⟩⟩, ⟨0, 0, 1, ⟨1, 2, exRange 0 1⟩⟩] none = true := by decide
example : judgeA [exMatch] [⟨0, 0, 1, ⟨1, 2, exRange 0 1⟩⟩] none = false := by decide


/-! ## Text predicates -/

theorem loopStrFixed_spec (test : Bytes → Bool) (pos all : Bool) :
    ∀ ts, loopStrFixed test pos all ts = specStr test pos all ts
  | [] => by cases all <;> simp [loopStrFixed, specStr]
  | t :: ts => by
    have ih := loopStrFixed_spec test pos all ts
    unfold loopStrFixed
    rw [ih]
    cases all <;> cases h : test t <;> cases pos <;> simp [specStr, h]

theorem loopStrImpl_all (test : Bytes → Bool) (pos : Bool) :
    ∀ ts, loopStrImpl test pos true ts = specStr test pos true ts
  | [] => by simp [loopStrImpl, specStr]
  | t :: ts => by
    have ih := loopStrImpl_all test pos ts
    unfold loopStrImpl
    rw [ih]
    cases h : test t <;> cases pos <;> simp [specStr, h]

/-- The defect: on the unchanged tree an `any-` string predicate is constantly true. -/
theorem loopStrImpl_any_true (test : Bytes → Bool) (pos : Bool) :
    ∀ ts, loopStrImpl test pos false ts = true
  | [] => by simp [loopStrImpl]
  | t :: ts => by
    have ih := loopStrImpl_any_true test pos ts
    unfold loopStrImpl
    rw [ih]
    cases h : test t <;> cases pos <;> simp

theorem loopCapFixed_spec (pos all : Bool) :
    ∀ l1 l2, loopCapFixed pos all l1 l2 = specCap pos all l1 l2
  | [], [] => by cases all <;> simp [loopCapFixed, specCap]
  | [], _ :: _ => by cases all <;> simp [loopCapFixed, specCap]
  | _ :: _, [] => by cases all <;> simp [loopCapFixed, specCap]
  | t1 :: r1, t2 :: r2 => by
    have ih := loopCapFixed_spec pos all r1 r2
    unfold loopCapFixed
    rw [ih]
    cases all <;> cases h : decide (t1 = t2) <;> cases pos <;> simp [specCap, h]

theorem loopCapImpl_all (pos : Bool) :
    ∀ l1 l2, loopCapImpl pos true l1 l2 = specCap pos true l1 l2
  | [], [] => by simp [loopCapImpl, specCap]
  | [], _ :: _ => by simp [loopCapImpl, specCap]
  | _ :: _, [] => by simp [loopCapImpl, specCap]
  | t1 :: r1, t2 :: r2 => by
    have ih := loopCapImpl_all pos r1 r2
    unfold loopCapImpl
    rw [ih]
    cases h : decide (t1 = t2) <;> cases pos <;> simp [specCap, h]

/-- `predicates_spec_fixed`: after fixes/C11-any-predicates.diff the evaluator is the documented
reading, for every predicate, capture list and regex engine. -/
theorem predicates_spec_fixed (isMatch : Bytes → Bytes → Bool) (caps : List (Nat × Bytes)) (p : TextPred) :
    evalFixed isMatch caps p = evalSpec isMatch caps p := by
  cases p with
  | eqCapture i j pos all => exact loopCapFixed_spec pos all _ _
  | eqString i s pos all => exact loopStrFixed_spec _ pos all _
  | matchString i re pos all => exact loopStrFixed_spec _ pos all _
  | anyString i vs pos => rfl

/-- `predicates_spec_partial`: the unchanged evaluator is the documented reading for every
predicate that quantifies over all nodes (`eq? not-eq? match? not-match? any-of? not-any-of?`).
Missing for the full statement: the `any-` forms, see `predicates_impl_any_str_true`. -/
theorem predicates_spec_partial (isMatch : Bytes → Bytes → Bool) (caps : List (Nat × Bytes)) (p : TextPred)
    (h : p.isAll = true) : evalImpl isMatch caps p = evalSpec isMatch caps p := by
  cases p with
  | eqCapture i j pos all => simp only [TextPred.isAll] at h; subst h; exact loopCapImpl_all pos _ _
  | eqString i s pos all => simp only [TextPred.isAll] at h; subst h; exact loopStrImpl_all _ pos _
  | matchString i re pos all => simp only [TextPred.isAll] at h; subst h; exact loopStrImpl_all _ pos _
  | anyString i vs pos => rfl

example : (TextPred.eqString 0 [122] true true).isAll = true := rfl

/-- `predicates_impl_any_str_true`: on the unchanged tree `#any-eq? @c "s"`, `#any-not-eq?`,
`#any-match?`, `#any-not-match?` accept every match, whatever the captured text. -/
theorem predicates_impl_any_str_true (isMatch : Bytes → Bytes → Bool) (caps : List (Nat × Bytes))
    (i : Nat) (s : Bytes) (pos : Bool) :
    evalImpl isMatch caps (.eqString i s pos false) = true ∧
    evalImpl isMatch caps (.matchString i s pos false) = true :=
  ⟨loopStrImpl_any_true _ pos _, loopStrImpl_any_true _ pos _⟩

/-- The confirmed counterexample (`(#any-eq? @w "zzz")` on words `a b c`): the unchanged code
accepts, the documented reading rejects — so the full-strength statement
`∀ p, evalImpl … p = evalSpec … p` is FALSE on the unchanged tree (kept OPEN in the header). -/
theorem any_eq_witness (isMatch : Bytes → Bytes → Bool) :
    ¬ (∀ caps p, evalImpl isMatch caps p = evalSpec isMatch caps p) := by
  intro h
  have := h [(0, [97]), (0, [98]), (0, [99])] (.eqString 0 [122, 122, 122] true false)
  simp [evalImpl, evalSpec, nodesFor, loopStrImpl, specStr] at this



/-! ## Finished-state heap and capture-list pool (ports in Heap.lean) -/


/-- `finished_state_precedes` as a formula: unfinished-capture states first, then by
(next capture byte, pattern index, insertion order). -/
theorem precedes_iff (a b : FS) : precedes a b = true ↔
    a.done = false ∧ (b.done = true ∨ (a.nextByte < b.nextByte ∨ (a.nextByte = b.nextByte ∧
      (a.pat < b.pat ∨ (a.pat = b.pat ∧ a.order < b.order))))) := by
  unfold precedes
  cases a.done <;> cases b.done <;> simp
  by_cases h1 : a.nextByte = b.nextByte
  · by_cases h2 : a.pat = b.pat
    · simp [h1, h2]
    · simp [h1, h2]
  · simp [h1]

theorem precedes_irrefl (a : FS) : precedes a a = false := by
  cases h : precedes a a
  · rfl
  · rw [precedes_iff] at h
    obtain ⟨h1, h2⟩ := h
    rw [h1] at h2
    simp at h2

theorem precedes_trans (a b c : FS) (h1 : precedes a b = true) (h2 : precedes b c = true) :
    precedes a c = true := by
  rw [precedes_iff] at *
  obtain ⟨ha, hab⟩ := h1
  obtain ⟨hb, hbc⟩ := h2
  refine ⟨ha, ?_⟩
  rw [hb] at hab
  simp at hab
  rcases hbc with hc | hbc
  · exact Or.inl hc
  · right; omega

/-- Incomparability is transitive: `precedes` is a strict weak order (ties only between two
states whose captures are all consumed, or the same state). -/
theorem precedes_negtrans (a b c : FS) (h1 : precedes a b = false) (h2 : precedes b c = false) :
    precedes a c = false := by
  cases h : precedes a c
  · rfl
  · exfalso
    have n1 : ¬ (precedes a b = true) := by simp [h1]
    have n2 : ¬ (precedes b c = true) := by simp [h2]
    rw [precedes_iff] at h n1 n2
    obtain ⟨ha, hac⟩ := h
    cases hb : b.done <;> cases hc : c.done <;> simp [ha, hb, hc] at n1 n2 hac <;> omega



/-- Heap property on the first `n` slots. -/
def IsHeap (a : Array FS) (n : Nat) : Prop :=
  ∀ i, 0 < i → i < n → precedes a[i]! a[(i - 1) / 2]! = false

theorem isHeapB_iff (a : Array FS) (n : Nat) : isHeapB a n = true ↔ IsHeap a n := by
  unfold isHeapB IsHeap
  simp only [List.all_eq_true, List.mem_range, Bool.or_eq_true, beq_iff_eq, Bool.not_eq_true']
  constructor
  · intro h i hi hn
    rcases h i hn with h0 | h1
    · omega
    · exact h1
  · intro h i hn
    by_cases h0 : i = 0
    · exact Or.inl h0
    · exact Or.inr (h i (by omega) hn)

/-- `heap_pop_min`: in a heap the root is a `precedes`-minimum — nothing in the heap precedes the
state that `finished_state_pop` / `next_capture` take from index 0. -/
theorem heap_root_min (a : Array FS) (n : Nat) (h : IsHeap a n) :
    ∀ i, i < n → precedes a[i]! a[0]! = false := by
  intro i
  induction i using Nat.strongRecOn with
  | _ i ih =>
    intro hi
    by_cases h0 : i = 0
    · subst h0; exact precedes_irrefl _
    · have hp : (i - 1) / 2 < i := by omega
      have h1 := ih ((i - 1) / 2) hp (by omega)
      have h2 := h i (by omega) hi
      exact precedes_negtrans _ _ _ h2 h1

/-! ## Pool -/

theorem count_split (l : List Bool) : countUsed l + countFree l = l.length := by
  induction l with
  | nil => rfl
  | cons b t ih => cases b <;> simp [countUsed, countFree] at * <;> omega

theorem firstFree_none (l : List Bool) (k : Nat) : firstFree l k = none ↔ countFree l = 0 := by
  induction l generalizing k with
  | nil => simp [firstFree, countFree]
  | cons b t ih => cases b <;> simp [firstFree, countFree] at * <;> exact ih _

theorem firstFree_some (l : List Bool) (k i : Nat) (h : firstFree l k = some i) :
    k ≤ i ∧ i - k < l.length ∧ l[i - k]? = some false := by
  induction l generalizing k with
  | nil => simp [firstFree] at h
  | cons b t ih =>
    cases b
    · simp [firstFree] at h; subst h; simp
    · simp [firstFree] at h
      obtain ⟨h1, h2, h3⟩ := ih _ h
      refine ⟨by omega, by simp; omega, ?_⟩
      have : i - k = (i - (k + 1)) + 1 := by omega
      rw [this]; simpa using h3

theorem countFree_set_true (l : List Bool) (j : Nat) (h : l[j]? = some false) :
    countFree (l.set j true) + 1 = countFree l := by
  induction l generalizing j with
  | nil => simp at h
  | cons b t ih =>
    cases j with
    | zero => simp at h; subst h; simp [countFree]
    | succ j => simp at h; cases b <;> simp [countFree] at * <;> have := ih j h <;> omega

theorem countFree_set_false (l : List Bool) (j : Nat) (h : l[j]? = some true) :
    countFree (l.set j false) = countFree l + 1 := by
  induction l generalizing j with
  | nil => simp at h
  | cons b t ih =>
    cases j with
    | zero => simp at h; subst h; simp [countFree]
    | succ j => simp at h; cases b <;> simp [countFree] at * <;> have := ih j h <;> omega



theorem countFree_all_false (l : List Bool) : countFree (l.map fun _ => false) = l.length := by
  induction l with
  | nil => rfl
  | cons b t ih => simp [countFree] at *; exact ih

/-- `pool_conservation` (1): after a reset the bookkeeping is exact, every list is free and at
most `max` lists remain allocated. -/
theorem pool_reset (p : Pool) :
    p.reset.Inv ∧ p.reset.inUse.length ≤ p.max ∧ countUsed p.reset.inUse = 0 ∧ p.reset.max = p.max := by
  unfold Pool.reset Pool.Inv
  simp only
  refine ⟨?_, ?_, ?_, by first | rfl | trivial⟩
  · rw [countFree_all_false]
  · simp; omega
  · have := count_split ((List.take p.max p.inUse).map fun _ => false)
    rw [countFree_all_false] at this
    simp at this
    simpa using this

/-- `pool_conservation` (2): `acquire` keeps the bookkeeping exact, never allocates beyond the
limit, hands out a list that was not in use, and fails only when every allocated list is in use
and the limit is reached (`is_empty`). -/
theorem pool_acquire (p : Pool) (hinv : p.Inv) :
    p.acquire.1.Inv ∧ p.acquire.1.max = p.max ∧
    (p.inUse.length ≤ p.max → p.acquire.1.inUse.length ≤ p.max) ∧
    (∀ i, p.acquire.2 = some i → p.inUse[i]? ≠ some true ∧ p.acquire.1.inUse[i]? = some true) ∧
    (p.acquire.2 = none → p.isEmpty = true ∧ countUsed p.inUse = p.inUse.length) := by
  unfold Pool.Inv at hinv
  unfold Pool.acquire
  by_cases hf : p.free > 0
  · -- a free list exists
    simp only [hf, if_true]
    cases hff : firstFree p.inUse 0 with
    | none =>
      rw [firstFree_none] at hff
      omega
    | some i =>
      obtain ⟨_, hlt, hget⟩ := firstFree_some _ _ _ hff
      simp only [Nat.sub_zero] at hlt hget
      have hc := countFree_set_true _ _ hget
      refine ⟨?_, rfl, ?_, ?_, ?_⟩
      · unfold Pool.Inv; simp only; omega
      · intro h; simpa using h
      · intro j hj
        simp at hj; subst hj
        refine ⟨by rw [hget]; simp, ?_⟩
        simp [hlt]
      · intro h; simp at h
  · have hf0 : p.free = 0 := by omega
    simp only [hf, if_false]
    by_cases hmax : p.inUse.length ≥ p.max
    · simp only [hmax, if_true]
      refine ⟨hinv, by first | rfl | trivial, fun h => h, ?_, ?_⟩
      · intro i h; simp at h
      · intro _
        refine ⟨by unfold Pool.isEmpty; simp [hf0, hmax], ?_⟩
        have := count_split p.inUse
        omega
    · simp only [hmax, if_false]
      refine ⟨?_, by first | rfl | trivial, ?_, ?_, ?_⟩
      · unfold Pool.Inv; simp only
        rw [hf0] at hinv
        rw [hf0]
        simp [countFree] at *
        exact hinv
      · intro _; simp; omega
      · intro i h
        simp at h; subst h
        simp
      · intro h; simp at h

/-- `pool_conservation` (3): releasing a list that is in use keeps the bookkeeping exact. -/
theorem pool_release (p : Pool) (id : Nat) (hinv : p.Inv) (h : p.inUse[id]? = some true) :
    (p.release id).Inv ∧ (p.release id).inUse.length = p.inUse.length ∧
    countUsed (p.release id).inUse + 1 = countUsed p.inUse := by
  unfold Pool.Inv at hinv
  have hlt : id < p.inUse.length := by
    rcases Nat.lt_or_ge id p.inUse.length with h1 | h1
    · exact h1
    · rw [List.getElem?_eq_none h1] at h; simp at h
  unfold Pool.release
  rw [if_neg (by omega)]
  have hc := countFree_set_false _ _ h
  refine ⟨?_, by simp, ?_⟩
  · unfold Pool.Inv; simp only; omega
  · have s1 := count_split p.inUse
    have s2 := count_split (p.inUse.set id false)
    simp at s2
    simp only
    omega



theorem map_dead_set (l : List PState) (i : Nat) (st st' : PState) (h : l[i]? = some st)
    (hd : st'.dead = st.dead) : (l.set i st').map (·.dead) = l.map (·.dead) := by
  induction l generalizing i with
  | nil => simp
  | cons x t ih =>
    cases i with
    | zero => simp at h; subst h; simp [hd]
    | succ i => simp at h; simp [ih i h]

/-- `pool_flag` (stealing): `ts_query_cursor__prepare_to_capture` either leaves every state alive
and provides a capture list, or it has set `did_exceed_match_limit` — a state is never killed and
a capture is never dropped silently. -/
theorem pool_flag_prepare (c : CursorPool) (idx : Nat) (victim preserve : Option Nat)
    (hidx : idx < c.states.length) :
    (prepareToCapture c idx victim preserve).1.flag = true ∨
    ((prepareToCapture c idx victim preserve).2 = true ∧
     (prepareToCapture c idx victim preserve).1.states.map (·.dead) = c.states.map (·.dead)) := by
  unfold prepareToCapture
  have hsome : c.states[idx]? = some c.states[idx] := List.getElem?_eq_getElem hidx
  rw [hsome]
  simp only
  cases hl : c.states[idx].list with
  | some id => right; simp
  | none =>
    simp only
    cases hacq : c.pool.acquire.2 with
    | some id =>
      right
      rcases hp : c.pool.acquire with ⟨pool', got⟩
      rw [hp] at hacq
      simp only at hacq
      subst hacq
      simp only
      exact ⟨trivial, map_dead_set _ _ _ _ hsome rfl⟩
    | none =>
      left
      rcases hp : c.pool.acquire with ⟨pool', got⟩
      rw [hp] at hacq
      simp only at hacq
      subst hacq
      simp only
      cases victim with
      | none => rfl
      | some v =>
        simp only
        split
        · split <;> rfl
        · rfl

/-- `pool_flag` (abandon): the abandon branch of `ts_query_cursor_next_capture` either changes
nothing or has set the flag (true since commit 7979252). -/
theorem pool_flag_abandon (c : CursorPool) (victim : Option Nat) :
    (abandonEarliest c victim).flag = true ∨ abandonEarliest c victim = c := by
  unfold abandonEarliest
  cases victim with
  | none => right; rfl
  | some v =>
    simp only
    split
    · split
      · left; rfl
      · right; rfl
    · right; rfl

/-- Non-vacuity: with a pool of one list in use by state 0, state 1 steals it: state 0 dies, flag set. -/
example : (prepareToCapture ⟨⟨[true], 0, 1⟩, [⟨some 0, false⟩, ⟨none, false⟩], false⟩ 1 (some 0) none) =
    (⟨⟨[true], 0, 1⟩, [⟨none, true⟩, ⟨some 0, false⟩], true⟩, true) := by decide


end TsVerif.C11
