/-!
# C11 — ports of the finished-state heap and the capture-list pool of `lib/src/query.c`

Hand ports (loops → fuel-bounded recursion), tied on every run by `harness/csrc/cunit_c11.c`,
which calls the real `static` functions on random operation scripts; the driver compares the
arrays after every operation.

* `precedes`       ← `finished_state_precedes`
* `siftDown/siftUp/pop/erase/heapify` ← `finished_state_sift_down/_sift_up/_pop/_erase`,
  `ts_query_cursor__heapify_finished_states`
* `Pool.reset/acquire/release/isEmpty` ← `capture_list_pool_reset/_acquire/_release/_is_empty`
  (reset includes the trimming added by commit 882a83f)
* `prepareToCapture`, `abandonEarliest` ← the two places that drop an in-progress state:
  `ts_query_cursor__prepare_to_capture` (stealing) and the abandon branch of
  `ts_query_cursor_next_capture` (flag added by commit 7979252).
-/
namespace TsVerif.C11

/-- A finished query state as the heap sees it: insertion order, pattern, start bytes of its
captures, how many are consumed. -/
structure FS where
  order : Nat
  pat : Nat
  caps : List Nat
  consumed : Nat
  deriving Repr, Inhabited, DecidableEq

def FS.done (a : FS) : Bool := decide (a.consumed ≥ a.caps.length)
def FS.nextByte (a : FS) : Nat := a.caps.getD a.consumed 0

/-- Port of `finished_state_precedes`. -/
def precedes (a b : FS) : Bool :=
  if a.done then false
  else if b.done then true
  else if a.nextByte ≠ b.nextByte then decide (a.nextByte < b.nextByte)
  else if a.pat ≠ b.pat then decide (a.pat < b.pat)
  else decide (a.order < b.order)

def swapAt (a : Array FS) (i j : Nat) : Array FS :=
  let x := a[i]!
  let y := a[j]!
  (a.set! i y).set! j x

/-- The selection at the top of the loop of `finished_state_sift_down`: index of the smallest of
`i`, its left child, its right child (compared in the order the C code compares them). -/
def smallest (a : Array FS) (i : Nat) : Nat :=
  let left := 2 * i + 1
  let right := 2 * i + 2
  let s := if left < a.size && precedes a[left]! a[i]! then left else i
  if right < a.size && precedes a[right]! a[s]! then right else s

/-- Port of `finished_state_sift_down` (fuel ≥ height suffices; callers pass `a.size`). -/
def siftDown (fuel : Nat) (a : Array FS) (i : Nat) : Array FS :=
  match fuel with
  | 0 => a
  | fuel + 1 =>
    let s := smallest a i
    if s == i then a else siftDown fuel (swapAt a i s) s

/-- Port of `finished_state_sift_up`. -/
def siftUp (fuel : Nat) (a : Array FS) (i : Nat) : Array FS :=
  match fuel with
  | 0 => a
  | fuel + 1 =>
    if i = 0 then a
    else
      let parent := (i - 1) / 2
      if precedes a[i]! a[parent]! then siftUp fuel (swapAt a i parent) parent else a

/-- Port of `finished_state_pop`. -/
def heapPop (a : Array FS) : Array FS :=
  if a.size = 0 then a
  else
    let a := if a.size > 1 then a.set! 0 a[a.size - 1]! else a
    let a := a.pop
    if a.size > 0 then siftDown a.size a 0 else a

/-- Port of `finished_state_erase`. -/
def heapErase (a : Array FS) (i : Nat) : Array FS :=
  if i ≥ a.size then a
  else if i = a.size - 1 then a.pop
  else
    let a := (a.set! i a[a.size - 1]!).pop
    if i > 0 && precedes a[i]! a[(i - 1) / 2]! then siftUp a.size a i else siftDown a.size a i

/-- Port of `ts_query_cursor__heapify_finished_states`: sift the not yet ordered tail in. -/
def heapify (fuel : Nat) (a : Array FS) (heapSize : Nat) : Array FS × Nat :=
  match fuel with
  | 0 => (a, heapSize)
  | fuel + 1 => if heapSize < a.size then heapify fuel (siftUp a.size a heapSize) (heapSize + 1) else (a, heapSize)

/-- The heap property on the first `n` elements: no element precedes its parent. -/
def isHeapB (a : Array FS) (n : Nat) : Bool :=
  (List.range n).all fun i => i == 0 || !precedes a[i]! a[(i - 1) / 2]!

/-- The operations the cursor performs on `finished_states` (with the lazy boundary `heapSize`). -/
inductive HOp where
  | push (x : FS)        -- `ts_query_cursor__push_finished_state`: plain `array_push`
  | heapify              -- `ts_query_cursor__heapify_finished_states`
  | pop                  -- heapify; `finished_state_pop`; boundary := size      (`next_capture`)
  | erase (i : Nat)      -- heapify; `finished_state_erase(i)`; boundary := size (`next_match`, `remove_match`)
  | consume              -- heapify; root.consumed++; `sift_down(0)`             (`next_capture`)
  deriving Repr

def consumeRoot (a : Array FS) : Array FS :=
  if a.size > 0 then
    let x := a[0]!
    siftDown a.size (a.set! 0 { x with consumed := x.consumed + 1 }) 0
  else a

/-- One operation on (array, heap boundary). -/
def applyOp (st : Array FS × Nat) : HOp → Array FS × Nat
  | .push x => (st.1.push x, st.2)
  | .heapify => heapify (st.1.size + 1) st.1 st.2
  | .pop => let a := heapPop (heapify (st.1.size + 1) st.1 st.2).1; (a, a.size)
  | .erase i => let a := heapErase (heapify (st.1.size + 1) st.1 st.2).1 i; (a, a.size)
  | .consume => let h := heapify (st.1.size + 1) st.1 st.2; (consumeRoot h.1, h.2)

/-! ## Capture-list pool -/

structure Pool where
  inUse : List Bool
  free : Nat
  max : Nat
  deriving Repr, Inhabited, DecidableEq

def Pool.new : Pool := { inUse := [], free := 0, max := 4294967295 }

/-- Port of `capture_list_pool_reset` (with the trimming of lists beyond a lowered limit). -/
def Pool.reset (p : Pool) : Pool :=
  let l := p.inUse.take p.max
  { p with inUse := l.map fun _ => false, free := l.length }

def firstFree : List Bool → Nat → Option Nat
  | [], _ => none
  | b :: rest, i => if b then firstFree rest (i + 1) else some i

/-- Port of `capture_list_pool_acquire`: `none` = `CAPTURE_LIST_NONE`. -/
def Pool.acquire (p : Pool) : Pool × Option Nat :=
  match (if p.free > 0 then firstFree p.inUse 0 else none) with
  | some i => ({ p with inUse := p.inUse.set i true, free := p.free - 1 }, some i)
  | none =>
    if p.inUse.length ≥ p.max then (p, none)
    else ({ p with inUse := p.inUse ++ [true] }, some p.inUse.length)

/-- Port of `capture_list_pool_release`. -/
def Pool.release (p : Pool) (id : Nat) : Pool :=
  if id ≥ p.inUse.length then p else { p with inUse := p.inUse.set id false, free := p.free + 1 }

/-- Port of `capture_list_pool_is_empty`. -/
def Pool.isEmpty (p : Pool) : Bool := p.free == 0 && decide (p.inUse.length ≥ p.max)

def countFree (l : List Bool) : Nat := (l.filter fun b => !b).length
def countUsed (l : List Bool) : Nat := (l.filter fun b => b).length

/-- Bookkeeping invariant: the cached free count is the number of unused lists. -/
def Pool.Inv (p : Pool) : Prop := p.free = countFree p.inUse

/-! ## The two transitions that drop an in-progress state -/

/-- An in-progress state as far as capture lists are concerned. -/
structure PState where
  list : Option Nat
  dead : Bool
  deriving Repr, Inhabited, DecidableEq

structure CursorPool where
  pool : Pool
  states : List PState
  flag : Bool     -- did_exceed_match_limit
  deriving Repr, Inhabited, DecidableEq

/-- Port of `ts_query_cursor__prepare_to_capture` for the state at `idx`.  `victim` is the result
of `ts_query_cursor__first_in_progress_capture` (the state whose next capture is earliest),
`preserve` the index that must not be stolen from.  Returns the new cursor and whether a capture
list is available (`false` = the function returned NULL: the capture / the copy is dropped). -/
def prepareToCapture (c : CursorPool) (idx : Nat) (victim : Option Nat) (preserve : Option Nat) :
    CursorPool × Bool :=
  match c.states[idx]? with
  | none => (c, false)
  | some st =>
    match st.list with
    | some _ => (c, true)
    | none =>
      let (pool', got) := c.pool.acquire
      match got with
      | some id => ({ c with pool := pool', states := c.states.set idx { st with list := some id } }, true)
      | none =>
        let c := { c with pool := pool', flag := true }
        match victim with
        | some v =>
          if some v ≠ preserve ∧ v ≠ idx then
            match c.states[v]? with
            | some other =>
              let states := c.states.set idx { st with list := other.list }
              let states := states.set v { other with list := none, dead := true }
              ({ c with states := states }, true)
            | none => (c, false)
          else (c, false)
        | none => (c, false)

/-- Port of the abandon branch of `ts_query_cursor_next_capture`: when the pool is exhausted and
no finished capture can be returned, the earliest in-progress state is released and erased. -/
def abandonEarliest (c : CursorPool) (victim : Option Nat) : CursorPool :=
  match victim with
  | some v =>
    if c.pool.isEmpty then
      match c.states[v]? with
      | some st =>
        let pool := match st.list with | some id => c.pool.release id | none => c.pool
        { pool := pool, states := c.states.eraseIdx v, flag := true }
      | none => c
    else c
  | none => c

end TsVerif.C11
