import TsVerif.C11.Model
/-!
# C11 — judges: Bool predicates deciding the property's clauses on the streams the real cursor produced

Every `judgeX` is the clause itself; `explainX` only classifies a failure for the report
(the classification is what known-finding fingerprints match on).
-/
namespace TsVerif.C11
open TsGen

/-! ## (a) capture view vs match view -/

/-- Events of the match stream that a cursor restricted to `inc` may report as captures. -/
def visibleEvents (ms : List Match) (inc : Option TSRange) (old : Bool := false) : List CapEv :=
  match inc with
  | none => allEvents ms
  | some r => (allEvents ms).filter fun e => !captureOutside e.cap.r r old

/-- Clause (a): same set of (pattern, capture, node) triples, in document order.  Under a range
restriction the cursor may additionally drop captures whose node is outside the range (it does so
for finished states only), so there the capture view lies between the visible and all triples. -/
def judgeA (ms : List Match) (cs : List CapEv) (inc : Option TSRange) (old : Bool := false) : Bool :=
  let lower := (visibleEvents ms inc old).map CapEv.triple
  let upper := (allEvents ms).map CapEv.triple
  let tc := cs.map CapEv.triple
  subsetB tc upper && subsetB lower tc && startSorted cs

def isEmptyNode (e : CapEv) : Bool := e.cap.r.start_byte == e.cap.r.end_byte

def explainA (ms : List Match) (cs : List CapEv) (inc : Option TSRange) (old : Bool := false) : String :=
  let evs := visibleEvents ms inc old
  let tm := (allEvents ms).map CapEv.triple
  let tc := cs.map CapEv.triple
  let extra := cs.filter fun e => !tm.contains e.triple
  let missing := evs.filter fun e => !tc.contains e.triple
  if !extra.isEmpty then
    let kind := "extra-capture"
    s!"{kind} n={extra.length} first=({extra.head!.pat},{extra.head!.cap.idx},{extra.head!.cap.node})"
  else if !missing.isEmpty then
    if missing.all isEmptyNode then s!"missing-empty-node n={missing.length}"
    else s!"missing-capture n={missing.length} first=({missing.head!.pat},{missing.head!.cap.idx},{missing.head!.cap.node})"
  else if !startSorted cs then "unsorted"
  else "?"

/-! ## (b) ranges, (c) re-execution, (d) limits, (g) start depth -/

def Match.key (m : Match) : Nat × List Cap := (m.pat, m.caps)
def CapEv.key (e : CapEv) : Nat × Nat × Cap := (e.pat, e.k, e.cap)

/-- Clause (b): the restricted stream is the filter of the unrestricted one.  `dontCare` marks
matches the clause does not constrain (zero-width roots, see `emptyRoot`); they are ignored on
both sides. -/
def judgeB (keep : Match → Bool) (dontCare : Match → Bool) (qfree : Bool) (u r : List Match) : Bool :=
  let exp := u.filter fun m => keep m && !dontCare m
  let got := r.filter fun m => !dontCare m
  if qfree then decide (exp.map Match.key = got.map Match.key)
  else
    -- with quantifiers / alternations the surviving capture list may differ under a range and a
    -- match whose completion is deferred past the range can be lost: only soundness is required
    -- (every returned match is rooted at a node the filter keeps)
    let er := exp.map fun m => (m.pat, m.root)
    let gr := got.map fun m => (m.pat, m.root)
    gr.all (fun x => er.contains x)

/-- Zero-width roots (MISSING tokens, empty rules): the code's conventions disagree with each other
(`range_within` vs the `range_intersects` that gates descent; a parent that ends where the range
starts is pruned although its empty last child intersects — see `range_intersects_parent` and the
counterexample next to it), so clause (b) does not constrain them. -/
def emptyRoot (m : Match) : Bool := m.root.start_byte == m.root.end_byte

/-- Clause (c): identical streams (ids included). -/
def judgeCm (a b : List Match) : Bool := decide (a = b)
def judgeCc (a b : List CapEv) : Bool := decide (a = b)

/-- Clause (d): same stream as without the limit, or the cursor says it exceeded the limit. -/
def judgeDm (u l : List Match) (exceeded : Bool) : Bool :=
  exceeded || decide (u.map Match.key = l.map Match.key)
def judgeDc (u l : List CapEv) (exceeded : Bool) : Bool :=
  exceeded || decide (u.map CapEv.key = l.map CapEv.key)

/-- Clause (g) (max start depth): exactly the unrestricted matches whose root is at depth ≤ d,
in order (for queries with quantifiers / alternations: the same set of (pattern, root)). -/
def judgeG (u dms : List Match) (d : Nat) (simple : Bool) : Bool :=
  let exp := u.filter fun m => decide (m.depth ≤ d)
  dms.all (fun m => decide (m.depth ≤ d)) &&
  (if simple then decide (dms.map Match.key = exp.map Match.key)
   else
    let er := exp.map fun m => (m.pat, m.root)
    let gr := dms.map fun m => (m.pat, m.root)
    gr.all (fun x => er.contains x) && er.all (fun x => gr.contains x))

/-! ## (e) removal -/

/-- The id names one match in the stream (no two of its events share a list position). -/
def idUnique (u : List CapEv) (id : Nat) : Bool :=
  let ks := (u.filter fun e => e.id == id).map (·.k)
  decide (ks.Nodup)

/-- Clause (e): after removing the match of the event at `pos`, the stream up to `pos` is
unchanged; every capture of the *other* matches is still reported; nothing new is reported; and
for a quantifier-free query in which the id names a single match and no triple is reported twice,
the captures only that match would still have delivered are gone (with quantifiers split states share
a match id and a removal can revive an alternative, shorter match of the same nodes, so there only
"prefix unchanged" is required: implementation-defined otherwise).
(Compared as triples: match ids of later states may be renumbered after a removal.) -/
def judgeE (u e : List CapEv) (pos : Nat) (qfree : Bool) : Bool :=
  match u[pos]? with
  | none => decide (u = e)
  | some x =>
    let uLater := u.drop (pos + 1)
    let eLater := (e.drop (pos + 1)).map CapEv.triple
    let others := (uLater.filter fun ev => ev.id != x.id).map CapEv.triple
    let own := (uLater.filter fun ev => ev.id == x.id).map CapEv.triple
    let before := (u.take (pos + 1)).map CapEv.triple
    -- a split state of the same match (same id) survived the removal: implementation-defined
    let ownLater := (uLater.filter fun ev => ev.id == x.id).map CapEv.key
    let shared := (e.drop (pos + 1)).any fun ev => ev.id == x.id && !ownLater.contains ev.key
    let strict := qfree && !shared
    decide (e.take (pos + 1) = u.take (pos + 1)) &&
    (!strict || subsetB others eLater) &&
    (!strict || subsetB eLater (u.map CapEv.triple)) &&
    (!(strict && idUnique u x.id && decide ((u.map CapEv.triple).Nodup)) ||
      own.all fun t => others.contains t || before.contains t || !eLater.contains t)

/-! ## (f) predicates -/

def sliceBytes (text : Array Nat) (s e : Nat) : Bytes := (text.extract s e).toList

def capTexts (text : Array Nat) (m : Match) : List (Nat × Bytes) :=
  m.caps.map fun c => (c.idx, sliceBytes text c.r.start_byte c.r.end_byte)

def filterBy (ev : List (Nat × Bytes) → TextPred → Bool) (preds : List (Nat × TextPred))
    (text : Array Nat) (u : List Match) : List Match :=
  u.filter fun m =>
    satisfies ev ((preds.filter fun p => p.1 == m.pat).map (·.2)) (capTexts text m)

/-- Clause (f): the predicate-filtering iterator returns exactly the raw matches whose
predicates hold (documented reading). -/
def judgeF (isMatch : Bytes → Bytes → Bool) (preds : List (Nat × TextPred)) (text : Array Nat)
    (u p : List Match) : Bool :=
  decide ((filterBy (evalSpec isMatch) preds text u).map Match.key = p.map Match.key)

/-! ## A small regex matcher for the generated subset of `#match?` patterns

Subset: optional `^`, atoms (literal byte or class `[a-z0-9x]`), each with optional `* + ?`,
optional `$`; unanchored search otherwise.  Stands in for `regex::bytes::Regex::is_match`
(trusted for this subset; tied by correspondence: a wrong matcher shows up as a disagreement). -/

inductive Atom where
  | lit (c : Nat)
  | cls (ranges : List (Nat × Nat))
  deriving Repr

inductive Rep where | one | star | plus | opt
  deriving Repr

def Atom.ok : Atom → Nat → Bool
  | .lit c, x => c == x
  | .cls rs, x => rs.any fun r => r.1 ≤ x && x ≤ r.2

def parseClass : List Nat → List (Nat × Nat) → (List (Nat × Nat) × List Nat)
  | [], acc => (acc, [])
  | 93 :: rest, acc => (acc, rest)                       -- ']'
  | a :: 45 :: b :: rest, acc => if b = 93 then (acc ++ [(a, a), (45, 45)], rest) else parseClass rest (acc ++ [(a, b)])
  | a :: rest, acc => parseClass rest (acc ++ [(a, a)])

def parseAtoms (fuel : Nat) (s : List Nat) (acc : List (Atom × Rep)) : List (Atom × Rep) × Bool :=
  match fuel with
  | 0 => (acc, false)
  | fuel + 1 =>
    match s with
    | [] => (acc, false)
    | [36] => (acc, true)                                -- trailing '$'
    | c :: rest =>
      let (atom, rest) :=
        if c = 91 then let (rs, r) := parseClass rest []; (Atom.cls rs, r)
        else if c = 92 then match rest with | d :: r => (Atom.lit d, r) | [] => (Atom.lit 92, [])
        else (Atom.lit c, rest)
      match rest with
      | 42 :: r => parseAtoms fuel r (acc ++ [(atom, .star)])
      | 43 :: r => parseAtoms fuel r (acc ++ [(atom, .plus)])
      | 63 :: r => parseAtoms fuel r (acc ++ [(atom, .opt)])
      | r => parseAtoms fuel r (acc ++ [(atom, .one)])

def matchItems : List (Atom × Rep) → Bool → List Nat → Bool
  | [], e, s => !e || s.isEmpty
  | (a, .one) :: r, e, s => match s with | c :: t => a.ok c && matchItems r e t | [] => false
  | (a, .opt) :: r, e, s =>
    (match s with | c :: t => a.ok c && matchItems r e t | [] => false) || matchItems r e s
  | (a, .star) :: r, e, s =>
    (List.range (s.length + 1)).any fun n => (s.take n).all a.ok && matchItems r e (s.drop n)
  | (a, .plus) :: r, e, s =>
    (List.range (s.length + 1)).any fun n => n ≥ 1 && (s.take n).all a.ok && matchItems r e (s.drop n)

def miniRegex (re text : Bytes) : Bool :=
  let (anch, body) := match re with | 94 :: r => (true, r) | r => (false, r)
  let (items, e) := parseAtoms (body.length + 1) body []
  if anch then matchItems items e text
  else (List.range (text.length + 1)).any fun n => matchItems items e (text.drop n)

end TsVerif.C11
