import TsVerif.C11.Props
/-!
# C11 — the view relations the property names, as theorems about the judges and the pool model

* capture view (clause a): `judgeA_iff` — the judge accepts a capture stream exactly when it has the
  triples of the match stream (as a set) and is in document order; `captureStream_keys_unique` — ANY
  rearrangement of the matches' captures that is sorted by (start, end descending, pattern, position)
  has the same key sequence as the model's merge `captureStream`: the merge order leaves no freedom
  beyond captures with identical keys.
* range view (clause b): `judgeB_qfree_iff` — for quantifier-free queries the judge demands that the
  restricted stream IS the filter of the unrestricted one (keys, in order); `judgeB_sound` — otherwise
  that every returned (pattern, root) is one the filter keeps; `keepIntersect_eq_root` — for a match
  whose non-empty root lies within its parent the filter is "the root intersects the range"
  (the parent test is implied, `range_intersects_parent`).
* start depth (clause g): `judgeG_simple_iff`.
* limits (clause d): `judgeDm_iff` — a differing stream must come with the flag; and on the pool model
  (`prepareToCapture`, `abandonEarliest`, ports of the two places of the cursor where a state or a
  capture can be dropped): `prepare_flag_eq` / `abandon_flag_eq` — the flag after the call is the flag
  before OR "the pool was exhausted here"; `prepare_exhausted_drops` / `prepare_not_exhausted_keeps` /
  `abandon_erases_iff` — the pool is exhausted at the call EXACTLY when a state is killed or the capture
  is dropped; `flag_trace` — after any sequence of calls the flag is set iff it was set before or some
  call dropped something.  (`pool_flag_prepare/abandon` in Props.lean are the ⇐ halves.)
-/
namespace TsVerif.C11
open TsGen

/-! ## Capture view -/

theorem mem_of_subsetB {xs ys : List Triple} (h : subsetB xs ys = true) : ∀ x, x ∈ xs → x ∈ ys := by
  unfold subsetB at h
  simp only [List.all_eq_true, List.contains_iff_mem] at h
  exact h

/-- `judgeA_iff`: without a range the judge accepts exactly the streams that carry the triples of the
match stream (as a set) in document order. -/
theorem judgeA_iff (ms : List Match) (cs : List CapEv) :
    judgeA ms cs none = true ↔
      (∀ t, t ∈ cs.map CapEv.triple ↔ t ∈ triplesOfMatches ms) ∧ startSorted cs = true := by
  constructor
  · intro h
    refine ⟨judgeA_triples ms cs h, ?_⟩
    unfold judgeA at h
    simp only [Bool.and_eq_true] at h
    exact h.2
  · rintro ⟨ht, hs⟩
    unfold judgeA visibleEvents
    simp only [Bool.and_eq_true]
    exact ⟨⟨subsetB_of_subset fun x hx => (ht x).1 hx, subsetB_of_subset fun x hx => (ht x).2 hx⟩, hs⟩

/-- The sort key of a capture event. -/
def evKey (e : CapEv) : Nat × Nat × Nat × Nat := (e.cap.r.start_byte, e.cap.r.end_byte, e.pat, e.k)

def keyLe (a b : Nat × Nat × Nat × Nat) : Prop :=
  a.1 < b.1 ∨ (a.1 = b.1 ∧ (b.2.1 < a.2.1 ∨ (a.2.1 = b.2.1 ∧ (a.2.2.1 < b.2.2.1 ∨ (a.2.2.1 = b.2.2.1 ∧ a.2.2.2 ≤ b.2.2.2)))))

theorem evLe_iff_keyLe (a b : CapEv) : evLe a b = true ↔ keyLe (evKey a) (evKey b) := by
  simp [evLe, keyLe, evKey]

theorem keyLe_antisymm (a b : Nat × Nat × Nat × Nat) (h1 : keyLe a b) (h2 : keyLe b a) : a = b := by
  obtain ⟨a1, a2, a3, a4⟩ := a
  obtain ⟨b1, b2, b3, b4⟩ := b
  simp only [keyLe] at h1 h2
  simp only [Prod.mk.injEq]
  omega

/-- Two lists sorted by an antisymmetric relation that are rearrangements of each other are equal. -/
theorem eq_of_sorted_perm {α : Type} (r : α → α → Prop) (antisymm : ∀ a b, r a b → r b a → a = b) :
    ∀ (l1 l2 : List α), l1.Pairwise r → l2.Pairwise r → l1.Perm l2 → l1 = l2
  | [], l2, _, _, hp => (List.Perm.nil_eq hp)
  | a :: t1, [], _, _, hp => absurd hp.symm (by intro h; exact List.cons_ne_nil _ _ (List.Perm.nil_eq h).symm)
  | a :: t1, b :: t2, h1, h2, hp => by
    have hab : a = b := by
      by_cases hab : a = b
      · exact hab
      · have ha : a ∈ b :: t2 := hp.mem_iff.1 (by simp)
        have hb : b ∈ a :: t1 := hp.mem_iff.2 (by simp)
        have ha' : a ∈ t2 := by
          rcases List.mem_cons.1 ha with h | h
          · exact absurd h hab
          · exact h
        have hb' : b ∈ t1 := by
          rcases List.mem_cons.1 hb with h | h
          · exact absurd h.symm hab
          · exact h
        exact antisymm a b ((List.pairwise_cons.1 h1).1 b hb') ((List.pairwise_cons.1 h2).1 a ha')
    subst hab
    have := eq_of_sorted_perm r antisymm t1 t2 (List.pairwise_cons.1 h1).2 (List.pairwise_cons.1 h2).2 hp.cons_inv
    rw [this]

/-- `captureStream_keys_unique`: every sorted rearrangement of the matches' captures has the key
sequence of the model's merge. -/
theorem captureStream_keys_unique (ms : List Match) (cs : List CapEv)
    (hperm : cs.Perm (allEvents ms)) (hsorted : cs.Pairwise (fun a b => evLe a b = true)) :
    cs.map evKey = (captureStream ms).map evKey := by
  apply eq_of_sorted_perm keyLe keyLe_antisymm
  · rw [List.pairwise_map]
    exact hsorted.imp fun h => (evLe_iff_keyLe _ _).1 h
  · rw [List.pairwise_map]
    exact (captureStream_sorted ms).imp fun h => (evLe_iff_keyLe _ _).1 h
  · exact (hperm.trans (captureStream_perm ms).symm).map _

/-! ## Range view, start depth, limits: what the judges demand -/

/-- `judgeB_qfree_iff`: for quantifier-free queries the restricted stream must be the filter of the
unrestricted stream — same match keys in the same order (matches the clause does not constrain,
`dontCare`, are ignored on both sides). -/
theorem judgeB_qfree_iff (keep dontCare : Match → Bool) (u r : List Match) :
    judgeB keep dontCare true u r = true ↔
      ((u.filter fun m => keep m && !dontCare m).map Match.key) = ((r.filter fun m => !dontCare m).map Match.key) := by
  unfold judgeB
  simp

/-- `judgeB_sound`: with quantifiers / alternations every returned match must be rooted where the
filter keeps a match of that pattern. -/
theorem judgeB_sound (keep dontCare : Match → Bool) (u r : List Match)
    (h : judgeB keep dontCare false u r = true) :
    ∀ m, m ∈ r → dontCare m = false → ∃ m', m' ∈ u ∧ keep m' = true ∧ m'.pat = m.pat ∧ m'.root = m.root := by
  unfold judgeB at h
  simp only [Bool.false_eq_true, if_false] at h
  intro m hm hd
  have hall := List.all_eq_true.1 h (m.pat, m.root)
    (List.mem_map.2 ⟨m, List.mem_filter.2 ⟨hm, by simp [hd]⟩, rfl⟩)
  have hmem := List.contains_iff_mem.1 hall
  obtain ⟨m', hm', he⟩ := List.mem_map.1 hmem
  obtain ⟨hmu, hk⟩ := List.mem_filter.1 hm'
  simp only [Bool.and_eq_true] at hk
  simp only [Prod.mk.injEq] at he
  exact ⟨m', hmu, hk.1, he.1, he.2⟩

/-- `keepIntersect_eq_root`: for a match whose NON-EMPTY root lies within its parent, "root and parent
intersect the range" is just "the root intersects the range". -/
theorem keepIntersect_eq_root (inc : TSRange) (m : Match)
    (hne : m.root.start_byte < m.root.end_byte) (hw : m.hasPar = true → withinSpec m.root m.par = true) :
    keepIntersect inc m = intersectsSpec m.root inc := by
  unfold keepIntersect
  cases hr : intersectsSpec m.root inc with
  | false => simp
  | true =>
    cases hp : m.hasPar with
    | false => simp
    | true =>
      have h := range_intersects_parent m.root m.par inc hne
        (by rw [range_within_eq_spec]; exact hw hp) (by rw [range_intersects_eq_spec]; exact hr)
      rw [range_intersects_eq_spec] at h
      simp [h]

/-- `judgeG_simple_iff`: for quantifier-free queries a start-depth bound `d` returns exactly the
unrestricted matches rooted at depth ≤ d, in order. -/
theorem judgeG_simple_iff (u dms : List Match) (d : Nat) :
    judgeG u dms d true = true ↔
      (∀ m, m ∈ dms → m.depth ≤ d) ∧ dms.map Match.key = (u.filter fun m => decide (m.depth ≤ d)).map Match.key := by
  unfold judgeG
  simp

/-- `judgeDm_iff`: a match stream that differs from the unlimited one must come with the flag. -/
theorem judgeDm_iff (u l : List Match) (exceeded : Bool) :
    judgeDm u l exceeded = true ↔ (exceeded = false → u.map Match.key = l.map Match.key) := by
  unfold judgeDm
  cases exceeded <;> simp

theorem judgeDc_iff (u l : List CapEv) (exceeded : Bool) :
    judgeDc u l exceeded = true ↔ (exceeded = false → u.map CapEv.key = l.map CapEv.key) := by
  unfold judgeDc
  cases exceeded <;> simp

/-! ## Re-execution and predicates: what the judges demand -/

/-- `judgeCm_iff` / `judgeCc_iff`: a re-executed / reused / fresh cursor must give the identical stream
(match ids included). -/
theorem judgeCm_iff (a b : List Match) : judgeCm a b = true ↔ a = b := by unfold judgeCm; simp
theorem judgeCc_iff (a b : List CapEv) : judgeCc a b = true ↔ a = b := by unfold judgeCc; simp

/-- `mem_filterBy`: the spec of the predicate-filtering iterator keeps exactly the raw matches whose own
pattern's predicates hold on the text of their captures. -/
theorem mem_filterBy (ev : List (Nat × Bytes) → TextPred → Bool) (preds : List (Nat × TextPred))
    (text : Array Nat) (u : List Match) (m : Match) :
    m ∈ filterBy ev preds text u ↔
      m ∈ u ∧ satisfies ev ((preds.filter fun p => p.1 == m.pat).map (·.2)) (capTexts text m) = true := by
  unfold filterBy
  simp [List.mem_filter]

/-- `judgeF_iff`: the iterator's stream must be that filter of the raw stream (keys, in order). -/
theorem judgeF_iff (isMatch : Bytes → Bytes → Bool) (preds : List (Nat × TextPred)) (text : Array Nat)
    (u p : List Match) :
    judgeF isMatch preds text u p = true ↔
      (filterBy (evalSpec isMatch) preds text u).map Match.key = p.map Match.key := by
  unfold judgeF; simp

/-! ## Limits: the flag is set exactly when something is dropped -/

/-- The pool is exhausted at this call of `prepare_to_capture`: the state exists, has no capture list
yet and none can be acquired. -/
def exhausted (c : CursorPool) (idx : Nat) : Bool :=
  match c.states[idx]? with
  | none => false
  | some st => st.list.isNone && c.pool.acquire.2.isNone

/-- `prepare_flag_eq`: the flag after the call = the flag before OR the pool was exhausted here. -/
theorem prepare_flag_eq (c : CursorPool) (idx : Nat) (victim preserve : Option Nat) :
    (prepareToCapture c idx victim preserve).1.flag = (c.flag || exhausted c idx) := by
  unfold prepareToCapture exhausted
  cases hs : c.states[idx]? with
  | none => simp
  | some st =>
    simp only
    cases hl : st.list with
    | some id => simp
    | none =>
      simp only
      rcases hp : c.pool.acquire with ⟨pool', got⟩
      cases got with
      | some id => simp
      | none =>
        simp only [Option.isNone_none, Bool.and_self, Bool.or_true]
        cases victim with
        | none => rfl
        | some v =>
          simp only
          split
          · split <;> rfl
          · rfl

/-- `prepare_exhausted_drops`: when the pool is exhausted, either the capture is dropped (the function
returns NULL) or the victim state is killed and loses its list. -/
theorem prepare_exhausted_drops (c : CursorPool) (idx : Nat) (victim preserve : Option Nat)
    (h : exhausted c idx = true) :
    (prepareToCapture c idx victim preserve).2 = false ∨
    ∃ v other, victim = some v ∧ c.states[v]? = some other ∧ v ≠ idx ∧
      (prepareToCapture c idx victim preserve).1.states[v]? = some { other with list := none, dead := true } := by
  unfold exhausted at h
  unfold prepareToCapture
  cases hs : c.states[idx]? with
  | none => simp [hs] at h
  | some st =>
    simp only [hs, Bool.and_eq_true, Option.isNone_iff_eq_none] at h
    simp only [h.1]
    rcases hp : c.pool.acquire with ⟨pool', got⟩
    rw [hp] at h
    have hg : got = none := h.2
    subst hg
    simp only
    cases victim with
    | none => left; rfl
    | some v =>
      simp only
      by_cases hc : some v ≠ preserve ∧ v ≠ idx
      · rw [if_pos hc]
        cases hv : c.states[v]? with
        | none => left; simp [hv]
        | some other =>
          right
          simp only [hv]
          refine ⟨v, other, rfl, hv, hc.2, ?_⟩
          have hvlt : v < c.states.length := by
            rcases Nat.lt_or_ge v c.states.length with hlt | hge
            · exact hlt
            · rw [List.getElem?_eq_none hge] at hv; cases hv
          simp [List.getElem?_set, hvlt]
      · rw [if_neg hc]; left; rfl

/-- `prepare_not_exhausted_keeps`: when the pool is not exhausted, nothing is dropped: a capture
list is available and no state dies. -/
theorem prepare_not_exhausted_keeps (c : CursorPool) (idx : Nat) (victim preserve : Option Nat)
    (hidx : idx < c.states.length) (h : exhausted c idx = false) :
    (prepareToCapture c idx victim preserve).2 = true ∧
    (prepareToCapture c idx victim preserve).1.states.map (·.dead) = c.states.map (·.dead) := by
  have hflag := prepare_flag_eq c idx victim preserve
  rw [h, Bool.or_false] at hflag
  rcases pool_flag_prepare c idx victim preserve hidx with hf | hk
  · -- the flag is set after the call, so it was set before: look at the function directly
    unfold exhausted at h
    unfold prepareToCapture
    have hsome : c.states[idx]? = some c.states[idx] := List.getElem?_eq_getElem hidx
    rw [hsome] at h ⊢
    simp only at h ⊢
    cases hl : c.states[idx].list with
    | some id => simp
    | none =>
      simp only [hl, Option.isNone_none, Bool.true_and] at h
      rcases hp : c.pool.acquire with ⟨pool', got⟩
      rw [hp] at h
      cases got with
      | none => simp at h
      | some id =>
        simp only
        exact ⟨trivial, map_dead_set _ _ _ _ hsome rfl⟩
  · exact hk

/-- `abandon_flag_eq` and `abandon_erases_iff`: the abandon branch sets the flag exactly when it erases
a state (pool empty and a victim exists). -/
def abandons (c : CursorPool) (victim : Option Nat) : Bool :=
  match victim with
  | some v => c.pool.isEmpty && (c.states[v]?).isSome
  | none => false

theorem abandon_flag_eq (c : CursorPool) (victim : Option Nat) :
    (abandonEarliest c victim).flag = (c.flag || abandons c victim) := by
  unfold abandonEarliest abandons
  cases victim with
  | none => simp
  | some v =>
    simp only
    cases he : c.pool.isEmpty with
    | false => simp
    | true =>
      simp only [if_true, Bool.true_and]
      cases hv : c.states[v]? with
      | none => simp
      | some st => simp

theorem abandon_erases_iff (c : CursorPool) (victim : Option Nat) :
    (abandons c victim = true → ∃ v, victim = some v ∧ (abandonEarliest c victim).states = c.states.eraseIdx v) ∧
    (abandons c victim = false → abandonEarliest c victim = c) := by
  unfold abandonEarliest abandons
  cases victim with
  | none => simp
  | some v =>
    simp only
    cases he : c.pool.isEmpty with
    | false => simp
    | true =>
      simp only [if_true, Bool.true_and]
      cases hv : c.states[v]? with
      | none => simp
      | some st => simp

/-- One step of the cursor that can drop something. -/
inductive POp where
  | prepare (idx : Nat) (victim preserve : Option Nat)
  | abandon (victim : Option Nat)

def applyP (c : CursorPool) : POp → CursorPool
  | .prepare idx v p => (prepareToCapture c idx v p).1
  | .abandon v => abandonEarliest c v

/-- Did this step drop something (pool exhausted at a capture / a state abandoned)? -/
def dropsP (c : CursorPool) : POp → Bool
  | .prepare idx _ _ => exhausted c idx
  | .abandon v => abandons c v

/-- Did some step of the sequence drop something? -/
def anyDrop : CursorPool → List POp → Bool
  | _, [] => false
  | c, op :: ops => dropsP c op || anyDrop (applyP c op) ops

/-- `flag_trace`: after any sequence of steps, `did_exceed_match_limit` is set iff it was set before
or some step dropped a state or a capture. -/
theorem flag_trace : ∀ (ops : List POp) (c : CursorPool),
    (ops.foldl applyP c).flag = (c.flag || anyDrop c ops)
  | [], c => by simp [anyDrop]
  | op :: ops, c => by
    simp only [List.foldl_cons, anyDrop]
    rw [flag_trace ops (applyP c op)]
    cases op with
    | prepare idx v p =>
      simp only [applyP, dropsP, prepare_flag_eq]
      rw [Bool.or_assoc]
    | abandon v =>
      simp only [applyP, dropsP, abandon_flag_eq]
      rw [Bool.or_assoc]

/-- a fresh cursor (flag clear): the flag is reported exactly when something was dropped -/
theorem flag_iff_dropped (ops : List POp) (c : CursorPool) (h : c.flag = false) :
    (ops.foldl applyP c).flag = true ↔ anyDrop c ops = true := by
  rw [flag_trace, h, Bool.false_or]

/-! Non-vacuity: a pool of one list in use by state 0; state 1 needs a list: state 0 is killed and the
flag is set; with a free list nothing is dropped and the flag stays clear. -/
example : anyDrop ⟨⟨[true], 0, 1⟩, [⟨some 0, false⟩, ⟨none, false⟩], false⟩ [.prepare 1 (some 0) none] = true := by decide
example : ([POp.prepare 1 (some 0) none].foldl applyP ⟨⟨[true], 0, 1⟩, [⟨some 0, false⟩, ⟨none, false⟩], false⟩).flag = true := by decide
example : ([POp.prepare 1 (some 0) none].foldl applyP ⟨⟨[true, false], 1, 2⟩, [⟨some 0, false⟩, ⟨none, false⟩], false⟩).flag = false := by decide
example : judgeB (fun m => m.pat == 0) (fun _ => false) true [exMatch] [exMatch] = true := by decide

end TsVerif.C11
