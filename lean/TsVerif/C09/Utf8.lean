/-!
# Port of `ts_decode_utf8` (lib/src/unicode.h → ICU `U8_NEXT`, lib/src/unicode/utf8.h)

`decodeUtf8 s` is `(code point or -1, i)` for the macro applied to the byte string `s` with
`length = s.length` (bytes are `Nat < 256`).  The macro's side effects are kept: `i` counts every
byte consumed before the sequence turned out ill-formed.  `-1` is `U_SENTINEL` (`TS_DECODE_ERROR`).
Tied to the C function by the function-level correspondence of C09/C13 (`cunit_c13.c`, op `D`).
-/
namespace TsVerif.Utf

/-- `U8_LEAD3_T1_BITS`. -/
def lead3T1Bits : List Nat :=
  [0x20, 0x30, 0x30, 0x30, 0x30, 0x30, 0x30, 0x30, 0x30, 0x30, 0x30, 0x30, 0x30, 0x10, 0x30, 0x30]
/-- `U8_LEAD4_T1_BITS`. -/
def lead4T1Bits : List Nat :=
  [0x00, 0x00, 0x00, 0x00, 0x00, 0x00, 0x00, 0x00, 0x1E, 0x0F, 0x0F, 0x0F, 0x00, 0x00, 0x00, 0x00]

/-- `(__t = s[i] - 0x80) <= 0x3f` on `uint8_t`: the byte is a trail byte; value = low six bits. -/
def trailVal (b : Nat) : Option Nat := if 0x80 ≤ b ∧ b ≤ 0xbf then some (b - 0x80) else none

def DECODE_ERROR : Int := -1

/-- `ts_decode_utf8(string, length, &code_point)` = `(code_point, return value)`. -/
def decodeUtf8 (s : List Nat) : Int × Nat :=
  match s with
  | [] => (DECODE_ERROR, 0)                       -- never called with length 0
  | c :: rest =>
    if c < 0x80 then (c, 1)                       -- U8_IS_SINGLE
    else match rest with
    | [] => (DECODE_ERROR, 1)                     -- i == length
    | t1 :: rest1 =>
      if c ≥ 0xe0 then
        if c < 0xf0 then
          let c1 := c &&& 0xf
          if (lead3T1Bits.getD c1 0) &&& (1 <<< (t1 >>> 5)) ≠ 0 then
            let c2 := (c1 <<< 6) ||| (t1 &&& 0x3f)
            match rest1 with
            | [] => (DECODE_ERROR, 2)
            | t2 :: _ =>
              match trailVal t2 with
              | some t => (((c2 <<< 6) ||| t : Nat), 3)
              | none => (DECODE_ERROR, 2)
          else (DECODE_ERROR, 1)
        else
          let c1 := c - 0xf0
          if c1 ≤ 4 ∧ (lead4T1Bits.getD (t1 >>> 4) 0) &&& (1 <<< c1) ≠ 0 then
            let c2 := (c1 <<< 6) ||| (t1 &&& 0x3f)
            match rest1 with
            | [] => (DECODE_ERROR, 2)
            | t2 :: rest2 =>
              match trailVal t2 with
              | none => (DECODE_ERROR, 2)
              | some t =>
                let c3 := (c2 <<< 6) ||| t
                match rest2 with
                | [] => (DECODE_ERROR, 3)
                | t3 :: _ =>
                  match trailVal t3 with
                  | some t' => (((c3 <<< 6) ||| t' : Nat), 4)
                  | none => (DECODE_ERROR, 3)
          else (DECODE_ERROR, 1)
      else if c ≥ 0xc2 then
        match trailVal t1 with
        | some t => (((((c &&& 0x1f) <<< 6) ||| t) : Nat), 2)
        | none => (DECODE_ERROR, 1)
      else (DECODE_ERROR, 1)

end TsVerif.Utf
