/-!
# Port of `ts_decode_utf8` (lib/src/unicode.h → ICU `U8_NEXT`, lib/src/unicode/utf8.h)

`decodeUtf8 s` is `(code point or -1, i)` for the macro applied to the byte string `s` with
`length = s.length` (bytes are `Nat < 256`).  The macro's side effects are kept: `i` counts every
byte consumed before the sequence turned out ill-formed.  `-1` is `U_SENTINEL` (`TS_DECODE_ERROR`).
Tied to the C function by the function-level correspondence of C09/C13 (`cunit_c13.c`, op `D`).
-/
namespace TsVerif.Utf

/-- `U8_LEAD3_T1_BITS`. -/
def lead3T1Bits : List Nat :=
  [0x20, 0x30, 0x30, 0x30, 0x30, 0x30, 0x30, 0x30, 0x30, 0x30, 0x30, 0x30, 0x30, 0x10, 0x30, 0x30]
/-- `U8_LEAD4_T1_BITS`. -/
def lead4T1Bits : List Nat :=
  [0x00, 0x00, 0x00, 0x00, 0x00, 0x00, 0x00, 0x00, 0x1E, 0x0F, 0x0F, 0x0F, 0x00, 0x00, 0x00, 0x00]

/-- `(__t = s[i] - 0x80) <= 0x3f` on `uint8_t`: the byte is a trail byte; value = low six bits. -/
def trailVal (b : Nat) : Option Nat := if 0x80 ≤ b ∧ b ≤ 0xbf then some (b - 0x80) else none

def DECODE_ERROR : Int := -1

/-- `ts_decode_utf8(string, length, &code_point)` = `(code_point, return value)`. -/
def decodeUtf8 (s : List Nat) : Int × Nat :=
  match s with
  | [] => (DECODE_ERROR, 0)                       -- never called with length 0
  | c :: rest =>
    if c < 0x80 then (c, 1)                       -- U8_IS_SINGLE
    else match rest with
    | [] => (DECODE_ERROR, 1)                     -- i == length
    | t1 :: rest1 =>
      if c ≥ 0xe0 then
        if c < 0xf0 then
          let c1 := c &&& 0xf
          if (lead3T1Bits.getD c1 0) &&& (1 <<< (t1 >>> 5)) ≠ 0 then
            let c2 := (c1 <<< 6) ||| (t1 &&& 0x3f)
            match rest1 with
            | [] => (DECODE_ERROR, 2)
            | t2 :: _ =>
              match trailVal t2 with
              | some t => (((c2 <<< 6) ||| t : Nat), 3)
              | none => (DECODE_ERROR, 2)
          else (DECODE_ERROR, 1)
        else
          let c1 := c - 0xf0
          if c1 ≤ 4 ∧ (lead4T1Bits.getD (t1 >>> 4) 0) &&& (1 <<< c1) ≠ 0 then
            let c2 := (c1 <<< 6) ||| (t1 &&& 0x3f)
            match rest1 with
            | [] => (DECODE_ERROR, 2)
            | t2 :: rest2 =>
              match trailVal t2 with
              | none => (DECODE_ERROR, 2)
              | some t =>
                let c3 := (c2 <<< 6) ||| t
                match rest2 with
                | [] => (DECODE_ERROR, 3)
                | t3 :: _ =>
                  match trailVal t3 with
                  | some t' => (((c3 <<< 6) ||| t' : Nat), 4)
                  | none => (DECODE_ERROR, 3)
          else (DECODE_ERROR, 1)
      else if c ≥ 0xc2 then
        match trailVal t1 with
        | some t => (((((c &&& 0x1f) <<< 6) ||| t) : Nat), 2)
        | none => (DECODE_ERROR, 1)
      else (DECODE_ERROR, 1)

/-! ## `ts_decode_utf16_le` / `ts_decode_utf16_be` (lib/src/unicode.h, `U16_NEXT_LE/BE`) -/

/-- One 16-bit code unit from two bytes. -/
def unit16 (be : Bool) (a b : Nat) : Nat := if be then a * 256 + b else b * 256 + a

/-- `U16_SURROGATE_OFFSET` = `(0xd800<<10) + 0xdc00 - 0x10000`. -/
def SURROGATE_OFFSET : Nat := 56613888

/-- `ts_decode_utf16_le/be(string, length, &code_point)` = `(code_point, return value)`: fewer than two
bytes are an error of that length; a lead surrogate followed (within `length / 2` units) by a trail
surrogate is a supplementary code point of 4 bytes; anything else — unpaired surrogates included — is
the unit itself, 2 bytes.
`swapTrail = true` is the decoder as it should be (fixes/C09-utf16-trail-byte-order.diff).
`swapTrail = false` is `U16_NEXT_LE/BE` of unicode.h as it is: only the FIRST unit goes through
`le16toh`/`be16toh`, the trail unit `__c2 = (s)[(i)]` is read in HOST order (little-endian here), tested
and combined unswapped — for the byte order that differs from the host's (BE on x86/ARM64) a surrogate
pair is therefore not recognised. -/
def decodeUtf16 (be : Bool) (s : List Nat) (swapTrail : Bool := true) : Int × Nat :=
  match s with
  | a :: b :: rest =>
    let c := unit16 be a b
    if 0xD800 ≤ c ∧ c < 0xDC00 then
      match rest with
      | a2 :: b2 :: _ =>
        let c2 := if swapTrail then unit16 be a2 b2 else unit16 false a2 b2
        if 0xDC00 ≤ c2 ∧ c2 < 0xE000 then ((c * 1024 + c2 - SURROGATE_OFFSET : Nat), 4) else (c, 2)
      | _ => (c, 2)
    else (c, 2)
  | _ => (DECODE_ERROR, s.length)

/-- UTF-16 encoding of a code point (as bytes). -/
def encodeUtf16 (be : Bool) (c : Nat) : List Nat :=
  let bytes (u : Nat) : List Nat := if be then [u / 256, u % 256] else [u % 256, u / 256]
  if c < 0x10000 then bytes c
  else bytes (0xD800 + (c - 0x10000) / 1024) ++ bytes (0xDC00 + (c - 0x10000) % 1024)

/-- UTF-8 encoding of a code point (as bytes), by arithmetic. -/
def encodeUtf8 (c : Nat) : List Nat :=
  if c < 0x80 then [c]
  else if c < 0x800 then [0xC0 + c / 64, 0x80 + c % 64]
  else if c < 0x10000 then [0xE0 + c / 4096, 0x80 + c / 64 % 64, 0x80 + c % 64]
  else [0xF0 + c / 262144, 0x80 + c / 4096 % 64, 0x80 + c / 64 % 64, 0x80 + c % 64]

/-- Decode a byte string character by character with decoder `dec` (`fuel` characters at most). -/
def decodeSeq (dec : List Nat → Int × Nat) : Nat → List Nat → List (Int × Nat)
  | 0, _ => []
  | fuel + 1, s =>
    if s.isEmpty then []
    else
      let r := dec s
      r :: decodeSeq dec fuel (s.drop r.2)

/-- A Unicode scalar value. -/
def Scalar (c : Nat) : Prop := c < 0x110000 ∧ ¬ (0xD800 ≤ c ∧ c < 0xE000)

end TsVerif.Utf
