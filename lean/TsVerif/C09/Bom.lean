import TsVerif.C09.Props
/-!
# C09 — texts that begin with a byte-order mark

`ts_lexer_start` skips a BOM at offset 0 by `advance(skip = true)`.  `skip` only moves `token_start_position`
(`doAdvance_skip`, `advance_skip`: the two advances agree on every other field), and nothing the character sequence
depends on reads that field.  Hence `lexStream_bom` (the full port produces the chunk logic's sequence without its first
element) and `chars_chunk_indep_port_any`: chunk independence of the full port with NO assumption about a BOM.
-/
namespace TsVerif.C09
open TsGen TsVerif.Lex TsVerif.Utf

theorem getChunk_ts (read : Read) (l : Lexer) (t : Length) :
    ({ l with tokStart := t } : Lexer).getChunk read = { l.getChunk read with tokStart := t } := by
  unfold Lexer.getChunk
  simp only
  split <;> rfl

theorem getLookahead_ts (read : Read) (l : Lexer) (t : Length) :
    ({ l with tokStart := t } : Lexer).getLookahead read = { l.getLookahead read with tokStart := t } := by
  unfold Lexer.getLookahead
  simp only
  split
  · rfl
  · cases decodeAt read (l.chunk.drop (l.pos.bytes - l.chunkStart)) l.pos.bytes with
    | mk cp r =>
      cases r with
      | mk n nc =>
        cases nc with
        | none => rfl
        | some c => simp only; split <;> rfl

theorem refill_ts (read : Read) (l : Lexer) (t : Length) :
    ({ l with tokStart := t } : Lexer).refill read = { l.refill read with tokStart := t } := by
  unfold Lexer.refill
  simp only
  split
  · rw [getChunk_ts, getLookahead_ts]
  · rw [getLookahead_ts]

theorem clearChunk_ts (l : Lexer) (t : Length) :
    ({ l with tokStart := t } : Lexer).clearChunk = { l.clearChunk with tokStart := t } := rfl

attribute [local irreducible] Lexer.refill in
/-- The part of `do_advance` before the `skip` assignment does not look at `token_start_position`. -/
theorem doAdvance_skip (read : Read) (l : Lexer) :
    ∃ t, l.doAdvance read true = { l.doAdvance read false with tokStart := t } := by
  unfold Lexer.doAdvance
  simp only [Bool.false_eq_true, if_false, if_true]
  generalize (if (l.laSize != 0) = true then _ else l) = m
  generalize (if m.skipEmpty = true then skipLF (m.ranges.toList.drop m.idx) m.pos else skipL (m.ranges.toList.drop m.idx) m.pos) = r
  obtain ⟨k, pos, inr⟩ := r
  simp only
  cases inr with
  | true => simp only [if_true]; exact ⟨pos, refill_ts read { m with idx := m.idx + k, pos := pos } pos⟩
  | false => simp only [Bool.false_eq_true, if_false]; exact ⟨pos, rfl⟩


theorem advance_skip (read : Read) (l : Lexer) :
    ∃ t, l.advance read true = { l.advance read false with tokStart := t } := by
  unfold Lexer.advance
  split
  · exact ⟨l.tokStart, rfl⟩
  · simp only [Bool.false_eq_true, if_false, if_true]
    split
    · split
      · split
        · exact ⟨_, rfl⟩
        · exact ⟨_, rfl⟩
      · exact doAdvance_skip read l
    · exact doAdvance_skip read l

/-- What the port produces from a lexer that agrees with `l.advance` on everything but `token_start_position` and the
column cache. -/
theorem lexChars_after_advance (text : List Nat) (read : Read) (hch : ChunkingOf text read) (hsmall : text.length < UMAX)
    (l : Lexer) (hinv : Inv l) (hok : CacheOK text ⟨l.chunkStart, l.chunk⟩) (l2 : Lexer)
    (e1 : l2.pos = (l.advance read false).pos) (e2 : l2.ranges = (l.advance read false).ranges)
    (e3 : l2.idx = (l.advance read false).idx) (e4 : l2.lookahead = (l.advance read false).lookahead)
    (e5 : l2.laSize = (l.advance read false).laSize) (e6 : l2.chunkStart = (l.advance read false).chunkStart)
    (e7 : l2.chunk = (l.advance read false).chunk) (fuel : Nat) :
    lexChars read fuel l2 = coreChars read fuel (l.pos.bytes + l.laSize) ⟨l.chunkStart, l.chunk⟩ := by
  have sp := advance_spec read l hinv
  simp only at sp
  obtain ⟨s1, s2, s3, s4⟩ := sp
  by_cases heof : (coreLook read (l.pos.bytes + l.laSize) ⟨l.chunkStart, l.chunk⟩).2.2.2 = true
  · have hidx := s3 heof
    have : l2.eof = true := by
      simp [Lexer.eof, Lexer.count, e2, e3, s2, hidx]
    cases fuel with
    | zero => simp [lexChars, coreChars]
    | succ f =>
      rw [coreChars_succ]
      unfold lexChars
      simp [this, heof]
  · have heof' : (coreLook read (l.pos.bytes + l.laSize) ⟨l.chunkStart, l.chunk⟩).2.2.2 = false := by simpa using heof
    have hf2 := coreLook_facts text read hch (l.pos.bytes + l.laSize) ⟨l.chunkStart, l.chunk⟩ hok heof'
    simp only at hf2
    obtain ⟨m1, m2, m3, m4, m5, m6⟩ := hf2
    obtain ⟨t1, t2, t3, t4, t5⟩ := s4 heof' m1
    have hp : l2.pos.bytes = l.pos.bytes + l.laSize := by rw [e1, s1]
    have hinv' : Inv l2 :=
      { ranges := by rw [e2, s2]; exact hinv.ranges
        idx := by rw [e3]; exact t1
        size := by rw [e5, t3]; exact m5
        lo := by rw [e6, t4, hp]; exact m3
        hi := by rw [e6, e7, t4, t5, hp]; exact m4
        small := by rw [hp, e5, t3]; omega }
    have := lexChars_core text read hch hsmall fuel l2 ⟨l.chunkStart, l.chunk⟩ hinv' hok
      (by rw [hp, e4, e5, e6, e7, t2, t3, t4, t5]; rw [← heof'])
    rw [this, hp]

/-- `lexStream_bom`: for a text that BEGINS with a byte-order mark the full port produces the sequence of the chunk logic
without its first element — `ts_lexer_start` skips the mark (with `skip = true`, which only moves `token_start_position`). -/
theorem lexStream_bom (text : List Nat) (read : Read) (hch : ChunkingOf text read)
    (hsmall : text.length < UMAX) (hbom : (coreLook read 0 ⟨0, []⟩).1 = BYTE_ORDER_MARK) (fuel : Nat) :
    lexStream read fuel = (coreChars read (fuel + 1) 0 ⟨0, []⟩).tail := by
  obtain ⟨f1, f2, f3, f4, f5, f6⟩ := l00_fields
  have heof' : (coreLook read 0 ⟨0, []⟩).2.2.2 = false := by
    cases h : (coreLook read 0 ⟨0, []⟩).2.2.2 with
    | false => rfl
    | true =>
      exfalso
      have : (coreLook read 0 ⟨0, []⟩).1 = 0 := by
        unfold coreLook at h ⊢
        simp only at h ⊢
        split
        · rfl
        · rename_i hne; simp [hne] at h
      rw [this] at hbom
      revert hbom; decide
  unfold lexStream
  rw [start_eq]
  have sp := refill_spec read l00
  simp only at sp
  rw [f1, f4, f5] at sp
  have hz : length_zero.bytes = 0 := rfl
  rw [hz] at sp
  obtain ⟨s1, s2, s3, s4⟩ := sp
  have hfacts := coreLook_facts text read hch 0 ⟨0, []⟩ (Or.inl rfl) heof'
  simp only at hfacts
  obtain ⟨m1, m2, m3, m4, m5, m6⟩ := hfacts
  obtain ⟨t1, t2, t3, t4, t5⟩ := s4 heof' m1
  have hla : ((l00.refill read).lookahead == BYTE_ORDER_MARK) = true := by rw [t2, hbom]; rfl
  simp only [hla, if_true]
  have hp0 : (l00.refill read).pos.bytes = 0 := by rw [s1]; rfl
  have hinv : Inv (l00.refill read) :=
    { ranges := by rw [s2, f3]
      idx := by rw [t1, f2]
      size := by rw [t3]; exact m5
      lo := by rw [t4, hp0]; exact m3
      hi := by rw [t4, t5, hp0]; exact m4
      small := by rw [hp0, t3]; omega }
  have hok : CacheOK text ⟨(l00.refill read).chunkStart, (l00.refill read).chunk⟩ := by
    rw [t4, t5]; exact Or.inr m2
  obtain ⟨t, ht⟩ := advance_skip read (l00.refill read)
  rw [ht]
  have := lexChars_after_advance text read hch hsmall (l00.refill read) hinv hok
    { ({ (l00.refill read).advance read false with tokStart := t } : Lexer) with colValid := true, colValue := 0 }
    rfl rfl rfl rfl rfl rfl rfl fuel
  rw [this, coreChars_succ]
  simp only [heof', Bool.false_eq_true, if_false, List.tail_cons]
  rw [hp0, t3, t4, t5]

/-- Chunk independence of the full port for texts that begin with a byte-order mark. -/
theorem chars_chunk_indep_port_bom (text : List Nat) (r1 r2 : Read)
    (h1 : ChunkingOf text r1) (w1 : WholeChar text r1) (h2 : ChunkingOf text r2) (w2 : WholeChar text r2)
    (hsmall : text.length < UMAX)
    (b1 : (coreLook r1 0 ⟨0, []⟩).1 = BYTE_ORDER_MARK) (b2 : (coreLook r2 0 ⟨0, []⟩).1 = BYTE_ORDER_MARK)
    (fuel : Nat) : lexStream r1 fuel = lexStream r2 fuel := by
  rw [lexStream_bom text r1 h1 hsmall b1, lexStream_bom text r2 h2 hsmall b2,
    chars_chunk_indep_two text r1 r2 h1 w1 h2 w2 (fuel + 1)]

theorem coreLook_eof_zero (read : Read) (pos : Nat) (c : Cache) (h : (coreLook read pos c).2.2.2 = true) :
    (coreLook read pos c).1 = 0 := by
  unfold coreLook at h ⊢
  simp only at h ⊢
  split
  · rfl
  · rename_i hne; simp [hne] at h

/-- `chars_chunk_indep_port_any`: chunk independence of the FULL lexer port with NO assumption about a byte-order mark:
two chunkings of the same text (shorter than `UINT32_MAX`) that both satisfy `WholeChar` make `start`/`advance` produce
the same `(offset, look-ahead, size)` sequence, whether or not the text begins with a BOM. -/
theorem chars_chunk_indep_port_any (text : List Nat) (r1 r2 : Read)
    (h1 : ChunkingOf text r1) (w1 : WholeChar text r1) (h2 : ChunkingOf text r2) (w2 : WholeChar text r2)
    (hsmall : text.length < UMAX) (fuel : Nat) : lexStream r1 fuel = lexStream r2 fuel := by
  -- both chunkings see the same first look-ahead
  have hfirst : (coreLook r1 0 ⟨0, []⟩).1 = (coreLook r2 0 ⟨0, []⟩).1 := by
    have h := chars_chunk_indep_two text r1 r2 h1 w1 h2 w2 1
    rw [coreChars_succ, coreChars_succ] at h
    cases e1 : (coreLook r1 0 ⟨0, []⟩).2.2.2 <;> cases e2 : (coreLook r2 0 ⟨0, []⟩).2.2.2 <;>
      simp only [e1, e2, Bool.false_eq_true, if_false, if_true] at h
    · simp only [coreChars, List.cons.injEq, Prod.mk.injEq, and_true] at h
      exact h.2.1
    · cases h
    · cases h
    · rw [coreLook_eof_zero r1 0 _ e1, coreLook_eof_zero r2 0 _ e2]
  by_cases hb : (coreLook r1 0 ⟨0, []⟩).1 = BYTE_ORDER_MARK
  · exact chars_chunk_indep_port_bom text r1 r2 h1 w1 h2 w2 hsmall hb (by rw [← hfirst]; exact hb) fuel
  · exact chars_chunk_indep_port text r1 r2 h1 w1 h2 w2 hsmall hb (by rw [← hfirst]; exact hb) fuel

/-- Non-vacuity: a text beginning with a BOM (`EF BB BF a`), 3-byte chunks: the port skips the mark. -/
example : let text := [0xEF, 0xBB, 0xBF, 0x61]
    lexStream (fun i => (text.drop i).take 3) 5 = [(3, 0x61, 1)] ∧
    coreChars (fun i => (text.drop i).take 3) 6 0 ⟨0, []⟩ = [(0, 0xFEFF, 3), (3, 0x61, 1)] := by decide
end TsVerif.C09
