import TsVerif.C09.Props
import TsVerif.C09.Bom
import TsVerif.C01.Stream
/-!
# C09 — "offsets map one-to-one", and from "same characters" to "same tree" for deterministic parsing

* `starts_strict`, `offsets_one_to_one`: the byte offsets at which the characters of a scalar sequence start in
  its UTF-8 encoding and in its UTF-16 encoding are two strictly increasing lists of the same length — the map
  "k-th start ↦ k-th start" is a bijection between them (the `map` the judge uses to compare node positions of a
  UTF-16 drive with the canonical UTF-8 drive).  With `utf16_utf8_same_chars` (same code points, sizes = encoding
  lengths) this is the clause "UTF-8 versus UTF-16LE/BE delivery of the same characters (offsets map one-to-one)"
  at the level of the decoders.
* `driver_chunk_indep`: ANY deterministic lex/parse loop (C01's `runDriver`: lex mode from the parser state, one
  token from what is left of the lexer's observation sequence `(offset, look-ahead, size)*`) ends in the same
  parser state under two chunkings of the same text that both satisfy `WholeChar` — a corollary of
  `chars_chunk_indep_port_any` (no assumption about a BOM) by congruence.  As in C13/TreeLevel.lean the content is the modelling claim that a
  parse without external scanner reads the text only through the lexer's observations; it is not proved
  against the C code, and the tree-level claim for real parses is JUDGED per drive.
-/
namespace TsVerif.C09
open TsGen TsVerif.Lex TsVerif.Utf TsVerif.C01

/-- Offsets at which the characters start (and the end offset), for a per-character encoding length. -/
def starts (len : Nat → Nat) : List Nat → Nat → List Nat
  | [], o => [o]
  | c :: cs, o => o :: starts len cs (o + len c)

theorem starts_length (len : Nat → Nat) : ∀ (cs : List Nat) (o : Nat), (starts len cs o).length = cs.length + 1
  | [], _ => rfl
  | _ :: cs, o => by simp [starts, starts_length len cs]

theorem starts_ge (len : Nat → Nat) : ∀ (cs : List Nat) (o : Nat), ∀ x ∈ starts len cs o, o ≤ x
  | [], o, x, h => by simp [starts] at h; omega
  | c :: cs, o, x, h => by
    simp only [starts, List.mem_cons] at h
    rcases h with rfl | h
    · exact Nat.le_refl _
    · have := starts_ge len cs _ x h; omega

/-- Strictly increasing when every character has a positive length. -/
theorem starts_strict (len : Nat → Nat) : ∀ (cs : List Nat) (o : Nat), (∀ c ∈ cs, 0 < len c) →
    (starts len cs o).Pairwise (· < ·)
  | [], _, _ => by simp [starts]
  | c :: cs, o, h => by
    simp only [starts, List.pairwise_cons]
    refine ⟨fun x hx => ?_, starts_strict len cs _ (fun c' hc' => h c' (List.mem_cons_of_mem _ hc'))⟩
    have := starts_ge len cs _ x hx
    have := h c (by simp)
    omega

theorem encodeUtf8_pos (c : Nat) : 0 < (encodeUtf8 c).length := by
  unfold encodeUtf8; split <;> (try split) <;> (try split) <;> simp

theorem encodeUtf16_pos (be : Bool) (c : Nat) : 0 < (encodeUtf16 be c).length := by
  unfold encodeUtf16; cases be <;> simp <;> split <;> simp

/-- `offsets_one_to_one`: the character starts of the UTF-8 and of the UTF-16 encoding of the same characters
are strictly increasing lists of the same length: "k-th start ↦ k-th start" is one-to-one in both directions. -/
theorem offsets_one_to_one (be : Bool) (cs : List Nat) :
    (starts (fun c => (encodeUtf8 c).length) cs 0).length = (starts (fun c => (encodeUtf16 be c).length) cs 0).length ∧
    (starts (fun c => (encodeUtf8 c).length) cs 0).Pairwise (· < ·) ∧
    (starts (fun c => (encodeUtf16 be c).length) cs 0).Pairwise (· < ·) :=
  ⟨by rw [starts_length, starts_length],
   starts_strict _ cs 0 (fun c _ => encodeUtf8_pos c),
   starts_strict _ cs 0 (fun c _ => encodeUtf16_pos be c)⟩

/-- Non-vacuity: `a€𝒳b` — UTF-8 starts 0,1,4,8,9; UTF-16 starts 0,2,4,8,10. -/
example : starts (fun c => (encodeUtf8 c).length) [0x61, 0x20AC, 0x1D4B3, 0x62] 0 = [0, 1, 4, 8, 9] ∧
    starts (fun c => (encodeUtf16 true c).length) [0x61, 0x20AC, 0x1D4B3, 0x62] 0 = [0, 2, 4, 8, 10] := by decide

/-- `driver_chunk_indep`: a deterministic lex-then-parse loop that reads the text only through the lexer's
observation sequence ends in the same parser state under any two `WholeChar` chunkings of the same text. -/
theorem driver_chunk_indep {σ μ : Type} (step : σ → Tok → σ) (mode : σ → μ)
    (lexOne : μ → List (Nat × Int × Nat) → Tok)
    (text : List Nat) (r1 r2 : Read)
    (h1 : ChunkingOf text r1) (w1 : WholeChar text r1) (h2 : ChunkingOf text r2) (w2 : WholeChar text r2)
    (hsmall : text.length < UMAX) (fuel n : Nat) (s : σ) :
    runDriver step mode (fun m i => lexOne m ((lexStream r1 fuel).drop i)) n s 0 =
    runDriver step mode (fun m i => lexOne m ((lexStream r2 fuel).drop i)) n s 0 := by
  rw [chars_chunk_indep_port_any text r1 r2 h1 w1 h2 w2 hsmall fuel]

end TsVerif.C09
