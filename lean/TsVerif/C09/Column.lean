import TsVerif.C09.Tie
/-!
# C09 — the column cache of the lexer port (`column_data`) under `do_advance` and `get_column`
-/
namespace TsVerif.C09
open TsGen TsVerif.Lex TsVerif.Utf

/-- `n` times `ts_lexer__do_advance(self, false)`. -/
def adv (read : Read) : Nat → Lexer → Lexer
  | 0, l => l
  | n + 1, l => adv read n (l.doAdvance read false)

theorem getChunk_col (read : Read) (l : Lexer) :
    (l.getChunk read).colValid = l.colValid ∧ (l.getChunk read).colValue = l.colValue := by
  unfold Lexer.getChunk; simp only; split <;> simp

theorem getLookahead_col (read : Read) (l : Lexer) :
    (l.getLookahead read).colValid = l.colValid ∧ (l.getLookahead read).colValue = l.colValue := by
  unfold Lexer.getLookahead
  simp only
  split
  · simp
  · cases (decodeAt read (l.chunk.drop (l.pos.bytes - l.chunkStart)) l.pos.bytes).2.2 with
    | none => simp
    | some c => by_cases h : c.isEmpty <;> simp [h]

theorem refill_col (read : Read) (l : Lexer) :
    (l.refill read).colValid = l.colValid ∧ (l.refill read).colValue = l.colValue := by
  unfold Lexer.refill
  simp only
  split
  · have a := getChunk_col read l
    have b := getLookahead_col read (l.getChunk read)
    exact ⟨b.1.trans a.1, b.2.trans a.2⟩
  · exact getLookahead_col read l

/-- The column cache under one `do_advance` on the same line: a valid cache stays valid and counts one
more character (a byte-order mark at offset 0 is not counted); an invalid cache stays as it is. -/
theorem doAdvance_col (read : Read) (l : Lexer) (hs : l.laSize ≠ 0) (hn : l.lookahead ≠ 10) :
    (l.doAdvance read false).colValid = l.colValid ∧
    (l.doAdvance read false).colValue =
      (if (!(l.pos.bytes == 0 && l.lookahead == BYTE_ORDER_MARK) && l.colValid) = true then l.colValue + 1 else l.colValue) := by
  have hsz : (l.laSize != 0) = true := by simpa using hs
  have hn' : (l.lookahead == 10) = false := by simpa using hn
  unfold Lexer.doAdvance
  simp only [hsz, if_true, hn', Bool.false_eq_true, if_false]
  generalize hl2 : (if (!(l.pos.bytes == 0 && l.lookahead == BYTE_ORDER_MARK) && l.colValid) = true then
      { l with colValue := l.colValue + 1 } else l) = l2
  have e : l2.colValid = l.colValid ∧ l2.colValue =
      (if (!(l.pos.bytes == 0 && l.lookahead == BYTE_ORDER_MARK) && l.colValid) = true then l.colValue + 1 else l.colValue) := by
    rw [← hl2]; split <;> simp
  generalize (if l2.skipEmpty = true then skipLF (l2.ranges.toList.drop l2.idx) _ else skipL (l2.ranges.toList.drop l2.idx) _) = sk
  obtain ⟨k, p, inR⟩ := sk
  simp only
  cases inR
  · simp [Lexer.clearChunk, e]
  · simp only [if_true]
    exact ⟨(refill_col read _).1.trans e.1, (refill_col read _).2.trans e.2⟩
end TsVerif.C09

namespace TsVerif.C09
open TsGen TsVerif.Lex TsVerif.Utf

/-- A run of `n` characters on one line: before each of the `n` advances the lexer holds a decoded
look-ahead that is not a newline (nor a byte-order mark at offset 0), is not at the end, has a chunk,
and stands before the final offset. -/
def SameLineRun (read : Read) (s : Lexer) (n : Nat) : Prop :=
  ∀ k, k < n →
    (adv read k s).laSize ≠ 0 ∧ (adv read k s).lookahead ≠ 10 ∧
    ¬ ((adv read k s).pos.bytes = 0 ∧ (adv read k s).lookahead = BYTE_ORDER_MARK) ∧
    (adv read k s).eof = false ∧ (adv read k s).chunk ≠ [] ∧
    (adv read k s).pos.bytes < (adv read n s).pos.bytes

theorem adv_succ' (read : Read) (n : Nat) (s : Lexer) : adv read (n + 1) s = (adv read n s).doAdvance read false := by
  induction n generalizing s with
  | zero => rfl
  | succ n ih => show adv read (n + 1) (s.doAdvance read false) = _; rw [ih]; rfl

/-- The cached column after `k ≤ n` characters of a same-line run that started with a valid cache. -/
theorem adv_col (read : Read) (s : Lexer) (n : Nat) (hrun : SameLineRun read s n) (hv : s.colValid = true) :
    ∀ k, k ≤ n → (adv read k s).colValid = true ∧ (adv read k s).colValue = s.colValue + k := by
  intro k
  induction k with
  | zero => intro _; exact ⟨hv, rfl⟩
  | succ k ih =>
    intro hk
    obtain ⟨i1, i2⟩ := ih (by omega)
    obtain ⟨r1, r2, r3, _, _, _⟩ := hrun k (by omega)
    have := doAdvance_col read (adv read k s) r1 r2
    rw [adv_succ']
    have hb : (!((adv read k s).pos.bytes == 0 && (adv read k s).lookahead == BYTE_ORDER_MARK) && (adv read k s).colValid) = true := by
      rw [i1]
      simp only [Bool.and_true, Bool.not_eq_true', Bool.and_eq_false_iff, beq_eq_false_iff_ne, ne_eq]
      by_cases h0 : (adv read k s).pos.bytes = 0
      · exact Or.inr (fun h => r3 ⟨h0, h⟩)
      · exact Or.inl h0
    rw [this.1, this.2, hb, i1, i2]
    exact ⟨rfl, by simp; omega⟩

/-- The recomputation loop of `ts_lexer__get_column`, started where the run started, replays the run. -/
theorem getColumnLoop_replays (read : Read) (s : Lexer) (n : Nat) (hrun : SameLineRun read s n) :
    ∀ k, k ≤ n → getColumnLoop read (n - k + 1) (adv read k s) (adv read n s).pos.bytes = adv read n s := by
  intro k hk
  -- induction on the distance to the end
  generalize hd : n - k = d
  induction d generalizing k with
  | zero =>
    have : k = n := by omega
    subst this
    unfold getColumnLoop
    simp
  | succ d ih =>
    obtain ⟨r1, r2, r3, r4, r5, r6⟩ := hrun k (by omega)
    have hne : (adv read k s).chunk.isEmpty = false := by
      cases h : (adv read k s).chunk <;> simp_all
    unfold getColumnLoop
    simp only [r6, decide_true, r4, Bool.not_false, hne, Bool.and_self, if_true]
    rw [← adv_succ']
    by_cases he : (adv read (k + 1) s).eof = true
    · simp only [he, if_true]
      by_cases hkn : k + 1 = n
      · rw [hkn]
      · have := (hrun (k + 1) (by omega)).2.2.2.1
        rw [he] at this; cases this
    · have he' : (adv read (k + 1) s).eof = false := by simpa using he
      simp only [he', Bool.false_eq_true, if_false]
      exact ih (k + 1) (by omega) (by omega)

end TsVerif.C09
