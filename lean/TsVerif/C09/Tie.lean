import TsVerif.C09.Lemmas
/-!
# C09 — tying the full lexer port (`Lexer.start` / `Lexer.advance`) to the chunk logic `coreChars`
-/
namespace TsVerif.C09
open TsGen TsVerif.Lex TsVerif.Utf

/-- `coreChars` through `coreLook`. -/
theorem coreChars_succ (read : Read) (fuel pos : Nat) (c : Cache) :
    coreChars read (fuel + 1) pos c =
      (if (coreLook read pos c).2.2.2 then []
       else (pos, (coreLook read pos c).1, (coreLook read pos c).2.1) ::
         coreChars read fuel (pos + (coreLook read pos c).2.1) (coreLook read pos c).2.2.1) := by
  conv => lhs; unfold coreChars
  unfold coreLook
  simp only
  split <;> simp_all

/-- Projection of a lexer state onto what the character stream depends on. -/
def obs (l : Lexer) : Nat × Int × Nat × Nat × List Nat × Nat :=
  (l.pos.bytes, l.lookahead, l.laSize, l.chunkStart, l.chunk, l.idx)

theorem refill_spec (read : Read) (l : Lexer) :
    let r := coreLook read l.pos.bytes ⟨l.chunkStart, l.chunk⟩
    (l.refill read).pos = l.pos ∧ (l.refill read).ranges = l.ranges ∧
    (r.2.2.2 = true →
      (l.refill read).idx = l.count ∧ (l.refill read).lookahead = 0 ∧ (l.refill read).laSize = 1) ∧
    (r.2.2.2 = false → r.2.2.1.chunk ≠ [] →
      (l.refill read).idx = l.idx ∧ (l.refill read).lookahead = r.1 ∧ (l.refill read).laSize = r.2.1 ∧
      (l.refill read).chunkStart = r.2.2.1.cs ∧ (l.refill read).chunk = r.2.2.1.chunk) := by
  unfold Lexer.refill coreLook fetch
  simp only
  by_cases hc : l.pos.bytes < l.chunkStart ∨ l.pos.bytes ≥ l.chunkStart + l.chunk.length
  · have hc' : (decide (l.pos.bytes < l.chunkStart) || decide (l.pos.bytes ≥ l.chunkStart + l.chunk.length)) = true := by
      simpa using hc
    simp only [hc, hc', if_true]
    unfold Lexer.getChunk
    by_cases he : (read l.pos.bytes).isEmpty = true
    · simp only [he, if_true]
      unfold Lexer.getLookahead
      simp [Lexer.count]
    · have he' : (read l.pos.bytes).isEmpty = false := by simpa using he
      simp only [he', Bool.false_eq_true, if_false]
      unfold Lexer.getLookahead
      have hlen : (read l.pos.bytes).length ≠ 0 := by
        intro h0; have := List.eq_nil_of_length_eq_zero h0; simp [this] at he'
      simp only [Nat.sub_self, Nat.sub_zero, List.drop_zero, beq_iff_eq, hlen, if_false]
      cases hnc : (decodeAt read (read l.pos.bytes) l.pos.bytes).2.2 with
      | none => simp_all [Lexer.count]
      | some nc => cases nc <;> simp_all [Lexer.count]
  · have hc' : (decide (l.pos.bytes < l.chunkStart) || decide (l.pos.bytes ≥ l.chunkStart + l.chunk.length)) = false := by
      simpa using hc
    simp only [hc, hc', Bool.false_eq_true, if_false]
    have hne : l.chunk.isEmpty = false := by
      cases hq : l.chunk with
      | nil => simp [hq] at hc; omega
      | cons a b => rfl
    unfold Lexer.getLookahead
    have hsz : (l.chunk.length - (l.pos.bytes - l.chunkStart) == 0) = false := by
      simp; omega
    simp only [hne, hsz, Bool.false_eq_true, if_false]
    cases hnc : (decodeAt read (l.chunk.drop (l.pos.bytes - l.chunkStart)) l.pos.bytes).2.2 with
    | none => simp_all [Lexer.count]
    | some nc => cases nc <;> simp_all [Lexer.count]
end TsVerif.C09

namespace TsVerif.C09
open TsGen TsVerif.Lex TsVerif.Utf

/-- The lexer stands inside the default range with a decoded look-ahead inside its cached chunk. -/
structure Inv (l : Lexer) : Prop where
  ranges : l.ranges = #[DEFAULT_RANGE]
  idx : l.idx = 0
  size : 1 ≤ l.laSize
  lo : l.chunkStart ≤ l.pos.bytes
  hi : l.pos.bytes < l.chunkStart + l.chunk.length
  small : l.pos.bytes + l.laSize < UMAX

theorem doAdvance_refill (read : Read) (l : Lexer) (h : Inv l) :
    ∃ l1 : Lexer, l.doAdvance read false = l1.refill read ∧ l1.pos.bytes = l.pos.bytes + l.laSize ∧
      l1.ranges = l.ranges ∧ l1.idx = 0 ∧ l1.chunkStart = l.chunkStart ∧ l1.chunk = l.chunk := by
  have hsz : (l.laSize != 0) = true := by simp; have := h.size; omega
  unfold Lexer.doAdvance
  simp only [hsz, if_true]
  by_cases hn : l.lookahead = 10
  · simp only [hn, beq_self_eq_true, if_true, Bool.false_eq_true, if_false]
    have hsk : (if l.skipEmpty = true then skipLF (l.ranges.toList.drop l.idx) ⟨l.pos.bytes + l.laSize, ⟨l.pos.extent.row + 1, 0⟩⟩
        else skipL (l.ranges.toList.drop l.idx) ⟨l.pos.bytes + l.laSize, ⟨l.pos.extent.row + 1, 0⟩⟩) =
        (0, ⟨l.pos.bytes + l.laSize, ⟨l.pos.extent.row + 1, 0⟩⟩, true) := by
      rw [h.ranges, h.idx]
      have := h.small
      cases l.skipEmpty <;> simp [skipL, skipLF, DEFAULT_RANGE, UMAX] at this ⊢ <;> omega
    simp only [hsk]
    exact ⟨_, rfl, rfl, rfl, by simp [h.idx], rfl, rfl⟩
  · have hn' : (l.lookahead == 10) = false := by simpa using hn
    simp only [hn', Bool.false_eq_true, if_false]
    generalize hl2 : (if (!(l.pos.bytes == 0 && l.lookahead == BYTE_ORDER_MARK) && l.colValid) = true then
        { l with colValue := l.colValue + 1 } else l) = l2
    have e1 : l2.pos = l.pos ∧ l2.laSize = l.laSize ∧ l2.ranges = l.ranges ∧ l2.idx = l.idx ∧
        l2.chunkStart = l.chunkStart ∧ l2.chunk = l.chunk ∧ l2.skipEmpty = l.skipEmpty := by
      rw [← hl2]; split <;> simp
    obtain ⟨p1, p2, p3, p4, p5, p6, p7⟩ := e1
    simp only [p1, p2, p3, p4, p7]
    have hsk : (if l.skipEmpty = true then skipLF (l.ranges.toList.drop l.idx) ⟨l.pos.bytes + l.laSize, ⟨l.pos.extent.row, l.pos.extent.column + l.laSize⟩⟩
        else skipL (l.ranges.toList.drop l.idx) ⟨l.pos.bytes + l.laSize, ⟨l.pos.extent.row, l.pos.extent.column + l.laSize⟩⟩) =
        (0, ⟨l.pos.bytes + l.laSize, ⟨l.pos.extent.row, l.pos.extent.column + l.laSize⟩⟩, true) := by
      rw [h.ranges, h.idx]
      have := h.small
      cases l.skipEmpty <;> simp [skipL, skipLF, DEFAULT_RANGE, UMAX] at this ⊢ <;> omega
    simp only [hsk]
    exact ⟨_, rfl, rfl, by simp [p3], by simp [h.idx], by simp [p5], by simp [p6]⟩
end TsVerif.C09

namespace TsVerif.C09
open TsGen TsVerif.Lex TsVerif.Utf

theorem advance_spec (read : Read) (l : Lexer) (h : Inv l) :
    let r := coreLook read (l.pos.bytes + l.laSize) ⟨l.chunkStart, l.chunk⟩
    (l.advance read false).pos.bytes = l.pos.bytes + l.laSize ∧ (l.advance read false).ranges = l.ranges ∧
    (r.2.2.2 = true → (l.advance read false).idx = l.count) ∧
    (r.2.2.2 = false → r.2.2.1.chunk ≠ [] →
      (l.advance read false).idx = 0 ∧ (l.advance read false).lookahead = r.1 ∧ (l.advance read false).laSize = r.2.1 ∧
      (l.advance read false).chunkStart = r.2.2.1.cs ∧ (l.advance read false).chunk = r.2.2.1.chunk) := by
  have hne : l.chunk.isEmpty = false := by
    cases hq : l.chunk with
    | nil => have h1 := h.hi; have h2 := h.lo; rw [hq] at h1; simp at h1; omega
    | cons a b => rfl
  -- the general path
  have gen : ∀ l', l' = l.doAdvance read false →
      let r := coreLook read (l.pos.bytes + l.laSize) ⟨l.chunkStart, l.chunk⟩
      l'.pos.bytes = l.pos.bytes + l.laSize ∧ l'.ranges = l.ranges ∧
      (r.2.2.2 = true → l'.idx = l.count) ∧
      (r.2.2.2 = false → r.2.2.1.chunk ≠ [] →
        l'.idx = 0 ∧ l'.lookahead = r.1 ∧ l'.laSize = r.2.1 ∧ l'.chunkStart = r.2.2.1.cs ∧ l'.chunk = r.2.2.1.chunk) := by
    intro l' hl'
    obtain ⟨l1, e, q1, q2, q3, q4, q5⟩ := doAdvance_refill read l h
    have sp := refill_spec read l1
    simp only at sp
    rw [q1, q4, q5] at sp
    rw [hl', e]
    refine ⟨by rw [sp.1]; exact q1, by rw [sp.2.1]; exact q2, fun hb => ?_, fun hb hc => ?_⟩
    · rw [(sp.2.2.1 hb).1]; simp [Lexer.count, q2]
    · have := sp.2.2.2 hb hc
      exact ⟨by rw [this.1]; exact q3, this.2⟩
  have hneof : l.eof = false := by simp [Lexer.eof, Lexer.count, h.ranges, h.idx]
  unfold Lexer.advance
  simp only [hne, hneof, Bool.or_self, Bool.false_eq_true, if_false]
  split
  · rename_i hfast
    split
    · rename_i hnb
      -- ASCII fast path
      simp only [Bool.and_eq_true, beq_iff_eq, bne_iff_ne, ne_eq, decide_eq_true_eq] at hfast
      obtain ⟨⟨⟨h1, h2⟩, h3⟩, h4⟩ := hfast
      have hcore : coreLook read (l.pos.bytes + l.laSize) ⟨l.chunkStart, l.chunk⟩ =
          (((l.chunk.getD (l.pos.bytes + 1 - l.chunkStart) 0 : Nat) : Int), 1, (⟨l.chunkStart, l.chunk⟩ : Cache), false) := by
        have hlo := h.lo
        unfold coreLook fetch
        have hc : ¬ (l.pos.bytes + l.laSize < l.chunkStart ∨ l.pos.bytes + l.laSize ≥ l.chunkStart + l.chunk.length) := by
          rw [h1]; omega
        simp only [hc, if_false, hne, Bool.false_eq_true]
        unfold decodeAt
        have hh : (l.chunk.drop (l.pos.bytes + l.laSize - l.chunkStart)).headD 0 =
            l.chunk.getD (l.pos.bytes + 1 - l.chunkStart) 0 := by
          rw [h1]; simp [List.headD_eq_head?_getD, List.getD_eq_getElem?_getD]
        simp only [hh, hnb, if_true]
      simp only [hcore]
      split <;> simp [h1, h.idx]
    · exact gen _ rfl
  · exact gen _ rfl
end TsVerif.C09

namespace TsVerif.C09
open TsGen TsVerif.Lex TsVerif.Utf

theorem prefix_len {a b : List Nat} (h : a <+: b) : a.length ≤ b.length := by
  obtain ⟨t, rfl⟩ := h; simp

/-- Size and re-fetched chunk of `decodeAt` for a chunking of `text`. -/
theorem decodeAt_facts (text : List Nat) (read : Read) (hch : ChunkingOf text read) (pos : Nat) (bytes : List Nat)
    (hne : bytes ≠ []) (hpre : bytes <+: text.drop pos) :
    1 ≤ (decodeAt read bytes pos).2.1 ∧ pos + (decodeAt read bytes pos).2.1 ≤ text.length ∧
    (∀ nc, (decodeAt read bytes pos).2.2 = some nc → nc = read pos ∧ nc ≠ [] ∧ nc <+: text.drop pos) := by
  have hb : bytes.length ≤ text.length - pos := by have := prefix_len hpre; simpa using this
  have hbl : 0 < bytes.length := List.length_pos_iff.2 hne
  have hpos : pos < text.length := by omega
  obtain ⟨hr1, hr2⟩ := hch.1 pos hpos
  have hrl : (read pos).length ≤ text.length - pos := by have := prefix_len hr2; simpa using this
  have hrp : 0 < (read pos).length := List.length_pos_iff.2 hr1
  unfold decodeAt
  simp only
  split
  · exact ⟨by simp, by simp; omega, by intro nc h; cases h⟩
  · split
    · split
      · exact ⟨by simp, by simp; omega, by intro nc h; cases h; exact ⟨rfl, hr1, hr2⟩⟩
      · rename_i hok
        have hok' : (decodeUtf8 (read pos)).1 ≠ DECODE_ERROR := by simpa using hok
        have := decode_ok_size (read pos) (decodeUtf8 (read pos)).1 (decodeUtf8 (read pos)).2 rfl hok'
        exact ⟨this.1, by have := this.2; show pos + (decodeUtf8 (read pos)).2 ≤ text.length; omega, by intro nc h; cases h; exact ⟨rfl, hr1, hr2⟩⟩
    · split
      · exact ⟨by simp, by simp; omega, by intro nc h; cases h⟩
      · rename_i hok
        have hok' : (decodeUtf8 bytes).1 ≠ DECODE_ERROR := by simpa using hok
        have := decode_ok_size bytes (decodeUtf8 bytes).1 (decodeUtf8 bytes).2 rfl hok'
        exact ⟨this.1, by have := this.2; show pos + (decodeUtf8 bytes).2 ≤ text.length; omega, by intro nc h; cases h⟩
end TsVerif.C09

namespace TsVerif.C09
open TsGen TsVerif.Lex TsVerif.Utf

theorem coreLook_facts (text : List Nat) (read : Read) (hch : ChunkingOf text read) (pos : Nat) (c : Cache)
    (hc : CacheOK text c) (hne : (coreLook read pos c).2.2.2 = false) :
    let r := coreLook read pos c
    r.2.2.1.chunk ≠ [] ∧ r.2.2.1.chunk <+: text.drop r.2.2.1.cs ∧ r.2.2.1.cs ≤ pos ∧
    pos < r.2.2.1.cs + r.2.2.1.chunk.length ∧ 1 ≤ r.2.1 ∧ pos + r.2.1 ≤ text.length := by
  -- the cache after `fetch`
  have hf : ((fetch read pos c).chunk ≠ [] → (fetch read pos c).chunk <+: text.drop (fetch read pos c).cs ∧
      (fetch read pos c).cs ≤ pos ∧ pos < (fetch read pos c).cs + (fetch read pos c).chunk.length) := by
    unfold fetch
    split
    · intro hne'
      by_cases hp : pos < text.length
      · have := hch.1 pos hp
        have hl : 0 < (read pos).length := List.length_pos_iff.2 this.1
        exact ⟨this.2, Nat.le_refl _, by simp; omega⟩
      · exact absurd (hch.2 pos (by omega)) hne'
    · rename_i hin
      intro hne'
      rcases hc with h0 | hpre
      · exact absurd h0 hne'
      · exact ⟨hpre, by omega, by omega⟩
  unfold coreLook at hne ⊢
  simp only at hne ⊢
  generalize fetch read pos c = c1 at hf hne ⊢
  by_cases he : c1.chunk.isEmpty = true
  · simp [he] at hne
  · have he' : c1.chunk.isEmpty = false := by simpa using he
    have hne1 : c1.chunk ≠ [] := by intro h; simp [h] at he'
    obtain ⟨hpre, h1, h2⟩ := hf hne1
    simp only [he', Bool.false_eq_true, if_false]
    obtain ⟨hb1, hb2⟩ := drop_prefix c1.chunk text c1.cs pos hpre h1 h2
    obtain ⟨f1, f2, f3⟩ := decodeAt_facts text read hch pos _ hb2 hb1
    cases hnc : (decodeAt read (c1.chunk.drop (pos - c1.cs)) pos).2.2 with
    | none => exact ⟨hne1, hpre, h1, h2, f1, f2⟩
    | some nc =>
      obtain ⟨g1, g2, g3⟩ := f3 nc hnc
      have hl : 0 < nc.length := List.length_pos_iff.2 g2
      exact ⟨g2, g3, Nat.le_refl _, by simp; omega, f1, f2⟩

theorem lexChars_core (text : List Nat) (read : Read) (hch : ChunkingOf text read) (hsmall : text.length < UMAX) :
    ∀ (fuel : Nat) (l : Lexer) (cprev : Cache), Inv l → CacheOK text cprev →
      coreLook read l.pos.bytes cprev = (l.lookahead, l.laSize, ⟨l.chunkStart, l.chunk⟩, false) →
      lexChars read fuel l = coreChars read fuel l.pos.bytes cprev := by
  intro fuel
  induction fuel with
  | zero => intro l c _ _ _; simp [lexChars, coreChars]
  | succ fuel ih =>
    intro l cprev hinv hok hlook
    have hneof : l.eof = false := by simp [Lexer.eof, Lexer.count, hinv.ranges, hinv.idx]
    rw [coreChars_succ, hlook]
    unfold lexChars
    simp only [hneof, Bool.false_eq_true, if_false]
    congr 1
    -- the lexer's own cache is a good cache
    have hfacts := coreLook_facts text read hch l.pos.bytes cprev hok (by rw [hlook])
    simp only [hlook] at hfacts
    obtain ⟨k1, k2, k3, k4, k5, k6⟩ := hfacts
    have hok' : CacheOK text ⟨l.chunkStart, l.chunk⟩ := Or.inr k2
    have sp := advance_spec read l hinv
    simp only at sp
    obtain ⟨s1, s2, s3, s4⟩ := sp
    by_cases heof : (coreLook read (l.pos.bytes + l.laSize) ⟨l.chunkStart, l.chunk⟩).2.2.2 = true
    · have hidx := s3 heof
      have : (l.advance read false).eof = true := by
        simp [Lexer.eof, Lexer.count, s2, hidx]
      cases fuel with
      | zero => simp [lexChars, coreChars]
      | succ f =>
        rw [coreChars_succ]
        unfold lexChars
        simp [this, heof]
    · have heof' : (coreLook read (l.pos.bytes + l.laSize) ⟨l.chunkStart, l.chunk⟩).2.2.2 = false := by
        simpa using heof
      have hf2 := coreLook_facts text read hch (l.pos.bytes + l.laSize) ⟨l.chunkStart, l.chunk⟩ hok' heof'
      simp only at hf2
      obtain ⟨m1, m2, m3, m4, m5, m6⟩ := hf2
      obtain ⟨t1, t2, t3, t4, t5⟩ := s4 heof' m1
      have hinv' : Inv (l.advance read false) :=
        { ranges := by rw [s2]; exact hinv.ranges
          idx := t1
          size := by rw [t3]; exact m5
          lo := by rw [t4, s1]; exact m3
          hi := by rw [t4, t5, s1]; exact m4
          small := by rw [s1, t3]; omega }
      have := ih (l.advance read false) ⟨l.chunkStart, l.chunk⟩ hinv' hok'
        (by rw [s1, t2, t3, t4, t5]; rw [← heof'])
      rw [this, s1]
end TsVerif.C09

namespace TsVerif.C09
open TsGen TsVerif.Lex TsVerif.Utf

/-- The state in which `ts_lexer_start` decodes its first look-ahead. -/
def l00 : Lexer := { (({} : Lexer).setInput) with tokStart := (({} : Lexer).setInput).pos, tokEnd := LENGTH_UNDEFINED }

theorem l00_fields : l00.pos = length_zero ∧ l00.idx = 0 ∧ l00.ranges = #[DEFAULT_RANGE] ∧ l00.chunk = [] ∧
    l00.chunkStart = 0 ∧ l00.laSize = 0 := by
  decide

theorem start_body (read : Read) (m : Lexer) (he : m.eof = false) (h4 : m.chunk = []) (h6 : m.laSize = 0)
    (h1 : m.pos.bytes = 0) (h5 : m.chunkStart = 0) :
    (if !m.eof then
      let l := if m.chunk.isEmpty then m.getChunk read else m
      let l := if l.laSize == 0 then l.getLookahead read else l
      if l.pos.bytes == 0 then
        let l := if l.lookahead == BYTE_ORDER_MARK then l.advance read true else l
        { l with colValid := true, colValue := 0 }
      else l
    else m) =
      { (if (m.refill read).lookahead == BYTE_ORDER_MARK then (m.refill read).advance read true else m.refill read)
        with colValid := true, colValue := 0 } := by
  have hp : (m.refill read).pos = m.pos := (refill_spec read m).1
  have hr : (if m.chunk.isEmpty = true then m.getChunk read else m) = m.getChunk read := by simp [h4]
  have hl : (m.getChunk read).laSize = 0 := by unfold Lexer.getChunk; simp only; split <;> simp [h6]
  have hrefill : m.refill read = (m.getChunk read).getLookahead read := by
    unfold Lexer.refill; simp [h1, h4, h5]
  have hz : ((m.refill read).pos.bytes == 0) = true := by rw [hp, h1]; rfl
  simp only [he, Bool.not_false, if_true, hr, hl, beq_self_eq_true]
  rw [← hrefill]
  simp only [hz, if_true]

theorem start_eq (read : Read) :
    ({} : Lexer).setInput.start read =
      { (if (l00.refill read).lookahead == BYTE_ORDER_MARK then (l00.refill read).advance read true else l00.refill read)
        with colValid := true, colValue := 0 } := by
  obtain ⟨f1, f2, f3, f4, f5, f6⟩ := l00_fields
  have he : l00.eof = false := by simp [Lexer.eof, Lexer.count, f2, f3]
  exact start_body read l00 he f4 f6 (by rw [f1]; rfl) f5
end TsVerif.C09

namespace TsVerif.C09
open TsGen TsVerif.Lex TsVerif.Utf

end TsVerif.C09
