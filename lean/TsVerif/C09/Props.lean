import TsVerif.C09.Lemmas
/-!
# C09 — The tree is a pure function of language, text and included ranges

Property text: "The tree returned for a document does not depend on how the parse was driven: the
chunk boundaries of the read callback, UTF-8 versus UTF-16LE/BE delivery of the same characters
(offsets map one-to-one), whether the parser object is new or was used before (other documents,
other languages, ranges set and cleared, reset), whether logging is on, or whether the parse was
cancelled by the progress callback at any point and then resumed. After a cancelled parse, reset
makes the parser behave like a new one."

Clause map (theorems are about the ports `Utf8.lean` (= `ts_decode_utf8`/`U8_NEXT`) and
`C13/Lexer.lean` (= `lexer.c`), tied to the C code by scripted runs of the real lexer under chunkers):

* chunk boundaries do not matter for the characters the lexer sees → `lookahead_chunk_indep`
  (what `ts_lexer__get_lookahead` computes — ASCII shortcut, decode, retry with a fresh chunk —
  equals the decoding of the rest of the text, for EVERY chunking and EVERY cached chunk, PROVIDED
  the chunk returned at that offset holds the whole character: `wholeCharAt`), built on
  `decode_prefix_stable`, `decode_local` (the decoder port is local: ≤ 4 bytes, prefix-stable).
  `chars_chunk_dep_witness`: without the proviso it is false (`€` in 1-byte chunks is three errors)
  — genuine finding C09-short-chunk-at-char-start.
  `chars_chunk_indep`, `chars_chunk_indep_two`: the same for the WHOLE sequence `(offset, code point,
  size)`, by induction over repeated advance with the invariant "cached chunk is a prefix of the text
  at `chunk_start`", for the chunk logic `coreChars` (fetch / decode with retry / advance by size).
  OPEN `lexStream_eq_coreChars`: that the full port (`start`/`advance` with ranges, columns, BOM skip
  and the ASCII fast path) produces that same sequence — checked by the driver on every chunk drive.
  OPEN `fastpath_eq`, `utf16_utf8_same_chars`, `column_cache_eq` (DESIGN §7).
* UTF-16 delivery, parser history, logger, cancellation + resume/reset → no model of `TSParser`;
  decided per real case by the Lean judge on full dumps (implementation vs implementation).
-/
namespace TsVerif.C09
open TsGen TsVerif.Lex TsVerif.Utf

/-- `decode_local`: the decoder port looks at no more than four bytes, and a successful decode of a
prefix is the decode of the whole. -/
theorem decode_local (p s : List Nat) (hp : p <+: s) :
    (4 ≤ p.length → decodeUtf8 s = decodeUtf8 p) ∧
    ((decodeUtf8 p).1 ≠ DECODE_ERROR → decodeUtf8 s = decodeUtf8 p) :=
  ⟨decode_ge4 p s hp, fun hc => decode_prefix_stable p s hp (decodeUtf8 p).1 (decodeUtf8 p).2 rfl hc⟩

/-- `lookahead_chunk_indep`: let `bytes` be what is left of the cached chunk at offset `pos`
(any non-empty prefix of the rest of the text — whatever chunk happens to be cached) and `read` any
chunking of the text whose chunk at `pos` holds the whole character.  Then the look-ahead and its
size computed by `ts_lexer__get_lookahead` are those obtained from the rest of the text in one
piece: they do not depend on the chunk boundaries. -/
theorem lookahead_chunk_indep (text : List Nat) (read : Read) (pos : Nat) (bytes : List Nat)
    (hch : ChunkingOf text read) (hw : wholeCharAt text read pos)
    (hne : bytes ≠ []) (hpre : bytes <+: text.drop pos) :
    ((decodeAt read bytes pos).1, (decodeAt read bytes pos).2.1) = norm (decodeUtf8 (text.drop pos)) := by
  have hpos : pos < text.length := by
    by_cases h : pos < text.length
    · exact h
    · have : text.drop pos = [] := List.drop_eq_nil_of_le (by omega)
      rw [this] at hpre
      exact absurd (List.prefix_nil.1 hpre) hne
  obtain ⟨hc1, hc2⟩ := hch.1 pos hpos
  cases bytes with
  | nil => exact absurd rfl hne
  | cons b0 bt =>
    obtain ⟨t, ht⟩ := hpre
    unfold decodeAt
    simp only [List.headD_cons]
    have hlen : (b0 :: bt).length = bt.length + 1 := rfl
    by_cases hb : b0 < 0x80
    · -- ASCII shortcut
      simp only [hb, if_true]
      rw [← ht]
      have : decodeUtf8 (b0 :: bt ++ t) = ((b0 : Int), 1) := by
        show decodeUtf8 (b0 :: (bt ++ t)) = _
        unfold decodeUtf8; simp [hb]
      rw [this]
      have hne1 : ((b0 : Int) == DECODE_ERROR) = false := by simp [DECODE_ERROR] <;> omega
      simp [norm, hne1]
    · simp only [hb, if_false]
      by_cases herr : (decodeUtf8 (b0 :: bt)).1 = DECODE_ERROR
      · by_cases hlt : bt.length + 1 < 4
        · -- retry with a fresh chunk
          have hcond : ((decodeUtf8 (b0 :: bt)).1 == DECODE_ERROR && decide ((b0 :: bt).length < 4)) = true := by
            simp [herr, hlen, hlt]
          simp only [hcond, if_true]
          have hsame : norm (decodeUtf8 (read pos)) = norm (decodeUtf8 (text.drop pos)) := by
            rcases hw with h1 | h2 | h3
            · have := decode_err_prefix (read pos) _ hc2 h1
              simp [norm, h1, this]
            · have e := (decode_local (read pos) _ hc2).2 h2
              rw [e]
            · rw [h3]
          rw [← hsame]
          by_cases he : (decodeUtf8 (read pos)).1 = DECODE_ERROR <;> simp [norm, he]
        · have hcond : ((decodeUtf8 (b0 :: bt)).1 == DECODE_ERROR && decide ((b0 :: bt).length < 4)) = false := by
            simp [hlen, hlt]
          simp only [hcond, Bool.false_eq_true, if_false]
          have := decode_ge4 (b0 :: bt) (text.drop pos) ⟨t, ht⟩ (by rw [hlen]; omega)
          rw [this]
          simp [norm, herr]
      · have hcond : ((decodeUtf8 (b0 :: bt)).1 == DECODE_ERROR && decide ((b0 :: bt).length < 4)) = false := by
          simp [herr]
        simp only [hcond, Bool.false_eq_true, if_false]
        have e := (decode_local (b0 :: bt) (text.drop pos) ⟨t, ht⟩).2 herr
        rw [e]
        simp [norm, herr]

/-- `chars_chunk_indep` (whole sequence, for the chunk logic of the lexer port): for every text
and every chunking of it that satisfies `WholeChar`, from any offset and any cache state that is
empty or a prefix of the text at `chunk_start`, the sequence of `(offset, code point or error,
size)` produced by fetch / decode-with-retry / advance-by-size equals the reference sequence of
the text decoded in one piece — hence it is the same for any two such chunkings
(`chars_chunk_indep_two`).  `coreChars` is the chunk logic of `Lexer.doAdvance`/`getLookahead`
without ranges, columns and the ASCII fast path; that `coreChars` and the full port `lexStream`
produce the same sequence is checked by the driver on every chunk drive (`core=ok`), it is not a
theorem (OPEN: `lexStream_eq_coreChars`, i.e. `fastpath_eq` + the default-range case of `skipL`). -/
theorem chars_chunk_indep (text : List Nat) (read : Read)
    (hch : ChunkingOf text read) (hw : WholeChar text read) :
    ∀ (fuel pos : Nat) (c : Cache), CacheOK text c →
      coreChars read fuel pos c = refChars text fuel pos := by
  intro fuel
  induction fuel with
  | zero => intro pos c _; simp [coreChars, refChars]
  | succ fuel ih =>
    intro pos c hc
    unfold coreChars refChars
    simp only
    -- the cache after `fetch`
    have hf : CacheOK text (fetch read pos c) ∧
        ((fetch read pos c).chunk = [] → text.length ≤ pos) ∧
        ((fetch read pos c).chunk ≠ [] → pos < text.length ∧ (fetch read pos c).cs ≤ pos ∧
          pos < (fetch read pos c).cs + (fetch read pos c).chunk.length) := by
      unfold fetch
      split
      · by_cases hp : pos < text.length
        · have := hch.1 pos hp
          exact ⟨Or.inr this.2, fun h => absurd h this.1, fun _ => ⟨hp, Nat.le_refl _, by
            have : (read pos).length ≠ 0 := by simpa using this.1
            simp; omega⟩⟩
        · have := hch.2 pos (by omega)
          exact ⟨Or.inl this, fun _ => by omega, fun h => absurd this h⟩
      · rename_i hin
        refine ⟨hc, fun h => ?_, fun h => ?_⟩
        · simp [h] at hin; omega
        · rcases hc with h0 | hpre
          · exact absurd h0 h
          · have hlen : c.cs + c.chunk.length ≤ text.length := by
              obtain ⟨t, ht⟩ := hpre
              have := congrArg List.length ht
              simp at this; omega
            exact ⟨by omega, by omega, by omega⟩
    generalize fetch read pos c = c1 at hf ⊢
    obtain ⟨hok, hemp, hne⟩ := hf
    by_cases he : c1.chunk = []
    · have := hemp he
      simp [he, this]
    · obtain ⟨hp, h1, h2⟩ := hne he
      have hnp : ¬ pos ≥ text.length := by omega
      have hise : c1.chunk.isEmpty = false := by cases hcc : c1.chunk <;> simp_all
      simp only [hise, hnp, Bool.false_eq_true, if_false]
      rcases hok with h0 | hpre
      · exact absurd h0 he
      · obtain ⟨hb1, hb2⟩ := drop_prefix c1.chunk text c1.cs pos hpre h1 h2
        have key := lookahead_chunk_indep text read pos _ hch (hw pos hp) hb2 hb1
        have k1 := (Prod.mk.inj key).1
        have k2 := (Prod.mk.inj key).2
        rw [k1, k2]
        congr 1
        apply ih
        rcases decodeAt_chunk read (c1.chunk.drop (pos - c1.cs)) pos with hn | hs
        · rw [hn]; exact Or.inr hpre
        · rw [hs]; exact Or.inr (hch.1 pos hp).2


/-- Any two chunkings of the same text that satisfy `WholeChar` give the same character sequence. -/
theorem chars_chunk_indep_two (text : List Nat) (r1 r2 : Read)
    (h1 : ChunkingOf text r1) (w1 : WholeChar text r1) (h2 : ChunkingOf text r2) (w2 : WholeChar text r2)
    (fuel : Nat) : coreChars r1 fuel 0 ⟨0, []⟩ = coreChars r2 fuel 0 ⟨0, []⟩ := by
  rw [chars_chunk_indep text r1 h1 w1 fuel 0 _ (Or.inl rfl), chars_chunk_indep text r2 h2 w2 fuel 0 _ (Or.inl rfl)]

example : let text := [0x61, 0xe2, 0x82, 0xac, 0x62]
    coreChars (fun i => (text.drop i).take 3) 9 0 ⟨0, []⟩ = [(0, 0x61, 1), (1, 0x20ac, 3), (4, 0x62, 1)] := by decide

/-- Non-vacuity: `a€b`, chunks of three bytes, at the start of `€`. -/
example : let text := [0x61, 0xe2, 0x82, 0xac, 0x62]
    let read : Read := fun i => (text.drop i).take 3
    wholeCharAt text read 1 ∧ [0xe2, 0x82, 0xac] <+: text.drop 1 := by
  refine ⟨Or.inr (Or.inl (by decide)), ⟨[0x62], rfl⟩⟩

/-- `chars_chunk_dep_witness`: the proviso is necessary.  `€` (E2 82 AC) delivered in one-byte
chunks — a chunking of the text — is seen by the lexer port as three decoding errors (the retry
re-fetches the same short chunk), in one chunk as the single character U+20AC. -/
theorem chars_chunk_dep_witness :
    let text := [0xe2, 0x82, 0xac]
    let one : Read := fun i => (text.drop i).take 1
    let whole : Read := fun i => text.drop i
    lexStream one 5 = [(0, -1, 1), (1, -1, 1), (2, -1, 1)] ∧
    lexStream whole 5 = [(0, 0x20ac, 3)] ∧
    ¬ wholeCharAt text one 0 := by
  refine ⟨by decide, by decide, ?_⟩
  intro h
  rcases h with h | h | h
  · revert h; decide
  · revert h; decide
  · revert h; decide

end TsVerif.C09
