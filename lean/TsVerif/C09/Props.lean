import TsVerif.C09.Lemmas
import TsVerif.C09.Tie
import TsVerif.C09.Column
/-!
# C09 — The tree is a pure function of language, text and included ranges

Property text: "The tree returned for a document does not depend on how the parse was driven: the
chunk boundaries of the read callback, UTF-8 versus UTF-16LE/BE delivery of the same characters
(offsets map one-to-one), whether the parser object is new or was used before (other documents,
other languages, ranges set and cleared, reset), whether logging is on, or whether the parse was
cancelled by the progress callback at any point and then resumed. After a cancelled parse, reset
makes the parser behave like a new one."

Clause-by-clause map (phrase of the property text → theorem; PROVED = kernel-checked ∀-theorem about the ports
`Utf8.lean` (= `ts_decode_utf8`/`U8_NEXT`, `ts_decode_utf16_le/_be`) and `C13/Lexer.lean` (= `lexer.c`), tied to the C
code by scripted runs of the real lexer under chunkers; JUDGED = the Lean judge compares the full dump of the tree of
every drive with the dump of the canonical drive (fresh parser, one chunk, UTF-8, nothing switched on) — implementation
against implementation, there is no model of `TSParser`):

A. "The tree returned for a document does not depend on how the parse was driven" — the quantifier over drives; see
   the table of sources below.  Tree level: JUDGED for every drive; PROVED only for deterministic parsing as a
   function of the lexer's observations (`TreeLevel.lean`: `driver_chunk_indep`; modelling claim not proved).
B. "the chunk boundaries of the read callback"
   * PROVED, lexer level: `decode_local` (decoder looks at ≤ 4 bytes, prefix-stable) → `lookahead_chunk_indep` (what
     `ts_lexer__get_lookahead` computes — ASCII shortcut, decode, retry with a fresh chunk — is the decoding of the
     rest of the text for EVERY chunking and EVERY cached chunk, provided the chunk returned at that offset holds the
     whole character, `wholeCharAt`) → `chars_chunk_indep`, `chars_chunk_indep_two` (whole sequence `(offset, code
     point, size)` for the chunk logic `coreChars`) → `lexStream_eq_coreChars`, `chars_chunk_indep_port` (the FULL
     port: `set_input`, `start`, `advance` with the ASCII fast path, row/column/column-cache updates, range loop over
     the default range).  Hypotheses: `WholeChar` (NEEDED: `chars_chunk_dep_witness`, finding
     C09-short-chunk-at-char-start), text < 2^32 bytes.  Texts that BEGIN with a BOM: `Bom.lean` — `advance_skip`
     (`skip = true` only moves `token_start_position`), `lexStream_bom` (the port's sequence is the chunk logic's
     without its first element), `chars_chunk_indep_port_any` (chunk independence of the full port with NO assumption
     about a BOM).
   * columns under chunking: `column_cache_eq` (+ `doAdvance_col`) — a valid column cache equals what the
     recomputation loop of `get_column` returns.
   * JUDGED: fixed 1/2/3/4/7-byte chunks, every split of documents ≤ 9 bytes, random splits (also inside
     characters), byte- and point-addressed callbacks.
C. "UTF-8 versus UTF-16LE/BE delivery of the same characters (offsets map one-to-one)"
   * PROVED, decoder level: `utf8_decode_encode`, `utf16_decode_encode` (each decoder port reads back every scalar
     value from its encoding), `utf16_utf8_same_chars` (same code points from both encodings of any scalar sequence,
     sizes = encoding lengths), `offsets_one_to_one` (TreeLevel.lean: the character starts in the two encodings are
     strictly increasing lists of equal length).  `utf16be_trail_witness`: unicode.h before /repo 6297e1d did NOT read
     UTF-16BE surrogate pairs (finding C09-utf16be-surrogate-pair, fixed; both decoder variants are carried and the
     check picks the one /repo behaves like).  Round11.lean: `utf8_decode_sound` / `utf8_decode_exact` /
     `utf8_decode_injective` — the converse of `utf8_decode_encode`: the `U8_NEXT` port returns a code point ONLY for
     the shortest-form encoding of a scalar value (no overlong forms, no surrogates, nothing above U+10FFFF), so the
     UTF-8 side of the character correspondence is a bijection between scalars and accepted byte sequences.
   * NOT proved: the lexer port run over a UTF-16 input (the port is instantiated with the UTF-8 decoder; the chunk
     theorems B are stated for UTF-8 only).
   * JUDGED: UTF-16LE/BE whole, chunked, point-addressed; positions compared through the offset map; for erroneous
     texts the trees can differ genuinely (finding C09-utf16-error-recovery: costs count BYTES).
D. "whether the parser object is new or was used before (other documents, other languages, ranges set and cleared,
   reset)" — JUDGED only (histories of 1–5 operations, see table).
E. "whether logging is on" — JUDGED only (logger on; dot graphs on; both; switched on and off again before).
F. "whether the parse was cancelled by the progress callback at any point and then resumed" — JUDGED only: every
   callback index when ≤ 12 (else sampled), resumed with the same input (whole or in 4-byte chunks).  Genuinely false
   in two ways, both from the round restarting at stack version 0: findings C09-resume-error-recovery (erroneous
   texts) and C09-resume-token-parse-state (error-free: only recorded parse states / fragile marks differ); hidden
   repeat-node rotation is accepted when the visible trees are identical (counted, `internal`).
G. "After a cancelled parse, reset makes the parser behave like a new one." — JUDGED only: cancel at index k, reset,
   parse afresh (never failed); inside histories: cancelled parses of this and of another document, in this and in
   another language, cleared by `reset` or by `set_language`.

Sources of variation the property quantifies over — theorem (lexer level) / judged on real runs / known finding:

| source | theorem | judged drives (`drives_by_source` in the evidence) | findings |
|---|---|---|---|
| chunk boundaries, byte-addressed | B | `c<k>`, `s<splits>` | short-chunk-at-char-start |
| chunk boundaries, point-addressed callback | – (the port ignores the point; the tie checks the points handed out) | `pt:c<k>` | – |
| encoding UTF-16LE / BE | C (decoder level) | `u16le`, `u16be`, `:c<k>`, `:pt:c<k>` | utf16be-surrogate-pair (fixed), utf16-error-recovery |
| encoding: custom decode function | – | `custom:c<k>` (a UTF-8 decoder passed as `TSInputEncodingCustom`) | – |
| callback style: whole slice vs callback | – | canonical = `Parser::parse(slice)`; every other drive is a callback | – |
| parser reuse ACROSS ENCODINGS (UTF-8 ↔ UTF-16LE ↔ UTF-16BE ↔ custom decoder, non-ASCII text; every final encoding) | – | `hist:enc8|enc16le|enc16be|enccustom`, `<u16le|u16be|custom>:after:<ops>` | – (seeded C09-r6) |
| parser reuse: other / same / half document | – | `hist:other|same|half` | – |
| old-tree-less re-parse after an incremental parse | – | `hist:incr`, `hist:same` | – |
| other language, switched back (with parse / without / with a pending cancelled parse) | – | `hist:lang|flip|langcancel` | – |
| ranges set and cleared (with / without a parse) | – | `hist:ranges|rset` | – |
| `ts_parser_reset` (idle / after cancel at first or later callback / after cancel of another document) | – | `hist:reset|cancel|cancelk|cancelo`, `cancel:<k>:reset` | – |
| cancelled parse cleared by `set_language` instead of `reset` | – | `hist:cancelsl` | – |
| first parse of the object FAILED (no language assigned) | – | `failed` | – |
| logger on / dot graphs on / both / switched off again | – | `log`, `dot`, `dotlog`, `hist:logoff|dotoff` | – |
| resume after cancellation | – | `cancel:<k>:resume`, `:resume4` | resume-error-recovery, resume-token-parse-state |
| timeout / cancellation flag | n/a: removed from the API at this HEAD (`api.h` has neither; the progress callback is the only way to stop a parse) | – | – |
| wasm store, `set_language` with an incompatible ABI | out of scope (no parse happens) | – | – |
-/
namespace TsVerif.C09
open TsGen TsVerif.Lex TsVerif.Utf

/-- `decode_local`: the decoder port looks at no more than four bytes, and a successful decode of a
prefix is the decode of the whole. -/
theorem decode_local (p s : List Nat) (hp : p <+: s) :
    (4 ≤ p.length → decodeUtf8 s = decodeUtf8 p) ∧
    ((decodeUtf8 p).1 ≠ DECODE_ERROR → decodeUtf8 s = decodeUtf8 p) :=
  ⟨decode_ge4 p s hp, fun hc => decode_prefix_stable p s hp (decodeUtf8 p).1 (decodeUtf8 p).2 rfl hc⟩

/-- `lookahead_chunk_indep`: let `bytes` be what is left of the cached chunk at offset `pos`
(any non-empty prefix of the rest of the text — whatever chunk happens to be cached) and `read` any
chunking of the text whose chunk at `pos` holds the whole character.  Then the look-ahead and its
size computed by `ts_lexer__get_lookahead` are those obtained from the rest of the text in one
piece: they do not depend on the chunk boundaries. -/
theorem lookahead_chunk_indep (text : List Nat) (read : Read) (pos : Nat) (bytes : List Nat)
    (hch : ChunkingOf text read) (hw : wholeCharAt text read pos)
    (hne : bytes ≠ []) (hpre : bytes <+: text.drop pos) :
    ((decodeAt read bytes pos).1, (decodeAt read bytes pos).2.1) = norm (decodeUtf8 (text.drop pos)) := by
  have hpos : pos < text.length := by
    by_cases h : pos < text.length
    · exact h
    · have : text.drop pos = [] := List.drop_eq_nil_of_le (by omega)
      rw [this] at hpre
      exact absurd (List.prefix_nil.1 hpre) hne
  obtain ⟨hc1, hc2⟩ := hch.1 pos hpos
  cases bytes with
  | nil => exact absurd rfl hne
  | cons b0 bt =>
    obtain ⟨t, ht⟩ := hpre
    unfold decodeAt
    simp only [List.headD_cons]
    have hlen : (b0 :: bt).length = bt.length + 1 := rfl
    by_cases hb : b0 < 0x80
    · -- ASCII shortcut
      simp only [hb, if_true]
      rw [← ht]
      have : decodeUtf8 (b0 :: bt ++ t) = ((b0 : Int), 1) := by
        show decodeUtf8 (b0 :: (bt ++ t)) = _
        unfold decodeUtf8; simp [hb]
      rw [this]
      have hne1 : ((b0 : Int) == DECODE_ERROR) = false := by simp [DECODE_ERROR] <;> omega
      simp [norm, hne1]
    · simp only [hb, if_false]
      by_cases herr : (decodeUtf8 (b0 :: bt)).1 = DECODE_ERROR
      · by_cases hlt : bt.length + 1 < 4
        · -- retry with a fresh chunk
          have hcond : ((decodeUtf8 (b0 :: bt)).1 == DECODE_ERROR && decide ((b0 :: bt).length < 4)) = true := by
            simp [herr, hlen, hlt]
          simp only [hcond, if_true]
          have hsame : norm (decodeUtf8 (read pos)) = norm (decodeUtf8 (text.drop pos)) := by
            rcases hw with h1 | h2 | h3
            · have := decode_err_prefix (read pos) _ hc2 h1
              simp [norm, h1, this]
            · have e := (decode_local (read pos) _ hc2).2 h2
              rw [e]
            · rw [h3]
          rw [← hsame]
          by_cases he : (decodeUtf8 (read pos)).1 = DECODE_ERROR <;> simp [norm, he]
        · have hcond : ((decodeUtf8 (b0 :: bt)).1 == DECODE_ERROR && decide ((b0 :: bt).length < 4)) = false := by
            simp [hlen, hlt]
          simp only [hcond, Bool.false_eq_true, if_false]
          have := decode_ge4 (b0 :: bt) (text.drop pos) ⟨t, ht⟩ (by rw [hlen]; omega)
          rw [this]
          simp [norm, herr]
      · have hcond : ((decodeUtf8 (b0 :: bt)).1 == DECODE_ERROR && decide ((b0 :: bt).length < 4)) = false := by
          simp [herr]
        simp only [hcond, Bool.false_eq_true, if_false]
        have e := (decode_local (b0 :: bt) (text.drop pos) ⟨t, ht⟩).2 herr
        rw [e]
        simp [norm, herr]

/-- `chars_chunk_indep` (whole sequence, for the chunk logic of the lexer port): for every text
and every chunking of it that satisfies `WholeChar`, from any offset and any cache state that is
empty or a prefix of the text at `chunk_start`, the sequence of `(offset, code point or error,
size)` produced by fetch / decode-with-retry / advance-by-size equals the reference sequence of
the text decoded in one piece — hence it is the same for any two such chunkings
(`chars_chunk_indep_two`).  `coreChars` is the chunk logic of `Lexer.doAdvance`/`getLookahead`
without ranges, columns and the ASCII fast path; that `coreChars` and the full port `lexStream`
produce the same sequence is checked by the driver on every chunk drive (`core=ok`), it is not a
theorem (OPEN: `lexStream_eq_coreChars`, i.e. `fastpath_eq` + the default-range case of `skipL`). -/
theorem chars_chunk_indep (text : List Nat) (read : Read)
    (hch : ChunkingOf text read) (hw : WholeChar text read) :
    ∀ (fuel pos : Nat) (c : Cache), CacheOK text c →
      coreChars read fuel pos c = refChars text fuel pos := by
  intro fuel
  induction fuel with
  | zero => intro pos c _; simp [coreChars, refChars]
  | succ fuel ih =>
    intro pos c hc
    unfold coreChars refChars
    simp only
    -- the cache after `fetch`
    have hf : CacheOK text (fetch read pos c) ∧
        ((fetch read pos c).chunk = [] → text.length ≤ pos) ∧
        ((fetch read pos c).chunk ≠ [] → pos < text.length ∧ (fetch read pos c).cs ≤ pos ∧
          pos < (fetch read pos c).cs + (fetch read pos c).chunk.length) := by
      unfold fetch
      split
      · by_cases hp : pos < text.length
        · have := hch.1 pos hp
          exact ⟨Or.inr this.2, fun h => absurd h this.1, fun _ => ⟨hp, Nat.le_refl _, by
            have : (read pos).length ≠ 0 := by simpa using this.1
            simp; omega⟩⟩
        · have := hch.2 pos (by omega)
          exact ⟨Or.inl this, fun _ => by omega, fun h => absurd this h⟩
      · rename_i hin
        refine ⟨hc, fun h => ?_, fun h => ?_⟩
        · simp [h] at hin; omega
        · rcases hc with h0 | hpre
          · exact absurd h0 h
          · have hlen : c.cs + c.chunk.length ≤ text.length := by
              obtain ⟨t, ht⟩ := hpre
              have := congrArg List.length ht
              simp at this; omega
            exact ⟨by omega, by omega, by omega⟩
    generalize fetch read pos c = c1 at hf ⊢
    obtain ⟨hok, hemp, hne⟩ := hf
    by_cases he : c1.chunk = []
    · have := hemp he
      simp [he, this]
    · obtain ⟨hp, h1, h2⟩ := hne he
      have hnp : ¬ pos ≥ text.length := by omega
      have hise : c1.chunk.isEmpty = false := by cases hcc : c1.chunk <;> simp_all
      simp only [hise, hnp, Bool.false_eq_true, if_false]
      rcases hok with h0 | hpre
      · exact absurd h0 he
      · obtain ⟨hb1, hb2⟩ := drop_prefix c1.chunk text c1.cs pos hpre h1 h2
        have key := lookahead_chunk_indep text read pos _ hch (hw pos hp) hb2 hb1
        have k1 := (Prod.mk.inj key).1
        have k2 := (Prod.mk.inj key).2
        rw [k1, k2]
        congr 1
        apply ih
        rcases decodeAt_chunk read (c1.chunk.drop (pos - c1.cs)) pos with hn | hs
        · rw [hn]; exact Or.inr hpre
        · rw [hs]; exact Or.inr (hch.1 pos hp).2


/-- Any two chunkings of the same text that satisfy `WholeChar` give the same character sequence. -/
theorem chars_chunk_indep_two (text : List Nat) (r1 r2 : Read)
    (h1 : ChunkingOf text r1) (w1 : WholeChar text r1) (h2 : ChunkingOf text r2) (w2 : WholeChar text r2)
    (fuel : Nat) : coreChars r1 fuel 0 ⟨0, []⟩ = coreChars r2 fuel 0 ⟨0, []⟩ := by
  rw [chars_chunk_indep text r1 h1 w1 fuel 0 _ (Or.inl rfl), chars_chunk_indep text r2 h2 w2 fuel 0 _ (Or.inl rfl)]

example : let text := [0x61, 0xe2, 0x82, 0xac, 0x62]
    coreChars (fun i => (text.drop i).take 3) 9 0 ⟨0, []⟩ = [(0, 0x61, 1), (1, 0x20ac, 3), (4, 0x62, 1)] := by decide

/-- `lexStream_eq_coreChars`: for every text shorter than `UINT32_MAX` that does not begin with a
byte-order mark and every chunking of it, the sequence `(offset, look-ahead, size)` that the FULL
lexer port produces (`ts_lexer_set_input`, `ts_lexer_start`, then `ts_lexer__advance` with its ASCII
fast path, row/column and column-cache updates, the range-skipping loop over the default range)
is the sequence of the chunk logic `coreChars` that `chars_chunk_indep` is about. -/
theorem lexStream_eq_coreChars (text : List Nat) (read : Read) (hch : ChunkingOf text read)
    (hsmall : text.length < UMAX) (hbom : (coreLook read 0 ⟨0, []⟩).1 ≠ BYTE_ORDER_MARK) (fuel : Nat) :
    lexStream read fuel = coreChars read fuel 0 ⟨0, []⟩ := by
  obtain ⟨f1, f2, f3, f4, f5, f6⟩ := l00_fields
  unfold lexStream
  rw [start_eq]
  have sp := refill_spec read l00
  simp only at sp
  rw [f1, f4, f5] at sp
  have hz : length_zero.bytes = 0 := rfl
  rw [hz] at sp
  obtain ⟨s1, s2, s3, s4⟩ := sp
  cases fuel with
  | zero => simp [lexChars, coreChars]
  | succ fuel =>
    by_cases heof : (coreLook read 0 ⟨0, []⟩).2.2.2 = true
    · have h3 := s3 heof
      rw [coreChars_succ]
      have hla : ((l00.refill read).lookahead == BYTE_ORDER_MARK) = false := by rw [h3.2.1]; decide
      simp only [hla, Bool.false_eq_true, if_false]
      unfold lexChars
      have : ({ l00.refill read with colValid := true, colValue := 0 } : Lexer).eof = true := by
        show ((l00.refill read).idx == (l00.refill read).ranges.size) = true
        rw [h3.1, s2]; simp [Lexer.count]
      simp [this, heof]
    · have heof' : (coreLook read 0 ⟨0, []⟩).2.2.2 = false := by simpa using heof
      have hfacts := coreLook_facts text read hch 0 ⟨0, []⟩ (Or.inl rfl) heof'
      simp only at hfacts
      obtain ⟨m1, m2, m3, m4, m5, m6⟩ := hfacts
      obtain ⟨t1, t2, t3, t4, t5⟩ := s4 heof' m1
      have hla : ((l00.refill read).lookahead == BYTE_ORDER_MARK) = false := by
        rw [t2]; simpa using hbom
      simp only [hla, Bool.false_eq_true, if_false]
      let l1 : Lexer := { l00.refill read with colValid := true, colValue := 0 }
      have hinv : Inv l1 :=
        { ranges := by show (l00.refill read).ranges = _; rw [s2, f3]
          idx := by show (l00.refill read).idx = 0; rw [t1, f2]
          size := by show 1 ≤ (l00.refill read).laSize; rw [t3]; exact m5
          lo := by show (l00.refill read).chunkStart ≤ (l00.refill read).pos.bytes; rw [t4, s1]; exact m3
          hi := by show (l00.refill read).pos.bytes < (l00.refill read).chunkStart + (l00.refill read).chunk.length
                   rw [t4, t5, s1]; exact m4
          small := by show (l00.refill read).pos.bytes + (l00.refill read).laSize < UMAX
                      rw [s1, t3]; have : length_zero.bytes = 0 := rfl; omega }
      have := lexChars_core text read hch hsmall (fuel + 1) l1 ⟨0, []⟩ hinv (Or.inl rfl)
        (by show coreLook read (l00.refill read).pos.bytes ⟨0, []⟩ = ((l00.refill read).lookahead, (l00.refill read).laSize, ⟨(l00.refill read).chunkStart, (l00.refill read).chunk⟩, false)
            rw [s1, t2, t3, t4, t5, hz]; rw [← heof'])
      have hp0 : l1.pos.bytes = 0 := by show (l00.refill read).pos.bytes = 0; rw [s1]; rfl
      rw [hp0] at this
      exact this

/-- Chunk independence for the FULL lexer port: two chunkings of the same text (shorter than
`UINT32_MAX`, not starting with a byte-order mark) that both satisfy `WholeChar` make
`start`/`advance` produce the same `(offset, look-ahead, size)` sequence. -/
theorem chars_chunk_indep_port (text : List Nat) (r1 r2 : Read)
    (h1 : ChunkingOf text r1) (w1 : WholeChar text r1) (h2 : ChunkingOf text r2) (w2 : WholeChar text r2)
    (hsmall : text.length < UMAX)
    (b1 : (coreLook r1 0 ⟨0, []⟩).1 ≠ BYTE_ORDER_MARK) (b2 : (coreLook r2 0 ⟨0, []⟩).1 ≠ BYTE_ORDER_MARK)
    (fuel : Nat) : lexStream r1 fuel = lexStream r2 fuel := by
  rw [lexStream_eq_coreChars text r1 h1 hsmall b1, lexStream_eq_coreChars text r2 h2 hsmall b2]
  exact chars_chunk_indep_two text r1 r2 h1 w1 h2 w2 fuel

/-- `utf16_decode_encode`: the UTF-16 decoder with the trail unit converted like the lead unit (the
decoder as it should be) reads back every Unicode scalar value from its UTF-16LE/BE encoding, whatever
follows, with the right size. -/
theorem utf16_decode_encode (be : Bool) (c : Nat) (hc : Scalar c) (rest : List Nat) :
    decodeUtf16 be (encodeUtf16 be c ++ rest) true = ((c : Int), (encodeUtf16 be c).length) := by
  obtain ⟨h1, h2⟩ := hc
  unfold encodeUtf16
  by_cases hb : c < 0x10000
  · simp only [hb, if_true]
    cases be
    · have e : unit16 false (c % 256) (c / 256) = c := by simp [unit16]; omega
      have := Utf.decode16_bmp false (c % 256) (c / 256) rest (by rw [e]; omega) true
      simpa [e] using this
    · have e : unit16 true (c / 256) (c % 256) = c := by simp [unit16]; omega
      have := Utf.decode16_bmp true (c / 256) (c % 256) rest (by rw [e]; omega) true
      simpa [e] using this
  · simp only [hb, if_false]
    generalize hhi : 0xD800 + (c - 0x10000) / 1024 = hi
    generalize hlo : 0xDC00 + (c - 0x10000) % 1024 = lo
    have r1 : 0xD800 ≤ hi ∧ hi < 0xDC00 := by omega
    have r2 : 0xDC00 ≤ lo ∧ lo < 0xE000 := by omega
    have hv : hi * 1024 + lo - SURROGATE_OFFSET = c := by simp [SURROGATE_OFFSET]; omega
    cases be
    · have e1 : unit16 false (hi % 256) (hi / 256) = hi := by simp [unit16]; omega
      have e2 : unit16 false (lo % 256) (lo / 256) = lo := by simp [unit16]; omega
      have := Utf.decode16_pair false (hi % 256) (hi / 256) (lo % 256) (lo / 256) rest (by rw [e1]; exact r1) (by rw [e2]; exact r2)
      simpa [e1, e2, hv] using this
    · have e1 : unit16 true (hi / 256) (hi % 256) = hi := by simp [unit16]; omega
      have e2 : unit16 true (lo / 256) (lo % 256) = lo := by simp [unit16]; omega
      have := Utf.decode16_pair true (hi / 256) (hi % 256) (lo / 256) (lo % 256) rest (by rw [e1]; exact r1) (by rw [e2]; exact r2)
      simpa [e1, e2, hv] using this

/-- `utf8_decode_encode`: the `U8_NEXT` port reads back every Unicode scalar value from its UTF-8
encoding, whatever follows, with the right size. -/
theorem utf8_decode_encode (c : Nat) (hc : Scalar c) (rest : List Nat) :
    decodeUtf8 (encodeUtf8 c ++ rest) = ((c : Int), (encodeUtf8 c).length) := by
  obtain ⟨h1, h2⟩ := hc
  unfold encodeUtf8
  by_cases c1 : c < 0x80
  · simp only [c1, if_true, List.cons_append, List.nil_append, decodeUtf8, List.length_singleton]
  · by_cases c2 : c < 0x800
    · simp only [c1, c2, if_false, if_true, List.cons_append, List.nil_append]
      rw [Utf.dec2 _ _ (c % 64) rest (by omega) (by omega) (trailVal_enc _ (by omega))]
      have e1 : (0xC0 + c / 64) &&& 0x1f = c / 64 := by
        rw [and_mask _ 5 _ (by decide)]; omega
      rw [e1, shl_or _ _ (by omega)]
      have : c / 64 * 64 + c % 64 = c := by omega
      simp [this]
    · by_cases c3 : c < 0x10000
      · simp only [c1, c2, c3, if_false, if_true, List.cons_append, List.nil_append]
        have e1 : (0xE0 + c / 4096) &&& 0xf = c / 4096 := by
          rw [and_mask _ 4 _ (by decide)]; omega
        have e2 : (0x80 + c / 64 % 64) &&& 0x3f = c / 64 % 64 := by
          rw [and_mask _ 6 _ (by decide)]; omega
        rw [Utf.dec3 _ _ _ (c % 64) rest (by omega) (by omega)
          (by rw [e1]; exact table3 _ (by omega) _ (by omega) (by omega) (by omega))
          (trailVal_enc _ (by omega))]
        rw [e1, e2, shl_or _ _ (by omega), shl_or _ _ (by omega)]
        have : (c / 4096 * 64 + c / 64 % 64) * 64 + c % 64 = c := by omega
        simp [this]
      · simp only [c1, c2, c3, if_false, List.cons_append, List.nil_append]
        have e0 : 0xF0 + c / 262144 - 0xf0 = c / 262144 := by omega
        have e2 : (0x80 + c / 4096 % 64) &&& 0x3f = c / 4096 % 64 := by
          rw [and_mask _ 6 _ (by decide)]; omega
        rw [Utf.dec4 _ _ _ _ (c / 64 % 64) (c % 64) rest (by omega) (by omega)
          (by rw [e0]; exact table4 _ (by omega) _ (by omega) (by omega) (by omega))
          (trailVal_enc _ (by omega)) (trailVal_enc _ (by omega))]
        rw [e0, e2, shl_or _ _ (by omega), shl_or _ _ (by omega), shl_or _ _ (by omega)]
        have : ((c / 262144 * 64 + c / 4096 % 64) * 64 + c / 64 % 64) * 64 + c % 64 = c := by omega
        simp [this]

/-- `utf16_utf8_same_chars`: for every sequence of Unicode scalar values, decoding its UTF-8 encoding with
the `U8_NEXT` port and its UTF-16LE/BE encoding with the UTF-16 port gives the same code points, one
character for one character; the sizes are the lengths of the respective encodings, so the offsets are
related by the unit map (prefix sums of those lengths). -/
theorem utf16_utf8_same_chars (be : Bool) (cs : List Nat) (h : ∀ c ∈ cs, Scalar c) (fuel : Nat) (hf : cs.length ≤ fuel) :
    decodeSeq decodeUtf8 fuel (cs.flatMap encodeUtf8) = cs.map (fun (c : Nat) => ((c : Int), (encodeUtf8 c).length)) ∧
    decodeSeq (fun s => decodeUtf16 be s true) fuel (cs.flatMap (encodeUtf16 be)) =
      cs.map (fun (c : Nat) => ((c : Int), (encodeUtf16 be c).length)) ∧
    (decodeSeq decodeUtf8 fuel (cs.flatMap encodeUtf8)).map (·.1) =
      (decodeSeq (fun s => decodeUtf16 be s true) fuel (cs.flatMap (encodeUtf16 be))).map (·.1) := by
  have a := decodeSeq_encode decodeUtf8 encodeUtf8 (fun c rest hc => utf8_decode_encode c hc rest)
    (by intro c; unfold encodeUtf8
        by_cases h1 : c < 0x80 <;> by_cases h2 : c < 0x800 <;> by_cases h3 : c < 0x10000 <;> simp [h1, h2, h3]) cs fuel h hf
  have b := decodeSeq_encode (fun s => decodeUtf16 be s true) (encodeUtf16 be)
    (fun c rest hc => utf16_decode_encode be c hc rest)
    (by intro c; unfold encodeUtf16; cases be <;> simp <;> split <;> simp) cs fuel h hf
  refine ⟨a, b, ?_⟩
  rw [a, b]; simp [List.map_map]

example : Scalar 0x1D4B3 ∧ encodeUtf8 0x1D4B3 = [0xF0, 0x9D, 0x92, 0xB3] ∧ encodeUtf8 0x20AC = [0xE2, 0x82, 0xAC] :=
  ⟨⟨by decide, by decide⟩, by decide, by decide⟩

/-- The decoder as unicode.h has it: the UTF-16BE encoding of U+1D4B3 (D8 35 DC B3) is read as the
unpaired lead surrogate 0xD835 of size 2 — the pair is not recognised; the LE encoding is read correctly. -/
theorem utf16be_trail_witness :
    decodeUtf16 true [0xD8, 0x35, 0xDC, 0xB3] false = (0xD835, 2) ∧
    decodeUtf16 true [0xD8, 0x35, 0xDC, 0xB3] true = (0x1D4B3, 4) ∧
    decodeUtf16 false [0x35, 0xD8, 0xB3, 0xDC] false = (0x1D4B3, 4) := by decide

example : Scalar 0x1D4B3 ∧ encodeUtf16 true 0x1D4B3 = [0xD8, 0x35, 0xDC, 0xB3] :=
  ⟨⟨by decide, by decide⟩, by decide⟩

/-- `column_cache_eq`: start at a state whose column cache is valid and zero (what `get_column` sets up at
the line start).  After a same-line run of `n` characters the CACHED column is `n`, and the RECOMPUTATION
loop of `ts_lexer__get_column` started at the same state and aimed at the reached offset replays exactly
that run — it ends in the same state, hence returns the same column `n`. -/
theorem column_cache_eq (read : Read) (s : Lexer) (n : Nat) (hrun : SameLineRun read s n)
    (hv : s.colValid = true) (h0 : s.colValue = 0) :
    (adv read n s).colValid = true ∧ (adv read n s).colValue = n ∧
    ((adv read n s).getColumn read).2 = n ∧
    (getColumnLoop read (n + 1) s (adv read n s).pos.bytes).colValue = n := by
  obtain ⟨c1, c2⟩ := adv_col read s n hrun hv n (Nat.le_refl _)
  have c2' : (adv read n s).colValue = n := by rw [c2, h0]; omega
  refine ⟨c1, c2', ?_, ?_⟩
  · unfold Lexer.getColumn; simp [c1, c2']
  · have := getColumnLoop_replays read s n hrun 0 (Nat.zero_le _)
    simp only [Nat.sub_zero, adv] at this
    rw [this]; exact c2'

/-- Non-vacuity: `ab c` in one chunk, started at offset 0 (cache valid, 0): a same-line run of 3 characters. -/
example : let read : Read := fun p => [0x61, 0x62, 0x20, 0x63].drop p
    let s := (({} : Lexer).setInput).start read
    s.colValid = true ∧ s.colValue = 0 ∧ (adv read 3 s).colValue = 3 ∧ (adv read 3 s).pos.bytes = 3 := by decide

/-- Non-vacuity: `a€b`, chunks of three bytes, at the start of `€`. -/
example : let text := [0x61, 0xe2, 0x82, 0xac, 0x62]
    let read : Read := fun i => (text.drop i).take 3
    wholeCharAt text read 1 ∧ [0xe2, 0x82, 0xac] <+: text.drop 1 := by
  refine ⟨Or.inr (Or.inl (by decide)), ⟨[0x62], rfl⟩⟩

/-- `chars_chunk_dep_witness`: the proviso is necessary.  `€` (E2 82 AC) delivered in one-byte
chunks — a chunking of the text — is seen by the lexer port as three decoding errors (the retry
re-fetches the same short chunk), in one chunk as the single character U+20AC. -/
theorem chars_chunk_dep_witness :
    let text := [0xe2, 0x82, 0xac]
    let one : Read := fun i => (text.drop i).take 1
    let whole : Read := fun i => text.drop i
    lexStream one 5 = [(0, -1, 1), (1, -1, 1), (2, -1, 1)] ∧
    lexStream whole 5 = [(0, 0x20ac, 3)] ∧
    ¬ wholeCharAt text one 0 := by
  refine ⟨by decide, by decide, ?_⟩
  intro h
  rcases h with h | h | h
  · revert h; decide
  · revert h; decide
  · revert h; decide

end TsVerif.C09
