import TsVerif.C09.Lemmas
/-!
# C09 — The tree is a pure function of language, text and included ranges

Property text: "The tree returned for a document does not depend on how the parse was driven: the
chunk boundaries of the read callback, UTF-8 versus UTF-16LE/BE delivery of the same characters
(offsets map one-to-one), whether the parser object is new or was used before (other documents,
other languages, ranges set and cleared, reset), whether logging is on, or whether the parse was
cancelled by the progress callback at any point and then resumed. After a cancelled parse, reset
makes the parser behave like a new one."

Clause map (theorems are about the ports `Utf8.lean` (= `ts_decode_utf8`/`U8_NEXT`) and
`C13/Lexer.lean` (= `lexer.c`), tied to the C code by scripted runs of the real lexer under chunkers):

* chunk boundaries do not matter for the characters the lexer sees → `lookahead_chunk_indep`
  (what `ts_lexer__get_lookahead` computes — ASCII shortcut, decode, retry with a fresh chunk —
  equals the decoding of the rest of the text, for EVERY chunking and EVERY cached chunk, PROVIDED
  the chunk returned at that offset holds the whole character: `wholeCharAt`), built on
  `decode_prefix_stable`, `decode_local` (the decoder port is local: ≤ 4 bytes, prefix-stable).
  `chars_chunk_dep_witness`: without the proviso it is false (`€` in 1-byte chunks is three errors)
  — genuine finding C09-short-chunk-at-char-start.
  OPEN `chars_chunk_indep`: the same for the whole sequence `(offset, code point, size)` produced by
  `start`/`advance` (needs the invariant "cached chunk is a prefix of the text at `chunk_start`"
  through `do_advance`; the per-character statement above is its inductive step).
  OPEN `fastpath_eq`, `utf16_utf8_same_chars`, `column_cache_eq` (DESIGN §7).
* UTF-16 delivery, parser history, logger, cancellation + resume/reset → no model of `TSParser`;
  decided per real case by the Lean judge on full dumps (implementation vs implementation).
-/
namespace TsVerif.C09
open TsGen TsVerif.Lex TsVerif.Utf

/-- `decode_local`: the decoder port looks at no more than four bytes, and a successful decode of a
prefix is the decode of the whole. -/
theorem decode_local (p s : List Nat) (hp : p <+: s) :
    (4 ≤ p.length → decodeUtf8 s = decodeUtf8 p) ∧
    ((decodeUtf8 p).1 ≠ DECODE_ERROR → decodeUtf8 s = decodeUtf8 p) :=
  ⟨decode_ge4 p s hp, fun hc => decode_prefix_stable p s hp (decodeUtf8 p).1 (decodeUtf8 p).2 rfl hc⟩

/-- `lookahead_chunk_indep`: let `bytes` be what is left of the cached chunk at offset `pos`
(any non-empty prefix of the rest of the text — whatever chunk happens to be cached) and `read` any
chunking of the text whose chunk at `pos` holds the whole character.  Then the look-ahead and its
size computed by `ts_lexer__get_lookahead` are those obtained from the rest of the text in one
piece: they do not depend on the chunk boundaries. -/
theorem lookahead_chunk_indep (text : List Nat) (read : Read) (pos : Nat) (bytes : List Nat)
    (hch : ChunkingOf text read) (hw : wholeCharAt text read pos)
    (hne : bytes ≠ []) (hpre : bytes <+: text.drop pos) :
    ((decodeAt read bytes pos).1, (decodeAt read bytes pos).2.1) = norm (decodeUtf8 (text.drop pos)) := by
  have hpos : pos < text.length := by
    by_cases h : pos < text.length
    · exact h
    · have : text.drop pos = [] := List.drop_eq_nil_of_le (by omega)
      rw [this] at hpre
      exact absurd (List.prefix_nil.1 hpre) hne
  obtain ⟨hc1, hc2⟩ := hch.1 pos hpos
  cases bytes with
  | nil => exact absurd rfl hne
  | cons b0 bt =>
    obtain ⟨t, ht⟩ := hpre
    unfold decodeAt
    simp only [List.headD_cons]
    have hlen : (b0 :: bt).length = bt.length + 1 := rfl
    by_cases hb : b0 < 0x80
    · -- ASCII shortcut
      simp only [hb, if_true]
      rw [← ht]
      have : decodeUtf8 (b0 :: bt ++ t) = ((b0 : Int), 1) := by
        show decodeUtf8 (b0 :: (bt ++ t)) = _
        unfold decodeUtf8; simp [hb]
      rw [this]
      have hne1 : ((b0 : Int) == DECODE_ERROR) = false := by simp [DECODE_ERROR] <;> omega
      simp [norm, hne1]
    · simp only [hb, if_false]
      by_cases herr : (decodeUtf8 (b0 :: bt)).1 = DECODE_ERROR
      · by_cases hlt : bt.length + 1 < 4
        · -- retry with a fresh chunk
          have hcond : ((decodeUtf8 (b0 :: bt)).1 == DECODE_ERROR && decide ((b0 :: bt).length < 4)) = true := by
            simp [herr, hlen, hlt]
          simp only [hcond, if_true]
          have hsame : norm (decodeUtf8 (read pos)) = norm (decodeUtf8 (text.drop pos)) := by
            rcases hw with h1 | h2 | h3
            · have := decode_err_prefix (read pos) _ hc2 h1
              simp [norm, h1, this]
            · have e := (decode_local (read pos) _ hc2).2 h2
              rw [e]
            · rw [h3]
          rw [← hsame]
          by_cases he : (decodeUtf8 (read pos)).1 = DECODE_ERROR <;> simp [norm, he]
        · have hcond : ((decodeUtf8 (b0 :: bt)).1 == DECODE_ERROR && decide ((b0 :: bt).length < 4)) = false := by
            simp [hlen, hlt]
          simp only [hcond, Bool.false_eq_true, if_false]
          have := decode_ge4 (b0 :: bt) (text.drop pos) ⟨t, ht⟩ (by rw [hlen]; omega)
          rw [this]
          simp [norm, herr]
      · have hcond : ((decodeUtf8 (b0 :: bt)).1 == DECODE_ERROR && decide ((b0 :: bt).length < 4)) = false := by
          simp [herr]
        simp only [hcond, Bool.false_eq_true, if_false]
        have e := (decode_local (b0 :: bt) (text.drop pos) ⟨t, ht⟩).2 herr
        rw [e]
        simp [norm, herr]

/-- Non-vacuity: `a€b`, chunks of three bytes, at the start of `€`. -/
example : let text := [0x61, 0xe2, 0x82, 0xac, 0x62]
    let read : Read := fun i => (text.drop i).take 3
    wholeCharAt text read 1 ∧ [0xe2, 0x82, 0xac] <+: text.drop 1 := by
  refine ⟨Or.inr (Or.inl (by decide)), ⟨[0x62], rfl⟩⟩

/-- `chars_chunk_dep_witness`: the proviso is necessary.  `€` (E2 82 AC) delivered in one-byte
chunks — a chunking of the text — is seen by the lexer port as three decoding errors (the retry
re-fetches the same short chunk), in one chunk as the single character U+20AC. -/
theorem chars_chunk_dep_witness :
    let text := [0xe2, 0x82, 0xac]
    let one : Read := fun i => (text.drop i).take 1
    let whole : Read := fun i => text.drop i
    lexStream one 5 = [(0, -1, 1), (1, -1, 1), (2, -1, 1)] ∧
    lexStream whole 5 = [(0, 0x20ac, 3)] ∧
    ¬ wholeCharAt text one 0 := by
  refine ⟨by decide, by decide, ?_⟩
  intro h
  rcases h with h | h | h
  · revert h; decide
  · revert h; decide
  · revert h; decide

end TsVerif.C09
