import TsVerif.C13.Lexer
/-!
# C09 — the input layer: chunk providers over a text, the character stream the lexer sees

`Lexer.lean` (shared with C13) is the port of `lexer.c`; here: chunkings of a text, the reference
character sequence of a text (what one chunk holding the whole text gives), the stream the lexer
port produces under a chunk provider, and the `WholeChar` condition.
-/
namespace TsVerif.C09
open TsGen TsVerif.Lex TsVerif.Utf

/-- `error ⇒ size 1`, as `ts_lexer__get_lookahead` does after decoding. -/
def norm (r : Int × Nat) : Int × Nat := if r.1 == DECODE_ERROR then (DECODE_ERROR, 1) else r

/-- `read` is a chunking of `text`: inside the text it returns a non-empty prefix of the rest,
at and after the end nothing. -/
def ChunkingOf (text : List Nat) (read : Read) : Prop :=
  (∀ i, i < text.length → read i ≠ [] ∧ read i <+: text.drop i) ∧ (∀ i, text.length ≤ i → read i = [])

/-- The chunk returned at offset `i` holds the whole character that starts there: if the text has
a well-formed character at `i`, the chunk decodes to a character too (it then is the same one,
`decode_prefix_stable`), or the chunk is the whole rest of the text. -/
def wholeCharAt (text : List Nat) (read : Read) (i : Nat) : Prop :=
  (decodeUtf8 (text.drop i)).1 = DECODE_ERROR ∨ (decodeUtf8 (read i)).1 ≠ DECODE_ERROR ∨ read i = text.drop i

/-- `WholeChar`: at every offset inside the text. -/
def WholeChar (text : List Nat) (read : Read) : Prop := ∀ i, i < text.length → wholeCharAt text read i

/-- Reference character sequence of a text: `(offset, code point or -1, size)`, decoding from the
whole rest of the text. -/
def refChars (text : List Nat) : Nat → Nat → List (Nat × Int × Nat)
  | 0, _ => []
  | fuel + 1, p =>
    if p ≥ text.length then []
    else
      let r := norm (decodeUtf8 (text.drop p))
      (p, r.1, r.2) :: refChars text fuel (p + r.2)

/-- What the lexer port sees: `start`, then `advance` until EOF (or `fuel` characters). -/
def lexChars (read : Read) : Nat → Lexer → List (Nat × Int × Nat)
  | 0, _ => []
  | fuel + 1, l =>
    if l.eof then [] else (l.pos.bytes, l.lookahead, l.laSize) :: lexChars read fuel (l.advance read false)

def lexStream (read : Read) (fuel : Nat) : List (Nat × Int × Nat) :=
  lexChars read fuel ((({} : Lexer).setInput).start read)

/-- The chunk cache of the lexer: `chunk_start` and the cached chunk (`[]` = none). -/
structure Cache where
  cs : Nat
  chunk : List Nat

/-- Re-fetch when the position is outside the cached chunk (as `ts_lexer__do_advance` does). -/
def fetch (read : Read) (pos : Nat) (c : Cache) : Cache :=
  if pos < c.cs ∨ pos ≥ c.cs + c.chunk.length then ⟨pos, read pos⟩ else c

/-- Fetch and decode at `pos` from a cache: `(look-ahead, size, new cache, end of input)`. -/
def coreLook (read : Read) (pos : Nat) (c : Cache) : Int × Nat × Cache × Bool :=
  let c := fetch read pos c
  if c.chunk.isEmpty then (0, 1, c, true)
  else
    let r := decodeAt read (c.chunk.drop (pos - c.cs)) pos
    let c' : Cache := match r.2.2 with
      | some nc => ⟨pos, nc⟩
      | none => c
    (r.1, r.2.1, c', false)

/-- The `(offset, code point, size)` sequence produced by the chunk logic of the lexer port alone
(`fetch`, `decodeAt` with its retry, position += size; no ranges, no columns). -/
def coreChars (read : Read) : Nat → Nat → Cache → List (Nat × Int × Nat)
  | 0, _, _ => []
  | fuel + 1, pos, c =>
    let c := fetch read pos c
    if c.chunk.isEmpty then []
    else
      let r := decodeAt read (c.chunk.drop (pos - c.cs)) pos
      let c' : Cache := match r.2.2 with
        | some nc => ⟨pos, nc⟩
        | none => c
      (pos, r.1, r.2.1) :: coreChars read fuel (pos + r.2.1) c'

/-- Cache invariant: nothing cached, or a prefix of the text at `chunk_start`. -/
def CacheOK (text : List Nat) (c : Cache) : Prop := c.chunk = [] ∨ c.chunk <+: text.drop c.cs

/-- The chunk providers of the explorers: `w` (rest of the text), `c<k>` (at most `k` bytes),
`s<p1,p2,…>` (up to the next split point). -/
def schemeRead (doc : Array Nat) (scheme : String) : Read := fun byte =>
  if byte ≥ doc.size then []
  else
    let e0 := doc.size
    let e1 := if scheme.startsWith "c" then
        let k := (scheme.drop 1).toString.toNat?.getD 0
        if k != 0 && byte + k < e0 then byte + k else e0
      else e0
    let e2 := if scheme.startsWith "s" then
        ((scheme.drop 1).toString.splitOn ",").foldl (fun e s =>
          match s.toNat? with
          | some p => if p > byte && p < e then p else e
          | none => e) e1
      else e1
    (doc.extract byte e2).toList

/-- Decidable version of `WholeChar` restricted to the character starts of the reference sequence
(the offsets at which the lexer asks). -/
def wholeCharOnStarts (text : List Nat) (read : Read) : Bool :=
  (refChars text (text.length + 1) 0).all fun (p, cp, _) =>
    cp == DECODE_ERROR || (decodeUtf8 (read p)).1 != DECODE_ERROR || decide (read p = text.drop p)

end TsVerif.C09
