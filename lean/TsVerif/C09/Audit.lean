import TsVerif.C09.Props
import TsVerif.C09.TreeLevel
import TsVerif.C09.Bom
#print axioms TsVerif.C09.decode_prefix_stable
#print axioms TsVerif.C09.decode_local
#print axioms TsVerif.C09.lookahead_chunk_indep
#print axioms TsVerif.C09.chars_chunk_dep_witness
#print axioms TsVerif.C09.chars_chunk_indep
#print axioms TsVerif.C09.chars_chunk_indep_two
#print axioms TsVerif.C09.lexStream_eq_coreChars
#print axioms TsVerif.C09.chars_chunk_indep_port
#print axioms TsVerif.C09.utf16_decode_encode
#print axioms TsVerif.C09.utf16be_trail_witness
#print axioms TsVerif.C09.utf8_decode_encode
#print axioms TsVerif.C09.utf16_utf8_same_chars
#print axioms TsVerif.C09.doAdvance_col
#print axioms TsVerif.C09.column_cache_eq
#print axioms TsVerif.C09.offsets_one_to_one
#print axioms TsVerif.C09.driver_chunk_indep
#print axioms TsVerif.C09.advance_skip
#print axioms TsVerif.C09.lexStream_bom
#print axioms TsVerif.C09.chars_chunk_indep_port_any
