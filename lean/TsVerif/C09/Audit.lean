import TsVerif.C09.Props
import TsVerif.C09.TreeLevel
import TsVerif.C09.Bom
import TsVerif.C09.Round11
import TsVerif.C09.VersionOrder
#print axioms TsVerif.C09.decode_prefix_stable
#print axioms TsVerif.C09.decode_local
#print axioms TsVerif.C09.lookahead_chunk_indep
#print axioms TsVerif.C09.chars_chunk_dep_witness
#print axioms TsVerif.C09.chars_chunk_indep
#print axioms TsVerif.C09.chars_chunk_indep_two
#print axioms TsVerif.C09.lexStream_eq_coreChars
#print axioms TsVerif.C09.chars_chunk_indep_port
#print axioms TsVerif.C09.utf16_decode_encode
#print axioms TsVerif.C09.utf16be_trail_witness
#print axioms TsVerif.C09.utf8_decode_encode
#print axioms TsVerif.C09.utf16_utf8_same_chars
#print axioms TsVerif.C09.doAdvance_col
#print axioms TsVerif.C09.column_cache_eq
#print axioms TsVerif.C09.offsets_one_to_one
#print axioms TsVerif.C09.driver_chunk_indep
#print axioms TsVerif.C09.advance_skip
#print axioms TsVerif.C09.lexStream_bom
#print axioms TsVerif.C09.chars_chunk_indep_port_any
#print axioms TsVerif.C09.utf8_decode_sound
#print axioms TsVerif.C09.utf8_decode_exact
#print axioms TsVerif.C09.utf8_decode_injective
#print axioms TsVerif.C09.VersionOrder.compare_versions_mirror
#print axioms TsVerif.C09.VersionOrder.compare_versions_mirror_any
#print axioms TsVerif.C09.VersionOrder.compare_versions_mirror_wrapping
#print axioms TsVerif.C09.VersionOrder.compareWith_nat
#print axioms TsVerif.C09.VersionOrder.compareWith_wrapping_eq
#print axioms TsVerif.C09.VersionOrder.compare_versions_refl
#print axioms TsVerif.C09.VersionOrder.compare_versions_none_iff
#print axioms TsVerif.C09.VersionOrder.take_left_sound
#print axioms TsVerif.C09.VersionOrder.take_right_sound
#print axioms TsVerif.C09.VersionOrder.prefer_left_sound
#print axioms TsVerif.C09.VersionOrder.take_not_both
#print axioms TsVerif.C09.VersionOrder.take_left_gap
