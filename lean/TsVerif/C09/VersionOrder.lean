/-
C09 (the tree is a pure function of language, text and included ranges) — the version order.

`ts_parser__compare_versions` (lib/src/parser.c) is the one place where the GLR driver decides which of
two stack versions survives (`ts_parser__condense_stack`, `ts_parser__better_version_exists`).  Its
translation `TsGen.ts_parser__compare_versions` is REGENERATED from /repo on every run (translator item
`Parser/ts_parser__compare_versions`, tie theorem `TsVerif.GenTie.tie_ts_parser__compare_versions`).
For the result of a parse not to depend on how the parse was driven, the decision must not depend on
the ORDER in which two versions happen to be numbered — versions are renumbered by every pause, merge
and removal, and a resumed parse or a differently chunked read may enumerate them differently.  The
theorems below state that for every pair of statuses:

* `compare_versions_mirror`   comparing (b, a) gives exactly the mirrored verdict of comparing (a, b);
* `compare_versions_refl`     a version is never preferred to an equal one;
* `compare_versions_none_iff` "no preference" is returned exactly for statuses that agree on
                               is_in_error, cost and dynamic precedence;
* `take_left_sound` / `take_right_sound`   a version is DISCARDED outright (`Take…`) only in favour of a
                               strictly cheaper one;
* `prefer_left_sound`         a version is preferred only if it is not in error while the other is, or
                               is at most as expensive;
* `take_not_both`             two versions are never each discarded in favour of the other (no cycle
                               of length two, hence `condense_stack` cannot remove both).

Modelled, not verified: `unsigned` arithmetic is taken in ℕ by the translator, while the product
`(b.cost - a.cost) * (1 + a.node_count)` wraps at 2^32 in C.  The mirror law does not depend on that:
`compare_versions_mirror_any` proves it for ANY decisive-gap test, and `compare_versions_mirror_wrapping`
instantiates it with the 32-bit wrapping product.  `take_left_gap` is about the ℕ product only.
-/
import TsVerif.Gen.Parser

namespace TsVerif.C09.VersionOrder
open TsGen

/-- the verdict seen from the other side -/
def mirror : ErrorComparison → ErrorComparison
  | .ErrorComparisonTakeLeft => .ErrorComparisonTakeRight
  | .ErrorComparisonPreferLeft => .ErrorComparisonPreferRight
  | .ErrorComparisonNone => .ErrorComparisonNone
  | .ErrorComparisonPreferRight => .ErrorComparisonPreferLeft
  | .ErrorComparisonTakeRight => .ErrorComparisonTakeLeft

theorem mirror_mirror (c : ErrorComparison) : mirror (mirror c) = c := by
  cases c <;> rfl

/-- The same symmetry for ANY threshold test `far d n` in place of the ℕ product (in particular for
the wrapping 32-bit product of the C code): the mirror law does not depend on the arithmetic of the
"is the cost difference decisive" test, only on the structure of the branches. -/
def compareWith (far : Nat → Nat → Bool) (a b : ErrorStatus) : ErrorComparison :=
  if !a.is_in_error && b.is_in_error then
    if a.cost < b.cost then .ErrorComparisonTakeLeft else .ErrorComparisonPreferLeft
  else if a.is_in_error && !b.is_in_error then
    if b.cost < a.cost then .ErrorComparisonTakeRight else .ErrorComparisonPreferRight
  else if a.cost < b.cost then
    if far (b.cost - a.cost) a.node_count then .ErrorComparisonTakeLeft else .ErrorComparisonPreferLeft
  else if b.cost < a.cost then
    if far (a.cost - b.cost) b.node_count then .ErrorComparisonTakeRight else .ErrorComparisonPreferRight
  else if a.dynamic_precedence > b.dynamic_precedence then .ErrorComparisonPreferLeft
  else if b.dynamic_precedence > a.dynamic_precedence then .ErrorComparisonPreferRight
  else .ErrorComparisonNone

theorem compareWith_nat (a b : ErrorStatus) :
    compareWith (fun d n => decide (d * (1 + n) > MAX_COST_DIFFERENCE)) a b
      = ts_parser__compare_versions a b := by
  obtain ⟨ac, an, ad, ae⟩ := a
  obtain ⟨bc, bn, bd, be⟩ := b
  simp only [compareWith, ts_parser__compare_versions]
  cases ae <;> cases be <;> simp <;> grind

theorem compare_versions_mirror_any (far : Nat → Nat → Bool) (a b : ErrorStatus) :
    compareWith far b a = mirror (compareWith far a b) := by
  obtain ⟨ac, an, ad, ae⟩ := a
  obtain ⟨bc, bn, bd, be⟩ := b
  simp only [compareWith]
  cases ae <;> cases be <;> simp <;> grind [mirror]

/-- Order-independence of the version comparison: swapping the arguments mirrors the verdict. -/
theorem compare_versions_mirror (a b : ErrorStatus) :
    ts_parser__compare_versions b a = mirror (ts_parser__compare_versions a b) := by
  rw [← compareWith_nat, ← compareWith_nat]
  exact compare_versions_mirror_any _ a b

/-- The mirror law for the C semantics of the product (wrapping at 2^32). -/
theorem compare_versions_mirror_wrapping (a b : ErrorStatus) :
    compareWith (fun d n => decide ((d * (1 + n)) % 4294967296 > MAX_COST_DIFFERENCE)) b a
      = mirror (compareWith (fun d n => decide ((d * (1 + n)) % 4294967296 > MAX_COST_DIFFERENCE)) a b) :=
  compare_versions_mirror_any _ a b

/-- Where the product does not wrap, the wrapping comparison IS the translated function. -/
theorem compareWith_wrapping_eq (a b : ErrorStatus)
    (h₁ : (b.cost - a.cost) * (1 + a.node_count) < 4294967296)
    (h₂ : (a.cost - b.cost) * (1 + b.node_count) < 4294967296) :
    compareWith (fun d n => decide ((d * (1 + n)) % 4294967296 > MAX_COST_DIFFERENCE)) a b
      = ts_parser__compare_versions a b := by
  rw [← compareWith_nat]
  obtain ⟨ac, an, ad, ae⟩ := a
  obtain ⟨bc, bn, bd, be⟩ := b
  simp only [compareWith] at *
  simp only [Nat.mod_eq_of_lt h₁, Nat.mod_eq_of_lt h₂]

theorem compare_versions_refl (a : ErrorStatus) :
    ts_parser__compare_versions a a = .ErrorComparisonNone := by
  obtain ⟨ac, an, ad, ae⟩ := a
  unfold ts_parser__compare_versions
  cases ae <;> simp

theorem compare_versions_none_iff (a b : ErrorStatus) :
    ts_parser__compare_versions a b = .ErrorComparisonNone ↔
      (a.is_in_error = b.is_in_error ∧ a.cost = b.cost ∧ a.dynamic_precedence = b.dynamic_precedence) := by
  obtain ⟨ac, an, ad, ae⟩ := a
  obtain ⟨bc, bn, bd, be⟩ := b
  unfold ts_parser__compare_versions
  cases ae <;> cases be <;> simp <;> (repeat' split) <;> simp_all <;> omega

/-- A version is discarded outright only for a strictly cheaper one. -/
theorem take_left_sound (a b : ErrorStatus)
    (h : ts_parser__compare_versions a b = .ErrorComparisonTakeLeft) : a.cost < b.cost := by
  obtain ⟨ac, an, ad, ae⟩ := a
  obtain ⟨bc, bn, bd, be⟩ := b
  unfold ts_parser__compare_versions at h
  cases ae <;> cases be <;> simp at h <;> (repeat' split at h) <;> simp_all

theorem take_right_sound (a b : ErrorStatus)
    (h : ts_parser__compare_versions a b = .ErrorComparisonTakeRight) : b.cost < a.cost := by
  have := compare_versions_mirror a b
  rw [h] at this
  exact take_left_sound b a this

/-- A version is preferred only if it is the one not in error, or it costs no more. -/
theorem prefer_left_sound (a b : ErrorStatus)
    (h : ts_parser__compare_versions a b = .ErrorComparisonPreferLeft ∨
         ts_parser__compare_versions a b = .ErrorComparisonTakeLeft) :
    (a.is_in_error = false ∧ b.is_in_error = true) ∨ a.cost ≤ b.cost := by
  obtain ⟨ac, an, ad, ae⟩ := a
  obtain ⟨bc, bn, bd, be⟩ := b
  unfold ts_parser__compare_versions at h
  cases ae <;> cases be <;> simp at h ⊢ <;> (repeat' split at h) <;> simp_all <;> omega

/-- No two versions are each discarded in favour of the other. -/
theorem take_not_both (a b : ErrorStatus)
    (h₁ : ts_parser__compare_versions a b = .ErrorComparisonTakeLeft) :
    ts_parser__compare_versions b a ≠ .ErrorComparisonTakeLeft := by
  intro h₂
  have := take_left_sound a b h₁
  have := take_left_sound b a h₂
  omega

/-- Between two versions with the same error flag, "take" needs a cost gap that is decisive for the
node count of the cheaper one: with `n` nodes the gap must exceed `MAX_COST_DIFFERENCE / (1 + n)`. -/
theorem take_left_gap (a b : ErrorStatus) (he : a.is_in_error = b.is_in_error)
    (h : ts_parser__compare_versions a b = .ErrorComparisonTakeLeft) :
    (b.cost - a.cost) * (1 + a.node_count) > MAX_COST_DIFFERENCE := by
  obtain ⟨ac, an, ad, ae⟩ := a
  obtain ⟨bc, bn, bd, be⟩ := b
  unfold ts_parser__compare_versions at h
  cases ae <;> cases be <;> simp at he h ⊢ <;> (repeat' split at h) <;> simp_all

/-! Non-vacuity: each verdict is reachable, and the hypotheses of the conditional theorems are met. -/
example : ts_parser__compare_versions ⟨0, 3, 0, false⟩ ⟨500, 0, 0, false⟩ = .ErrorComparisonTakeLeft := by decide
example : ts_parser__compare_versions ⟨0, 0, 0, false⟩ ⟨100, 3, 0, false⟩ = .ErrorComparisonPreferLeft := by decide
example : ts_parser__compare_versions ⟨7, 1, -2, true⟩ ⟨7, 9, -2, true⟩ = .ErrorComparisonNone := by decide
example : ts_parser__compare_versions ⟨7, 1, -2, true⟩ ⟨7, 9, 3, true⟩ = .ErrorComparisonPreferRight := by decide
example : ts_parser__compare_versions ⟨900, 1, 0, true⟩ ⟨7, 9, 3, false⟩ = .ErrorComparisonTakeRight := by decide
example : MAX_COST_DIFFERENCE = 18 * ERROR_COST_PER_SKIPPED_TREE := by decide

end TsVerif.C09.VersionOrder
