import TsVerif.C09.Props
/-!
# C09 — Round 11: the `U8_NEXT` port accepts EXACTLY the UTF-8 encodings of scalar values

`utf8_decode_encode` (Props.lean) is the completeness half: every scalar value is read back from its
encoding.  Here is the soundness half and the resulting characterisation:

* `utf8_decode_sound`: whenever the port returns a code point (not `TS_DECODE_ERROR`) for a byte string, that
  code point is a Unicode scalar value (in particular: no surrogate, nothing ≥ 0x110000), the bytes consumed
  are exactly its shortest-form encoding `encodeUtf8` (no overlong form is accepted), and the returned size is
  the length of that encoding.
* `utf8_decode_exact`: `decodeUtf8 s = (c, n)` iff `c` is a scalar, `encodeUtf8 c` is a prefix of `s` and
  `n` is its length.
* `utf8_decode_injective`: two byte strings that decode to the same code point start with the same `n` bytes.
-/
namespace TsVerif.C09
open TsVerif.Utf

theorem trailVal_some (b t : Nat) (h : trailVal b = some t) : 0x80 ≤ b ∧ b ≤ 0xbf ∧ t = b - 0x80 := by
  unfold trailVal at h
  split at h
  · rename_i hr
    have := Option.some.inj h
    omega
  · exact absurd h (by simp)

/-- Converse of `table3`: the bits of `U8_LEAD3_T1_BITS` admit only second bytes `80..BF`, `A0..BF` after `E0`
(no overlong form), `80..9F` after `ED` (no surrogate).  Stated over `q = b >>> 5`. -/
theorem table3_conv (l : Nat) (hl : l < 16) (q : Nat) (hq : q < 8)
    (h : (lead3T1Bits.getD l 0) &&& (1 <<< q) ≠ 0) : (q = 4 ∨ q = 5) ∧ (l = 0 → q = 5) ∧ (l = 13 → q = 4) := by
  have a : ∀ l, l < 16 → ∀ q, q < 8 → (lead3T1Bits.getD l 0) &&& (1 <<< q) ≠ 0 → (q = 4 ∨ q = 5) := by decide
  have b : ∀ l, l < 16 → ∀ q, q < 8 → (lead3T1Bits.getD l 0) &&& (1 <<< q) ≠ 0 → (l = 0 → q = 5) := by decide
  have c : ∀ l, l < 16 → ∀ q, q < 8 → (lead3T1Bits.getD l 0) &&& (1 <<< q) ≠ 0 → (l = 13 → q = 4) := by decide
  exact ⟨a l hl q hq h, b l hl q hq h, c l hl q hq h⟩

/-- Converse of `table4`: `U8_LEAD4_T1_BITS` admits only second bytes `80..BF`, `90..BF` after `F0`,
`80..8F` after `F4`.  Stated over `q = b >>> 4`. -/
theorem table4_conv (l : Nat) (hl : l < 5) (q : Nat) (hq : q < 16)
    (h : (lead4T1Bits.getD q 0) &&& (1 <<< l) ≠ 0) : (8 ≤ q ∧ q ≤ 11) ∧ (l = 0 → 9 ≤ q) ∧ (l = 4 → q = 8) := by
  have a : ∀ l, l < 5 → ∀ q, q < 16 → (lead4T1Bits.getD q 0) &&& (1 <<< l) ≠ 0 → (8 ≤ q ∧ q ≤ 11) := by decide
  have b : ∀ l, l < 5 → ∀ q, q < 16 → (lead4T1Bits.getD q 0) &&& (1 <<< l) ≠ 0 → (l = 0 → 9 ≤ q) := by decide
  have c : ∀ l, l < 5 → ∀ q, q < 16 → (lead4T1Bits.getD q 0) &&& (1 <<< l) ≠ 0 → (l = 4 → q = 8) := by decide
  exact ⟨a l hl q hq h, b l hl q hq h, c l hl q hq h⟩

private theorem err_absurd {cp : Int} {n k : Nat} {P : Prop} (h : (DECODE_ERROR, k) = (cp, n))
    (hc : cp ≠ DECODE_ERROR) : P := absurd (Prod.mk.inj h).1.symm hc

/-- The result for a well-formed sequence, in arithmetic form. -/
private theorem sound_finish (s : List Nat) (x : Nat) (cp : Int) (n k : Nat) (h : (((x : Nat) : Int), k) = (cp, n))
    (hs : Scalar x) (he : s.take k = encodeUtf8 x) (hl : k = (encodeUtf8 x).length) :
    ∃ c : Nat, cp = (c : Int) ∧ Scalar c ∧ s.take n = encodeUtf8 c ∧ n = (encodeUtf8 c).length := by
  obtain ⟨h1, h2⟩ := Prod.mk.inj h
  subst h2
  exact ⟨x, h1.symm, hs, he, hl⟩

/-- `utf8_decode_sound`: a code point returned by the `U8_NEXT` port is a Unicode scalar value, the bytes
consumed are exactly its (shortest-form) UTF-8 encoding, and the size is the length of that encoding. -/
theorem utf8_decode_sound (s : List Nat) (hb : ∀ b ∈ s, b < 256) (cp : Int) (n : Nat)
    (h : decodeUtf8 s = (cp, n)) (hc : cp ≠ DECODE_ERROR) :
    ∃ c : Nat, cp = (c : Int) ∧ Scalar c ∧ s.take n = encodeUtf8 c ∧ n = (encodeUtf8 c).length := by
  match s, hb, h with
  | [], _, h => simp only [decodeUtf8] at h; exact err_absurd h hc
  | a :: rest, hb, h =>
    have ha : a < 256 := hb a (by simp)
    by_cases a1 : a < 0x80
    · simp only [decodeUtf8, a1, if_true] at h
      refine sound_finish _ a cp n 1 h ⟨by omega, by omega⟩ ?_ ?_
      · simp [encodeUtf8, a1]
      · simp [encodeUtf8, a1]
    · match rest, hb, h with
      | [], _, h => simp only [decodeUtf8, a1, if_false] at h; exact err_absurd h hc
      | b :: r1, hb, h =>
        have hbb : b < 256 := hb b (by simp)
        by_cases a2 : a ≥ 0xe0
        · by_cases a3 : a < 0xf0
          · -- three-byte class
            have el : a &&& 0xf = a - 0xE0 := by rw [and_mask _ 4 _ (by decide)]; omega
            by_cases t3 : (lead3T1Bits.getD (a &&& 0xf) 0) &&& (1 <<< (b >>> 5)) ≠ 0
            · have hq := table3_conv (a &&& 0xf) (by rw [el]; omega) (b >>> 5)
                (by rw [Nat.shiftRight_eq_div_pow]; omega) t3
              rw [Nat.shiftRight_eq_div_pow, el] at hq
              cases r1 with
              | nil =>
                simp only [decodeUtf8, a1, a2, a3, t3, ne_eq, not_false_eq_true, if_false, if_true] at h
                exact err_absurd h hc
              | cons c r2 =>
                cases ht : trailVal c with
                | none =>
                  simp only [decodeUtf8, a1, a2, a3, t3, ne_eq, not_false_eq_true, if_false, if_true, ht] at h
                  exact err_absurd h hc
                | some t =>
                  obtain ⟨c1, c2, c3⟩ := trailVal_some c t ht
                  rw [Utf.dec3 a b c t r2 a2 a3 t3 ht, el,
                    and_mask b 6 _ (by decide), shl_or _ _ (by omega), shl_or _ _ (by omega)] at h
                  have e64 : b % 2 ^ 6 = b - 0x80 := by omega
                  rw [e64] at h
                  refine sound_finish _ _ cp n 3 h ?_ ?_ ?_
                  · constructor <;> omega
                  · have x1 : ¬ ((a - 0xE0) * 64 + (b - 0x80)) * 64 + t < 0x80 := by omega
                    have x2 : ¬ ((a - 0xE0) * 64 + (b - 0x80)) * 64 + t < 0x800 := by omega
                    have x3 : ((a - 0xE0) * 64 + (b - 0x80)) * 64 + t < 0x10000 := by omega
                    simp only [encodeUtf8, x1, x2, x3, if_false, if_true, List.take_succ_cons, List.take_zero]
                    congr 1
                    · omega
                    · congr 1
                      · omega
                      · congr 1; omega
                  · have x1 : ¬ ((a - 0xE0) * 64 + (b - 0x80)) * 64 + t < 0x80 := by omega
                    have x2 : ¬ ((a - 0xE0) * 64 + (b - 0x80)) * 64 + t < 0x800 := by omega
                    have x3 : ((a - 0xE0) * 64 + (b - 0x80)) * 64 + t < 0x10000 := by omega
                    simp [encodeUtf8, x1, x2, x3]
            · simp only [decodeUtf8, a1, a2, a3, t3, if_false, if_true] at h
              exact err_absurd h hc
          · -- four-byte class
            by_cases t4 : a - 0xf0 ≤ 4 ∧ (lead4T1Bits.getD (b >>> 4) 0) &&& (1 <<< (a - 0xf0)) ≠ 0
            · obtain ⟨l4, t4'⟩ := t4
              have hq := table4_conv (a - 0xf0) (by omega) (b >>> 4)
                (by rw [Nat.shiftRight_eq_div_pow]; omega) t4'
              rw [Nat.shiftRight_eq_div_pow] at hq
              cases r1 with
              | nil =>
                simp only [decodeUtf8, a1, a2, a3, l4, t4', ne_eq, not_false_eq_true, and_self, if_false, if_true] at h
                exact err_absurd h hc
              | cons c r2 =>
                cases ht : trailVal c with
                | none =>
                  simp only [decodeUtf8, a1, a2, a3, l4, t4', ne_eq, not_false_eq_true, and_self, if_false, if_true, ht] at h
                  exact err_absurd h hc
                | some t =>
                  obtain ⟨c1, c2, c3⟩ := trailVal_some c t ht
                  cases r2 with
                  | nil =>
                    simp only [decodeUtf8, a1, a2, a3, l4, t4', ne_eq, not_false_eq_true, and_self, if_false, if_true, ht] at h
                    exact err_absurd h hc
                  | cons d r3 =>
                    cases ht' : trailVal d with
                    | none =>
                      simp only [decodeUtf8, a1, a2, a3, l4, t4', ne_eq, not_false_eq_true, and_self, if_false, if_true, ht, ht'] at h
                      exact err_absurd h hc
                    | some t' =>
                      obtain ⟨d1, d2, d3⟩ := trailVal_some d t' ht'
                      rw [Utf.dec4 a b c d t t' r3 (by omega) l4 t4' ht ht',
                        and_mask b 6 _ (by decide), shl_or _ _ (by omega), shl_or _ _ (by omega),
                        shl_or _ _ (by omega)] at h
                      have e64 : b % 2 ^ 6 = b - 0x80 := by omega
                      rw [e64] at h
                      have x1 : ¬ (((a - 0xf0) * 64 + (b - 0x80)) * 64 + t) * 64 + t' < 0x80 := by omega
                      have x2 : ¬ (((a - 0xf0) * 64 + (b - 0x80)) * 64 + t) * 64 + t' < 0x800 := by omega
                      have x3 : ¬ (((a - 0xf0) * 64 + (b - 0x80)) * 64 + t) * 64 + t' < 0x10000 := by omega
                      refine sound_finish _ _ cp n 4 h ?_ ?_ ?_
                      · constructor <;> omega
                      · simp only [encodeUtf8, x1, x2, x3, if_false, List.take_succ_cons, List.take_zero]
                        congr 1
                        · omega
                        · congr 1
                          · omega
                          · congr 1
                            · omega
                            · congr 1; omega
                      · simp [encodeUtf8, x1, x2, x3]
            · simp only [decodeUtf8, a1, a2, a3, t4, if_false, if_true] at h
              exact err_absurd h hc
        · by_cases a4 : a ≥ 0xc2
          · -- two-byte class
            cases ht : trailVal b with
            | none =>
              simp only [decodeUtf8, a1, a2, a4, if_false, if_true, ht] at h
              exact err_absurd h hc
            | some t =>
              obtain ⟨b1, b2, b3⟩ := trailVal_some b t ht
              rw [Utf.dec2 a b t r1 a4 (by omega) ht, and_mask a 5 _ (by decide), shl_or _ _ (by omega)] at h
              have e32 : a % 2 ^ 5 = a - 0xC0 := by omega
              rw [e32] at h
              have x1 : ¬ (a - 0xC0) * 64 + t < 0x80 := by omega
              have x2 : (a - 0xC0) * 64 + t < 0x800 := by omega
              refine sound_finish _ _ cp n 2 h ?_ ?_ ?_
              · constructor <;> omega
              · simp only [encodeUtf8, x1, x2, if_false, if_true, List.take_succ_cons, List.take_zero]
                congr 1
                · omega
                · congr 1; omega
              · simp [encodeUtf8, x1, x2]
          · simp only [decodeUtf8, a1, a2, a4, if_false] at h
            exact err_absurd h hc

/-- `utf8_decode_exact`: on byte strings, the port returns `(c, n)` exactly when `c` is a Unicode scalar
value whose UTF-8 encoding is a prefix of the input and `n` is the length of that encoding. -/
theorem utf8_decode_exact (s : List Nat) (hb : ∀ b ∈ s, b < 256) (c n : Nat) :
    decodeUtf8 s = ((c : Int), n) ↔ Scalar c ∧ encodeUtf8 c <+: s ∧ n = (encodeUtf8 c).length := by
  constructor
  · intro h
    have hne : (c : Int) ≠ DECODE_ERROR := by unfold DECODE_ERROR; omega
    obtain ⟨c', e, hs, ht, hl⟩ := utf8_decode_sound s hb c n h hne
    have : c = c' := by omega
    subst this
    exact ⟨hs, ht ▸ List.take_prefix n s, hl⟩
  · rintro ⟨hs, ⟨rest, rfl⟩, rfl⟩
    exact utf8_decode_encode c hs rest

/-- `utf8_decode_injective`: two byte strings from which the port reads the same code point begin with the
same bytes (those of the one encoding of that code point) and give the same size. -/
theorem utf8_decode_injective (s1 s2 : List Nat) (h1 : ∀ b ∈ s1, b < 256) (h2 : ∀ b ∈ s2, b < 256)
    (cp : Int) (n1 n2 : Nat) (d1 : decodeUtf8 s1 = (cp, n1)) (d2 : decodeUtf8 s2 = (cp, n2))
    (hc : cp ≠ DECODE_ERROR) : n1 = n2 ∧ s1.take n1 = s2.take n2 := by
  obtain ⟨c1, e1, _, t1, l1⟩ := utf8_decode_sound s1 h1 cp n1 d1 hc
  obtain ⟨c2, e2, _, t2, l2⟩ := utf8_decode_sound s2 h2 cp n2 d2 hc
  have : c1 = c2 := by omega
  subst this
  exact ⟨by rw [l1, l2], by rw [t1, t2]⟩

/-- Non-vacuity: a well-formed 4-byte sequence followed by junk; and the premises of the rejections:
the overlong `C0 80`, `E0 80 80`, `F0 80 80 80`, the surrogate `ED A0 80` and `F4 90 80 80` (> U+10FFFF) are
all errors. -/
example : decodeUtf8 [0xF0, 0x9D, 0x92, 0xB3, 0xFF] = (0x1D4B3, 4) ∧
    (∀ b ∈ [0xF0, 0x9D, 0x92, 0xB3, 0xFF], b < 256) ∧
    (decodeUtf8 [0xC0, 0x80]).1 = DECODE_ERROR ∧ (decodeUtf8 [0xE0, 0x80, 0x80]).1 = DECODE_ERROR ∧
    (decodeUtf8 [0xF0, 0x80, 0x80, 0x80]).1 = DECODE_ERROR ∧ (decodeUtf8 [0xED, 0xA0, 0x80]).1 = DECODE_ERROR ∧
    (decodeUtf8 [0xF4, 0x90, 0x80, 0x80]).1 = DECODE_ERROR := by decide

end TsVerif.C09
