import TsVerif.Common.Tree
import TsVerif.C09.Model
/-!
# C09 judge — the tree of a drive against the tree of the canonical drive

UTF-8 drives: every field the runtime keeps in a node must be equal (symbol, padding and size in
bytes/rows/columns, look-ahead bytes, parse state, all flags, error cost, child counts, dynamic
precedence, production id, first leaf, external scanner state).  UTF-16 drives: the same except that
byte offsets are compared under the unit map (UTF-8 offset ↦ UTF-16 byte offset); columns,
look-ahead bytes and the numeric value of the error cost (it counts skipped BYTES, hence depends on
the encoding by design) are not compared — only whether the cost is zero.
-/
namespace TsVerif.C09
open TsGen TsVerif

def sameData (a b : NodeData) : Bool :=
  a.symbol == b.symbol && decide (a.padding = b.padding) && decide (a.size = b.size) &&
  a.lookahead == b.lookahead && a.parseState == b.parseState && a.visible == b.visible &&
  a.named == b.named && a.extra == b.extra && a.hasChanges == b.hasChanges &&
  a.isMissing == b.isMissing && a.isKeyword == b.isKeyword && a.fragileLeft == b.fragileLeft &&
  a.fragileRight == b.fragileRight && a.hasExternalTokens == b.hasExternalTokens &&
  a.extStateChange == b.extStateChange && a.dependsOnColumn == b.dependsOnColumn &&
  a.isInline == b.isInline && a.errorCost == b.errorCost &&
  a.visibleChildCount == b.visibleChildCount && a.namedChildCount == b.namedChildCount &&
  a.visibleDescendantCount == b.visibleDescendantCount && a.dynamicPrecedence == b.dynamicPrecedence &&
  a.repeatDepth == b.repeatDepth && a.productionId == b.productionId &&
  a.firstLeafSymbol == b.firstLeafSymbol && a.firstLeafState == b.firstLeafState && a.ext == b.ext

/-- Fields compared for a UTF-16 drive (positions are compared separately under the unit map). -/
def sameData16 (a b : NodeData) : Bool :=
  a.symbol == b.symbol && a.parseState == b.parseState && a.visible == b.visible &&
  a.named == b.named && a.extra == b.extra && a.isMissing == b.isMissing && a.isKeyword == b.isKeyword &&
  a.hasExternalTokens == b.hasExternalTokens && (a.errorCost == 0) == (b.errorCost == 0) &&
  a.visibleChildCount == b.visibleChildCount && a.namedChildCount == b.namedChildCount &&
  a.visibleDescendantCount == b.visibleDescendantCount && a.dynamicPrecedence == b.dynamicPrecedence &&
  a.productionId == b.productionId && a.firstLeafSymbol == b.firstLeafSymbol &&
  a.padding.extent.row == b.padding.extent.row && a.size.extent.row == b.size.extent.row

mutual
  /-- The tree as the node API shows it, up to aliases: preorder list of the nodes whose symbol is
  visible, with their byte and point ranges, flags and parse state.  Hidden nodes (e.g. the auxiliary
  repeat nodes that `ts_parser__balance_subtree` rotates) do not appear. -/
  def visibleList (t : Tree) (off : Length) : List (Nat × Length × Length × Bool × Bool × Bool × Nat) :=
    match t with
    | .mk d kids =>
      let s := length_add off d.padding
      let e := length_add s d.size
      let rest := visibleKids kids off
      if d.visible then (d.symbol, s, e, d.named, d.extra, d.isMissing, d.parseState) :: rest else rest
  def visibleKids (ks : List Tree) (off : Length) : List (Nat × Length × Length × Bool × Bool × Bool × Nat) :=
    match ks with
    | [] => []
    | k :: rest => visibleList k off ++ visibleKids rest (length_add off k.totalSize)
end

def mapOff (m : List (Nat × Nat)) (p : Nat) : Option Nat := (m.find? (·.1 == p)).map (·.2)

mutual
  /-- Equal in everything but the parse states recorded in the nodes (`parse_state`, `first_leaf.parse_state`)
  and the fragility marks that go with a `TS_TREE_STATE_NONE` state (`fragile_left/right`)? -/
  def sameModuloStates : Tree → Tree → Bool
    | .mk da ka, .mk db kb =>
      sameData { da with parseState := 0, firstLeafState := 0, fragileLeft := false, fragileRight := false }
        { db with parseState := 0, firstLeafState := 0, fragileLeft := false, fragileRight := false } &&
      sameModuloStatesL ka kb
  def sameModuloStatesL : List Tree → List Tree → Bool
    | [], [] => true
    | a :: ra, b :: rb => sameModuloStates a b && sameModuloStatesL ra rb
    | _, _ => false
end

mutual
  /-- First difference between the canonical tree `a` and the drive's tree `b`;
  `m = none`: identical fields; `m = some map`: UTF-16 drive. -/
  def diffTree (m : Option (List (Nat × Nat))) (a b : Tree) (off offB : Nat) : Option String :=
    match a, b with
    | .mk da ka, .mk db kb =>
      let sa := off + da.padding.bytes
      let ea := sa + da.size.bytes
      match m with
      | none =>
        if !sameData da db then some s!"node at bytes [{sa},{ea}) (symbol {da.symbol}) differs from the drive's node (symbol {db.symbol}, bytes [{offB + db.padding.bytes},{offB + db.padding.bytes + db.size.bytes}))"
        else if ka.length != kb.length then some s!"node at [{sa},{ea}): {ka.length} vs {kb.length} children"
        else diffKids m ka kb off offB
      | some mp =>
        let sb := offB + db.padding.bytes
        let eb := sb + db.size.bytes
        if !sameData16 da db then some s!"node at bytes [{sa},{ea}) (symbol {da.symbol}) differs from the UTF-16 drive's node (symbol {db.symbol})"
        else if ka.length != kb.length then some s!"node at [{sa},{ea}): {ka.length} vs {kb.length} children"
        else if mapOff mp sa != some sb || mapOff mp ea != some eb then
          some s!"node at UTF-8 bytes [{sa},{ea}) is at UTF-16 bytes [{sb},{eb}), the unit map gives [{mapOff mp sa},{mapOff mp ea})"
        else diffKids m ka kb off offB
  def diffKids (m : Option (List (Nat × Nat))) (ka kb : List Tree) (off offB : Nat) : Option String :=
    match ka, kb with
    | a :: ra, b :: rb =>
      match diffTree m a b off offB with
      | some d => some d
      | none => diffKids m ra rb (off + a.totalBytes) (offB + b.totalBytes)
    | _, _ => none
end

end TsVerif.C09
