import TsVerif.C09.Model
/-!
# C09 — lemmas about the `U8_NEXT` port
-/
namespace TsVerif.Utf

theorem decode16_bmp (be : Bool) (a b : Nat) (rest : List Nat)
    (h : ¬ (0xD800 ≤ unit16 be a b ∧ unit16 be a b < 0xDC00)) (sw : Bool) :
    decodeUtf16 be (a :: b :: rest) sw = (((unit16 be a b : Nat) : Int), 2) := by
  simp only [decodeUtf16, h, if_false]

theorem decode16_pair (be : Bool) (a b a2 b2 : Nat) (rest : List Nat)
    (h : 0xD800 ≤ unit16 be a b ∧ unit16 be a b < 0xDC00)
    (h2 : 0xDC00 ≤ unit16 be a2 b2 ∧ unit16 be a2 b2 < 0xE000) :
    decodeUtf16 be (a :: b :: a2 :: b2 :: rest) true =
      (((unit16 be a b * 1024 + unit16 be a2 b2 - SURROGATE_OFFSET : Nat) : Int), 4) := by
  simp only [decodeUtf16, h, h2, and_self, if_true]

theorem unit16_bytes (be : Bool) (u : Nat) :
    (if be then unit16 be (u / 256) (u % 256) else unit16 be (u % 256) (u / 256)) = u := by
  cases be <;> simp [unit16] <;> omega

theorem and_mask (x n : Nat) (m : Nat) (hm : m = 2 ^ n - 1) : x &&& m = x % 2 ^ n := by
  subst hm; exact Nat.and_two_pow_sub_one_eq_mod x n

theorem shl_or (a b : Nat) (h : b < 64) : a <<< 6 ||| b = a * 64 + b := by
  rw [← Nat.shiftLeft_add_eq_or_of_lt (i := 6) (by simpa using h) a, Nat.shiftLeft_eq]

theorem trailVal_enc (k : Nat) (h : k < 64) : trailVal (0x80 + k) = some k := by
  unfold trailVal
  have : 0x80 ≤ 0x80 + k ∧ 0x80 + k ≤ 0xbf := by omega
  rw [if_pos this]
  have e : 0x80 + k - 0x80 = k := by omega
  rw [e]

theorem table3 : ∀ l, l < 16 → ∀ k, k < 64 → (l = 0 → 32 ≤ k) → (l = 13 → k < 32) →
    (lead3T1Bits.getD l 0) &&& (1 <<< ((0x80 + k) >>> 5)) ≠ 0 := by decide

theorem table4 : ∀ l, l < 5 → ∀ k, k < 64 → (l = 0 → 16 ≤ k) → (l = 4 → k < 16) →
    (lead4T1Bits.getD ((0x80 + k) >>> 4) 0) &&& (1 <<< l) ≠ 0 := by decide

theorem dec2 (a b t : Nat) (rest : List Nat) (h1 : 0xC2 ≤ a) (h2 : a < 0xE0) (ht : trailVal b = some t) :
    decodeUtf8 (a :: b :: rest) = ((((a &&& 0x1f) <<< 6 ||| t : Nat) : Int), 2) := by
  have n1 : ¬ a < 0x80 := by omega
  have n2 : ¬ a ≥ 0xe0 := by omega
  have n3 : a ≥ 0xc2 := h1
  simp only [decodeUtf8, n1, n2, n3, if_false, if_true, ht]

theorem dec3 (a b c t : Nat) (rest : List Nat) (h1 : 0xE0 ≤ a) (h2 : a < 0xF0)
    (hb : (lead3T1Bits.getD (a &&& 0xf) 0) &&& (1 <<< (b >>> 5)) ≠ 0) (ht : trailVal c = some t) :
    decodeUtf8 (a :: b :: c :: rest) = ((((((a &&& 0xf) <<< 6) ||| (b &&& 0x3f)) <<< 6 ||| t : Nat) : Int), 3) := by
  have n1 : ¬ a < 0x80 := by omega
  have n2 : a ≥ 0xe0 := h1
  simp only [decodeUtf8, n1, n2, h2, hb, ne_eq, not_false_eq_true, if_false, if_true, ht]

theorem dec4 (a b c d t t' : Nat) (rest : List Nat) (h1 : 0xF0 ≤ a) (h2 : a - 0xf0 ≤ 4)
    (hb : (lead4T1Bits.getD (b >>> 4) 0) &&& (1 <<< (a - 0xf0)) ≠ 0)
    (ht : trailVal c = some t) (ht' : trailVal d = some t') :
    decodeUtf8 (a :: b :: c :: d :: rest) =
      (((((((a - 0xf0) <<< 6) ||| (b &&& 0x3f)) <<< 6 ||| t) <<< 6 ||| t' : Nat) : Int), 4) := by
  have n1 : ¬ a < 0x80 := by omega
  have n2 : a ≥ 0xe0 := by omega
  have n3 : ¬ a < 0xf0 := by omega
  have hc : a - 0xf0 ≤ 4 ∧ (lead4T1Bits.getD (b >>> 4) 0) &&& (1 <<< (a - 0xf0)) ≠ 0 := ⟨h2, hb⟩
  simp only [decodeUtf8, n1, n2, n3, hc, ne_eq, not_false_eq_true, and_self, if_false, if_true, ht, ht']

theorem decodeSeq_encode (dec : List Nat → Int × Nat) (enc : Nat → List Nat)
    (hdec : ∀ c rest, Scalar c → dec (enc c ++ rest) = ((c : Int), (enc c).length))
    (hne : ∀ c, enc c ≠ []) :
    ∀ (cs : List Nat) (fuel : Nat), (∀ c ∈ cs, Scalar c) → cs.length ≤ fuel →
      decodeSeq dec fuel (cs.flatMap enc) = cs.map (fun (c : Nat) => ((c : Int), (enc c).length))
  | [], fuel, _, _ => by cases fuel <;> simp [decodeSeq]
  | c :: cs, 0, _, hl => by simp at hl
  | c :: cs, fuel + 1, hs, hl => by
    have hc := hs c (by simp)
    have hne' : (enc c ++ cs.flatMap enc).isEmpty = false := by
      cases h : enc c with
      | nil => exact absurd h (hne c)
      | cons a b => rfl
    simp only [List.flatMap_cons, decodeSeq, hne', Bool.false_eq_true, if_false, List.map_cons]
    rw [hdec c _ hc]
    simp only [List.drop_left']
    rw [decodeSeq_encode dec enc hdec hne cs fuel (fun x hx => hs x (List.mem_cons_of_mem _ hx)) (by simpa using hl)]

end TsVerif.Utf

namespace TsVerif.C09
open TsVerif.Utf TsVerif.Lex

/-- The decoder never looks beyond four bytes. -/
theorem decode_take4 (a b c d : Nat) (rest : List Nat) :
    decodeUtf8 (a :: b :: c :: d :: rest) = decodeUtf8 [a, b, c, d] := rfl

theorem decode_ext1 (a : Nat) (t : List Nat) (cp : Int) (n : Nat)
    (h : decodeUtf8 [a] = (cp, n)) (hc : cp ≠ DECODE_ERROR) : decodeUtf8 (a :: t) = (cp, n) := by
  unfold decodeUtf8 at h ⊢
  simp only at h ⊢
  split at h
  · simp_all
  · exact absurd (Prod.mk.inj h).1.symm hc

theorem decode_ext2 (a b : Nat) (t : List Nat) (cp : Int) (n : Nat)
    (h : decodeUtf8 [a, b] = (cp, n)) (hc : cp ≠ DECODE_ERROR) : decodeUtf8 (a :: b :: t) = (cp, n) := by
  unfold decodeUtf8 at h ⊢
  simp only at h ⊢
  repeat' split at h
  all_goals first
    | exact absurd (Prod.mk.inj h).1.symm hc
    | (simp_all; done)
    | (simp_all; repeat' split) <;> first | rfl | omega | (simp_all; done)

theorem decode_ext3 (a b c : Nat) (t : List Nat) (cp : Int) (n : Nat)
    (h : decodeUtf8 [a, b, c] = (cp, n)) (hc : cp ≠ DECODE_ERROR) : decodeUtf8 (a :: b :: c :: t) = (cp, n) := by
  unfold decodeUtf8 at h ⊢
  simp only at h ⊢
  repeat' split at h
  all_goals first
    | exact absurd (Prod.mk.inj h).1.symm hc
    | (simp_all; done)
    | (simp_all; repeat' split) <;> first | rfl | omega | (simp_all; done)

/-- Prefix stability: a sequence that decodes to a character decodes to the same character (and
size) whatever follows it. -/
theorem decode_prefix_stable (p s : List Nat) (hp : p <+: s) (cp : Int) (n : Nat)
    (h : decodeUtf8 p = (cp, n)) (hc : cp ≠ DECODE_ERROR) : decodeUtf8 s = (cp, n) := by
  obtain ⟨t, rfl⟩ := hp
  match p, h with
  | [], h => simp [decodeUtf8] at h; exact absurd h.1.symm hc
  | [a], h => exact decode_ext1 a t cp n h hc
  | [a, b], h => exact decode_ext2 a b t cp n h hc
  | [a, b, c], h => exact decode_ext3 a b c t cp n h hc
  | a :: b :: c :: d :: r, h =>
    have e1 : decodeUtf8 (a :: b :: c :: d :: r ++ t) = decodeUtf8 [a, b, c, d] := rfl
    have e2 : decodeUtf8 (a :: b :: c :: d :: r) = decodeUtf8 [a, b, c, d] := rfl
    rw [e1, ← e2]; exact h

/-- With at least four bytes the verdict does not depend on what follows. -/
theorem decode_ge4 (p s : List Nat) (hp : p <+: s) (h4 : 4 ≤ p.length) : decodeUtf8 s = decodeUtf8 p := by
  obtain ⟨t, rfl⟩ := hp
  match p, h4 with
  | a :: b :: c :: d :: r, _ => rfl

/-- A successful decode consumed at least one and at most all of the bytes. -/
theorem decode_ok_size (s : List Nat) (cp : Int) (n : Nat) (h : decodeUtf8 s = (cp, n)) (hc : cp ≠ DECODE_ERROR) :
    1 ≤ n ∧ n ≤ s.length := by
  match s with
  | [] => simp [decodeUtf8] at h; exact absurd h.1.symm hc
  | [a] =>
    unfold decodeUtf8 at h; simp only at h
    repeat' split at h
    all_goals first
      | exact absurd (Prod.mk.inj h).1.symm hc
      | (have := (Prod.mk.inj h).2; simp; omega)
  | [a, b] =>
    unfold decodeUtf8 at h; simp only at h
    repeat' split at h
    all_goals first
      | exact absurd (Prod.mk.inj h).1.symm hc
      | (have := (Prod.mk.inj h).2; simp; omega)
  | [a, b, c] =>
    unfold decodeUtf8 at h; simp only at h
    repeat' split at h
    all_goals first
      | exact absurd (Prod.mk.inj h).1.symm hc
      | (have := (Prod.mk.inj h).2; simp; omega)
  | a :: b :: c :: d :: rest =>
    unfold decodeUtf8 at h; simp only at h
    repeat' split at h
    all_goals first
      | exact absurd (Prod.mk.inj h).1.symm hc
      | (have := (Prod.mk.inj h).2; simp; omega)
/-- An ill-formed start stays ill-formed in every non-empty prefix. -/
theorem decode_err_prefix (p s : List Nat) (hp : p <+: s) (h : (decodeUtf8 s).1 = DECODE_ERROR) :
    (decodeUtf8 p).1 = DECODE_ERROR := by
  by_cases hc : (decodeUtf8 p).1 = DECODE_ERROR
  · exact hc
  · have := decode_prefix_stable p s hp (decodeUtf8 p).1 (decodeUtf8 p).2 rfl hc
    rw [this] at h; exact absurd h hc

theorem decodeAt_chunk (read : Read) (bytes : List Nat) (pos : Nat) :
    (decodeAt read bytes pos).2.2 = none ∨ (decodeAt read bytes pos).2.2 = some (read pos) := by
  unfold decodeAt
  simp only
  split
  · exact Or.inl rfl
  · split
    · split <;> exact Or.inr rfl
    · split <;> exact Or.inl rfl

theorem drop_prefix (chunk text : List Nat) (cs pos : Nat) (h : chunk <+: text.drop cs)
    (h1 : cs ≤ pos) (h2 : pos < cs + chunk.length) :
    chunk.drop (pos - cs) <+: text.drop pos ∧ chunk.drop (pos - cs) ≠ [] := by
  obtain ⟨t, ht⟩ := h
  refine ⟨⟨t, ?_⟩, ?_⟩
  · have : (chunk ++ t).drop (pos - cs) = chunk.drop (pos - cs) ++ t :=
      List.drop_append_of_le_length (by omega)
    rw [← this, ht, List.drop_drop]
    congr 1; omega
  · intro he
    have := congrArg List.length he
    simp at this; omega

end TsVerif.C09
