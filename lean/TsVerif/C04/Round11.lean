import TsVerif.C04.Props
/-!
# C04 round 11 — SEQUENCES of `ts_range_array_add` calls (output-side clause "sorted, disjoint")

`add_sorted` (Props.lean) is about ONE call; `changed_sorted_bounded` is about the calls of the tree walk.  This file
is the layer in between, independent of any tree: what an ARBITRARY caller of `ts_range_array_add` must respect.

* `addRev_strict_iff`  — exact ONE-STEP characterisation: on a sorted/strictly separated/non-empty array the call
  `(s, e)` leaves such an array iff `keepsStrict`: "if the call touches the last range (`s ≤ last.end`) it must end
  after that range's start".  Nothing else is needed and nothing less suffices.
* `add_calls_sorted`   — ANY call sequence whose START positions never decrease and whose calls are non-empty
  (`s < e`) gives a sorted, pairwise strictly separated array without empty ranges, every end ≤ the largest end
  handed over.  The ENDS may go backwards (the array then shrinks: `shrink_witness`).
* `add_calls_wellformed` — same with `s ≤ e` only: sorted, strictly separated, `start ≤ end`; an empty range CAN
  appear (`empty_range_witness`).
* `add_calls_sound`    — UNCONDITIONAL (any call sequence at all): every reported byte was in the array before or
  lies in the span of one of the calls — `add` never invents bytes.
* `add_calls_exact`    — positions never go backwards at all (`s ≤ e`, next `s ≥` this `e`): sorted etc. AND the
  covered bytes are EXACTLY the union of the calls' spans.
* `decreasing_start_witness` — the premise on the starts cannot be dropped: `(5,6) (0,1)` yields the ill-formed
  range `[5,1)`.
-/
namespace TsVerif.C04
open TsGen

/-- The last range (head of the reversed array) starts at or before `p`. -/
def TopLe (p : Nat) : List TSRange → Prop
  | [] => True
  | last :: _ => last.start_byte ≤ p

/-- The exact condition under which one call keeps a strictly sorted array strictly sorted. -/
def keepsStrict (racc : List TSRange) (s e : Length) : Prop :=
  match racc with
  | [] => True
  | last :: _ => s.bytes ≤ last.end_byte → last.start_byte < e.bytes

/-- Start positions never decrease (from `p` on) and every call is non-empty. -/
def MonoStarts : Nat → List (Length × Length) → Prop
  | _, [] => True
  | p, (s, e) :: rest => p ≤ s.bytes ∧ s.bytes < e.bytes ∧ MonoStarts s.bytes rest

/-- Start positions never decrease and no call goes backwards (`s ≤ e`; empty calls allowed). -/
def MonoStartsW : Nat → List (Length × Length) → Prop
  | _, [] => True
  | p, (s, e) :: rest => p ≤ s.bytes ∧ s.bytes ≤ e.bytes ∧ MonoStartsW s.bytes rest

/-- Positions never go backwards at all: `s ≤ e` and the next call starts at or after this end. -/
def MonoCalls : Nat → List (Length × Length) → Prop
  | _, [] => True
  | p, (s, e) :: rest => p ≤ s.bytes ∧ s.bytes ≤ e.bytes ∧ MonoCalls e.bytes rest

/-- Largest end of an array. -/
def maxEnd : List TSRange → Nat
  | [] => 0
  | r :: t => max r.end_byte (maxEnd t)

theorem le_maxEnd : ∀ (l : List TSRange) (r : TSRange), r ∈ l → r.end_byte ≤ maxEnd l
  | [], _, h => by cases h
  | a :: t, r, h => by
    simp only [maxEnd]
    rcases List.mem_cons.1 h with rfl | h
    · omega
    · have := le_maxEnd t r h; omega

theorem addRev_strict_iff (racc : List TSRange) (s e : Length) (hi : Nat) (h : Chain hi racc) :
    (∃ hi', Chain hi' (addRev racc s e)) ↔ keepsStrict racc s e := by
  cases racc with
  | nil =>
    simp only [keepsStrict, iff_true, addRev]
    split
    · exact ⟨e.bytes + 1, by simp [Chain, mkRange]; omega⟩
    · exact ⟨0, by simp [Chain]⟩
  | cons last rest =>
    obtain ⟨a, b, c⟩ := h
    simp only [keepsStrict, addRev]
    by_cases h1 : s.bytes ≤ last.end_byte
    · simp only [h1, if_true, forall_const]
      constructor
      · rintro ⟨hi', a', _, _⟩
        simpa using a'
      · intro h2
        exact ⟨e.bytes + 1, by simpa using h2, by simp, c⟩
    · simp only [h1, if_false, false_imp_iff, iff_true]
      split
      · exact ⟨e.bytes + 1, by simp [mkRange]; omega, by simp [mkRange], a, by simp [mkRange]; omega, c⟩
      · exact ⟨hi, a, b, c⟩

theorem addRev_monoStart (racc : List TSRange) (s e : Length) (hi p : Nat) (h : Chain hi racc)
    (ht : TopLe p racc) (hp : p ≤ s.bytes) (hse : s.bytes < e.bytes) :
    Chain (max hi (e.bytes + 1)) (addRev racc s e) ∧ TopLe s.bytes (addRev racc s e) := by
  cases racc with
  | nil =>
    simp only [addRev, hse, if_true]
    exact ⟨⟨by simpa [mkRange] using hse, by simp [mkRange]; omega, trivial⟩, by simp [TopLe, mkRange]⟩
  | cons last rest =>
    obtain ⟨a, b, c⟩ := h
    simp only [TopLe] at ht
    simp only [addRev]
    split
    · exact ⟨⟨by simp; omega, by simp; omega, c⟩, by simp [TopLe]; omega⟩
    · exact ⟨⟨by simpa [mkRange] using hse, by simp [mkRange]; omega, a, by simp [mkRange]; omega, c⟩,
        by simp [TopLe, mkRange]⟩

theorem addRev_monoStartW (racc : List TSRange) (s e : Length) (hi p : Nat) (h : WChain hi racc)
    (ht : TopLe p racc) (hp : p ≤ s.bytes) (hse : s.bytes ≤ e.bytes) :
    WChain (max hi (e.bytes + 1)) (addRev racc s e) ∧ TopLe s.bytes (addRev racc s e) := by
  cases racc with
  | nil =>
    simp only [addRev]
    split
    · exact ⟨⟨by simpa [mkRange] using hse, by simp [mkRange]; omega, trivial⟩, by simp [TopLe, mkRange]⟩
    · exact ⟨trivial, trivial⟩
  | cons last rest =>
    obtain ⟨a, b, c⟩ := h
    simp only [TopLe] at ht
    simp only [addRev]
    split
    · exact ⟨⟨by simp; omega, by simp; omega, c⟩, by simp [TopLe]; omega⟩
    · split
      · exact ⟨⟨by simpa [mkRange] using hse, by simp [mkRange]; omega, a, by simp [mkRange]; omega, c⟩,
          by simp [TopLe, mkRange]⟩
      · exact ⟨⟨a, by omega, c⟩, by simp [TopLe]; omega⟩

theorem foldAdd_monoStarts : ∀ (tr : List (Length × Length)) (racc : List TSRange) (hi p : Nat),
    Chain hi racc → TopLe p racc → MonoStarts p tr → Chain (max hi (traceBound tr + 1)) (foldAdd racc tr)
  | [], racc, hi, p, hc, _, _ => by
    simpa [foldAdd, traceBound] using Chain.mono (by omega) hc
  | (s, e) :: rest, racc, hi, p, hc, ht, hm => by
    obtain ⟨h1, h2, h3⟩ := hm
    have st := addRev_monoStart racc s e hi p hc ht h1 h2
    have ih := foldAdd_monoStarts rest (addRev racc s e) _ s.bytes st.1 st.2 h3
    simp only [foldAdd, List.foldl_cons, traceBound]
    exact Chain.mono (by omega) ih

theorem foldAdd_monoStartsW : ∀ (tr : List (Length × Length)) (racc : List TSRange) (hi p : Nat),
    WChain hi racc → TopLe p racc → MonoStartsW p tr → WChain (max hi (traceBound tr + 1)) (foldAdd racc tr)
  | [], racc, hi, p, hc, _, _ => by
    simpa [foldAdd, traceBound] using WChain.mono (by omega) hc
  | (s, e) :: rest, racc, hi, p, hc, ht, hm => by
    obtain ⟨h1, h2, h3⟩ := hm
    have st := addRev_monoStartW racc s e hi p hc ht h1 h2
    have ih := foldAdd_monoStartsW rest (addRev racc s e) _ s.bytes st.1 st.2 h3
    simp only [foldAdd, List.foldl_cons, traceBound]
    exact WChain.mono (by omega) ih

/-- One call never invents bytes (no premise at all). -/
theorem addRev_sound (racc : List TSRange) (s e : Length) (x : Nat) (hx : mem (addRev racc s e) x) :
    mem racc x ∨ (s.bytes ≤ x ∧ x < e.bytes) := by
  cases racc with
  | nil =>
    simp only [addRev] at hx
    split at hx
    · simpa [mkRange] using hx
    · simp at hx
  | cons last rest =>
    simp only [addRev] at hx
    split at hx
    · rcases (mem_cons _ _ _).1 hx with h1 | h1
      · simp at h1
        by_cases hl : x < last.end_byte
        · exact Or.inl ((mem_cons _ _ _).2 (Or.inl ⟨h1.1, hl⟩))
        · exact Or.inr ⟨by omega, h1.2⟩
      · exact Or.inl ((mem_cons _ _ _).2 (Or.inr h1))
    · split at hx
      · rcases (mem_cons _ _ _).1 hx with h1 | h1
        · exact Or.inr (by simpa [mkRange] using h1)
        · exact Or.inl h1
      · exact Or.inl hx

theorem foldAdd_sound : ∀ (tr : List (Length × Length)) (racc : List TSRange) (x : Nat),
    mem (foldAdd racc tr) x → mem racc x ∨ ∃ c ∈ tr, c.1.bytes ≤ x ∧ x < c.2.bytes
  | [], racc, x, h => Or.inl (by simpa [foldAdd] using h)
  | (s, e) :: rest, racc, x, h => by
    simp only [foldAdd, List.foldl_cons] at h
    rcases foldAdd_sound rest (addRev racc s e) x h with h1 | ⟨c, hc, h1⟩
    · rcases addRev_sound racc s e x h1 with h2 | h2
      · exact Or.inl h2
      · exact Or.inr ⟨(s, e), by simp, h2⟩
    · exact Or.inr ⟨c, List.mem_cons_of_mem _ hc, h1⟩

theorem foldAdd_monoCalls : ∀ (tr : List (Length × Length)) (racc : List TSRange) (p : Nat),
    Chain (p + 1) racc → MonoCalls p tr →
    (∃ hi, Chain hi (foldAdd racc tr)) ∧
    ∀ x, mem (foldAdd racc tr) x ↔ (mem racc x ∨ ∃ c ∈ tr, c.1.bytes ≤ x ∧ x < c.2.bytes)
  | [], racc, p, hc, _ => ⟨⟨p + 1, by simpa [foldAdd] using hc⟩, fun x => by simp [foldAdd]⟩
  | (s, e) :: rest, racc, p, hc, hm => by
    obtain ⟨h1, h2, h3⟩ := hm
    have st := addRev_spec racc s e (Chain.mono (by omega) hc) h2
    have ih := foldAdd_monoCalls rest (addRev racc s e) e.bytes st.1 h3
    simp only [foldAdd, List.foldl_cons]
    refine ⟨ih.1, fun x => ?_⟩
    have ihx := ih.2 x
    simp only [foldAdd] at ihx
    rw [ihx, st.2 x]
    constructor
    · rintro ((h | h) | ⟨c, hc, h⟩)
      · exact Or.inl h
      · exact Or.inr ⟨(s, e), by simp, h⟩
      · exact Or.inr ⟨c, List.mem_cons_of_mem _ hc, h⟩
    · rintro (h | ⟨c, hc, h⟩)
      · exact Or.inl (Or.inl h)
      · rcases List.mem_cons.1 hc with rfl | hc
        · exact Or.inl (Or.inr h)
        · exact Or.inr ⟨c, hc, h⟩

/-! ## The statements in C order (array as `ts_range_array_add` leaves it) -/

/-- The array after the calls `tr` on an initially empty array, in C order. -/
def addCalls (tr : List (Length × Length)) : List TSRange := (foldAdd [] tr).reverse

/-- `add_calls_sorted`: for ANY sequence of `ts_range_array_add` calls on an empty array whose start positions never
decrease and whose calls are non-empty, the array is sorted, pairwise strictly separated, free of empty ranges, and
every range ends at or before the largest end handed over. -/
theorem add_calls_sorted (tr : List (Length × Length)) (h : MonoStarts 0 tr) :
    StrictSorted (addCalls tr) ∧ ∀ r ∈ addCalls tr, r.end_byte ≤ traceBound tr := by
  have hk := foldAdd_monoStarts tr [] 0 0 (by simp [Chain]) trivial h
  refine ⟨hk.strictSorted, fun r hr => ?_⟩
  have := (Chain.below hk r (List.mem_reverse.1 hr)).2
  omega

/-- `add_calls_wellformed`: the same with calls that may be empty (`s ≤ e`): sorted, strictly separated,
`start ≤ end` (an empty range can appear: `empty_range_witness`). -/
theorem add_calls_wellformed (tr : List (Length × Length)) (h : MonoStartsW 0 tr) :
    WeakSorted (addCalls tr) ∧ ∀ r ∈ addCalls tr, r.end_byte ≤ traceBound tr := by
  have hk := foldAdd_monoStartsW tr [] 0 0 (by simp [WChain]) trivial h
  refine ⟨hk.weakSorted, fun r hr => ?_⟩
  have := (WChain.below hk r (List.mem_reverse.1 hr)).2
  omega

/-- `add_calls_sound`: for EVERY call sequence (no premise) each reported byte lies in the span of one of the calls. -/
theorem add_calls_sound (tr : List (Length × Length)) (x : Nat) (hx : mem (addCalls tr) x) :
    ∃ c ∈ tr, c.1.bytes ≤ x ∧ x < c.2.bytes := by
  rcases foldAdd_sound tr [] x ((mem_reverse _ x).1 hx) with h | h
  · simp at h
  · exact h

/-- `add_calls_exact`: if positions never go backwards (each call has `s ≤ e`, the next starts at or after this end)
the array is sorted, strictly separated, without empty ranges, and covers EXACTLY the union of the calls' spans. -/
theorem add_calls_exact (tr : List (Length × Length)) (h : MonoCalls 0 tr) :
    StrictSorted (addCalls tr) ∧
    ∀ x, mem (addCalls tr) x ↔ ∃ c ∈ tr, c.1.bytes ≤ x ∧ x < c.2.bytes := by
  have hk := foldAdd_monoCalls tr [] 0 (by simp [Chain]) h
  obtain ⟨⟨hi, hc⟩, hm⟩ := hk
  refine ⟨hc.strictSorted, fun x => ?_⟩
  unfold addCalls
  rw [mem_reverse, hm x]
  simp

/-- `add_step_exact`: on a sorted/strictly separated/non-empty array one call leaves such an array IFF it satisfies
`keepsStrict` (when it touches the last range it ends after that range's start). -/
theorem add_step_exact (arr : List TSRange) (s e : Length) (hs : StrictSorted arr) :
    StrictSorted (add arr s e) ↔ keepsStrict arr.reverse s e := by
  have hc : Chain (maxEnd arr.reverse + 1) arr.reverse :=
    chain_of_strictSorted (by simpa using hs) (fun r hr => by have := le_maxEnd _ r hr; omega)
  rw [← addRev_strict_iff arr.reverse s e _ hc]
  constructor
  · intro h
    exact ⟨maxEnd (addRev arr.reverse s e) + 1,
      chain_of_strictSorted (by simpa [add] using h) (fun r hr => by have := le_maxEnd _ r hr; omega)⟩
  · rintro ⟨hi', h⟩
    exact h.strictSorted

/-! ## The exact premise on a whole call sequence -/

/-- Every call satisfies the one-step condition for the array built so far. -/
def KeepsAll : List TSRange → List (Length × Length) → Prop
  | _, [] => True
  | racc, (s, e) :: rest => keepsStrict racc s e ∧ KeepsAll (addRev racc s e) rest

theorem chain_iff_strictSorted (l : List TSRange) : (∃ hi, Chain hi l) ↔ StrictSorted l.reverse :=
  ⟨fun ⟨_, h⟩ => h.strictSorted,
   fun h => ⟨maxEnd l + 1, chain_of_strictSorted h (fun r hr => by have := le_maxEnd _ r hr; omega)⟩⟩

theorem foldAdd_prefixes_iff : ∀ (tr : List (Length × Length)) (racc : List TSRange),
    (∀ n, ∃ hi, Chain hi (foldAdd racc (tr.take n))) ↔ ((∃ hi, Chain hi racc) ∧ KeepsAll racc tr)
  | [], racc => by simp [foldAdd, KeepsAll]
  | (s, e) :: rest, racc => by
    have ih := foldAdd_prefixes_iff rest (addRev racc s e)
    constructor
    · intro h
      have h0 : ∃ hi, Chain hi racc := by simpa [foldAdd] using h 0
      have hs : ∀ n, ∃ hi, Chain hi (foldAdd (addRev racc s e) (rest.take n)) := fun n => by
        simpa [foldAdd] using h (n + 1)
      obtain ⟨h1, h2⟩ := ih.1 hs
      obtain ⟨hi, hc⟩ := h0
      exact ⟨⟨hi, hc⟩, (addRev_strict_iff racc s e hi hc).1 h1, h2⟩
    · rintro ⟨⟨hi, hc⟩, hk, hr⟩ n
      cases n with
      | zero => exact ⟨hi, by simpa [foldAdd] using hc⟩
      | succ n =>
        have := ih.2 ⟨(addRev_strict_iff racc s e hi hc).2 hk, hr⟩ n
        simpa [foldAdd] using this

/-- `add_calls_strict_iff` — the EXACT premise: after every prefix of the call sequence the array is sorted, strictly
separated and free of empty ranges IFF every call satisfies `keepsStrict` for the array built so far (a call that
touches the last range must end after that range's start).  Monotone starts + non-empty calls (`add_calls_sorted`)
is a sufficient, position-only condition; it is not necessary (`(2,11) (11,6) (6,11)`-like real traces). -/
theorem add_calls_strict_iff (tr : List (Length × Length)) :
    (∀ n, StrictSorted (addCalls (tr.take n))) ↔ KeepsAll [] tr := by
  have := foldAdd_prefixes_iff tr []
  simp only [chain_iff_strictSorted] at this
  rw [show (∀ n, StrictSorted (addCalls (tr.take n))) ↔ ∀ n, StrictSorted (foldAdd [] (tr.take n)).reverse from Iff.rfl,
    this]
  simp [StrictSorted]

/-- Non-vacuity: a call sequence with a DECREASING start that still satisfies the exact premise. -/
example : KeepsAll [] [(⟨2,⟨0,2⟩⟩, ⟨11,⟨0,11⟩⟩), (⟨1,⟨0,1⟩⟩, ⟨6,⟨0,6⟩⟩)] ∧
    ¬ MonoStartsW 0 [(⟨2,⟨0,2⟩⟩, ⟨11,⟨0,11⟩⟩), ((⟨1,⟨0,1⟩⟩ : Length), (⟨6,⟨0,6⟩⟩ : Length))] := by
  simp [KeepsAll, keepsStrict, addRev, MonoStartsW, mkRange]

/-! ## The tree walk: what is reported is exactly what the walk flagged -/

theorem changed_ranges_eq (al : AliasTable) (fixed : Bool) (old new : Tree) (diffs : List TSRange) :
    (changedRanges al fixed old new diffs).ranges =
      addCalls ((changedRanges al fixed old new diffs).main ++ (changedRanges al fixed old new diffs).post) := by
  unfold addCalls
  rw [← foldAdd_append]; rfl

/-- `changed_ranges_sound` — for ALL tree pairs, alias tables and difference lists, with NO premise (not even sized
trees or `entryOK`): every byte reported by `ts_subtree_get_changed_ranges` lies in a span that the walk handed to
`ts_range_array_add` (the pre-call, an iteration that compared *Differs*, or the post-call).  The merging in
`ts_range_array_add` never makes the function report a byte the walk did not flag. -/
theorem changed_ranges_sound (al : AliasTable) (fixed : Bool) (old new : Tree) (diffs : List TSRange) (x : Nat)
    (hx : mem (changedRanges al fixed old new diffs).ranges x) :
    ∃ c ∈ (changedRanges al fixed old new diffs).main ++ (changedRanges al fixed old new diffs).post,
      c.1.bytes ≤ x ∧ x < c.2.bytes := by
  rw [changed_ranges_eq] at hx
  exact add_calls_sound _ x hx

/-- `changed_ranges_exact` — for ALL pairs of sized trees with `entryOK` (premises of `changed_sorted_bounded`): the
reported bytes are EXACTLY the union of the spans handed to `ts_range_array_add` — nothing flagged is lost by a later
call overwriting the last range's end, nothing else is reported. -/
theorem changed_ranges_exact (al : AliasTable) (fixed : Bool) (old new : Tree) (diffs : List TSRange)
    (hso : AllSized old) (hsn : AllSized new) (hentry : entryOK old new = true)
    (hfuel : (changedRanges al fixed old new diffs).fuelOut = false) (x : Nat) :
    mem (changedRanges al fixed old new diffs).ranges x ↔
    ∃ c ∈ (changedRanges al fixed old new diffs).main ++ (changedRanges al fixed old new diffs).post,
      c.1.bytes ≤ x ∧ x < c.2.bytes := by
  refine ⟨changed_ranges_sound al fixed old new diffs x, ?_⟩
  rintro ⟨c, hc, h1, h2⟩
  have hg := (walk_calls al fixed old new diffs hso hsn hentry hfuel).1
  rw [changed_ranges_eq]
  unfold addCalls
  rw [mem_reverse]
  exact (foldAdd_grow _ [] hg x).2 c hc h1 h2

/-- Non-vacuity of `changed_ranges_exact`: the witness pair of `entry_needed_witness` satisfies the premises, and the
walk on it reports `[0,3)` from more than one call. -/
example : AllSized wOld ∧ AllSized wNew ∧ entryOK wOld wNew = true ∧
    (changedRanges {} true wOld wNew wDiffs).fuelOut = false :=
  ⟨allSizedB_sound _ entry_needed_witness.1.1, allSizedB_sound _ entry_needed_witness.1.2.1,
    entry_needed_witness.1.2.2.1, entry_needed_witness.1.2.2.2⟩

/-! ## Non-vacuity and the witnesses that the premises are needed -/

/-- Non-vacuity of `add_calls_sorted`: non-decreasing starts, ends going backwards; the array shrinks from `[0,10)`
to `[0,7)` (so coverage of the calls' spans is NOT a consequence of monotone starts) and then grows again. -/
example : let tr : List (Length × Length) := [(⟨0,⟨0,0⟩⟩, ⟨10,⟨0,10⟩⟩), (⟨5,⟨0,5⟩⟩, ⟨7,⟨0,7⟩⟩), (⟨9,⟨0,9⟩⟩, ⟨12,⟨0,12⟩⟩)]
    MonoStarts 0 tr ∧ addCalls tr = [⟨⟨0,0⟩,⟨0,7⟩,0,7⟩, ⟨⟨0,9⟩,⟨0,12⟩,9,12⟩] := by
  refine ⟨by simp [MonoStarts], by decide⟩

theorem shrink_witness : let tr : List (Length × Length) := [(⟨0,⟨0,0⟩⟩, ⟨10,⟨0,10⟩⟩), (⟨5,⟨0,5⟩⟩, ⟨7,⟨0,7⟩⟩)]
    MonoStarts 0 tr ∧ ¬ MonoCalls 0 tr ∧ addCalls tr = [⟨⟨0,0⟩,⟨0,7⟩,0,7⟩] ∧ ¬ mem (addCalls tr) 8 := by
  refine ⟨by simp [MonoStarts], by simp [MonoCalls], by decide, ?_⟩
  have : addCalls [(⟨0,⟨0,0⟩⟩, ⟨10,⟨0,10⟩⟩), ((⟨5,⟨0,5⟩⟩ : Length), (⟨7,⟨0,7⟩⟩ : Length))] = [⟨⟨0,0⟩,⟨0,7⟩,0,7⟩] := by decide
  simp only [this]
  simp [mem]

/-- Non-vacuity of `add_calls_exact`: touching calls are merged, a gap starts a new range, an empty call is ignored. -/
example : let tr : List (Length × Length) := [(⟨1,⟨0,1⟩⟩, ⟨5,⟨0,5⟩⟩), (⟨5,⟨0,5⟩⟩, ⟨7,⟨0,7⟩⟩), (⟨8,⟨0,8⟩⟩, ⟨8,⟨0,8⟩⟩), (⟨9,⟨0,9⟩⟩, ⟨11,⟨0,11⟩⟩)]
    MonoCalls 0 tr ∧ addCalls tr = [⟨⟨0,1⟩,⟨0,7⟩,1,7⟩, ⟨⟨0,9⟩,⟨0,11⟩,9,11⟩] := by
  refine ⟨by simp [MonoCalls], by decide⟩

/-- With empty calls allowed (`s ≤ e`) and non-decreasing starts an EMPTY range can be left in the array:
`(0,10) (0,0)` gives `[0,0)`.  So `s < e` in `add_calls_sorted` cannot be weakened to `s ≤ e`. -/
theorem empty_range_witness : let tr : List (Length × Length) := [(⟨0,⟨0,0⟩⟩, ⟨10,⟨0,10⟩⟩), (⟨0,⟨0,0⟩⟩, ⟨0,⟨0,0⟩⟩)]
    MonoStartsW 0 tr ∧ addCalls tr = [⟨⟨0,0⟩,⟨0,0⟩,0,0⟩] ∧ ¬ StrictSorted (addCalls tr) := by
  refine ⟨by simp [MonoStartsW], by decide, ?_⟩
  have : addCalls [(⟨0,⟨0,0⟩⟩, ⟨10,⟨0,10⟩⟩), ((⟨0,⟨0,0⟩⟩ : Length), (⟨0,⟨0,0⟩⟩ : Length))] = [⟨⟨0,0⟩,⟨0,0⟩,0,0⟩] := by decide
  simp only [this]
  simp [StrictSorted]

/-- The premise on the starts cannot be dropped: two non-empty forward calls whose starts DECREASE, `(5,6) (0,1)`,
leave the ill-formed range `[5,1)` (start > end) — not even `WeakSorted`. -/
theorem decreasing_start_witness : let tr : List (Length × Length) := [(⟨5,⟨0,5⟩⟩, ⟨6,⟨0,6⟩⟩), (⟨0,⟨0,0⟩⟩, ⟨1,⟨0,1⟩⟩)]
    (∀ c ∈ tr, c.1.bytes < c.2.bytes) ∧ addCalls tr = [⟨⟨0,5⟩,⟨0,1⟩,5,1⟩] ∧ ¬ WeakSorted (addCalls tr) := by
  refine ⟨by simp, by decide, ?_⟩
  have : addCalls [(⟨5,⟨0,5⟩⟩, ⟨6,⟨0,6⟩⟩), ((⟨0,⟨0,0⟩⟩ : Length), (⟨1,⟨0,1⟩⟩ : Length))] = [⟨⟨0,5⟩,⟨0,1⟩,5,1⟩] := by decide
  simp only [this]
  simp [WeakSorted]

end TsVerif.C04
