import TsVerif.C04.Iter
/-!
# C04 judge — decides the property's clauses on the implementation's output

Inputs: full dumps of the edited old tree and of the new tree, the language's symbol metadata
and alias sequences, the ranges reported by `ts_tree_get_changed_ranges`, the new text's length.
The per-byte stacks of enclosing *visible* node types are computed here, in Lean, from the dumps,
with the visibility/alias rule of the public API (`tree_cursor.c` / `node.c`: a child is visible if
its symbol is visible or its non-extra slot in the parent's production carries an alias; its type
is `public_symbol_map[alias or symbol]`) — not with the iterator's own rule, so the judge is
independent of the code under test.
-/
namespace TsVerif.C04
open TsGen TsVerif

structure LangInfo where
  publicMap : Array Nat := #[]
  names : Array String := #[]
  alias : AliasTable := {}
  deriving Inhabited

def LangInfo.publicOf (li : LangInfo) (sym : Nat) : Nat := li.publicMap.getD sym sym

def fillN : Array (List Nat) → Nat → Nat → List Nat → Array (List Nat)
  | arr, _, 0, _ => arr
  | arr, p, k + 1, v => fillN (arr.setIfInBounds p v) (p + 1) k v

/-- Set `arr[p] := v` for `a ≤ p < b` (clipped to the array). -/
def fillRange (arr : Array (List Nat)) (a b : Nat) (v : List Nat) : Array (List Nat) :=
  fillN arr a (min b arr.size - a) v

mutual
  def fillTree (li : LangInfo) (t : Tree) (pos : Nat) (alias : Nat) (force : Bool) (stack : List Nat)
      (arr : Array (List Nat)) : Array (List Nat) :=
    match t with
    | .mk d kids =>
      let start := pos + d.padding.bytes
      let vis := d.visible || alias != 0 || force
      let ty := li.publicOf (if alias != 0 then alias else d.symbol)
      let stack' := if vis then ty :: stack else stack
      let arr := if vis then fillRange arr start (start + d.size.bytes) stack' else arr
      fillKids li kids pos d.productionId 0 stack' arr
  def fillKids (li : LangInfo) (kids : List Tree) (pos : Nat) (pid : Nat) (sci : Nat) (stack : List Nat)
      (arr : Array (List Nat)) : Array (List Nat) :=
    match kids with
    | [] => arr
    | c :: rest =>
      let alias := if c.data.extra then 0 else aliasAt li.alias pid sci
      let arr := fillTree li c pos alias false stack arr
      fillKids li rest (pos + c.totalBytes) pid (if c.data.extra then sci else sci + 1) stack arr
end

/-- Stack of enclosing visible node types (innermost first) for every byte `< n`. -/
def scopeStacks (li : LangInfo) (t : Tree) (n : Nat) : Array (List Nat) :=
  fillTree li t 0 0 true [] (Array.replicate n [])

mutual
  /-- Mark the bytes that lie inside a leaf's own extent (not padding). -/
  def leafTree (t : Tree) (pos : Nat) (arr : Array (List Nat)) : Array (List Nat) :=
    match t with
    | .mk d kids =>
      let start := pos + d.padding.bytes
      if kids.isEmpty then fillRange arr start (start + d.size.bytes) [1] else leafKids kids pos arr
  def leafKids (kids : List Tree) (pos : Nat) (arr : Array (List Nat)) : Array (List Nat) :=
    match kids with
    | [] => arr
    | c :: rest => leafKids rest (pos + c.totalBytes) (leafTree c pos arr)
end

/-- `[1]` for bytes inside some token, `[]` for padding (white space, excluded text) and bytes outside the tree. -/
def leafMask (t : Tree) (n : Nat) : Array (List Nat) := leafTree t 0 (Array.replicate n [])

def covered (rs : List TSRange) (p : Nat) : Bool := rs.any (fun r => r.start_byte ≤ p && p < r.end_byte)

/-- Sorted and disjoint, in bytes and in points; every range well formed. -/
def rangesOrdered : List TSRange → Bool
  | [] => true
  | [r] => r.start_byte ≤ r.end_byte && point_lte r.start_point r.end_point
  | r :: q :: rest =>
    r.start_byte ≤ r.end_byte && point_lte r.start_point r.end_point &&
    r.end_byte ≤ q.start_byte && point_lte r.end_point q.start_point && rangesOrdered (q :: rest)

structure Verdict where
  fail : Option String := none
  diffBytes : Nat := 0
  uncovered : Nat := 0
  uncoveredInToken : Nat := 0   -- uncovered differing bytes that lie inside a token of the old or the new tree
  coveredSame : Nat := 0     -- reported bytes whose stacks are equal (over-approximation, allowed)
  uncoveredBytes : List Nat := []

def firstUncovered (so sn mo mn : Array (List Nat)) (rs : List TSRange) (n : Nat) (incl : Nat → Bool) : Verdict := Id.run do
  let mut v : Verdict := {}
  for p in [0:n] do
    let a := so.getD p []
    let b := sn.getD p []
    if a != b && incl p then
      v := { v with diffBytes := v.diffBytes + 1 }
      if !covered rs p then
        v := { v with uncovered := v.uncovered + 1, uncoveredBytes := if v.uncovered < 16 then v.uncoveredBytes ++ [p] else v.uncoveredBytes,
                      uncoveredInToken := v.uncoveredInToken + (if mo.getD p [] != [] || mn.getD p [] != [] then 1 else 0) }
        if v.fail.isNone then
          v := { v with fail := some s!"byte {p}: stacks differ (old {a} new {b}) but no reported range contains it" }
    else if covered rs p then
      v := { v with coveredSame := v.coveredSame + 1 }
  return v

def judgeChanged (li : LangInfo) (old new : TreeDump) (reported : List TSRange) (docLen : Nat) : Verdict :=
  let n := max docLen (max old.root.totalBytes new.root.totalBytes)
  let so := scopeStacks li old.root n
  let sn := scopeStacks li new.root n
  -- bytes excluded from BOTH parses are characters of neither parsed text: not judged (where an empty range sits
  -- can move node extents over such bytes, the C13 empty-range finding)
  let incl := fun p => covered old.ranges p || covered new.ranges p
  let v := firstUncovered so sn (leafMask old.root n) (leafMask new.root n) reported n incl
  if !rangesOrdered reported then { v with fail := some "reported ranges are not sorted/disjoint" }
  else if reported.any (fun r => r.end_byte > max docLen (max old.root.totalBytes new.root.totalBytes)) then
    -- bound: the document, or a tree where the tree itself overshoots the text (an erroneous parse whose
    -- last range ends at UINT32_MAX can end one byte after EOF: that is a tree-vs-text matter (C02/C13), not a
    -- changed-ranges one)
    { v with fail := some s!"a reported range ends after the document (length {docLen}) and after both trees ({old.root.totalBytes}, {new.root.totalBytes})" }
  else v

/-- `MatchSound` on one case: on every span where the port's `compare` answered *Matches* the two
trees have equal stacks. -/
def matchSound (li : LangInfo) (old new : TreeDump) (spans : List (Nat × Nat)) : Bool :=
  let n := max old.root.totalBytes new.root.totalBytes
  let so := scopeStacks li old.root n
  let sn := scopeStacks li new.root n
  spans.all fun (a, b) => Id.run do
    for p in [a:min b n] do
      if so.getD p [] != sn.getD p [] then return false
    return true

def fmtRanges (rs : List TSRange) : String :=
  ",".intercalate (rs.map fun r =>
    s!"{r.start_byte}:{r.start_point.row}:{r.start_point.column}-{r.end_byte}:{r.end_point.row}:{r.end_point.column}")

end TsVerif.C04
