import TsVerif.C04.Ranges
/-!
# C04 — helper definitions and lemmas for the range-array theorems
-/
namespace TsVerif.C04
open TsGen

/-- Byte `x` lies in one of the ranges. -/
def mem (rs : List TSRange) (x : Nat) : Prop := ∃ r ∈ rs, r.start_byte ≤ x ∧ x < r.end_byte

@[simp] theorem mem_nil (x : Nat) : mem [] x ↔ False := by simp [mem]
@[simp] theorem mem_cons (r : TSRange) (t : List TSRange) (x : Nat) :
    mem (r :: t) x ↔ ((r.start_byte ≤ x ∧ x < r.end_byte) ∨ mem t x) := by simp [mem]
theorem mem_reverse (rs : List TSRange) (x : Nat) : mem rs.reverse x ↔ mem rs x := by simp [mem]

/-- A *reversed* output array (head = last range): every range is non-empty, ends below `hi`,
and ends strictly before the start of the range that follows it in C order (touching ranges are
merged, so separation is strict). -/
def Chain : Nat → List TSRange → Prop
  | _, [] => True
  | hi, r :: t => r.start_byte < r.end_byte ∧ r.end_byte < hi ∧ Chain r.start_byte t

theorem Chain.mono {hi hi' : Nat} (h : hi ≤ hi') : ∀ {l}, Chain hi l → Chain hi' l
  | [], _ => trivial
  | _ :: _, ⟨a, b, c⟩ => ⟨a, by omega, c⟩

theorem Chain.below {hi : Nat} : ∀ {l}, Chain hi l → ∀ r ∈ l, r.start_byte < r.end_byte ∧ r.end_byte < hi
  | [], _, r, hr => by cases hr
  | q :: t, ⟨a, b, c⟩, r, hr => by
    rcases List.mem_cons.1 hr with rfl | hr
    · exact ⟨a, b⟩
    · have := Chain.below c r hr
      exact ⟨this.1, by omega⟩

/-- Output arrays in C order: sorted, pairwise strictly separated, every range non-empty. -/
def StrictSorted (l : List TSRange) : Prop :=
  l.Pairwise (fun a b => a.end_byte < b.start_byte) ∧ ∀ r ∈ l, r.start_byte < r.end_byte

theorem Chain.strictSorted {hi : Nat} : ∀ {l}, Chain hi l → StrictSorted l.reverse
  | [], _ => by simp [StrictSorted]
  | q :: t, ⟨a, b, c⟩ => by
    have ih := Chain.strictSorted c
    have bl := Chain.below c
    refine ⟨?_, ?_⟩
    · rw [List.reverse_cons, List.pairwise_append]
      refine ⟨ih.1, by simp, ?_⟩
      intro x hx y hy
      simp at hy; subst hy
      exact (bl x (List.mem_reverse.1 hx)).2
    · intro r hr
      simp at hr
      rcases hr with hr | rfl
      · exact (bl r hr).1
      · exact a

/-- `add` under the calling discipline of this file (`start` at or after the end of the last
range, `start ≤ end`): the array stays a chain and gains exactly `[start, end)`. -/
theorem addRev_spec (racc : List TSRange) (s e : Length)
    (h : Chain (s.bytes + 1) racc) (hse : s.bytes ≤ e.bytes) :
    Chain (e.bytes + 1) (addRev racc s e) ∧
    ∀ x, mem (addRev racc s e) x ↔ (mem racc x ∨ (s.bytes ≤ x ∧ x < e.bytes)) := by
  cases racc with
  | nil =>
    simp only [addRev]
    split
    · simp [Chain, mkRange]; omega
    · simp [Chain]; omega
  | cons last rest =>
    obtain ⟨a, b, c⟩ := h
    simp only [addRev]
    split
    · refine ⟨⟨by simp; omega, by simp, c⟩, ?_⟩
      intro x
      by_cases hm : mem rest x <;> simp [hm] <;> omega
    · split
      · refine ⟨⟨by simp [mkRange]; omega, by simp [mkRange], ⟨a, by simp [mkRange]; omega, c⟩⟩, ?_⟩
        intro x
        by_cases hm : mem rest x <;> simp [hm, mkRange] <;> omega
      · refine ⟨⟨a, by omega, c⟩, ?_⟩
        intro x
        by_cases hm : mem rest x <;> simp [hm] <;> omega

/-! ## Input lists and the loop invariant -/

/-- Valid input list from position `lo` on (what `ts_lexer_set_included_ranges` accepts, plus:
no range *starts* at `UINT32_MAX`, all ends are `≤ UINT32_MAX`). -/
def SortedFrom : Nat → List TSRange → Prop
  | _, [] => True
  | lo, r :: t => lo ≤ r.start_byte ∧ r.start_byte ≤ r.end_byte ∧ r.start_byte < UMAX ∧
      r.end_byte ≤ UMAX ∧ SortedFrom r.end_byte t

theorem SortedFrom.mono {lo lo' : Nat} (h : lo' ≤ lo) : ∀ {l}, SortedFrom lo l → SortedFrom lo' l
  | [], _ => trivial
  | _ :: _, ⟨a, b⟩ => ⟨by omega, b⟩

theorem SortedFrom.not_mem_below {lo : Nat} : ∀ {l}, SortedFrom lo l → ∀ x, x < lo → ¬ mem l x
  | [], _, x, _ => by simp
  | r :: t, ⟨a, b, _, _, e⟩, x, hx => by
    have := SortedFrom.not_mem_below e x (by omega)
    simp [this]; omega

theorem SortedFrom.not_mem_max {lo : Nat} : ∀ {l}, SortedFrom lo l → ∀ x, UMAX ≤ x → ¬ mem l x
  | [], _, x, _ => by simp
  | r :: t, ⟨a, b, _, _, e⟩, x, hx => by
    have := SortedFrom.not_mem_max e x hx
    simp [this]; omega

theorem SortedFrom.nil_of_max {lo : Nat} (hlo : UMAX ≤ lo) : ∀ {l}, SortedFrom lo l → l = []
  | [], _ => rfl
  | r :: t, ⟨a, _, c, _, _⟩ => by omega

/-- Membership in the not yet consumed part of a list, for bytes at or after the current position:
when `inR`, the head range is "open" (its start was already passed). -/
def memFrom (rs : List TSRange) (inR : Bool) (x : Nat) : Prop :=
  match rs, inR with
  | [], _ => False
  | r :: t, true => x < r.end_byte ∨ mem t x
  | r :: t, false => mem (r :: t) x

/-- Loop invariant for one side. -/
def WF (cur : Nat) (rs : List TSRange) (inR : Bool) : Prop :=
  match rs, inR with
  | [], false => True
  | [], true => UMAX ≤ cur
  | r :: t, true => cur ≤ r.end_byte ∧ r.end_byte ≤ UMAX ∧ SortedFrom r.end_byte t
  | r :: t, false => SortedFrom cur (r :: t)

theorem nextPos_le_max {cur rs inR} (h : WF cur rs inR) : (nextPos rs inR).bytes ≤ UMAX := by
  cases rs <;> cases inR <;> simp_all [WF, nextPos, SortedFrom, LENGTH_MAX, UMAX] <;> omega

theorem cur_le_nextPos {cur rs inR} (h : WF cur rs inR) (hc : cur ≤ UMAX) : cur ≤ (nextPos rs inR).bytes := by
  cases rs <;> cases inR <;> simp_all [WF, nextPos, SortedFrom, LENGTH_MAX, UMAX]

/-- Before the next boundary, membership is the flag. -/
theorem memFrom_before {cur rs inR} (h : WF cur rs inR) {x : Nat} (hx : cur ≤ x)
    (hlt : x < (nextPos rs inR).bytes) : memFrom rs inR x ↔ inR = true := by
  cases rs with
  | nil => cases inR <;> simp_all [WF, nextPos, memFrom, LENGTH_MAX, UMAX]; omega
  | cons r t =>
    cases inR
    · simp only [WF, nextPos] at h hlt
      have h' : SortedFrom r.start_byte (r :: t) := ⟨Nat.le_refl _, h.2⟩
      have := SortedFrom.not_mem_below h' x (by simpa using hlt)
      simp [memFrom, this]
    · simp [nextPos] at hlt
      simp [memFrom, hlt]

/-- From the next boundary on, membership is that of the advanced state. -/
theorem memFrom_after {cur rs inR} (h : WF cur rs inR) {x : Nat}
    (hge : (nextPos rs inR).bytes ≤ x) : memFrom rs inR x ↔ memFrom (adv rs inR).1 (adv rs inR).2 x := by
  cases rs with
  | nil => cases inR <;> simp [adv, memFrom]
  | cons r t =>
    cases inR
    · simp [nextPos] at hge
      simp [adv, memFrom, hge]
    · simp [nextPos] at hge
      have : ¬ x < r.end_byte := by omega
      cases t <;> simp [adv, memFrom, this]

theorem WF_adv {cur rs inR} (h : WF cur rs inR) :
    WF (nextPos rs inR).bytes (adv rs inR).1 (adv rs inR).2 := by
  cases rs with
  | nil => cases inR <;> simp_all [adv, WF, nextPos, LENGTH_MAX, UMAX]
  | cons r t =>
    cases inR
    · obtain ⟨a, b, c, d, e⟩ := h
      simp [adv, WF, nextPos]; exact ⟨b, d, e⟩
    · obtain ⟨a, b, c⟩ := h
      cases t with
      | nil => simp [adv, WF, nextPos]
      | cons q u => simpa [adv, WF, nextPos] using c

theorem WF.mono {cur cur' rs inR} (h : WF cur rs inR) (hle : cur ≤ cur')
    (hnp : cur' ≤ (nextPos rs inR).bytes) : WF cur' rs inR := by
  cases rs with
  | nil => cases inR <;> simp_all [WF]; omega
  | cons r t =>
    cases inR
    · obtain ⟨a, b⟩ := h
      simp [nextPos] at hnp
      exact ⟨hnp, b⟩
    · obtain ⟨a, b⟩ := h
      simp [nextPos] at hnp
      exact ⟨hnp, b⟩

/-- No membership at or beyond `UINT32_MAX`. -/
theorem memFrom_max {cur rs inR} (h : WF cur rs inR) {x : Nat} (hx : UMAX ≤ x) : ¬ memFrom rs inR x := by
  cases rs with
  | nil => simp [memFrom]
  | cons r t =>
    cases inR
    · exact SortedFrom.not_mem_max h x hx
    · obtain ⟨a, b, c⟩ := h
      have := SortedFrom.not_mem_max c x hx
      simp [memFrom, this]; omega

end TsVerif.C04
