import TsVerif.C04.Ranges
/-!
# C04 — helper definitions and lemmas for the range-array theorems
-/
namespace TsVerif.C04
open TsGen

/-- Byte `x` lies in one of the ranges. -/
def mem (rs : List TSRange) (x : Nat) : Prop := ∃ r ∈ rs, r.start_byte ≤ x ∧ x < r.end_byte

@[simp] theorem mem_nil (x : Nat) : mem [] x ↔ False := by simp [mem]
@[simp] theorem mem_cons (r : TSRange) (t : List TSRange) (x : Nat) :
    mem (r :: t) x ↔ ((r.start_byte ≤ x ∧ x < r.end_byte) ∨ mem t x) := by simp [mem]
theorem mem_reverse (rs : List TSRange) (x : Nat) : mem rs.reverse x ↔ mem rs x := by simp [mem]

/-- A *reversed* output array (head = last range): every range is non-empty, ends below `hi`,
and ends strictly before the start of the range that follows it in C order (touching ranges are
merged, so separation is strict). -/
def Chain : Nat → List TSRange → Prop
  | _, [] => True
  | hi, r :: t => r.start_byte < r.end_byte ∧ r.end_byte < hi ∧ Chain r.start_byte t

theorem Chain.mono {hi hi' : Nat} (h : hi ≤ hi') : ∀ {l}, Chain hi l → Chain hi' l
  | [], _ => trivial
  | _ :: _, ⟨a, b, c⟩ => ⟨a, by omega, c⟩

theorem Chain.below {hi : Nat} : ∀ {l}, Chain hi l → ∀ r ∈ l, r.start_byte < r.end_byte ∧ r.end_byte < hi
  | [], _, r, hr => by cases hr
  | q :: t, ⟨a, b, c⟩, r, hr => by
    rcases List.mem_cons.1 hr with rfl | hr
    · exact ⟨a, b⟩
    · have := Chain.below c r hr
      exact ⟨this.1, by omega⟩

/-- Output arrays in C order: sorted, pairwise strictly separated, every range non-empty. -/
def StrictSorted (l : List TSRange) : Prop :=
  l.Pairwise (fun a b => a.end_byte < b.start_byte) ∧ ∀ r ∈ l, r.start_byte < r.end_byte

theorem Chain.strictSorted {hi : Nat} : ∀ {l}, Chain hi l → StrictSorted l.reverse
  | [], _ => by simp [StrictSorted]
  | q :: t, ⟨a, b, c⟩ => by
    have ih := Chain.strictSorted c
    have bl := Chain.below c
    refine ⟨?_, ?_⟩
    · rw [List.reverse_cons, List.pairwise_append]
      refine ⟨ih.1, by simp, ?_⟩
      intro x hx y hy
      simp at hy; subst hy
      exact (bl x (List.mem_reverse.1 hx)).2
    · intro r hr
      simp at hr
      rcases hr with hr | rfl
      · exact (bl r hr).1
      · exact a

/-- `add` under the calling discipline of this file (`start` at or after the end of the last
range, `start ≤ end`): the array stays a chain and gains exactly `[start, end)`. -/
theorem addRev_spec (racc : List TSRange) (s e : Length)
    (h : Chain (s.bytes + 1) racc) (hse : s.bytes ≤ e.bytes) :
    Chain (e.bytes + 1) (addRev racc s e) ∧
    ∀ x, mem (addRev racc s e) x ↔ (mem racc x ∨ (s.bytes ≤ x ∧ x < e.bytes)) := by
  cases racc with
  | nil =>
    simp only [addRev]
    split
    · simp [Chain, mkRange]; omega
    · simp [Chain]; omega
  | cons last rest =>
    obtain ⟨a, b, c⟩ := h
    simp only [addRev]
    split
    · refine ⟨⟨by simp; omega, by simp, c⟩, ?_⟩
      intro x
      by_cases hm : mem rest x <;> simp [hm] <;> omega
    · split
      · refine ⟨⟨by simp [mkRange]; omega, by simp [mkRange], ⟨a, by simp [mkRange]; omega, c⟩⟩, ?_⟩
        intro x
        by_cases hm : mem rest x <;> simp [hm, mkRange] <;> omega
      · refine ⟨⟨a, by omega, c⟩, ?_⟩
        intro x
        by_cases hm : mem rest x <;> simp [hm] <;> omega

/-! ## Input lists and the loop invariant -/

/-- Valid input list from position `lo` on (what `ts_lexer_set_included_ranges` accepts, plus:
no range *starts* at `UINT32_MAX`, all ends are `≤ UINT32_MAX`). -/
def SortedFrom : Nat → List TSRange → Prop
  | _, [] => True
  | lo, r :: t => lo ≤ r.start_byte ∧ r.start_byte ≤ r.end_byte ∧ r.start_byte < UMAX ∧
      r.end_byte ≤ UMAX ∧ SortedFrom r.end_byte t

theorem SortedFrom.mono {lo lo' : Nat} (h : lo' ≤ lo) : ∀ {l}, SortedFrom lo l → SortedFrom lo' l
  | [], _ => trivial
  | _ :: _, ⟨a, b⟩ => ⟨by omega, b⟩

theorem SortedFrom.not_mem_below {lo : Nat} : ∀ {l}, SortedFrom lo l → ∀ x, x < lo → ¬ mem l x
  | [], _, x, _ => by simp
  | r :: t, ⟨a, b, _, _, e⟩, x, hx => by
    have := SortedFrom.not_mem_below e x (by omega)
    simp [this]; omega

theorem SortedFrom.not_mem_max {lo : Nat} : ∀ {l}, SortedFrom lo l → ∀ x, UMAX ≤ x → ¬ mem l x
  | [], _, x, _ => by simp
  | r :: t, ⟨a, b, _, _, e⟩, x, hx => by
    have := SortedFrom.not_mem_max e x hx
    simp [this]; omega

theorem SortedFrom.nil_of_max {lo : Nat} (hlo : UMAX ≤ lo) : ∀ {l}, SortedFrom lo l → l = []
  | [], _ => rfl
  | r :: t, ⟨a, _, c, _, _⟩ => by omega

/-- Membership in the not yet consumed part of a list, for bytes at or after the current position:
when `inR`, the head range is "open" (its start was already passed). -/
def memFrom (rs : List TSRange) (inR : Bool) (x : Nat) : Prop :=
  match rs, inR with
  | [], _ => False
  | r :: t, true => x < r.end_byte ∨ mem t x
  | r :: t, false => mem (r :: t) x

/-- Loop invariant for one side. -/
def WF (cur : Nat) (rs : List TSRange) (inR : Bool) : Prop :=
  match rs, inR with
  | [], false => True
  | [], true => UMAX ≤ cur
  | r :: t, true => cur ≤ r.end_byte ∧ r.end_byte ≤ UMAX ∧ SortedFrom r.end_byte t
  | r :: t, false => SortedFrom cur (r :: t)

theorem nextPos_le_max {cur rs inR} (h : WF cur rs inR) : (nextPos rs inR).bytes ≤ UMAX := by
  cases rs <;> cases inR <;> simp_all [WF, nextPos, SortedFrom, LENGTH_MAX, UMAX] <;> omega

theorem cur_le_nextPos {cur rs inR} (h : WF cur rs inR) (hc : cur ≤ UMAX) : cur ≤ (nextPos rs inR).bytes := by
  cases rs <;> cases inR <;> simp_all [WF, nextPos, SortedFrom, LENGTH_MAX, UMAX]

/-- Before the next boundary, membership is the flag. -/
theorem memFrom_before {cur rs inR} (h : WF cur rs inR) {x : Nat} (hx : cur ≤ x)
    (hlt : x < (nextPos rs inR).bytes) : memFrom rs inR x ↔ inR = true := by
  cases rs with
  | nil => cases inR <;> simp_all [WF, nextPos, memFrom, LENGTH_MAX, UMAX]; omega
  | cons r t =>
    cases inR
    · simp only [WF, nextPos] at h hlt
      have h' : SortedFrom r.start_byte (r :: t) := ⟨Nat.le_refl _, h.2⟩
      have := SortedFrom.not_mem_below h' x (by simpa using hlt)
      simp [memFrom, this]
    · simp [nextPos] at hlt
      simp [memFrom, hlt]

/-- From the next boundary on, membership is that of the advanced state. -/
theorem memFrom_after {cur rs inR} (h : WF cur rs inR) {x : Nat}
    (hge : (nextPos rs inR).bytes ≤ x) : memFrom rs inR x ↔ memFrom (adv rs inR).1 (adv rs inR).2 x := by
  cases rs with
  | nil => cases inR <;> simp [adv, memFrom]
  | cons r t =>
    cases inR
    · simp [nextPos] at hge
      simp [adv, memFrom, hge]
    · simp [nextPos] at hge
      have : ¬ x < r.end_byte := by omega
      cases t <;> simp [adv, memFrom, this]

theorem WF_adv {cur rs inR} (h : WF cur rs inR) :
    WF (nextPos rs inR).bytes (adv rs inR).1 (adv rs inR).2 := by
  cases rs with
  | nil => cases inR <;> simp_all [adv, WF, nextPos, LENGTH_MAX, UMAX]
  | cons r t =>
    cases inR
    · obtain ⟨a, b, c, d, e⟩ := h
      simp [adv, WF, nextPos]; exact ⟨b, d, e⟩
    · obtain ⟨a, b, c⟩ := h
      cases t with
      | nil => simp [adv, WF, nextPos]
      | cons q u => simpa [adv, WF, nextPos] using c

theorem WF.mono {cur cur' rs inR} (h : WF cur rs inR) (hle : cur ≤ cur')
    (hnp : cur' ≤ (nextPos rs inR).bytes) : WF cur' rs inR := by
  cases rs with
  | nil => cases inR <;> simp_all [WF]; omega
  | cons r t =>
    cases inR
    · obtain ⟨a, b⟩ := h
      simp [nextPos] at hnp
      exact ⟨hnp, b⟩
    · obtain ⟨a, b⟩ := h
      simp [nextPos] at hnp
      exact ⟨hnp, b⟩

/-- No membership at or beyond `UINT32_MAX`. -/
theorem memFrom_max {cur rs inR} (h : WF cur rs inR) {x : Nat} (hx : UMAX ≤ x) : ¬ memFrom rs inR x := by
  cases rs with
  | nil => simp [memFrom]
  | cons r t =>
    cases inR
    · exact SortedFrom.not_mem_max h x hx
    · obtain ⟨a, b, c⟩ := h
      have := SortedFrom.not_mem_max c x hx
      simp [memFrom, this]; omega

theorem WF_advE {cur rs inR} (h : WF cur rs inR) :
    WF (nextPos rs inR).bytes (advE rs inR).1 (advE rs inR).2 := by
  unfold advE
  split
  · rename_i hc; obtain ⟨rfl, rfl⟩ := hc; simp [WF]
  · exact WF_adv h

theorem memFrom_afterE {cur rs inR} (h : WF cur rs inR) {x : Nat}
    (hge : (nextPos rs inR).bytes ≤ x) : memFrom rs inR x ↔ memFrom (advE rs inR).1 (advE rs inR).2 x := by
  unfold advE
  split
  · exact Iff.rfl
  · exact memFrom_after h hge

/-! ## The loop -/

/-- Exactly one of two propositions holds. -/
def XorP (a b : Prop) : Prop := (a ∧ ¬ b) ∨ (¬ a ∧ b)

theorem step_algebra {cur no x : Nat} {a a' P P' Q Q' : Prop} {bo bn : Bool}
    (hle : cur ≤ no)
    (hacc : a' ↔ a ∨ ((bo != bn) = true ∧ cur ≤ x ∧ x < no))
    (hP : cur ≤ x → x < no → (P ↔ bo = true)) (hQ : cur ≤ x → x < no → (Q ↔ bn = true))
    (hP' : no ≤ x → (P ↔ P')) (hQ' : no ≤ x → (Q ↔ Q')) :
    (a' ∨ (no ≤ x ∧ XorP P' Q')) ↔ (a ∨ (cur ≤ x ∧ XorP P Q)) := by
  by_cases h1 : x < no
  · by_cases h2 : cur ≤ x
    · have nl : ¬ no ≤ x := by omega
      rw [hacc, hP h2 h1, hQ h2 h1]
      cases bo <;> cases bn <;> simp [XorP, h1, h2, nl]
    · have nl : ¬ no ≤ x := by omega
      rw [hacc]
      simp [h2, nl]
  · have h3 : no ≤ x := by omega
    have h4 : cur ≤ x := by omega
    rw [hacc, hP' h3, hQ' h3]
    simp [h1, h3, h4]

theorem acc_step (racc0 : List TSRange) (cur no : Length) (bo bn : Bool)
    (ha : Chain (cur.bytes + 1) racc0) (hle : cur.bytes ≤ no.bytes) :
    Chain (no.bytes + 1) (if _h : (bo != bn) = true then addRev racc0 cur no else racc0) ∧
    ∀ x, mem (if _h : (bo != bn) = true then addRev racc0 cur no else racc0) x ↔
      (mem racc0 x ∨ ((bo != bn) = true ∧ cur.bytes ≤ x ∧ x < no.bytes)) := by
  split
  · have := addRev_spec racc0 cur no ha hle
    refine ⟨this.1, fun x => ?_⟩
    rw [this.2]; simp_all
  · refine ⟨Chain.mono (by omega) ha, fun x => ?_⟩
    simp_all

theorem symDiffLoop_spec (old new : List TSRange) (cur : Length) (inOld inNew : Bool) (racc : List TSRange)
    (ho : WF cur.bytes old inOld) (hn : WF cur.bytes new inNew) (hc : cur.bytes ≤ UMAX)
    (ha : Chain (cur.bytes + 1) racc) :
    (∃ hi, Chain hi (symDiffLoop old new cur inOld inNew racc)) ∧
    ∀ x, mem (symDiffLoop old new cur inOld inNew racc) x ↔
      (mem racc x ∨ (cur.bytes ≤ x ∧ XorP (memFrom old inOld x) (memFrom new inNew x))) := by
  fun_induction symDiffLoop old new cur inOld inNew racc
  case case1 old new cur inOld inNew racc h =>
    obtain ⟨rfl, rfl⟩ := h
    exact ⟨⟨_, ha⟩, fun x => by simp [memFrom, XorP]⟩
  case case2 old new cur inOld inNew racc h1 h2 =>
    refine ⟨⟨_, ha⟩, fun x => ?_⟩
    have hmax : cur.bytes ≤ x → UMAX ≤ x := by
      intro hx
      rcases h2 with ⟨rfl, rfl⟩ | ⟨rfl, rfl⟩
      · simp [WF] at ho; omega
      · simp [WF] at hn; omega
    constructor
    · exact Or.inl
    · rintro (h | ⟨hx, hxor⟩)
      · exact h
      · have := memFrom_max ho (hmax hx)
        have := memFrom_max hn (hmax hx)
        simp_all [XorP]
  case case3 old new cur inOld inNew racc0 h1 h2 no nn hlt racc ih =>
    have hle : cur.bytes ≤ no.bytes := cur_le_nextPos ho hc
    have hno : no.bytes ≤ UMAX := nextPos_le_max ho
    have hacc := acc_step racc0 cur no inOld inNew ha hle
    have ih' := ih (WF_adv ho) (WF.mono hn hle (Nat.le_of_lt hlt)) hno hacc.1
    refine ⟨ih'.1, fun x => ?_⟩
    rw [ih'.2 x]
    exact step_algebra hle (hacc.2 x)
      (fun a b => memFrom_before ho a b)
      (fun a b => memFrom_before hn a (Nat.lt_trans b hlt))
      (fun a => memFrom_after ho a) (fun _ => Iff.rfl)
  case case4 old new cur inOld inNew racc0 h1 h2 no nn hnlt hlt racc ih =>
    have hle : cur.bytes ≤ nn.bytes := cur_le_nextPos hn hc
    have hnn : nn.bytes ≤ UMAX := nextPos_le_max hn
    have hacc := acc_step racc0 cur nn inOld inNew ha hle
    have ih' := ih (WF.mono ho hle (Nat.le_of_lt hlt)) (WF_adv hn) hnn hacc.1
    refine ⟨ih'.1, fun x => ?_⟩
    rw [ih'.2 x]
    exact step_algebra hle (hacc.2 x)
      (fun a b => memFrom_before ho a (Nat.lt_trans b hlt))
      (fun a b => memFrom_before hn a b)
      (fun _ => Iff.rfl) (fun a => memFrom_after hn a)
  case case5 old new cur inOld inNew racc0 h1 h2 no nn hnlt hnlt' racc ih =>
    have heq : no.bytes = nn.bytes := by omega
    have hle : cur.bytes ≤ nn.bytes := cur_le_nextPos hn hc
    have hnn : nn.bytes ≤ UMAX := nextPos_le_max hn
    have hacc := acc_step racc0 cur nn inOld inNew ha hle
    have ih' := ih (heq ▸ WF_advE ho) (WF_advE hn) hnn hacc.1
    refine ⟨ih'.1, fun x => ?_⟩
    rw [ih'.2 x]
    exact step_algebra hle (hacc.2 x)
      (fun a b => memFrom_before ho a (heq ▸ b))
      (fun a b => memFrom_before hn a b)
      (fun a => memFrom_afterE ho (heq ▸ a)) (fun a => memFrom_afterE hn a)

/-- Converse of `Chain.strictSorted`. -/
theorem chain_of_strictSorted {hi : Nat} : ∀ {l : List TSRange}, StrictSorted l.reverse →
    (∀ r ∈ l, r.end_byte < hi) → Chain hi l
  | [], _, _ => trivial
  | q :: t, hs, hb => by
    obtain ⟨hp, hne⟩ := hs
    rw [List.reverse_cons, List.pairwise_append] at hp
    obtain ⟨hpt, _, hx⟩ := hp
    refine ⟨hne q (by simp), hb q (by simp), ?_⟩
    refine chain_of_strictSorted ⟨hpt, fun r hr => hne r (by simp at hr ⊢; exact Or.inl hr)⟩ ?_
    intro r hr
    exact hx r (List.mem_reverse.2 hr) q (by simp)

theorem WF_false_of_sorted {rs : List TSRange} (h : SortedFrom 0 rs) : WF 0 rs false := by
  cases rs <;> simp_all [WF]

theorem memFrom_false (rs : List TSRange) (x : Nat) : memFrom rs false x ↔ mem rs x := by
  cases rs <;> simp [memFrom]

theorem intersectsFrom_spec : ∀ (rs : List TSRange) (a b : Nat), StrictSorted rs →
    (intersectsFrom rs a b = true ↔ ∃ r ∈ rs, a < r.end_byte ∧ r.start_byte < b)
  | [], _, _, _ => by simp [intersectsFrom]
  | r :: t, a, b, hs => by
    have hst : StrictSorted t := ⟨(List.pairwise_cons.1 hs.1).2, fun q hq => hs.2 q (List.mem_cons_of_mem _ hq)⟩
    have hlater : ∀ q ∈ t, r.end_byte < q.start_byte := (List.pairwise_cons.1 hs.1).1
    have hr := hs.2 r (by simp)
    unfold intersectsFrom
    split
    · split
      · constructor
        · intro h; cases h
        · rintro ⟨q, hq, h1, h2⟩
          rcases List.mem_cons.1 hq with rfl | hq
          · omega
          · have := hlater q hq; omega
      · simp; exact Or.inl ⟨by omega, by omega⟩
    · rw [intersectsFrom_spec t a b hst]
      constructor
      · rintro ⟨q, hq, h⟩; exact ⟨q, List.mem_cons_of_mem _ hq, h⟩
      · rintro ⟨q, hq, h1, h2⟩
        rcases List.mem_cons.1 hq with rfl | hq
        · omega
        · exact ⟨q, hq, h1, h2⟩

end TsVerif.C04
