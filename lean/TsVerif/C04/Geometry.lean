import TsVerif.C04.Iter
/-!
# C04 — geometry of the lock-step cursors (towards `changed_sorted_bounded`)

(i) `StackOK`: every cursor entry is the child of the entry below it at the recorded child index,
and its position is the parent's position plus the total sizes of the earlier siblings.  Preserved by
`descend`, `advance`, `ascend` (and hence by the whole walk).
(ii) `descend_end`: a successful `descend` leaves the iterator on a node whose end lies beyond the goal.
-/
namespace TsVerif.C04
open TsGen TsVerif

/-- Bytes of the first `i` children (padding and size). -/
def prefixBytes : List Tree → Nat → Nat
  | _, 0 => 0
  | [], _ + 1 => 0
  | c :: rest, i + 1 => c.totalBytes + prefixBytes rest i

theorem length_add_bytes (a b : Length) : (length_add a b).bytes = a.bytes + b.bytes := by
  simp [length_add]

/-- The cursor-stack invariant. -/
def StackOK : List Entry → Prop
  | [] => True
  | [_] => True
  | e :: p :: rest =>
    p.subtree.kids[e.childIndex]? = some e.subtree ∧
    e.position.bytes = p.position.bytes + prefixBytes p.subtree.kids e.childIndex ∧
    StackOK (p :: rest)

theorem StackOK.tail : ∀ {e : Entry} {rest : List Entry}, StackOK (e :: rest) → StackOK rest
  | _, [], _ => trivial
  | _, _ :: _, h => h.2.2

/-- The child scan returns the `k`-th remaining child with the position advanced over the `k` before it. -/
theorem scanKids_ok : ∀ (kids : List Tree) (pos : Length) (i sci goal : Nat) (prev : Option Tree) (ce : Entry) (prev' : Option Tree),
    scanKids kids pos i sci goal prev = (some ce, prev') →
    ∃ k, ce.childIndex = i + k ∧ kids[k]? = some ce.subtree ∧ ce.position.bytes = pos.bytes + prefixBytes kids k ∧
      (length_add (length_add ce.position ce.subtree.data.padding) ce.subtree.data.size).bytes > goal
  | [], _, _, _, _, _, _, _, h => by simp [scanKids] at h
  | c :: rest, pos, i, sci, goal, prev, ce, prev', h => by
    unfold scanKids at h
    simp only at h
    split at h
    · rename_i hgt
      simp only [Prod.mk.injEq, Option.some.injEq] at h
      obtain ⟨rfl, _⟩ := h
      exact ⟨0, by simp, by simp, by simp [prefixBytes], hgt⟩
    · obtain ⟨k, h1, h2, h3, h4⟩ := scanKids_ok rest _ _ _ _ _ ce prev' h
      refine ⟨k + 1, by omega, by simpa using h2, ?_, h4⟩
      rw [h3, length_add_bytes, length_add_bytes]
      simp [prefixBytes, Tree.totalBytes]; omega

/-- (i) + (ii) for the descending loop. -/
theorem descendLoop_ok (al : AliasTable) : ∀ (fuel : Nat) (it : Iter) (goal : Nat),
    StackOK it.stack → it.inPadding = false →
    StackOK (descendLoop al fuel it goal).1.stack ∧
    ((descendLoop al fuel it goal).2 = true → (descendLoop al fuel it goal).1.endPosition.bytes > goal)
  | 0, it, goal, h, _ => by simp [descendLoop, h]
  | fuel + 1, it, goal, h, hp => by
    unfold descendLoop
    cases hs : it.stack with
    | nil => simp only [hs]; exact ⟨trivial, by simp⟩
    | cons e rest =>
      simp only
      cases hk : scanKids e.subtree.kids e.position 0 0 goal it.prevExternalToken with
      | mk r prev =>
        cases r with
        | none => simp only; rw [hs] at h; exact ⟨by simpa [hs] using h, by simp⟩
        | some ce =>
          simp only
          obtain ⟨k, k1, k2, k3, k4⟩ := scanKids_ok _ _ _ _ _ _ ce prev hk
          have hok : StackOK (ce :: e :: rest) := by
            rw [hs] at h
            have e1 : ce.childIndex = k := by omega
            exact ⟨by rw [e1]; exact k2, by rw [e1]; exact k3, h⟩
          split
          · split
            · rename_i hgt
              refine ⟨hok, fun _ => ?_⟩
              simp only [Iter.endPosition]
              exact hgt
            · refine ⟨hok, fun _ => ?_⟩
              simp only [Iter.endPosition, hp, Bool.false_eq_true, if_false]
              exact k4
          · exact descendLoop_ok al fuel _ goal hok hp

theorem descend_ok (al : AliasTable) (fuel : Nat) (it : Iter) (goal : Nat) (h : StackOK it.stack) :
    StackOK (it.descend al fuel goal).1.stack ∧
    ((it.descend al fuel goal).2 = true → (it.descend al fuel goal).1.endPosition.bytes > goal) := by
  unfold Iter.descend
  split
  · exact ⟨h, by simp⟩
  · rename_i hp
    exact descendLoop_ok al fuel it goal h (by simpa using hp)

theorem ascend_ok (al : AliasTable) (it : Iter) (h : StackOK it.stack) : StackOK (it.ascend al).stack := by
  unfold Iter.ascend
  cases hs : it.stack with
  | nil => simpa [hs] using h
  | cons e rest => rw [hs] at h; simpa using h.tail

theorem prefixBytes_succ : ∀ (kids : List Tree) (i : Nat) (c : Tree), kids[i]? = some c →
    prefixBytes kids (i + 1) = prefixBytes kids i + c.totalBytes
  | [], _, _, h => by simp at h
  | k :: rest, 0, c, h => by
    simp at h; subst h
    cases rest <;> simp [prefixBytes]
  | k :: rest, i + 1, c, h => by
    have := prefixBytes_succ rest i c (by simpa using h)
    simp only [prefixBytes] at this ⊢
    omega

theorem totalSize_bytes (t : Tree) : t.totalSize.bytes = t.totalBytes := by
  simp [Tree.totalSize, Tree.totalBytes, length_add]

theorem advanceLoop_ok (al : AliasTable) (fuel : Nat) : ∀ (stack : List Entry) (vd : Nat) (prev : Option Tree),
    StackOK stack → StackOK (advanceLoop al fuel stack vd prev).stack
  | [], _, _, _ => by simp [advanceLoop, StackOK]
  | [e], _, _, _ => by simp [advanceLoop, StackOK]
  | e :: p :: rest, vd, prev, h => by
    obtain ⟨h1, h2, h3⟩ := h
    unfold advanceLoop
    simp only
    cases hn : p.subtree.kids[e.childIndex + 1]? with
    | none => simp only; exact advanceLoop_ok al fuel (p :: rest) _ _ h3
    | some next =>
      simp only
      have hok : ∀ sci, StackOK ((⟨next, length_add e.position e.subtree.totalSize, e.childIndex + 1, sci⟩ : Entry) :: p :: rest) := by
        intro sci
        refine ⟨hn, ?_, h3⟩
        simp only [length_add_bytes, totalSize_bytes]
        rw [h2, prefixBytes_succ _ _ _ h1]; omega
      repeat' split
      all_goals first
        | exact hok _
        | exact (descend_ok al fuel _ 0 (hok _)).1

theorem advance_ok (al : AliasTable) (fuel : Nat) (it : Iter) (h : StackOK it.stack) :
    StackOK (it.advance al fuel).stack := by
  unfold Iter.advance
  split
  · simp only
    split
    · exact h
    · exact (descend_ok al fuel { it with inPadding := false } 0 h).1
  · exact advanceLoop_ok al fuel _ _ _ h

theorem catchUp_ok (al : AliasTable) (tf : Nat) : ∀ (fuel : Nat) (it : Iter) (np : Nat),
    StackOK it.stack → StackOK (catchUp al tf fuel it np).1.stack
  | 0, it, _, h => by simpa [catchUp] using h
  | fuel + 1, it, np, h => by
    unfold catchUp
    split
    · exact catchUp_ok al tf fuel _ np (advance_ok al tf it h)
    · exact h

theorem ascendTo_ok (al : AliasTable) : ∀ (fuel : Nat) (it : Iter) (d : Nat),
    StackOK it.stack → StackOK (ascendTo al fuel it d).stack
  | 0, it, _, h => by simpa [ascendTo] using h
  | fuel + 1, it, d, h => by
    unfold ascendTo
    split
    · exact ascendTo_ok al fuel _ d (ascend_ok al it h)
    · exact h

theorem midStep_ok (al : AliasTable) (fixed : Bool) (diffs : List TSRange) (tf : Nat) (s : LoopSt)
    (ho : StackOK s.o.stack) (hn : StackOK s.n.stack) :
    StackOK (midStep al fixed diffs tf s).1.stack ∧ StackOK (midStep al fixed diffs tf s).2.1.stack := by
  have hod := (descend_ok al tf s.o s.position.bytes ho).1
  have hnd := (descend_ok al tf s.n s.position.bytes hn).1
  unfold midStep
  simp only
  repeat' split
  all_goals exact ⟨by first | exact ho | exact hod, by first | exact hn | exact hnd⟩

/-- Both cursors keep the stack invariant through one iteration of the walk. -/
theorem loopBody_ok (al : AliasTable) (fixed : Bool) (diffs : List TSRange) (tf : Nat) (s : LoopSt)
    (ho : StackOK s.o.stack) (hn : StackOK s.n.stack) :
    StackOK (loopBody al fixed diffs tf s).o.stack ∧ StackOK (loopBody al fixed diffs tf s).n.stack := by
  have hm := midStep_ok al fixed diffs tf s ho hn
  unfold loopBody
  exact ⟨ascendTo_ok al _ _ _ (catchUp_ok al tf _ _ _ hm.1), ascendTo_ok al _ _ _ (catchUp_ok al tf _ _ _ hm.2)⟩

theorem mainLoop_ok (al : AliasTable) (fixed : Bool) (diffs : List TSRange) (tf : Nat) :
    ∀ (fuel : Nat) (s : LoopSt), StackOK s.o.stack → StackOK s.n.stack →
      StackOK (mainLoop al fixed diffs tf fuel s).o.stack ∧ StackOK (mainLoop al fixed diffs tf fuel s).n.stack
  | 0, s, ho, hn => by simpa [mainLoop] using ⟨ho, hn⟩
  | fuel + 1, s, ho, hn => by
    have step := loopBody_ok al fixed diffs tf s ho hn
    unfold mainLoop
    simp only
    split
    · exact mainLoop_ok al fixed diffs tf fuel _ step.1 step.2
    · exact step

end TsVerif.C04
