import TsVerif.C04.Lemmas
import TsVerif.C04.Iter
/-!
# C04 — lemmas about sequences of `ts_range_array_add` calls (the trace of the tree walk)
-/
namespace TsVerif.C04
open TsGen

/-- Like `Chain`, but a range may be empty (`start ≤ end`): what survives arbitrary admissible calls. -/
def WChain : Nat → List TSRange → Prop
  | _, [] => True
  | hi, r :: t => r.start_byte ≤ r.end_byte ∧ r.end_byte < hi ∧ WChain r.start_byte t

theorem WChain.mono {hi hi' : Nat} (h : hi ≤ hi') : ∀ {l}, WChain hi l → WChain hi' l
  | [], _ => trivial
  | _ :: _, ⟨a, b, c⟩ => ⟨a, by omega, c⟩

theorem WChain.below {hi : Nat} : ∀ {l}, WChain hi l → ∀ r ∈ l, r.start_byte ≤ r.end_byte ∧ r.end_byte < hi
  | [], _, r, hr => by cases hr
  | q :: t, ⟨a, b, c⟩, r, hr => by
    rcases List.mem_cons.1 hr with rfl | hr
    · exact ⟨a, b⟩
    · have := WChain.below c r hr
      exact ⟨this.1, by omega⟩

/-- Output arrays in C order: sorted, pairwise strictly separated, every range well formed. -/
def WeakSorted (l : List TSRange) : Prop :=
  l.Pairwise (fun a b => a.end_byte < b.start_byte) ∧ ∀ r ∈ l, r.start_byte ≤ r.end_byte

theorem WChain.weakSorted {hi : Nat} : ∀ {l}, WChain hi l → WeakSorted l.reverse
  | [], _ => by simp [WeakSorted]
  | q :: t, ⟨a, b, c⟩ => by
    have ih := WChain.weakSorted c
    have bl := WChain.below c
    refine ⟨?_, ?_⟩
    · rw [List.reverse_cons, List.pairwise_append]
      refine ⟨ih.1, by simp, ?_⟩
      intro x hx y hy
      simp at hy; subst hy
      exact (bl x (List.mem_reverse.1 hx)).2
    · intro r hr
      simp at hr
      rcases hr with hr | rfl
      · exact (bl r hr).1
      · exact a

/-- One admissible call keeps the array a (weak) chain; the bound grows at most to the call's end. -/
theorem addRev_admissible (racc : List TSRange) (s e : Length) (hi : Nat) (hc : WChain hi racc)
    (ha : admissible racc s e = true) : WChain (max hi (e.bytes + 1)) (addRev racc s e) := by
  cases racc with
  | nil =>
    simp only [addRev]
    split
    · simp [WChain, mkRange]; omega
    · simp [WChain]
  | cons last rest =>
    obtain ⟨a, b, d⟩ := hc
    simp only [admissible, Bool.or_eq_true, decide_eq_true_eq] at ha
    simp only [addRev]
    split
    · exact ⟨by simp; omega, by simp; omega, d⟩
    · split
      · exact ⟨by simp [mkRange]; omega, by simp [mkRange]; omega, ⟨a, by simp [mkRange]; omega, d⟩⟩
      · exact ⟨a, by omega, d⟩

theorem foldAdd_admissible : ∀ (tr : List (Length × Length)) (racc : List TSRange) (hi : Nat),
    WChain hi racc → traceAdmissible racc tr = true → WChain (max hi (traceBound tr + 1)) (foldAdd racc tr)
  | [], racc, hi, hc, _ => by
    simpa [foldAdd, traceBound] using WChain.mono (by omega) hc
  | (s, e) :: rest, racc, hi, hc, ht => by
    simp only [traceAdmissible, Bool.and_eq_true] at ht
    have h1 := addRev_admissible racc s e hi hc ht.1
    have ih := foldAdd_admissible rest (addRev racc s e) _ h1 ht.2
    simp only [foldAdd, List.foldl_cons, traceBound]
    exact WChain.mono (by omega) ih

theorem foldAdd_append (racc : List TSRange) (a b : List (Length × Length)) :
    foldAdd (foldAdd racc a) b = foldAdd racc (a ++ b) := by
  simp [foldAdd, List.foldl_append]

/-- A growing call keeps everything covered and covers its own span. -/
theorem addRev_grow (racc : List TSRange) (s e : Length) (h : growOK racc s e = true) (x : Nat) :
    (mem racc x → mem (addRev racc s e) x) ∧ (s.bytes ≤ x → x < e.bytes → mem (addRev racc s e) x) := by
  cases racc with
  | nil =>
    simp only [addRev]
    split
    · simp [mkRange]; exact fun a b => ⟨a, b⟩
    · simp; omega
  | cons last rest =>
    simp only [growOK, Bool.or_eq_true, Bool.and_eq_true, decide_eq_true_eq] at h
    simp only [addRev]
    split
    · rename_i hle
      have h' : last.start_byte ≤ s.bytes ∧ last.end_byte ≤ e.bytes := by
        rcases h with h | h
        · omega
        · exact h
      constructor
      · intro hm
        rcases (mem_cons _ _ _).1 hm with h1 | h1
        · exact (mem_cons _ _ _).2 (Or.inl ⟨by simpa using h1.1, by simp; omega⟩)
        · exact (mem_cons _ _ _).2 (Or.inr h1)
      · intro h1 h2
        exact (mem_cons _ _ _).2 (Or.inl ⟨by simp; omega, by simpa using h2⟩)
    · split
      · constructor
        · intro hm; exact (mem_cons _ _ _).2 (Or.inr hm)
        · intro h1 h2; exact (mem_cons _ _ _).2 (Or.inl ⟨by simpa [mkRange] using h1, by simpa [mkRange] using h2⟩)
      · exact ⟨id, fun h1 h2 => by omega⟩

theorem foldAdd_grow : ∀ (tr : List (Length × Length)) (racc : List TSRange), traceGrow racc tr = true →
    ∀ x, (mem racc x → mem (foldAdd racc tr) x) ∧
      (∀ c ∈ tr, c.1.bytes ≤ x → x < c.2.bytes → mem (foldAdd racc tr) x)
  | [], racc, _, x => ⟨by simp [foldAdd], by intro c hc; cases hc⟩
  | (s, e) :: rest, racc, h, x => by
    simp only [traceGrow, Bool.and_eq_true] at h
    have h1 := addRev_grow racc s e h.1 x
    have ih := foldAdd_grow rest (addRev racc s e) h.2 x
    simp only [foldAdd, List.foldl_cons]
    refine ⟨fun hm => ih.1 (h1.1 hm), ?_⟩
    intro c hc hx1 hx2
    rcases List.mem_cons.1 hc with rfl | hc
    · exact ih.1 (h1.2 hx1 hx2)
    · exact ih.2 c hc hx1 hx2

/-- A tiling covers every byte between its start and its end. -/
theorem tile_find : ∀ (spans : List (Length × Length × Nat)) (lo p : Nat), spansTile lo spans = true →
    lo ≤ p → p < spansEnd lo spans → ∃ sp ∈ spans, sp.1.bytes ≤ p ∧ p < sp.2.1.bytes
  | [], lo, p, _, h1, h2 => by simp [spansEnd] at h2; omega
  | (s, e, l) :: rest, lo, p, h, h1, h2 => by
    simp only [spansTile, Bool.and_eq_true, decide_eq_true_eq] at h
    by_cases hp : p < e.bytes
    · exact ⟨(s, e, l), by simp, by simp; omega, by simpa using hp⟩
    · obtain ⟨sp, hsp, h3⟩ := tile_find rest e.bytes p h.2 (by omega) (by simpa [spansEnd] using h2)
      exact ⟨sp, List.mem_cons_of_mem _ hsp, h3⟩

theorem tile_iff : ∀ (spans : List (Length × Length × Nat)) (lo : Nat),
    spansTile lo spans = (spansChain lo spans && spansMono spans)
  | [], _ => by simp [spansTile, spansChain, spansMono]
  | (s, e, l) :: rest, lo => by
    have ih := tile_iff rest e.bytes
    simp only [spansTile, spansChain, spansMono, List.all_cons, ih] at *
    cases decide (s.bytes = lo) <;> cases decide (s.bytes ≤ e.bytes) <;> simp

theorem chain_append : ∀ (xs : List (Length × Length × Nat)) (lo : Nat) (x : Length × Length × Nat),
    spansChain lo (xs ++ [x]) = (spansChain lo xs && decide (x.1.bytes = spansEnd lo xs)) ∧
    spansEnd lo (xs ++ [x]) = x.2.1.bytes
  | [], lo, (s, e, l) => by simp [spansChain, spansEnd]; rfl
  | (s, e, l) :: rest, lo, x => by
    have ih := chain_append rest e.bytes x
    simp [spansChain, spansEnd, ih.1, ih.2, Bool.and_assoc]; rfl

/-- One iteration appends exactly the span from the current position to the new position. -/
theorem loopBody_spans (al : AliasTable) (fixed : Bool) (diffs : List TSRange) (tf : Nat) (s : LoopSt) :
    ∃ l, (loopBody al fixed diffs tf s).spans = (s.position, (loopBody al fixed diffs tf s).position, l) :: s.spans := by
  unfold loopBody
  exact ⟨_, rfl⟩

/-- The spans recorded by the loop are contiguous and end at the current position. -/
theorem mainLoop_chain (al : AliasTable) (fixed : Bool) (diffs : List TSRange) (tf : Nat) (lo : Nat) :
    ∀ (fuel : Nat) (s : LoopSt), spansChain lo s.spans.reverse = true → spansEnd lo s.spans.reverse = s.position.bytes →
      spansChain lo (mainLoop al fixed diffs tf fuel s).spans.reverse = true ∧
      spansEnd lo (mainLoop al fixed diffs tf fuel s).spans.reverse = (mainLoop al fixed diffs tf fuel s).position.bytes
  | 0, s, h1, h2 => by simpa [mainLoop] using ⟨h1, h2⟩
  | fuel + 1, s, h1, h2 => by
    obtain ⟨l, hl⟩ := loopBody_spans al fixed diffs tf s
    have step : spansChain lo (loopBody al fixed diffs tf s).spans.reverse = true ∧
        spansEnd lo (loopBody al fixed diffs tf s).spans.reverse = (loopBody al fixed diffs tf s).position.bytes := by
      rw [hl, List.reverse_cons]
      have := chain_append s.spans.reverse lo (s.position, (loopBody al fixed diffs tf s).position, l)
      rw [this.1, this.2, h1, h2]; simp
    unfold mainLoop
    simp only
    split
    · exact mainLoop_chain al fixed diffs tf lo fuel _ step.1 step.2
    · exact step

end TsVerif.C04
