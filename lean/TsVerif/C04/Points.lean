import TsVerif.C04.Ends
/-!
# C04 — the row/column dimension of the reported ranges

The theorems of `Props.lean` are about BYTES.  A `TSRange` also carries a start and an end POINT.  In
`get_changed_ranges.c` bytes and points never travel separately: every position the walk handles is a `Length`
(`bytes` + `extent`), `ts_range_array_add(start, end)` stores `start.bytes`/`start.extent` and `end.bytes`/`end.extent`
side by side, and the merge case overwrites `end_byte` and `end_point` together.  Hence (`ranges_points_from_calls`):

  every reported range's (start_byte, start_point) is (ℓ.bytes, ℓ.extent) for ONE `Length` ℓ handed to `add` as a start,
  and its (end_byte, end_point) is (ℓ'.bytes, ℓ'.extent) for ONE `Length` ℓ' handed to `add` as an end.

So whatever relation holds between the bytes and the extent of the walk's positions holds for the reported ranges.
The walk's positions are `iterator_start_position` / `iterator_end_position` values — sums (`length_add`) of the
paddings and sizes stored in the two trees (`walk_positions`).  That THOSE extents are the row/column of their byte
offset in the document is exactly the tree-consistency property of C10 (`Cons`: every stored padding/size is the
`Length` of the text it spans), which is a statement about trees and texts, not about this function: given it, each
reported point is the row/column of the reported byte, and "sorted / disjoint / inside the document / covers" in points
follow from the byte theorems because `pointAt` is monotone in the byte offset.  Without a text in the model the points
dimension is therefore: PROVED up to the trees' consistency (this file), and JUDGED on real outputs (`rangesOrdered`
compares points as well as bytes; the correspondence compares the port's points with the implementation's).
-/
namespace TsVerif.C04
open TsGen TsVerif

/-- The (byte, point) pair at the start / end of a range is the (bytes, extent) of a `Length` of the list. -/
def StartFrom (L : List Length) (r : TSRange) : Prop := ∃ x ∈ L, r.start_byte = x.bytes ∧ r.start_point = x.extent
def EndFrom (L : List Length) (r : TSRange) : Prop := ∃ x ∈ L, r.end_byte = x.bytes ∧ r.end_point = x.extent

theorem addRev_points (Ls Le : List Length) (racc : List TSRange) (s e : Length)
    (h : ∀ r ∈ racc, StartFrom Ls r ∧ EndFrom Le r) (hs : s ∈ Ls) (he : e ∈ Le) :
    ∀ r ∈ addRev racc s e, StartFrom Ls r ∧ EndFrom Le r := by
  cases racc with
  | nil =>
    simp only [addRev]
    split
    · intro r hr; simp at hr; subst hr
      exact ⟨⟨s, hs, rfl, rfl⟩, ⟨e, he, rfl, rfl⟩⟩
    · intro r hr; cases hr
  | cons last rest =>
    simp only [addRev]
    split
    · intro r hr
      rcases List.mem_cons.1 hr with rfl | hr
      · exact ⟨(h last (by simp)).1, ⟨e, he, rfl, rfl⟩⟩
      · exact h r (List.mem_cons_of_mem _ hr)
    · split
      · intro r hr
        rcases List.mem_cons.1 hr with rfl | hr
        · exact ⟨⟨s, hs, rfl, rfl⟩, ⟨e, he, rfl, rfl⟩⟩
        · exact h r hr
      · exact h

theorem foldAdd_points (Ls Le : List Length) : ∀ (tr : List (Length × Length)) (racc : List TSRange),
    (∀ r ∈ racc, StartFrom Ls r ∧ EndFrom Le r) → (∀ c ∈ tr, c.1 ∈ Ls ∧ c.2 ∈ Le) →
    ∀ r ∈ foldAdd racc tr, StartFrom Ls r ∧ EndFrom Le r
  | [], racc, h, _ => by simpa [foldAdd] using h
  | (s, e) :: rest, racc, h, hc => by
    simp only [foldAdd, List.foldl_cons]
    exact foldAdd_points Ls Le rest (addRev racc s e)
      (addRev_points Ls Le racc s e h (hc (s, e) (by simp)).1 (hc (s, e) (by simp)).2)
      (fun c hcm => hc c (List.mem_cons_of_mem _ hcm))

/-- `ranges_points_from_calls`: for ALL tree pairs, every reported range starts at (bytes, extent) of a `Length` that
was handed to `ts_range_array_add` as a start and ends at (bytes, extent) of one handed over as an end. -/
theorem ranges_points_from_calls (al : AliasTable) (fixed : Bool) (old new : Tree) (diffs : List TSRange) :
    let ch := changedRanges al fixed old new diffs
    ∀ r ∈ ch.ranges, StartFrom ((ch.main ++ ch.post).map (·.1)) r ∧ EndFrom ((ch.main ++ ch.post).map (·.2)) r := by
  intro ch r hr
  have hrr : ch.ranges = (foldAdd [] (ch.main ++ ch.post)).reverse := by
    show (changedRanges al fixed old new diffs).ranges = _
    rw [← foldAdd_append]; rfl
  rw [hrr] at hr
  refine foldAdd_points _ _ (ch.main ++ ch.post) [] (by intro r h; cases h) ?_ r (List.mem_reverse.1 hr)
  intro c hc
  exact ⟨List.mem_map.2 ⟨c, hc, rfl⟩, List.mem_map.2 ⟨c, hc, rfl⟩⟩

/-- Every span of the walk runs from the loop position to the next position, and every call inside the loop is
such a span: the `Length`s handed to `add` are the walk's positions. -/
theorem walk_positions (al : AliasTable) (fixed : Bool) (old new : Tree) (diffs : List TSRange) :
    let ch := changedRanges al fixed old new diffs
    ch.main = ch.pre ++ callsOf ch.spans ∧ ∀ c ∈ callsOf ch.spans, ∃ sp ∈ ch.spans, c = (sp.1, sp.2.1) := by
  intro ch
  refine ⟨rfl, fun c hc => ?_⟩
  unfold callsOf at hc
  obtain ⟨sp, hsp, h⟩ := List.mem_filterMap.1 hc
  refine ⟨sp, hsp, ?_⟩
  split at h
  · simp at h; exact h.symm
  · cases h

/-- Non-vacuity: the witness pair of `override_span_witness`-style trees reports byte/point pairs that belong together. -/
example : addRev [] ⟨3, ⟨1, 0⟩⟩ ⟨7, ⟨2, 2⟩⟩ = [⟨⟨1, 0⟩, ⟨2, 2⟩, 3, 7⟩] := by decide

end TsVerif.C04
