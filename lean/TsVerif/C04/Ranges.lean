import TsVerif.Gen.Basic
/-!
# C04 — range arrays of `lib/src/get_changed_ranges.c`

Hand ports (loops are not translated by c2lean) of
* `ts_range_array_add`            → `addRev` / `add`
* `ts_range_array_intersects`     → `intersects`
* `ts_range_array_get_changed_ranges` → `symDiffLoop` / `symDiff`

tied to the C functions by the function-level correspondence (`harness/csrc/cunit_c04.c`, a unity
build that calls the real `static` functions).

The growing output array is kept **back to front** (`head` = `array_back`), so that the C code's
"look at the last range" is a pattern match; `add`/`symDiff` give the array in C order.
-/
namespace TsVerif.C04
open TsGen

def UMAX : Nat := 4294967295

def mkRange (s e : Length) : TSRange :=
  { start_point := s.extent, end_point := e.extent, start_byte := s.bytes, end_byte := e.bytes }

/-- `ts_range_array_add` on the reversed array. -/
def addRev (racc : List TSRange) (s e : Length) : List TSRange :=
  match racc with
  | last :: rest =>
    if s.bytes ≤ last.end_byte then
      { last with end_byte := e.bytes, end_point := e.extent } :: rest
    else if s.bytes < e.bytes then mkRange s e :: last :: rest
    else last :: rest
  | [] => if s.bytes < e.bytes then [mkRange s e] else []

/-- `ts_range_array_add` in C order. -/
def add (arr : List TSRange) (s e : Length) : List TSRange := (addRev arr.reverse s e).reverse

/-- `ts_range_array_intersects`. -/
def intersectsFrom : List TSRange → Nat → Nat → Bool
  | [], _, _ => false
  | r :: rest, startByte, endByte =>
    if r.end_byte > startByte then
      if r.start_byte ≥ endByte then false else true
    else intersectsFrom rest startByte endByte

def intersects (arr : List TSRange) (startIndex startByte endByte : Nat) : Bool :=
  intersectsFrom (arr.drop startIndex) startByte endByte

/-- `next_old_position` / `next_new_position`: the next boundary of a range list whose first
`index` ranges were dropped.  (C reads `ranges[index]` when `in_range` is set even if the list is
exhausted; the loop below never asks in that state.) -/
def nextPos (rs : List TSRange) (inR : Bool) : Length :=
  match rs with
  | [] => LENGTH_MAX
  | r :: _ => if inR then { bytes := r.end_byte, extent := r.end_point }
              else { bytes := r.start_byte, extent := r.start_point }

/-- `if (in_range) index++; in_range = !in_range;` -/
def adv (rs : List TSRange) (inR : Bool) : List TSRange × Bool :=
  if inR then (rs.tail, false) else (rs, true)

/-- The step of the EQUAL-boundaries branch (since /repo 958e7c7): a list that is exhausted and not inside a
range "sits at LENGTH_MAX" and is not toggled; otherwise like `adv`. -/
def advE (rs : List TSRange) (inR : Bool) : List TSRange × Bool :=
  if rs = [] ∧ inR = false then (rs, inR) else adv rs inR

def mu (rs : List TSRange) (inR : Bool) : Nat := 2 * rs.length + (if inR then 0 else 1)

theorem mu_adv (rs : List TSRange) (inR : Bool) (h : ¬ (rs = [] ∧ inR = true)) :
    mu (adv rs inR).1 (adv rs inR).2 < mu rs inR := by
  cases rs <;> cases inR <;> simp_all [mu, adv] <;> omega

/-- The loop of `ts_range_array_get_changed_ranges`.  `old`/`new` are the not yet consumed
suffixes (`&old_ranges[old_index]`), `racc` the reversed `differences`.
The second guard is the state in which the C code would read `ranges[count]` (outside the array):
it is unreachable for lists in which no range starts at `UINT32_MAX` (`symDiffLoop_spec` covers it);
the model stops there.  Since /repo 958e7c7 the equal-boundaries branch no longer toggles an exhausted list
(`advE`), which removes the only way into that state; the guard is kept (dead). -/
def symDiffLoop (old new : List TSRange) (cur : Length) (inOld inNew : Bool) (racc : List TSRange) :
    List TSRange :=
  if old = [] ∧ new = [] then racc
  else if h : (old = [] ∧ inOld = true) ∨ (new = [] ∧ inNew = true) then racc
  else
    let no := nextPos old inOld
    let nn := nextPos new inNew
    if no.bytes < nn.bytes then
      let racc := if inOld != inNew then addRev racc cur no else racc
      symDiffLoop (adv old inOld).1 new no (adv old inOld).2 inNew racc
    else if nn.bytes < no.bytes then
      let racc := if inOld != inNew then addRev racc cur nn else racc
      symDiffLoop old (adv new inNew).1 nn inOld (adv new inNew).2 racc
    else
      let racc := if inOld != inNew then addRev racc cur nn else racc
      symDiffLoop (advE old inOld).1 (advE new inNew).1 nn (advE old inOld).2 (advE new inNew).2 racc
termination_by mu old inOld + mu new inNew
decreasing_by
  · have := mu_adv old inOld (by intro c; exact h (Or.inl c)); omega
  · have := mu_adv new inNew (by intro c; exact h (Or.inr c)); omega
  · -- at least one list is not exhausted-and-idle (first guard), that one strictly decreases, the other does not grow
    rename_i hfirst _ _
    have ho : mu (advE old inOld).1 (advE old inOld).2 ≤ mu old inOld := by
      unfold advE; split
      · exact Nat.le_refl _
      · exact Nat.le_of_lt (mu_adv old inOld (by intro c; exact h (Or.inl c)))
    have hn : mu (advE new inNew).1 (advE new inNew).2 ≤ mu new inNew := by
      unfold advE; split
      · exact Nat.le_refl _
      · exact Nat.le_of_lt (mu_adv new inNew (by intro c; exact h (Or.inr c)))
    by_cases hoe : old = [] ∧ inOld = false
    · have hne : ¬ (new = [] ∧ inNew = false) := by
        intro c; exact hfirst ⟨hoe.1, c.1⟩
      have : mu (advE new inNew).1 (advE new inNew).2 < mu new inNew := by
        unfold advE; simp only [hne, if_false]
        exact mu_adv new inNew (by intro c; exact h (Or.inr c))
      omega
    · have : mu (advE old inOld).1 (advE old inOld).2 < mu old inOld := by
        unfold advE; simp only [hoe, if_false]
        exact mu_adv old inOld (by intro c; exact h (Or.inl c))
      omega

/-- `ts_range_array_get_changed_ranges` (output in C order). -/
def symDiff (old new : List TSRange) : List TSRange :=
  (symDiffLoop old new length_zero false false []).reverse

end TsVerif.C04
