import TsVerif.C04.Lemmas
import TsVerif.C04.LemmasIter
import TsVerif.C04.Judge
import TsVerif.C04.Geometry
import TsVerif.C04.Ends
import TsVerif.C04.Reach
import TsVerif.C04.Points
/-!
# C04 — Changed ranges cover every position whose ancestor chain changed

Property text: "Given the edited old tree that was passed to a re-parse and the tree that re-parse
returned, the reported changed ranges are sorted, disjoint, inside the document, and every
character whose stack of enclosing node types differs between the two trees lies inside one of
them. This also holds when the included ranges changed between the two parses."

Clause-by-clause map (phrase of the property text → theorem; PROVED = kernel-checked ∀-theorem about the ports in
`Ranges.lean` / `Iter.lean`, which are tied to `lib/src/get_changed_ranges.c` by the function- and system-level
correspondence of `checks/c04.py`; PARTIAL = proved under a hypothesis that is decidable and evaluated by the driver
on every real case; JUDGED = decided on every real output by the Lean judge `Judge.lean`):

0. "Given the edited old tree that was passed to a re-parse and the tree that re-parse returned"
   — the quantifier.  The theorems are about ALL pairs of trees (no relation between them is assumed, except the
   premises named below); the check instantiates them with real (edited old, re-parsed new) pairs.
1. "the reported changed ranges are sorted, disjoint"
   * PROVED for the building blocks: `add_sorted` (`ts_range_array_add`), `symDiff_spec` (the included-range
     difference: sorted, strictly separated, no empty range), `intersects_spec` (the override test is exact).
   * PROVED for ARBITRARY call sequences (`Round11.lean`, no tree involved): `add_calls_sorted` (non-decreasing
     starts + non-empty calls ⇒ sorted/strictly separated/non-empty, ends ≤ largest end handed over),
     `add_calls_wellformed` (`s ≤ e` only ⇒ `start ≤ end`; `empty_range_witness`), `add_calls_exact` (positions never
     go backwards ⇒ covers exactly the union of the spans), `add_calls_sound` (NO premise: no invented byte),
     the EXACT premise `add_step_exact` / `add_calls_strict_iff` (`keepsStrict`), and `decreasing_start_witness`
     (`(5,6) (0,1)` leaves `[5,1)`).  For the walk: `changed_ranges_sound` (ALL tree pairs, no premise: every reported
     byte lies in a span the walk handed to `add`) and `changed_ranges_exact` (sized trees + `entryOK`: reported bytes
     = exactly the union of those spans).
   * PARTIAL for the walk — `changed_sorted_bounded` + `changed_nonempty`: sorted, pairwise STRICTLY separated
     (`prev.end < next.start`: adjacent ranges are merged), no empty range.  Premises: both trees sized
     (`AllSized`, via `allSizedB`: true of every real tree seen, edited ones included), the loop starts inside both
     trees (`entryOK`; implied by equal root starts, `entry_of_same_start`; NEEDED, `entry_needed_witness`), model fuel
     not exhausted.  Outside the premises (~2 % of real pairs: one tree ends before the other root starts):
     `changed_sorted_bounded_partial` under `traceAdmissible` (evaluated), which gives `start ≤ end` only — real
     traces there do hold a transient `[0,0)`.
   * POINTS (row/column): `ranges_points_from_calls` + `walk_positions` (`Points.lean`, for ALL tree pairs): every
     reported (start_byte, start_point) and (end_byte, end_point) is the (bytes, extent) of ONE `Length` of the walk —
     bytes and points never travel separately.  That a walk position's extent is the row/column of its byte offset is
     the consistency of the trees' stored `Length`s with the text (C10's `Cons`), a property of trees, not of this
     function; given it the point versions of clauses 1–3 follow from the byte versions (monotone `pointAt`).
   * JUDGED on every real output: `rangesOrdered` (bytes AND points); the correspondence compares the port's points
     with the implementation's.
2. "inside the document"
   * PARTIAL — `changed_sorted_bounded`: every range ends at or before the end of the LONGER of the two trees
     (`end_le`: a cursor never ends beyond its root).  Weaker than the English in one respect: "the document" is the
     new text; the edited old tree can be longer than the new text only by what `ts_tree_edit` left (it is not —
     the check's judge uses `max(document length, both tree ends)` and never saw a range beyond the document).
   * JUDGED: every range ends at or before `max(document length, tree ends)`.
3. "every character whose stack of enclosing node types differs between the two trees lies inside one of them"
   * PARTIAL — `changed_covers` (premises of 1 + MatchSound/PassSound: on every span the walk did not hand to `add`
     the two per-byte stacks agree — this is where parser determinism / subtree sharing enters; evaluated per real
     case with the judge's stacks): every differing byte in `[loopStart, walk end)` and every byte of the pre-call
     `[min root start, max root start)` and of the post-call `[min total, max total)` is reported.
     Rests on `spans_contiguous` (PROVED for all pairs), `spans_forward`, `trace_grows`.
     `changed_covers_all` (+ `walk_reaches_end`, premise `rootOK`: both roots visible, sizes < 2^32): the same for
     EVERY byte from the start of the earlier root to the end of the longer tree — the walk does not stop before the
     end of the shorter tree (`Reach.lean`), so nothing between the loop start and the post-call is left out.
     Remaining differences to the English, decided by the judge: (a) bytes before both root starts and after both
     trees (no node encloses them in either tree: stacks equal by the judge's definition); (b) "character" = byte
     here, and a character's bytes share their stacks only if no node boundary splits a character (true for trees of
     valid parses; judged per byte).
   * JUDGED on every real output: `firstUncovered` over per-byte scope stacks computed from full dumps
     (alias rule of `tree_cursor.c` included).
4. "This also holds when the included ranges changed between the two parses"
   * PROVED: `symDiff_spec`, `symDiff_inside` (the difference list is exactly the bytes in one list only).
   * The override: `changed_covers` holds for every difference list (its premise MatchSound is evaluated with the
     override applied); for the code BEFORE /repo e524398 the clause was FALSE — `override_span_witness` (finding
     C04-override-span-in-padding, fixed by fixes/C04-range-override-in-padding.diff; the port carries both variants
     and the check picks the one /repo behaves like).
   * JUDGED: coverage is required only for bytes included in at least one of the two range lists.

Conventions: a byte `x` is *in* a range when `start_byte ≤ x < end_byte`.  Input lists are what
`ts_lexer_set_included_ranges` accepts (`SortedFrom 0`): starts ≥ previous end, end ≥ start; plus
"no range starts at `UINT32_MAX`" — for a list violating that, the C loop reads `ranges[count]`
(the state guarded in `symDiffLoop`), so the theorem cannot hold for the C code there.
-/
namespace TsVerif.C04
open TsGen

/-- `add_sorted`: appending `[s, e)` with `s` at or after every existing end (the calling
discipline: positions handed to `ts_range_array_add` never go backwards) keeps the array sorted,
pairwise strictly separated and free of empty ranges, and adds exactly the bytes of `[s, e)`. -/
theorem add_sorted (arr : List TSRange) (s e : Length) (hs : StrictSorted arr)
    (hend : ∀ r ∈ arr, r.end_byte ≤ s.bytes) (hse : s.bytes ≤ e.bytes) :
    StrictSorted (add arr s e) ∧
    (∀ r ∈ add arr s e, r.end_byte ≤ e.bytes) ∧
    ∀ x, mem (add arr s e) x ↔ (mem arr x ∨ (s.bytes ≤ x ∧ x < e.bytes)) := by
  have hc : Chain (s.bytes + 1) arr.reverse :=
    chain_of_strictSorted (by simpa using hs) (fun r hr => by have := hend r (List.mem_reverse.1 hr); omega)
  have := addRev_spec arr.reverse s e hc hse
  refine ⟨this.1.strictSorted, ?_, fun x => ?_⟩
  · intro r hr
    have := (Chain.below this.1 r (List.mem_reverse.1 hr)).2
    omega
  · unfold add
    rw [mem_reverse, this.2 x, mem_reverse]

example : let arr : List TSRange := [⟨⟨0,1⟩,⟨0,3⟩,1,3⟩, ⟨⟨0,5⟩,⟨0,6⟩,5,6⟩]
    StrictSorted arr ∧ (∀ r ∈ arr, r.end_byte ≤ 6) ∧
    add arr ⟨6,⟨0,6⟩⟩ ⟨9,⟨0,9⟩⟩ = [⟨⟨0,1⟩,⟨0,3⟩,1,3⟩, ⟨⟨0,5⟩,⟨0,9⟩,5,9⟩] := by
  simp [StrictSorted, add, addRev]

/-- `symDiff_spec`: for two valid range lists the reported differences are sorted, pairwise
strictly separated (touching pieces are merged), contain no empty range, and a byte is covered
iff it lies in exactly one of the two lists. -/
theorem symDiff_spec (old new : List TSRange) (ho : SortedFrom 0 old) (hn : SortedFrom 0 new) :
    StrictSorted (symDiff old new) ∧
    ∀ x, mem (symDiff old new) x ↔ XorP (mem old x) (mem new x) := by
  have := symDiffLoop_spec old new length_zero false false []
    (WF_false_of_sorted ho) (WF_false_of_sorted hn) (by simp [length_zero, UMAX]) (by simp [Chain])
  obtain ⟨⟨hi, hch⟩, hm⟩ := this
  refine ⟨hch.strictSorted, fun x => ?_⟩
  unfold symDiff
  rw [mem_reverse, hm x, memFrom_false, memFrom_false]
  simp [length_zero]

/-- Every reported difference lies inside a range of one of the lists ("inside the document"
for the included-range part). -/
theorem symDiff_inside (old new : List TSRange) (ho : SortedFrom 0 old) (hn : SortedFrom 0 new)
    (x : Nat) (hx : mem (symDiff old new) x) : mem old x ∨ mem new x := by
  rcases ((symDiff_spec old new ho hn).2 x).1 hx with ⟨h, _⟩ | ⟨_, h⟩
  · exact Or.inl h
  · exact Or.inr h

example : SortedFrom 0 ([⟨⟨0,0⟩,⟨0,4⟩,0,4⟩, ⟨⟨0,4⟩,⟨0,4⟩,4,4⟩, ⟨⟨0,6⟩,⟨4294967295,4294967295⟩,6,4294967295⟩] : List TSRange) := by
  simp [SortedFrom, UMAX]

/-- `intersects_spec`: on a sorted array (as produced by `symDiff`) the early-exit scan of
`ts_range_array_intersects` answers exactly "some range from `startIndex` on overlaps
`(startByte, endByte)`", i.e. has `end > startByte` and `start < endByte`. -/
theorem intersects_spec (arr : List TSRange) (i a b : Nat) (hs : StrictSorted arr) :
    intersects arr i a b = true ↔ ∃ r ∈ arr.drop i, a < r.end_byte ∧ r.start_byte < b := by
  unfold intersects
  refine intersectsFrom_spec _ a b ⟨?_, fun r hr => hs.2 r (List.mem_of_mem_drop hr)⟩
  exact List.Pairwise.sublist (List.drop_sublist i arr) hs.1

/-- `changed_sorted_bounded_partial`: for every pair of trees and every list of included-range
differences, IF every call that the lock-step walk makes to `ts_range_array_add` is `admissible`
for the array built so far (it starts after the last range, or does not end before the last
range's start), THEN the reported ranges are sorted, pairwise strictly separated, well formed
(`start ≤ end`), and end at or before the largest position handed over.  The hypothesis is evaluated by the driver on every real case.
(The obvious stronger hypothesis "positions never go backwards" is FALSE for the real code: when
the two roots start at different offsets the first loop iteration can hand over `(11, 6)`; see
`nonmonotone_witness` and notes/C04.md.)
OPEN (`changed_sorted_bounded`): drop the hypothesis by proving it for all tree pairs — needs the
geometric invariants of the two cursors. -/
theorem changed_sorted_bounded_partial (al : AliasTable) (fixed : Bool) (old new : Tree) (diffs : List TSRange)
    (h : traceAdmissible [] ((changedRanges al fixed old new diffs).main ++ (changedRanges al fixed old new diffs).post) = true) :
    WeakSorted (changedRanges al fixed old new diffs).ranges ∧
    ∀ r ∈ (changedRanges al fixed old new diffs).ranges,
      r.end_byte ≤ traceBound ((changedRanges al fixed old new diffs).main ++ (changedRanges al fixed old new diffs).post) := by
  have hk := foldAdd_admissible _ [] 0 (by simp [WChain]) h
  have hr : (changedRanges al fixed old new diffs).ranges =
      (foldAdd [] ((changedRanges al fixed old new diffs).main ++ (changedRanges al fixed old new diffs).post)).reverse := by
    rw [← foldAdd_append]; rfl
  rw [hr]
  refine ⟨hk.weakSorted, fun r hr' => ?_⟩
  have := (WChain.below hk r (List.mem_reverse.1 hr')).2
  omega

/-- Non-vacuity, and the shape seen on real trees whose roots start at different offsets
(`lst`, old root starting at byte 11, new root spanning [2,6)): the calls `(2,11) (11,6) (6,11)` go
backwards, are admissible, and give the single range [2,11).  (Real histories also show
`(0,2) (2,0) (0,10)`: the array is `[0,0)` — an empty range — until the final call repairs it;
hence the conclusion is `start ≤ end`, not `start < end`.) -/
example : let tr : List (Length × Length) := [(⟨2,⟨0,2⟩⟩, ⟨11,⟨0,11⟩⟩), (⟨11,⟨0,11⟩⟩, ⟨6,⟨0,6⟩⟩), (⟨6,⟨0,6⟩⟩, ⟨11,⟨0,11⟩⟩)]
    traceAdmissible [] tr = true ∧ (foldAdd [] tr).reverse = [⟨⟨0,2⟩,⟨0,11⟩,2,11⟩] := by decide

/-- `walk_stackOK` — the cursor-stack invariant of the lock-step walk, for ALL tree pairs, alias tables and
difference lists: in the state in which the loop of `ts_subtree_get_changed_ranges` ends (and, by the same
induction, in every state it passes through) each entry of both cursor stacks is the child of the entry below
it at the recorded child index, and its position is its parent's position plus the total sizes of the
earlier siblings.  `descend`, `advance` and `ascend` each preserve it (`descend_ok`, `advance_ok`, `ascend_ok`). -/
theorem walk_stackOK (al : AliasTable) (fixed : Bool) (old new : Tree) (diffs : List TSRange) (tf fuel : Nat)
    (position nextPosition : Length) :
    let s := mainLoop al fixed diffs tf fuel
      { o := iterNew old, n := iterNew new, position := position, nextPosition := nextPosition, diffIdx := 0, spans := [] }
    StackOK s.o.stack ∧ StackOK s.n.stack :=
  mainLoop_ok al fixed diffs tf fuel _ (by simp [iterNew, StackOK]) (by simp [iterNew, StackOK])

/-- `descend_end`: a successful `iterator_descend(goal)` keeps the stack invariant and leaves the iterator on
a node (or in the padding of a node) whose end lies strictly beyond the goal. -/
theorem descend_end (al : AliasTable) (fuel : Nat) (it : Iter) (goal : Nat) (h : StackOK it.stack)
    (hd : (it.descend al fuel goal).2 = true) :
    StackOK (it.descend al fuel goal).1.stack ∧ (it.descend al fuel goal).1.endPosition.bytes > goal :=
  ⟨(descend_ok al fuel it goal h).1, (descend_ok al fuel it goal h).2 hd⟩

/-- `spans_contiguous`: for ALL tree pairs, alias tables and difference lists the spans of the walk are
contiguous from `loopStart` on — each iteration starts where the previous one ended. -/
theorem spans_contiguous (al : AliasTable) (fixed : Bool) (old new : Tree) (diffs : List TSRange) :
    spansChain (loopStart old new) (changedRanges al fixed old new diffs).spans = true := by
  unfold changedRanges changedTrace
  simp only
  refine (mainLoop_chain al fixed diffs _ (loopStart old new) _ _ (by simp [spansChain]) ?_).1
  simp only [List.reverse_nil, spansEnd, loopStart]
  split <;> rename_i h
  · simp only; omega
  · split <;> rename_i h2
    · simp only; omega
    · simp only; omega

/-- `changed_covers_partial` — the coverage clause for the walk, for ALL tree pairs, alias tables and
difference lists, and for arbitrary per-byte stack functions `so`/`sn` (the judge's scope stacks):
IF (a) every call to `ts_range_array_add` grows the array (`traceGrow`), (b) no iteration's span goes
backwards (`spansMono`; that the spans are CONTIGUOUS from `loopStart` on is proved for all tree pairs,
`spans_contiguous`), and (c) **MatchSound / PassSound**:
on every span the walk did NOT hand to `add` — `compare` answered *Matches* (label 1) or the span was
passed over without a possible descent (label 2) — the two stacks agree at every byte,
THEN every byte between `lo` and the end of the tiling whose stacks differ lies in a reported range,
and so does every byte of the call made before the loop and of the final size-difference call.
(a)–(c) are decidable and are evaluated by the driver on every real case (`cov=ok`); (c) is where
parser determinism enters (DESIGN §7: MatchSound is a hypothesis, discharged per case).
OPEN `changed_covers`: (a), (b) for all tree pairs (they fail on the rare "roots start at different
offsets" traces, see below) and (c) from a model of the parser. -/
theorem changed_covers_partial {α : Type} (al : AliasTable) (fixed : Bool) (old new : Tree)
    (diffs : List TSRange) (so sn : Nat → α)
    (hgrow : traceGrow [] ((changedRanges al fixed old new diffs).main ++ (changedRanges al fixed old new diffs).post) = true)
    (hmono : spansMono (changedRanges al fixed old new diffs).spans = true)
    (hsound : ∀ sp ∈ (changedRanges al fixed old new diffs).spans, sp.2.2 ≠ 0 →
      ∀ p, sp.1.bytes ≤ p → p < sp.2.1.bytes → so p = sn p) :
    (∀ p, loopStart old new ≤ p → p < spansEnd (loopStart old new) (changedRanges al fixed old new diffs).spans → so p ≠ sn p →
      mem (changedRanges al fixed old new diffs).ranges p) ∧
    (∀ c ∈ (changedRanges al fixed old new diffs).pre ++ (changedRanges al fixed old new diffs).post,
      ∀ p, c.1.bytes ≤ p → p < c.2.bytes → mem (changedRanges al fixed old new diffs).ranges p) := by
  have hr : (changedRanges al fixed old new diffs).ranges =
      (foldAdd [] ((changedRanges al fixed old new diffs).main ++ (changedRanges al fixed old new diffs).post)).reverse := by
    rw [← foldAdd_append]; rfl
  have hmain : (changedRanges al fixed old new diffs).main =
      (changedRanges al fixed old new diffs).pre ++ callsOf (changedRanges al fixed old new diffs).spans := rfl
  have hg := foldAdd_grow _ [] hgrow
  have htile : spansTile (loopStart old new) (changedRanges al fixed old new diffs).spans = true := by
    rw [tile_iff, spans_contiguous, hmono]; rfl
  refine ⟨?_, ?_⟩
  · intro p h1 h2 hne
    obtain ⟨sp, hsp, h3, h4⟩ := tile_find _ (loopStart old new) p htile h1 h2
    by_cases hl : sp.2.2 = 0
    · rw [hr, mem_reverse]
      refine (hg p).2 (sp.1, sp.2.1) ?_ h3 h4
      rw [hmain]
      refine List.mem_append_left _ (List.mem_append_right _ ?_)
      unfold callsOf
      exact List.mem_filterMap.2 ⟨sp, hsp, by simp [hl]⟩
    · exact absurd (hsound sp hsp hl p h3 h4) hne
  · intro c hc p h3 h4
    rw [hr, mem_reverse]
    refine (hg p).2 c ?_ h3 h4
    rw [hmain]
    rcases List.mem_append.1 hc with h | h
    · exact List.mem_append_left _ (List.mem_append_left _ h)
    · exact List.mem_append_right _ h

example : traceGrow [] [(⟨1,⟨0,1⟩⟩, ⟨5,⟨0,5⟩⟩), (⟨5,⟨0,5⟩⟩, ⟨7,⟨0,7⟩⟩), (⟨3,⟨0,3⟩⟩, ⟨9,⟨0,9⟩⟩)] = true ∧
    spansTile 1 [(⟨1,⟨0,1⟩⟩, ⟨5,⟨0,5⟩⟩, 0), (⟨5,⟨0,5⟩⟩, ⟨5,⟨0,5⟩⟩, 2), (⟨5,⟨0,5⟩⟩, ⟨7,⟨0,7⟩⟩, 1)] = true := by decide


/-! ## The walk's geometry: what holds for ALL sized tree pairs

Premises (all decidable and evaluated by the driver on every real case):
* `AllSized old`, `AllSized new` (via `allSizedB`, `allSizedB_sound`);
* `entryOK old new`: the loop starts at or before the end of both trees;
* the model's fuel did not run out (`fuelOut = false`; the fuel only bounds the model's recursion — the C loops
  have no counterpart — and the driver reports any case in which it is exhausted). -/

/-- `spans_forward`: no iteration of the lock-step walk goes backwards: `position ≤ next_position`. -/
theorem spans_forward (al : AliasTable) (fixed : Bool) (old new : Tree) (diffs : List TSRange)
    (hso : AllSized old) (hsn : AllSized new) (hentry : entryOK old new = true)
    (hfuel : (changedRanges al fixed old new diffs).fuelOut = false) :
    spansMono (changedRanges al fixed old new diffs).spans = true := by
  unfold spansMono
  rw [List.all_eq_true]
  intro x hx
  exact decide_eq_true (walk_trace al fixed old new diffs hso hsn hentry hfuel x hx).2.1

/-- `trace_grows`: every call to `ts_range_array_add` made by `ts_subtree_get_changed_ranges` starts after the last
range, or inside it and ends at or after its end — nothing that was covered gets uncovered. -/
theorem trace_grows (al : AliasTable) (fixed : Bool) (old new : Tree) (diffs : List TSRange)
    (hso : AllSized old) (hsn : AllSized new) (hentry : entryOK old new = true)
    (hfuel : (changedRanges al fixed old new diffs).fuelOut = false) :
    traceGrow [] ((changedRanges al fixed old new diffs).main ++ (changedRanges al fixed old new diffs).post) = true :=
  (walk_calls al fixed old new diffs hso hsn hentry hfuel).1

/-- `changed_sorted_bounded` — "sorted, disjoint, inside the document" for the tree walk, for ALL pairs of sized
trees, alias tables and difference lists: the reported ranges are sorted, pairwise strictly separated, well
formed (`start ≤ end`) and end at or before the end of the longer tree. -/
theorem changed_sorted_bounded (al : AliasTable) (fixed : Bool) (old new : Tree) (diffs : List TSRange)
    (hso : AllSized old) (hsn : AllSized new) (hentry : entryOK old new = true)
    (hfuel : (changedRanges al fixed old new diffs).fuelOut = false) :
    WeakSorted (changedRanges al fixed old new diffs).ranges ∧
    ∀ r ∈ (changedRanges al fixed old new diffs).ranges, r.end_byte ≤ max old.totalBytes new.totalBytes := by
  obtain ⟨_, ha, hb⟩ := walk_calls al fixed old new diffs hso hsn hentry hfuel
  obtain ⟨h1, h2⟩ := changed_sorted_bounded_partial al fixed old new diffs ha
  exact ⟨h1, fun r hr => Nat.le_trans (h2 r hr) hb⟩

/-- `changed_nonempty`: under the same premises no reported range is empty — together with `changed_sorted_bounded`:
sorted, strictly separated, non-empty (what `add_sorted` states for a single call, for the whole walk). -/
theorem changed_nonempty (al : AliasTable) (fixed : Bool) (old new : Tree) (diffs : List TSRange)
    (hso : AllSized old) (hsn : AllSized new) (hentry : entryOK old new = true)
    (hfuel : (changedRanges al fixed old new diffs).fuelOut = false) :
    ∀ r ∈ (changedRanges al fixed old new diffs).ranges, r.start_byte < r.end_byte :=
  walk_ne al fixed old new diffs hso hsn hentry hfuel

/-- `changed_covers` — the coverage clause for the walk, for ALL pairs of sized trees: under MatchSound / PassSound
(on every span the walk did not hand to `add` the two per-byte stacks agree) every byte from the loop start to
the end of the walk whose stacks differ lies in a reported range, and so does every byte of the call made
before the loop and of the final size-difference call. -/
theorem changed_covers {α : Type} (al : AliasTable) (fixed : Bool) (old new : Tree)
    (diffs : List TSRange) (so sn : Nat → α)
    (hso : AllSized old) (hsn : AllSized new) (hentry : entryOK old new = true)
    (hfuel : (changedRanges al fixed old new diffs).fuelOut = false)
    (hsound : ∀ sp ∈ (changedRanges al fixed old new diffs).spans, sp.2.2 ≠ 0 →
      ∀ p, sp.1.bytes ≤ p → p < sp.2.1.bytes → so p = sn p) :
    (∀ p, loopStart old new ≤ p → p < spansEnd (loopStart old new) (changedRanges al fixed old new diffs).spans → so p ≠ sn p →
      mem (changedRanges al fixed old new diffs).ranges p) ∧
    (∀ c ∈ (changedRanges al fixed old new diffs).pre ++ (changedRanges al fixed old new diffs).post,
      ∀ p, c.1.bytes ≤ p → p < c.2.bytes → mem (changedRanges al fixed old new diffs).ranges p) :=
  changed_covers_partial al fixed old new diffs so sn
    (trace_grows al fixed old new diffs hso hsn hentry hfuel)
    (spans_forward al fixed old new diffs hso hsn hentry hfuel) hsound


/-- `walk_reaches_end` (`reach`): under the premises of `changed_sorted_bounded` and with visible roots (`rootOK`; also
bounds the tree sizes by 2^32 so that `visible_depth` cannot wrap), the lock-step walk does not stop before the end of
the shorter tree.  Rests on the depth invariant of the cursors (`Reach.lean`: `Wd` — `visible_depth` is the number of
entered visible entries; `ascend_w`: a cursor in a padding never leaves the first child of an entered visible node, so
`iterator_ascend` never skips a decrement; `ascendTo_w`: the depth alignment never pops the root while the other cursor
is alive) and on `catchUp_done` (a cursor becomes done only at the end of its root). -/
theorem walk_reaches_end (al : AliasTable) (fixed : Bool) (old new : Tree) (diffs : List TSRange)
    (hso : AllSized old) (hsn : AllSized new) (hentry : entryOK old new = true)
    (hro : rootOK old = true) (hrn : rootOK new = true)
    (hfuel : (changedRanges al fixed old new diffs).fuelOut = false) :
    min old.totalBytes new.totalBytes ≤ spansEnd (loopStart old new) (changedRanges al fixed old new diffs).spans :=
  walk_reach al fixed old new diffs hso hsn hentry hro hrn hfuel

/-- `changed_covers_all` — the coverage clause for the WHOLE extent of the two trees: under the premises above and
MatchSound/PassSound, EVERY byte from the start of the earlier root to the end of the longer tree whose stacks differ
lies in a reported range (bytes before the later root start and after the end of the shorter tree are reported
whatever their stacks).  No per-case `reach`. -/
theorem changed_covers_all {α : Type} (al : AliasTable) (fixed : Bool) (old new : Tree)
    (diffs : List TSRange) (so sn : Nat → α)
    (hso : AllSized old) (hsn : AllSized new) (hentry : entryOK old new = true)
    (hro : rootOK old = true) (hrn : rootOK new = true)
    (hfuel : (changedRanges al fixed old new diffs).fuelOut = false)
    (hsound : ∀ sp ∈ (changedRanges al fixed old new diffs).spans, sp.2.2 ≠ 0 →
      ∀ p, sp.1.bytes ≤ p → p < sp.2.1.bytes → so p = sn p) :
    ∀ p, firstStart old new ≤ p → p < max old.totalBytes new.totalBytes → so p ≠ sn p →
      mem (changedRanges al fixed old new diffs).ranges p := by
  obtain ⟨c1, c2⟩ := changed_covers al fixed old new diffs so sn hso hsn hentry hfuel hsound
  have hr := walk_reaches_end al fixed old new diffs hso hsn hentry hro hrn hfuel
  intro p h1 h2 hne
  by_cases hlo : p < loopStart old new
  · rcases pre_shape' al fixed old new diffs with ⟨_, he⟩ | ⟨a, b, hp, ha, hb⟩
    · omega
    · exact c2 (a, b) (by rw [hp]; simp) p (by simp only; omega) (by simp only; omega)
  · by_cases hin : p < spansEnd (loopStart old new) (changedRanges al fixed old new diffs).spans
    · exact c1 p (by omega) hin hne
    · rcases post_shape al fixed old new diffs with h0 | ⟨a, b, hp, ha, hb, _⟩
      · exfalso
        -- no post call: both trees have the same total
        have : old.totalBytes = new.totalBytes := by
          unfold changedRanges changedTrace at h0
          simp only at h0
          rw [totalSize_bytes, totalSize_bytes] at h0
          split at h0
          · cases h0
          · split at h0
            · cases h0
            · omega
        omega
      · exact c2 (a, b) (by rw [hp]; simp) p (by simp only; omega) (by simp only; omega)

/-- The entry premise holds whenever both roots start at the same offset (the usual case: the old tree was edited
to the new text, so both start after the same leading padding). -/
theorem entry_of_same_start (old new : Tree)
    (h : (iterNew old).startPosition.bytes = (iterNew new).startPosition.bytes) : entryOK old new = true :=
  entryOK_of_same_start old new h

/-- (iii) on sized trees `iterator_ascend` never moves the end position backwards. -/
theorem ascend_never_back (al : AliasTable) (it : Iter) (e p : Entry) (rest : List Entry)
    (hs : it.stack = e :: p :: rest) (hok : StackOK it.stack) (hss : SS it.stack) :
    (it.ascend al).endPosition.bytes ≥ it.endPosition.bytes :=
  ascend_end al it e p rest hs hok hss

/-! ## The coverage clause when the included ranges changed: OPEN, and false for the code as it is

OPEN `changed_covers_ranges` (DESIGN §7): "a byte whose scope stacks differ and which lies in a
subtree that `compare` matched only because of a range difference is reported".
The walk applies the range-difference override to the span `[position, iterator_end_position(old))`.
In a node's padding that span is just the padding, while `iterator_compare` has compared the
*enclosing* visible nodes.  Witness (`override_span_witness`): two trees whose nodes `A` look alike
(symbol, size, state) but differ inside, difference list `[2,3)`: byte 1 — the padding of `y`,
inside the extra node of the new tree — has different stacks and is not reported; with the
override applied to the compared node (`fixed := true`, fixes/C04-range-override-in-padding.diff)
the whole of `[0,3)` is reported.  Real instance: corpus/c04.txt (fx_aliased_inlined_rules),
known_findings/C04.json. -/

def wData (sym pad sz : Nat) : NodeData :=
  let d : NodeData := default
  { d with symbol := sym, padding := ⟨pad, ⟨0, pad⟩⟩, size := ⟨sz, ⟨0, sz⟩⟩, visible := true, named := true, parseState := 1 }
def wLeaf (sym pad sz : Nat) : Tree := .mk (wData sym pad sz) []
def wNode (sym sz : Nat) (kids : List Tree) : Tree := .mk (wData sym 0 sz) kids
/-- `R(A(x y))` with `y` preceded by one byte of padding … -/
def wOld : Tree := wNode 1 3 [wNode 2 3 [wLeaf 3 0 1, wLeaf 4 1 1]]
/-- … and `R(A(A(x y)))`: one more `A` around the same tokens. -/
def wNew : Tree := wNode 1 3 [wNode 2 3 [wNode 2 3 [wLeaf 3 0 1, wLeaf 4 1 1]]]
def wDiffs : List TSRange := [⟨⟨0,2⟩,⟨0,3⟩,2,3⟩]

set_option maxRecDepth 20000 in
/-- The negation of the coverage clause on the model of the code as it is. -/
theorem override_span_witness :
    (scopeStacks {} wOld 3).getD 1 [] ≠ (scopeStacks {} wNew 3).getD 1 [] ∧
    covered (changedRanges {} false wOld wNew wDiffs).ranges 1 = false ∧
    ((changedRanges {} false wOld wNew wDiffs).ranges.map fun r => (r.start_byte, r.end_byte)) = [(0,1),(2,3)] ∧
    ((changedRanges {} true wOld wNew wDiffs).ranges.map fun r => (r.start_byte, r.end_byte)) = [(0,3)] := by
  decide

/-- Non-vacuity of the premises (the witness pair of `override_span_witness` is sized, enters inside both trees and
needs no more fuel), and the entry premise cannot be dropped: a new tree that ends before the old one starts
makes the first iteration go backwards, from 11 to 6. -/
theorem entry_needed_witness :
    (allSizedB wOld = true ∧ allSizedB wNew = true ∧ entryOK wOld wNew = true ∧
      (changedRanges {} true wOld wNew wDiffs).fuelOut = false) ∧
    (allSizedB (wLeaf 1 11 1) = true ∧ allSizedB (wLeaf 1 2 4) = true ∧ entryOK (wLeaf 1 11 1) (wLeaf 1 2 4) = false ∧
      ((changedRanges {} true (wLeaf 1 11 1) (wLeaf 1 2 4) []).spans.map fun x => (x.1.bytes, x.2.1.bytes)) = [(11, 6)]) := by
  decide

end TsVerif.C04
