import TsVerif.Gen.Basic
import TsVerif.Gen.Consts
import TsVerif.Common.Tree
import TsVerif.C04.Ranges
/-!
# C04 — port of the lock-step `Iterator` and of `ts_subtree_get_changed_ranges`
(lib/src/get_changed_ranges.c), over dumps of real subtrees (`TsVerif.Common.Tree`).

The cursor stack is a list whose head is `array_back`.  Loops of the C code that have no
structural measure are fuelled (fuel is computed from the sizes of the two trees; running out is
reported as `fuelOut` and makes the correspondence fail, it never silently truncates).
`visible_depth` is `unsigned`: decrement wraps like in C.

`fixed : Bool` selects the variant of the included-range override test: `false` = the code as it
is (`iterator_end_position(&old_iter)`), `true` = with fixes/C04-range-override-in-padding.diff
(`iterator_compared_span`).  `checks/c04.py` looks at the source to tell the driver which one
/repo currently has; every theorem is stated for both.

The function also returns the *trace* of `(start, end)` pairs it handed to `ts_range_array_add`;
the result is by construction the fold of `addRev` over that trace (`changedRanges_eq_fold`).
-/
namespace TsVerif.C04
open TsGen TsVerif

/-- `TSLanguage.alias_sequences` (flat) and `max_alias_sequence_length`. -/
structure AliasTable where
  maxLen : Nat := 0
  seqs : Array Nat := #[]
  deriving Inhabited

/-- `ts_language_alias_at`. -/
def aliasAt (al : AliasTable) (productionId childIndex : Nat) : Nat :=
  if productionId ≠ 0 then al.seqs.getD (productionId * al.maxLen + childIndex) 0 else 0

structure Entry where
  subtree : Tree
  position : Length
  childIndex : Nat
  structuralChildIndex : Nat
  deriving Inhabited

structure Iter where
  stack : List Entry
  visibleDepth : Nat
  inPadding : Bool
  prevExternalToken : Option Tree
  deriving Inhabited

def decU32 (n : Nat) : Nat := (n + 4294967295) % 4294967296

def iterNew (t : Tree) : Iter :=
  { stack := [{ subtree := t, position := length_zero, childIndex := 0, structuralChildIndex := 0 }]
    visibleDepth := 1, inPadding := false, prevExternalToken := none }

def Iter.done (it : Iter) : Bool := it.stack.isEmpty

def Iter.startPosition (it : Iter) : Length :=
  match it.stack with
  | e :: _ => if it.inPadding then e.position else length_add e.position e.subtree.data.padding
  | [] => length_zero

def Iter.endPosition (it : Iter) : Length :=
  match it.stack with
  | e :: _ =>
    let r := length_add e.position e.subtree.data.padding
    if it.inPadding then r else length_add r e.subtree.data.size
  | [] => length_zero

/-- `iterator_tree_is_visible` on a raw stack. -/
def stackTopVisible (al : AliasTable) : List Entry → Bool
  | e :: p :: _ => e.subtree.data.visible || aliasAt al p.subtree.data.productionId e.structuralChildIndex != 0
  | [e] => e.subtree.data.visible
  | [] => false

def Iter.treeIsVisible (al : AliasTable) (it : Iter) : Bool := stackTopVisible al it.stack

/-- The loop of `iterator_get_visible_state`; `alias` is the out-parameter carried along. -/
def visibleStateLoop (al : AliasTable) : List Entry → Nat → Option Tree × Nat × Nat
  | [], alias => (none, alias, 0)
  | e :: rest, alias =>
    let alias := match rest with
      | p :: _ => aliasAt al p.subtree.data.productionId e.structuralChildIndex
      | [] => alias
    if e.subtree.data.visible || alias != 0 then (some e.subtree, alias, e.position.bytes)
    else visibleStateLoop al rest alias

def Iter.visibleState (al : AliasTable) (it : Iter) : Option Tree × Nat × Nat :=
  if it.inPadding then
    match it.stack with
    | _ :: rest@(_ :: _) => visibleStateLoop al rest 0
    | _ => (none, 0, 0)
  else visibleStateLoop al it.stack 0

def Iter.ascend (al : AliasTable) (it : Iter) : Iter :=
  match it.stack with
  | [] => it
  | e :: rest =>
    let vd := if it.treeIsVisible al && !it.inPadding then decU32 it.visibleDepth else it.visibleDepth
    let ip := if e.childIndex > 0 then false else it.inPadding
    { it with stack := rest, visibleDepth := vd, inPadding := ip }

/- `ts_subtree_last_external_token`: follow, at every level, the LAST child that has external
tokens (no backtracking, like the C loop; where C would spin forever because no child carries
the flag, the model answers `none`). -/
mutual
  def lastExt : Tree → Option Tree
    | .mk d kids => if kids.isEmpty then some (.mk d kids) else lastExtKids kids
  def lastExtKids : List Tree → Option Tree
    | [] => none
    | t :: ts =>
      if ts.any (fun c => c.data.hasExternalTokens) then lastExtKids ts
      else if t.data.hasExternalTokens then lastExt t else none
end

def lastExternalToken (t : Tree) : Option Tree :=
  if t.data.hasExternalTokens then lastExt t else none

/-- The child scan inside `iterator_descend`: first child whose right end is beyond `goal`. -/
def scanKids : List Tree → Length → Nat → Nat → Nat → Option Tree → Option Entry × Option Tree
  | [], _, _, _, _, prev => (none, prev)
  | c :: rest, position, i, sci, goal, prev =>
    let childLeft := length_add position c.data.padding
    let childRight := length_add childLeft c.data.size
    if childRight.bytes > goal then
      (some { subtree := c, position := position, childIndex := i, structuralChildIndex := sci }, prev)
    else
      let sci := if !c.data.extra then sci + 1 else sci
      let prev := match lastExternalToken c with
        | some t => some t
        | none => prev
      scanKids rest childRight (i + 1) sci goal prev

/-- `iterator_descend` (the `do … while (did_descend)` loop, fuelled by the depth still available). -/
def descendLoop (al : AliasTable) : Nat → Iter → Nat → Iter × Bool
  | 0, it, _ => (it, false)
  | fuel + 1, it, goal =>
    match it.stack with
    | [] => (it, false)
    | e :: rest =>
      match scanKids e.subtree.kids e.position 0 0 goal it.prevExternalToken with
      | (none, prev) => ({ it with prevExternalToken := prev }, false)
      | (some ce, prev) =>
        let it := { it with stack := ce :: e :: rest, prevExternalToken := prev }
        if it.treeIsVisible al then
          let childLeft := length_add ce.position ce.subtree.data.padding
          if childLeft.bytes > goal then ({ it with inPadding := true }, true)
          else ({ it with visibleDepth := it.visibleDepth + 1 }, true)
        else descendLoop al fuel it goal

def Iter.descend (al : AliasTable) (fuel : Nat) (it : Iter) (goal : Nat) : Iter × Bool :=
  if it.inPadding then (it, false) else descendLoop al fuel it goal

/-- The `for (;;)` loop of `iterator_advance` (structural on the stack). -/
def advanceLoop (al : AliasTable) (fuel : Nat) : List Entry → Nat → Option Tree → Iter
  | [], vd, prev => { stack := [], visibleDepth := vd, inPadding := false, prevExternalToken := prev }
  | e :: rest, vd, prev =>
    let vd := if stackTopVisible al (e :: rest) then decU32 vd else vd
    match rest with
    | [] => { stack := [], visibleDepth := vd, inPadding := false, prevExternalToken := prev }
    | p :: _ =>
      let childIndex := e.childIndex + 1
      let prev := match lastExternalToken e.subtree with
        | some t => some t
        | none => prev
      match p.subtree.kids[childIndex]? with
      | some next =>
        let position := length_add e.position e.subtree.totalSize
        let sci := if !e.subtree.data.extra then e.structuralChildIndex + 1 else e.structuralChildIndex
        let ne : Entry := { subtree := next, position := position, childIndex := childIndex, structuralChildIndex := sci }
        let it : Iter := { stack := ne :: rest, visibleDepth := vd, inPadding := false, prevExternalToken := prev }
        if it.treeIsVisible al then
          if next.data.padding.bytes > 0 then { it with inPadding := true }
          else { it with visibleDepth := it.visibleDepth + 1 }
        else (it.descend al fuel 0).1
      | none => advanceLoop al fuel rest vd prev

def Iter.advance (al : AliasTable) (fuel : Nat) (it : Iter) : Iter :=
  if it.inPadding then
    let it := { it with inPadding := false }
    if it.treeIsVisible al then { it with visibleDepth := it.visibleDepth + 1 }
    else (it.descend al fuel 0).1
  else advanceLoop al fuel it.stack it.visibleDepth it.prevExternalToken

inductive Cmp where
  | differs | mayDiffer | matches
  deriving DecidableEq, Repr

def errorCostOf (d : NodeData) : Nat :=
  if d.isMissing then ERROR_COST_PER_MISSING_TREE + ERROR_COST_PER_RECOVERY else d.errorCost

/-- `ts_subtree_external_scanner_state`: the serialized bytes, empty unless a heap leaf with external tokens. -/
def extStateOf : Option Tree → String
  | some (.mk d kids) => if !d.isInline && d.hasExternalTokens && kids.isEmpty then d.ext else "x"
  | none => "x"

def TS_TREE_STATE_NONE : Nat := 65535

/-- `iterator_compare`. -/
def iterCompare (al : AliasTable) (o n : Iter) : Cmp :=
  let (ot, oa, os) := o.visibleState al
  let (nt, na, ns) := n.visibleState al
  match ot, nt with
  | none, none => .matches
  | none, some _ => .differs
  | some _, none => .differs
  | some ot, some nt =>
    let od := ot.data
    let nd := nt.data
    if oa != na || od.symbol != nd.symbol then .differs
    else if os != ns || od.symbol == 65535 || od.size.bytes != nd.size.bytes ||
        od.parseState == TS_TREE_STATE_NONE || nd.parseState == TS_TREE_STATE_NONE ||
        ((od.parseState == 0) != (nd.parseState == 0)) ||
        errorCostOf od != errorCostOf nd ||
        od.hasExternalTokens != nd.hasExternalTokens ||
        od.hasChanges ||
        (od.hasExternalTokens && extStateOf o.prevExternalToken != extStateOf n.prevExternalToken)
    then .mayDiffer
    else .matches

/-- Byte span of the subtree that `iterator_compare` looks at (`iterator_compared_span` of
fixes/C04-range-override-in-padding.diff), merged into a given span. -/
def Iter.comparedSpan (al : AliasTable) (it : Iter) (s e : Nat) : Nat × Nat :=
  match it.visibleState al with
  | (some t, _, start) => (min s start, max e (start + t.totalBytes))
  | (none, _, _) => (s, e)

def catchUp (al : AliasTable) (treeFuel : Nat) : Nat → Iter → Nat → Iter × Bool
  | 0, it, _ => (it, true)
  | fuel + 1, it, nextPos =>
    if !it.done && it.endPosition.bytes ≤ nextPos then catchUp al treeFuel fuel (it.advance al treeFuel) nextPos
    else (it, false)

def ascendTo (al : AliasTable) : Nat → Iter → Nat → Iter
  | 0, it, _ => it
  | fuel + 1, it, depth =>
    if it.visibleDepth > depth && !it.done then ascendTo al fuel (it.ascend al) depth else it

def skipDiffs (diffs : Array TSRange) (idx : Nat) (pos : Nat) : Nat → Nat
  | 0 => idx
  | fuel + 1 =>
    match diffs[idx]? with
    | some r => if r.end_byte ≤ pos then skipDiffs diffs (idx + 1) pos fuel else idx
    | none => idx

structure LoopSt where
  o : Iter
  n : Iter
  position : Length
  nextPosition : Length
  diffIdx : Nat
  spans : List (Length × Length × Nat)   -- reversed list of the iterations' spans `(position, next_position, label)`:
                                         -- label 0 = handed to `ts_range_array_add` (changed), 1 = `compare` answered
                                         -- Matches (skipped), 2 = passed over without either (may differ, no descent possible / both descended)
  fuelOut : Bool := false

/-- First half of the `do … while` body: compare, apply the included-range override, and move/descend:
`(old iterator, new iterator, is_changed, next_position, comparison)`. -/
def midStep (al : AliasTable) (fixed : Bool) (diffs : List TSRange) (treeFuel : Nat) (s : LoopSt) :
    Iter × Iter × Bool × Length × Cmp :=
  let cmp0 := iterCompare al s.o s.n
  let span := if fixed then s.o.comparedSpan al s.position.bytes s.o.endPosition.bytes
              else (s.position.bytes, s.o.endPosition.bytes)
  let startIdx := if fixed && span.1 < s.position.bytes then 0 else s.diffIdx
  let cmp := if cmp0 == .matches && intersects diffs startIdx span.1 span.2
             then Cmp.mayDiffer else cmp0
  match cmp with
  | .matches => (s.o, s.n, false, s.o.endPosition, cmp)
  | .mayDiffer =>
    let od := s.o.descend al treeFuel s.position.bytes
    if od.2 then
      let nd := s.n.descend al treeFuel s.position.bytes
      if !nd.2 then (od.1, nd.1, true, od.1.endPosition, cmp) else (od.1, nd.1, false, s.nextPosition, cmp)
    else
      let nd := s.n.descend al treeFuel s.position.bytes
      if nd.2 then (od.1, nd.1, true, nd.1.endPosition, cmp)
      else (od.1, nd.1, false, length_min od.1.endPosition nd.1.endPosition, cmp)
  | .differs => (s.o, s.n, true, length_min s.o.endPosition s.n.endPosition, cmp)

/-- One iteration of the `do … while` body. -/
def loopBody (al : AliasTable) (fixed : Bool) (diffs : List TSRange) (treeFuel : Nat) (s : LoopSt) : LoopSt :=
  let m := midStep al fixed diffs treeFuel s
  let nextPosition := m.2.2.2.1
  let cu1 := catchUp al treeFuel (2 * treeFuel + 2) m.1 nextPosition.bytes
  let cu2 := catchUp al treeFuel (2 * treeFuel + 2) m.2.1 nextPosition.bytes
  let o := ascendTo al (cu1.1.stack.length + 1) cu1.1 cu2.1.visibleDepth
  let n := ascendTo al (cu2.1.stack.length + 1) cu2.1 o.visibleDepth
  let label := if m.2.2.1 then 0 else if m.2.2.2.2 == .matches then 1 else 2
  let spans := (s.position, nextPosition, label) :: s.spans
  let diffIdx := skipDiffs diffs.toArray s.diffIdx nextPosition.bytes (diffs.length + 1)
  { o := o, n := n, position := nextPosition, nextPosition := nextPosition, diffIdx := diffIdx, spans := spans,
    fuelOut := s.fuelOut || cu1.2 || cu2.2 }

def mainLoop (al : AliasTable) (fixed : Bool) (diffs : List TSRange) (treeFuel : Nat) : Nat → LoopSt → LoopSt
  | 0, s => { s with fuelOut := true }
  | fuel + 1, s =>
    let s := loopBody al fixed diffs treeFuel s
    if !s.o.done && !s.n.done then mainLoop al fixed diffs treeFuel fuel s else s

structure Changed where
  ranges : List TSRange
  main : List (Length × Length)      -- add calls before and inside the loop, in call order
  post : List (Length × Length)      -- the final size-difference call (0 or 1 element)
  matched : List (Nat × Nat)
  spans : List (Length × Length × Nat)   -- the iterations' spans in order (see `LoopSt.spans`)
  pre : List (Length × Length)           -- the call made before the loop (0 or 1 element); `main = pre ++ calls spans`
  fuelOut : Bool

/-- The add calls of `ts_subtree_get_changed_ranges` in order: (before and inside the loop, after the loop). -/
def changedTrace (al : AliasTable) (fixed : Bool) (old new : Tree) (diffs : List TSRange) :
    List (Length × Length) × List (Length × Length × Nat) × List (Length × Length) × Bool :=
  let o := iterNew old
  let n := iterNew new
  let p := o.startPosition
  let np := n.startPosition
  let (pre, position, nextPosition) :=
    if p.bytes < np.bytes then ([(p, np)], np, np)
    else if p.bytes > np.bytes then ([(np, p)], p, p)
    else ([], p, np)
  let treeFuel := old.size + new.size + 2
  let s := mainLoop al fixed diffs treeFuel (4 * treeFuel + 8)
    { o := o, n := n, position := position, nextPosition := nextPosition, diffIdx := 0, spans := [] }
  let os := old.totalSize
  let ns := new.totalSize
  let post := if os.bytes < ns.bytes then [(os, ns)] else if ns.bytes < os.bytes then [(ns, os)] else []
  (pre, s.spans.reverse, post, s.fuelOut)

/-- The array built by a sequence of `ts_range_array_add` calls (reversed). -/
def foldAdd (racc : List TSRange) (tr : List (Length × Length)) : List TSRange :=
  tr.foldl (fun acc p => addRev acc p.1 p.2) racc

/-- The spans that were handed to `ts_range_array_add`. -/
def callsOf (spans : List (Length × Length × Nat)) : List (Length × Length) :=
  spans.filterMap fun x => if x.2.2 == 0 then some (x.1, x.2.1) else none

/-- `ts_subtree_get_changed_ranges`. -/
def changedRanges (al : AliasTable) (fixed : Bool) (old new : Tree) (diffs : List TSRange) : Changed :=
  let (pre, spans, post, f) := changedTrace al fixed old new diffs
  let main := pre ++ callsOf spans
  { ranges := (foldAdd (foldAdd [] main) post).reverse, main := main, post := post,
    matched := spans.filterMap (fun x => if x.2.2 == 1 then some (x.1.bytes, x.2.1.bytes) else none),
    spans := spans, pre := pre, fuelOut := f }

/-- A call to `ts_range_array_add` is *admissible* for the current (reversed) array when it either
starts after the last range (a new range is pushed, or nothing happens) or — the case in which the
C code overwrites the last range's end — does not end before that range's start. -/
def admissible (racc : List TSRange) (s e : Length) : Bool :=
  match racc with
  | [] => true
  | last :: _ => decide (last.end_byte < s.bytes) || decide (last.start_byte ≤ e.bytes)

/-- Every call of a sequence is admissible for the array built so far (the hypothesis of
`changed_sorted_bounded_partial`, evaluated by the driver on every real case). -/
def traceAdmissible : List TSRange → List (Length × Length) → Bool
  | _, [] => true
  | racc, (s, e) :: rest => admissible racc s e && traceAdmissible (addRev racc s e) rest

/-- A call *grows* the array: it starts after the last range, or it starts inside/at the last range
and ends at or after its end.  Then nothing that was covered gets uncovered and the call's own
span is covered (`addRev_grow`). -/
def growOK (racc : List TSRange) (s e : Length) : Bool :=
  match racc with
  | [] => true
  | last :: _ => decide (last.end_byte < s.bytes) ||
      (decide (last.start_byte ≤ s.bytes) && decide (last.end_byte ≤ e.bytes))

def traceGrow : List TSRange → List (Length × Length) → Bool
  | _, [] => true
  | racc, (s, e) :: rest => growOK racc s e && traceGrow (addRev racc s e) rest

/-- The iterations' spans tile the byte line from `lo` on: each starts where the previous one ended
and does not go backwards. -/
def spansTile : Nat → List (Length × Length × Nat) → Bool
  | _, [] => true
  | lo, (s, e, _) :: rest => decide (s.bytes = lo) && decide (s.bytes ≤ e.bytes) && spansTile e.bytes rest

/-- Contiguity alone: each span starts where the previous one ended. -/
def spansChain : Nat → List (Length × Length × Nat) → Bool
  | _, [] => true
  | lo, (s, e, _) :: rest => decide (s.bytes = lo) && spansChain e.bytes rest

/-- No span goes backwards. -/
def spansMono (spans : List (Length × Length × Nat)) : Bool := spans.all fun x => decide (x.1.bytes ≤ x.2.1.bytes)

def spansEnd : Nat → List (Length × Length × Nat) → Nat
  | lo, [] => lo
  | _, (_, e, _) :: rest => spansEnd e.bytes rest

/-- Largest end handed over. -/
def traceBound : List (Length × Length) → Nat
  | [] => 0
  | (_, e) :: rest => max e.bytes (traceBound rest)

/-- Where the loop of `ts_subtree_get_changed_ranges` starts: the later of the two roots' start offsets. -/
def loopStart (old new : Tree) : Nat :=
  max (iterNew old).startPosition.bytes (iterNew new).startPosition.bytes

/-- `ts_tree_get_changed_ranges`. -/
def treeChangedRanges (al : AliasTable) (fixed : Bool) (old new : TreeDump) : Changed :=
  changedRanges al fixed old.root new.root (symDiff old.ranges new.ranges)

end TsVerif.C04
