import TsVerif.C04.Props
#print axioms TsVerif.C04.add_sorted
#print axioms TsVerif.C04.symDiff_spec
#print axioms TsVerif.C04.symDiff_inside
#print axioms TsVerif.C04.intersects_spec
#print axioms TsVerif.C04.changed_sorted_bounded_partial
#print axioms TsVerif.C04.override_span_witness
#print axioms TsVerif.C04.changed_covers_partial
#print axioms TsVerif.C04.spans_contiguous
#print axioms TsVerif.C04.walk_stackOK
#print axioms TsVerif.C04.descend_end
