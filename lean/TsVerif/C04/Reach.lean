import TsVerif.C04.Ends
/-!
# C04 — the walk reaches the end of the shorter tree (`reach`)

Part 1: stack predicates closed under "pop" and "push a child of the top" are preserved by every cursor operation
(`PushClosed`), instantiated with `Bot R` (the bottom entry ends at `R`) and `LenOK S` (the stack is a path: its length
plus the size of the top subtree is at most `S`).
-/
namespace TsVerif.C04
open TsGen TsVerif

structure PushClosed (Q : List Entry → Prop) : Prop where
  nil : Q []
  tail : ∀ (e : Entry) (rest : List Entry), Q (e :: rest) → Q rest
  push : ∀ (c e : Entry) (rest : List Entry), Q (e :: rest) → (∃ k : Nat, e.subtree.kids[k]? = some c.subtree) → Q (c :: e :: rest)

theorem descendLoop_q {Q : List Entry → Prop} (hq : PushClosed Q) (al : AliasTable) : ∀ (fuel : Nat) (it : Iter) (goal : Nat),
    Q it.stack → Q (descendLoop al fuel it goal).1.stack
  | 0, it, goal, h => by simpa [descendLoop] using h
  | fuel + 1, it, goal, h => by
    unfold descendLoop
    cases hs : it.stack with
    | nil => simp only [hs]; rw [hs] at h; exact h
    | cons e rest =>
      simp only
      cases hk : scanKids e.subtree.kids e.position 0 0 goal it.prevExternalToken with
      | mk r prev =>
        cases r with
        | none => simp only; rw [hs] at h; simpa [hs] using h
        | some ce =>
          simp only
          rw [hs] at h
          obtain ⟨k, _, k2, _, _⟩ := scanKids_ok _ _ _ _ _ _ ce prev hk
          have hq' : Q (ce :: e :: rest) := hq.push ce e rest h ⟨k, k2⟩
          split
          · split <;> exact hq'
          · exact descendLoop_q hq al fuel _ goal hq'

theorem descend_q {Q : List Entry → Prop} (hq : PushClosed Q) (al : AliasTable) (fuel : Nat) (it : Iter) (goal : Nat)
    (h : Q it.stack) : Q (it.descend al fuel goal).1.stack := by
  unfold Iter.descend
  split
  · exact h
  · exact descendLoop_q hq al fuel it goal h

theorem ascend_q {Q : List Entry → Prop} (hq : PushClosed Q) (al : AliasTable) (it : Iter) (h : Q it.stack) :
    Q (it.ascend al).stack := by
  unfold Iter.ascend
  cases hs : it.stack with
  | nil => simpa [hs] using h
  | cons e rest => rw [hs] at h; simpa using hq.tail e rest h

theorem advanceLoop_q {Q : List Entry → Prop} (hq : PushClosed Q) (al : AliasTable) (fuel : Nat) :
    ∀ (stack : List Entry) (vd : Nat) (prev : Option Tree), Q stack → Q (advanceLoop al fuel stack vd prev).stack
  | [], _, _, _ => by simpa [advanceLoop] using hq.nil
  | [e], _, _, _ => by simpa [advanceLoop] using hq.nil
  | e :: p :: rest, vd, prev, h => by
    unfold advanceLoop
    simp only
    cases hn : p.subtree.kids[e.childIndex + 1]? with
    | none => simp only; exact advanceLoop_q hq al fuel (p :: rest) _ _ (hq.tail _ _ h)
    | some next =>
      simp only
      have hq' : ∀ sci, Q ((⟨next, length_add e.position e.subtree.totalSize, e.childIndex + 1, sci⟩ : Entry) :: p :: rest) :=
        fun sci => hq.push _ p rest (hq.tail _ _ h) ⟨_, hn⟩
      repeat' split
      all_goals first
        | exact hq' _
        | exact descend_q hq al fuel _ 0 (hq' _)

theorem advance_q {Q : List Entry → Prop} (hq : PushClosed Q) (al : AliasTable) (fuel : Nat) (it : Iter) (h : Q it.stack) :
    Q (it.advance al fuel).stack := by
  unfold Iter.advance
  split
  · simp only
    split
    · exact h
    · exact descend_q hq al fuel { it with inPadding := false } 0 h
  · exact advanceLoop_q hq al fuel _ _ _ h

theorem catchUp_q {Q : List Entry → Prop} (hq : PushClosed Q) (al : AliasTable) (tf : Nat) : ∀ (fuel : Nat) (it : Iter) (np : Nat),
    Q it.stack → Q (catchUp al tf fuel it np).1.stack
  | 0, it, _, h => by simpa [catchUp] using h
  | fuel + 1, it, np, h => by
    unfold catchUp
    split
    · exact catchUp_q hq al tf fuel _ np (advance_q hq al tf it h)
    · exact h

theorem ascendTo_q {Q : List Entry → Prop} (hq : PushClosed Q) (al : AliasTable) : ∀ (fuel : Nat) (it : Iter) (d : Nat),
    Q it.stack → Q (ascendTo al fuel it d).stack
  | 0, it, _, h => by simpa [ascendTo] using h
  | fuel + 1, it, d, h => by
    unfold ascendTo
    split
    · exact ascendTo_q hq al fuel _ d (ascend_q hq al it h)
    · exact h

/-- End of the bottom entry (the root of the walk). -/
def bottomEnd : List Entry → Nat
  | [] => 0
  | [e] => e.position.bytes + e.subtree.totalBytes
  | _ :: rest => bottomEnd rest

/-- The bottom entry ends at `R`. -/
def Bot (R : Nat) (stack : List Entry) : Prop := stack ≠ [] → bottomEnd stack = R

theorem bot_closed (R : Nat) : PushClosed (Bot R) where
  nil := fun h => absurd rfl h
  tail := by
    intro e rest h hne
    cases rest with
    | nil => exact absurd rfl hne
    | cons p r => exact h (by simp)
  push := by
    intro c e rest h _ _
    exact h (by simp)

/-- The stack is a path of the tree: below every entry there is room for it in a tree of size `S`. -/
def LenOK (S : Nat) : List Entry → Prop
  | [] => True
  | e :: rest => rest.length + e.subtree.size ≤ S ∧ LenOK S rest

theorem sizeList_get : ∀ (kids : List Tree) (k : Nat) (c : Tree), kids[k]? = some c → c.size ≤ Tree.sizeList kids
  | [], _, _, h => by simp at h
  | t :: ts, 0, c, h => by simp at h; subst h; simp [Tree.sizeList]
  | t :: ts, k + 1, c, h => by
    have := sizeList_get ts k c (by simpa using h)
    simp only [Tree.sizeList]; omega

theorem size_kid (t : Tree) (k : Nat) (c : Tree) (h : t.kids[k]? = some c) : c.size + 1 ≤ t.size := by
  cases t with
  | mk d kids =>
    have := sizeList_get kids k c h
    simp only [Tree.size]; omega

theorem len_closed (S : Nat) : PushClosed (LenOK S) where
  nil := trivial
  tail := fun _ _ h => h.2
  push := by
    intro c e rest h ⟨k, hk⟩
    refine ⟨?_, h⟩
    have := size_kid _ _ _ hk
    have := h.1
    simp only [List.length_cons]; omega

theorem LenOK.length_le {S : Nat} : ∀ {stack : List Entry}, LenOK S stack → stack.length ≤ S
  | [], _ => Nat.zero_le _
  | e :: rest, h => by
    have h1 := h.1
    have : 1 ≤ e.subtree.size := by cases e.subtree with | mk d kids => simp [Tree.size]
    simp only [List.length_cons]; omega

/-! ## Part 2: a cursor becomes done only at the end of its root -/

theorem descendLoop_len (al : AliasTable) : ∀ (fuel : Nat) (it : Iter) (goal : Nat),
    it.stack.length ≤ (descendLoop al fuel it goal).1.stack.length
  | 0, it, goal => by simp [descendLoop]
  | fuel + 1, it, goal => by
    unfold descendLoop
    cases hs : it.stack with
    | nil => simp [hs]
    | cons e rest =>
      simp only
      cases hk : scanKids e.subtree.kids e.position 0 0 goal it.prevExternalToken with
      | mk r prev =>
        cases r with
        | none => simp [hs]
        | some ce =>
          simp only
          split
          · split <;> simp
          · have := descendLoop_len al fuel { it with stack := ce :: e :: rest, prevExternalToken := prev } goal
            simp only [List.length_cons] at this ⊢; omega

theorem descend_len (al : AliasTable) (fuel : Nat) (it : Iter) (goal : Nat) :
    it.stack.length ≤ (it.descend al fuel goal).1.stack.length := by
  unfold Iter.descend
  split
  · exact Nat.le_refl _
  · exact descendLoop_len al fuel it goal

theorem descend_nonempty (al : AliasTable) (fuel : Nat) (it : Iter) (goal : Nat) (h : it.stack ≠ []) :
    (it.descend al fuel goal).1.stack ≠ [] := by
  intro h0
  have := descend_len al fuel it goal
  rw [h0] at this
  cases hs : it.stack with
  | nil => exact h hs
  | cons e rest => rw [hs] at this; simp at this

/-- End of the top entry (position + padding + size). -/
def topEnd : List Entry → Nat
  | [] => 0
  | e :: _ => e.position.bytes + e.subtree.totalBytes

/-- The last child of a sized node ends where the node ends. -/
theorem last_child_end {e p : Entry} {rest : List Entry} (hok : StackOK (e :: p :: rest)) (hp : AllSized p.subtree)
    (hn : p.subtree.kids[e.childIndex + 1]? = none) :
    e.position.bytes + e.subtree.totalBytes = p.position.bytes + p.subtree.totalBytes := by
  obtain ⟨h1, h2, _⟩ := hok
  have hne : p.subtree.kids ≠ [] := by intro h0; rw [h0] at h1; simp at h1
  have ht := (hp.total hne).1
  have hs := prefixBytes_succ _ _ _ h1
  have hlen : e.childIndex + 1 = p.subtree.kids.length := by
    have a : p.subtree.kids.length ≤ e.childIndex + 1 := by simpa using hn
    have b : e.childIndex < p.subtree.kids.length := by
      rcases Nat.lt_or_ge e.childIndex p.subtree.kids.length with h | h
      · exact h
      · have : p.subtree.kids[e.childIndex]? = none := by simpa using h
        rw [this] at h1; cases h1
    omega
  rw [hlen] at hs
  omega

theorem advanceLoop_done (al : AliasTable) (fuel : Nat) : ∀ (stack : List Entry) (vd : Nat) (prev : Option Tree),
    StackOK stack → SS stack → (advanceLoop al fuel stack vd prev).stack = [] → topEnd stack = bottomEnd stack
  | [], _, _, _, _, _ => rfl
  | [e], _, _, _, _, _ => rfl
  | e :: p :: rest, vd, prev, hok, hss, hd => by
    unfold advanceLoop at hd
    simp only at hd
    cases hn : p.subtree.kids[e.childIndex + 1]? with
    | none =>
      simp only [hn] at hd
      have ih := advanceLoop_done al fuel (p :: rest) _ _ hok.2.2 hss.tail hd
      have := last_child_end hok (hss p (by simp)) hn
      simp only [topEnd, bottomEnd] at ih ⊢
      omega
    | some next =>
      exfalso
      simp only [hn] at hd
      repeat' split at hd
      all_goals first
        | (simp at hd; done)
        | exact descend_nonempty al fuel _ 0 (by simp) hd

theorem advance_done (al : AliasTable) (fuel : Nat) (it : Iter) (hok : StackOK it.stack) (hss : SS it.stack)
    (hne : it.done = false) (hd : (it.advance al fuel).done = true) :
    it.endPosition.bytes = bottomEnd it.stack := by
  unfold Iter.advance at hd
  split at hd
  · exfalso
    have hne' : it.stack ≠ [] := by intro h0; simp [Iter.done, h0] at hne
    simp only at hd
    split at hd
    · simp only [Iter.done, List.isEmpty_iff] at hd; exact hne' hd
    · simp only [Iter.done, List.isEmpty_iff] at hd
      exact descend_nonempty al fuel { it with inPadding := false } 0 hne' hd
  · rename_i hp
    have hp' : it.inPadding = false := by simpa using hp
    have := advanceLoop_done al fuel it.stack _ _ hok hss (by simpa [Iter.done] using hd)
    rw [← this]
    unfold Iter.endPosition topEnd
    cases hs : it.stack with
    | nil => simp [length_zero]
    | cons e rest =>
      simp only [hp', Bool.false_eq_true, if_false, length_add_bytes]
      have : e.subtree.totalBytes = e.subtree.data.padding.bytes + e.subtree.data.size.bytes := rfl
      omega

/-- A cursor that becomes done while catching up has reached the end of its root. -/
theorem catchUp_done (al : AliasTable) (tf : Nat) (R : Nat) : ∀ (fuel : Nat) (it : Iter) (np : Nat),
    Geo R it → Bot R it.stack → it.done = false → (catchUp al tf fuel it np).1.done = true → R ≤ np
  | 0, it, _, _, _, hne, hd => by simp [catchUp, hne] at hd
  | fuel + 1, it, np, g, hb, hne, hd => by
    unfold catchUp at hd
    split at hd
    · rename_i hc
      simp only [Bool.and_eq_true, Bool.not_eq_true', decide_eq_true_eq] at hc
      cases hdn : (it.advance al tf).done with
      | true =>
        have := advance_done al tf it g.ok g.ss hne hdn
        have hb' := hb (by simpa [Iter.done] using hne)
        omega
      | false =>
        exact catchUp_done al tf R fuel _ np (g.advance al tf) (advance_q (bot_closed R) al tf it hb) hdn hd
    · simp [hne] at hd

/-! ## Part 3: the visible depth counts the visible entries that have been entered -/

/-- Number of visible entries of a stack (visibility as `iterator_tree_is_visible` sees it: own flag or alias in the parent). -/
def countVis (al : AliasTable) : List Entry → Nat
  | [] => 0
  | e :: rest => (if stackTopVisible al (e :: rest) then 1 else 0) + countVis al rest

/-- Where the node proper of an entry starts. -/
def Entry.left (e : Entry) : Nat := e.position.bytes + e.subtree.data.padding.bytes

/-- Every visible entry starts at or before `P`. -/
def EnteredAll (al : AliasTable) (P : Nat) : List Entry → Prop
  | [] => True
  | e :: rest => (stackTopVisible al (e :: rest) = true → e.left ≤ P) ∧ EnteredAll al P rest

theorem EnteredAll.mono {al : AliasTable} {P P' : Nat} (h : P ≤ P') : ∀ {s : List Entry}, EnteredAll al P s → EnteredAll al P' s
  | [], _ => trivial
  | _ :: _, ⟨a, b⟩ => ⟨fun hv => Nat.le_trans (a hv) h, EnteredAll.mono h b⟩

theorem EnteredAll.tail {al : AliasTable} {P : Nat} : ∀ {s : List Entry}, EnteredAll al P s → EnteredAll al P s.tail
  | [], _ => trivial
  | _ :: _, ⟨_, b⟩ => b

theorem countVis_cons (al : AliasTable) (c : Entry) (s : List Entry) :
    countVis al (c :: s) = (if stackTopVisible al (c :: s) then 1 else 0) + countVis al s := rfl

theorem countVis_le (al : AliasTable) : ∀ s : List Entry, countVis al s ≤ s.length
  | [] => Nat.le_refl _
  | e :: rest => by
    have := countVis_le al rest
    simp only [countVis, List.length_cons]
    split <;> omega

theorem decU32_eq (n : Nat) (h1 : 1 ≤ n) (h2 : n ≤ 4294967296) : decU32 n = n - 1 := by
  unfold decU32; omega

/-- The depth invariant: `visible_depth` is the number of visible entries, not counting a visible top entry whose
padding the cursor is still in; and every counted visible entry starts at or before `P`. -/
structure Wd (al : AliasTable) (P : Nat) (it : Iter) : Prop where
  depth : it.visibleDepth + (if it.inPadding && stackTopVisible al it.stack then 1 else 0) = countVis al it.stack
  ent : EnteredAll al P (if it.inPadding then it.stack.tail else it.stack)

theorem Wd.mono {al : AliasTable} {P P' : Nat} {it : Iter} (h : P ≤ P') (w : Wd al P it) : Wd al P' it :=
  ⟨w.depth, EnteredAll.mono h w.ent⟩

theorem descendLoop_w (al : AliasTable) (P : Nat) : ∀ (fuel : Nat) (it : Iter) (goal : Nat),
    it.inPadding = false → goal ≤ P → Wd al P it → Wd al P (descendLoop al fuel it goal).1
  | 0, it, goal, _, _, w => by simpa [descendLoop] using w
  | fuel + 1, it, goal, hp, hg, w => by
    unfold descendLoop
    cases hs : it.stack with
    | nil => simp only; exact w
    | cons e rest =>
      simp only
      cases hk : scanKids e.subtree.kids e.position 0 0 goal it.prevExternalToken with
      | mk r prev =>
        cases r with
        | none =>
          simp only
          exact ⟨by simpa [hp, hs] using w.depth, by simpa [hp, hs] using w.ent⟩
        | some ce =>
          simp only
          have wd := w.depth
          have we := w.ent
          simp only [hp, hs, Bool.false_and, Bool.false_eq_true, if_false, Nat.add_zero] at wd we
          cases hv : stackTopVisible al (ce :: e :: rest) with
          | true =>
            have hv' : Iter.treeIsVisible al { it with stack := ce :: e :: rest, prevExternalToken := prev } = true := hv
            simp only [hv', if_true]
            split
            · refine ⟨?_, ?_⟩
              · rw [countVis_cons]; simp only [Bool.true_and, hv, if_true]; omega
              · simpa using we
            · rename_i hle
              refine ⟨?_, ?_⟩
              · rw [countVis_cons]; simp only [hp, Bool.false_and, Bool.false_eq_true, if_false, hv, if_true]; omega
              · simp only [hp, Bool.false_eq_true, if_false]
                refine ⟨fun _ => ?_, we⟩
                simp only [length_add_bytes] at hle
                unfold Entry.left; omega
          | false =>
            have hv' : Iter.treeIsVisible al { it with stack := ce :: e :: rest, prevExternalToken := prev } = false := hv
            simp only [hv', Bool.false_eq_true, if_false]
            refine descendLoop_w al P fuel _ goal hp hg ⟨?_, ?_⟩
            · rw [countVis_cons]; simp only [hp, Bool.false_and, Bool.false_eq_true, if_false, hv]; omega
            · simp only [hp, Bool.false_eq_true, if_false]
              exact ⟨fun h => (by rw [hv] at h; cases h), we⟩

theorem descend_w (al : AliasTable) (P : Nat) (fuel : Nat) (it : Iter) (goal : Nat) (hg : goal ≤ P) (w : Wd al P it) :
    Wd al P (it.descend al fuel goal).1 := by
  unfold Iter.descend
  split
  · exact w
  · rename_i hp
    exact descendLoop_w al P fuel it goal (by simpa using hp) hg w

/-- Pushing the next sibling (the tail of `iterator_advance`'s loop body). -/
theorem push_sibling_w (al : AliasTable) (P fuel : Nat) (ne p : Entry) (rest : List Entry) (vd : Nat) (prev : Option Tree)
    (hvd : vd = countVis al (p :: rest)) (hent : EnteredAll al P (p :: rest)) (hpos : ne.position.bytes ≤ P) :
    Wd al P (if Iter.treeIsVisible al { stack := ne :: p :: rest, visibleDepth := vd, inPadding := false, prevExternalToken := prev } then
        (if ne.subtree.data.padding.bytes > 0
          then { stack := ne :: p :: rest, visibleDepth := vd, inPadding := true, prevExternalToken := prev }
          else { stack := ne :: p :: rest, visibleDepth := vd + 1, inPadding := false, prevExternalToken := prev })
      else (Iter.descend al fuel { stack := ne :: p :: rest, visibleDepth := vd, inPadding := false, prevExternalToken := prev } 0).1) := by
  cases hv : stackTopVisible al (ne :: p :: rest) with
  | true =>
    have hv' : Iter.treeIsVisible al { stack := ne :: p :: rest, visibleDepth := vd, inPadding := false, prevExternalToken := prev } = true := hv
    simp only [hv', if_true]
    split
    · refine ⟨?_, ?_⟩
      · rw [countVis_cons]; simp only [Bool.true_and, hv, if_true]; omega
      · simpa using hent
    · rename_i hz
      refine ⟨?_, ?_⟩
      · rw [countVis_cons]; simp only [Bool.false_and, Bool.false_eq_true, if_false, hv, if_true]; omega
      · simp only [Bool.false_eq_true, if_false]
        refine ⟨fun _ => ?_, hent⟩
        unfold Entry.left; omega
  | false =>
    have hv' : Iter.treeIsVisible al { stack := ne :: p :: rest, visibleDepth := vd, inPadding := false, prevExternalToken := prev } = false := hv
    simp only [hv', Bool.false_eq_true, if_false]
    refine descend_w al P fuel _ 0 (Nat.zero_le _) ⟨?_, ?_⟩
    · rw [countVis_cons]; simp only [Bool.false_and, Bool.false_eq_true, if_false, hv]; omega
    · simp only [Bool.false_eq_true, if_false]
      exact ⟨fun h => (by rw [hv] at h; cases h), hent⟩

theorem advanceLoop_w (al : AliasTable) (P fuel B : Nat) (hB : B ≤ 4294967296) : ∀ (stack : List Entry) (vd : Nat) (prev : Option Tree),
    StackOK stack → SS stack → stack.length ≤ B → vd = countVis al stack → EnteredAll al P stack →
    topEnd stack ≤ P → Wd al P (advanceLoop al fuel stack vd prev)
  | [], vd, prev, _, _, _, hvd, _, _ => by
    simp only [advanceLoop]
    exact ⟨by simp [hvd, countVis], by simp [EnteredAll]⟩
  | [e], vd, prev, _, _, _, hvd, _, _ => by
    simp only [advanceLoop]
    refine ⟨?_, by simp [EnteredAll]⟩
    rw [countVis_cons] at hvd
    have c0 : countVis al [] = 0 := rfl
    cases hv : stackTopVisible al [e]
    · simp only [hv, Bool.false_eq_true, if_false] at hvd
      simp only [hv, Bool.false_eq_true, if_false, Bool.false_and]
      omega
    · simp only [hv, if_true] at hvd
      simp only [hv, if_true, Bool.false_and, Bool.false_eq_true, if_false]
      rw [decU32_eq vd (by omega) (by omega)]; omega
  | e :: p :: rest, vd, prev, hok, hss, hlen, hvd, hent, hend => by
    have key : (if stackTopVisible al (e :: p :: rest) = true then decU32 vd else vd) = countVis al (p :: rest) := by
      rw [countVis_cons] at hvd
      have hle := countVis_le al (p :: rest)
      simp only [List.length_cons] at hlen hle
      cases hv : stackTopVisible al (e :: p :: rest)
      · simp only [hv, Bool.false_eq_true, if_false] at hvd ⊢; omega
      · simp only [hv, if_true] at hvd ⊢
        rw [decU32_eq vd (by omega) (by omega)]; omega
    unfold advanceLoop
    simp only
    rw [key]
    cases hn : p.subtree.kids[e.childIndex + 1]? with
    | none =>
      simp only
      refine advanceLoop_w al P fuel B hB (p :: rest) _ _ hok.2.2 hss.tail (by simp only [List.length_cons] at hlen ⊢; omega) rfl hent.2 ?_
      have := last_child_end hok (hss p (by simp)) hn
      simp only [topEnd] at hend ⊢; omega
    | some next =>
      simp only
      refine push_sibling_w al P fuel _ p rest _ _ rfl hent.2 ?_
      simp only [length_add_bytes, totalSize_bytes]
      simpa [topEnd] using hend

theorem advance_w (al : AliasTable) (P fuel : Nat) (it : Iter) (hok : StackOK it.stack) (hss : SS it.stack)
    (hlen : it.stack.length ≤ 4294967296) (hend : it.endPosition.bytes ≤ P) (w : Wd al P it) :
    Wd al P (it.advance al fuel) := by
  unfold Iter.advance
  split
  · rename_i hp
    simp only
    have wd := w.depth
    have we := w.ent
    simp only [hp, Bool.true_and, if_true] at wd we
    cases hv : stackTopVisible al it.stack with
    | true =>
      have hv' : Iter.treeIsVisible al { it with inPadding := false } = true := hv
      simp only [hv', if_true]
      simp only [hv, if_true] at wd
      refine ⟨by simpa using wd, ?_⟩
      simp only [Bool.false_eq_true, if_false]
      cases hs : it.stack with
      | nil => trivial
      | cons e rest =>
        rw [hs] at we hv
        refine ⟨fun _ => ?_, by simpa using we⟩
        simp only [Iter.endPosition, hs, hp, if_true, length_add_bytes] at hend
        exact hend
    | false =>
      have hv' : Iter.treeIsVisible al { it with inPadding := false } = false := hv
      simp only [hv', Bool.false_eq_true, if_false]
      simp only [hv, Bool.false_eq_true, if_false, Nat.add_zero] at wd
      refine descend_w al P fuel _ 0 (Nat.zero_le _) ⟨by simpa using wd, ?_⟩
      simp only [Bool.false_eq_true, if_false]
      cases hs : it.stack with
      | nil => trivial
      | cons e rest =>
        rw [hs] at we hv
        exact ⟨fun h => (by rw [hv] at h; cases h), by simpa using we⟩
  · rename_i hp
    have hp' : it.inPadding = false := by simpa using hp
    have wd := w.depth
    have we := w.ent
    simp only [hp', Bool.false_and, Bool.false_eq_true, if_false, Nat.add_zero] at wd we
    refine advanceLoop_w al P fuel _ (Nat.le_refl _) it.stack _ _ hok hss hlen wd we ?_
    cases hs : it.stack with
    | nil => simp [topEnd]
    | cons e rest =>
      simp only [Iter.endPosition, hs, hp', Bool.false_eq_true, if_false, length_add_bytes] at hend
      have : e.subtree.totalBytes = e.subtree.data.padding.bytes + e.subtree.data.size.bytes := rfl
      simp only [topEnd]; omega

theorem catchUp_w (al : AliasTable) (tf R S : Nat) (hS : S ≤ 4294967296) : ∀ (fuel : Nat) (it : Iter) (np : Nat),
    Geo R it → LenOK S it.stack → Wd al np it → Wd al np (catchUp al tf fuel it np).1
  | 0, it, _, _, _, w => by simpa [catchUp] using w
  | fuel + 1, it, np, g, hl, w => by
    unfold catchUp
    split
    · rename_i hc
      simp only [Bool.and_eq_true, Bool.not_eq_true', decide_eq_true_eq] at hc
      exact catchUp_w al tf R S hS fuel _ np (g.advance al tf) (advance_q (len_closed S) al tf it hl)
        (advance_w al np tf it g.ok g.ss (Nat.le_trans hl.length_le hS) hc.2 w)
    · exact w

/-- `iterator_ascend` keeps the depth invariant — provided a cursor that is in a padding ends after `P`: then the
entry it leaves is not the first child of an entered visible node (their starts would coincide). -/
theorem ascend_w (al : AliasTable) (P : Nat) (it : Iter) (hok : StackOK it.stack) (hss : SS it.stack)
    (hlen : it.stack.length ≤ 4294967296) (hpad : it.inPadding = true → it.endPosition.bytes > P) (w : Wd al P it) :
    Wd al P (it.ascend al) := by
  unfold Iter.ascend
  cases hs : it.stack with
  | nil => simp only; exact w
  | cons e rest =>
    simp only
    have wd := w.depth
    have we := w.ent
    have hcl := countVis_le al (e :: rest)
    rw [hs] at wd we hlen hok hss
    rw [countVis_cons] at wd hcl
    simp only [List.length_cons] at hlen hcl
    have htv : Iter.treeIsVisible al it = stackTopVisible al (e :: rest) := by unfold Iter.treeIsVisible; rw [hs]
    rw [htv]
    cases hp : it.inPadding with
    | false =>
      simp only [hp, Bool.false_and, Bool.false_eq_true, if_false, Nat.add_zero] at wd we
      have hip : (if e.childIndex > 0 then false else false) = false := by split <;> rfl
      simp only [Bool.not_false, Bool.and_true, hip]
      refine ⟨?_, by simpa using we.2⟩
      simp only [Bool.false_and, Bool.false_eq_true, if_false, Nat.add_zero]
      cases hv : stackTopVisible al (e :: rest)
      · simp only [hv, Bool.false_eq_true, if_false] at wd ⊢; omega
      · simp only [hv, if_true] at wd hcl ⊢
        rw [decU32_eq _ (by omega) (by omega)]; omega
    | true =>
      simp only [hp, Bool.true_and, if_true] at wd we
      simp only [Bool.not_true, Bool.and_false, Bool.false_eq_true, if_false]
      have hd : it.visibleDepth = countVis al rest := by
        cases hv : stackTopVisible al (e :: rest) <;> simp only [hv, Bool.false_eq_true, if_false, if_true] at wd <;> omega
      by_cases hci : e.childIndex > 0
      · simp only [hci, if_true]
        exact ⟨by simpa using hd, by simpa using we⟩
      · simp only [hci, if_false]
        have hz : e.childIndex = 0 := by omega
        refine ⟨?_, by simpa using we.tail⟩
        simp only [Bool.true_and]
        cases rest with
        | nil => simpa [stackTopVisible] using hd
        | cons p rest' =>
          cases hv2 : stackTopVisible al (p :: rest') with
          | false => simpa using hd
          | true =>
            exfalso
            have hle := we.1 hv2
            have hgt := hpad hp
            obtain ⟨k1, k2, _⟩ := hok
            rw [hz] at k1 k2
            have hpk : p.subtree.kids ≠ [] := by intro h0; rw [h0] at k1; simp at k1
            have hfp := ((hss p (by simp)).total hpk).2
            have hfirst : firstPad p.subtree.kids = e.subtree.data.padding.bytes := by
              cases hk : p.subtree.kids with
              | nil => exact absurd hk hpk
              | cons c cs => rw [hk] at k1; simp at k1; subst k1; rfl
            have hpre : prefixBytes p.subtree.kids 0 = 0 := by cases p.subtree.kids <;> rfl
            simp only [Iter.endPosition, hs, hp, if_true, length_add_bytes] at hgt
            unfold Entry.left at hle
            omega

/-- The bottom entry of a stack. -/
def bottom : List Entry → Option Entry
  | [] => none
  | [e] => some e
  | _ :: rest => bottom rest

/-- A property of the bottom entry. -/
def BotP (pr : Entry → Prop) (stack : List Entry) : Prop := ∀ b, bottom stack = some b → pr b

theorem botP_closed (pr : Entry → Prop) : PushClosed (BotP pr) where
  nil := by intro b h; cases h
  tail := by
    intro e rest h b hb
    cases rest with
    | nil => cases hb
    | cons p r => exact h b hb
  push := by
    intro c e rest h _ b hb
    exact h b hb

theorem countVis_bottom (al : AliasTable) : ∀ (stack : List Entry) (b : Entry), bottom stack = some b →
    b.subtree.data.visible = true → 1 ≤ countVis al stack
  | [], _, h, _ => by cases h
  | [e], b, h, hv => by
    simp only [bottom, Option.some.injEq] at h; subst h
    simp [countVis, stackTopVisible, hv]
  | e :: p :: rest, b, h, hv => by
    have := countVis_bottom al (p :: rest) b h hv
    rw [countVis_cons]; omega

/-- A cursor that is not done has visible depth ≥ 1 (its visible root is counted). -/
theorem depth_pos (al : AliasTable) (P : Nat) (it : Iter) (w : Wd al P it) (hnd : it.done = false)
    (hb : BotP (fun b => b.subtree.data.visible = true ∧ b.left ≤ P) it.stack)
    (hpad : it.inPadding = true → it.endPosition.bytes > P) : 1 ≤ it.visibleDepth := by
  have wd := w.depth
  cases hs : it.stack with
  | nil => simp [Iter.done, hs] at hnd
  | cons e rest =>
    rw [hs] at wd hb
    cases rest with
    | nil =>
      obtain ⟨bv, bl⟩ := hb e rfl
      cases hp : it.inPadding with
      | true =>
        have := hpad hp
        simp only [Iter.endPosition, hs, hp, if_true, length_add_bytes] at this
        unfold Entry.left at bl; omega
      | false =>
        simp only [hp, Bool.false_and, Bool.false_eq_true, if_false, Nat.add_zero] at wd
        have := countVis_bottom al [e] e rfl bv
        omega
    | cons p rest' =>
      obtain ⟨b, hbb⟩ : ∃ b, bottom (p :: rest') = some b := by
        clear wd hb hs
        induction rest' generalizing p with
        | nil => exact ⟨p, rfl⟩
        | cons q r ih => exact ih q
      have hbv := (hb b hbb).1
      have := countVis_bottom al (p :: rest') b hbb hbv
      rw [countVis_cons] at wd
      cases hv : stackTopVisible al (e :: p :: rest') <;> simp only [hv, Bool.and_false, Bool.and_true, Bool.false_eq_true, if_false, if_true] at wd
      · omega
      · split at wd <;> omega

/-- The depth alignment never ascends past the root while the other cursor is not done (`d ≥ 1`). -/
theorem ascendTo_w (al : AliasTable) (P R S : Nat) (hS : S ≤ 4294967296) : ∀ (fuel : Nat) (it : Iter) (d : Nat),
    Geo R it → LenOK S it.stack → Wd al P it → it.endPosition.bytes > P → 1 ≤ d → it.done = false →
    Wd al P (ascendTo al fuel it d) ∧ (ascendTo al fuel it d).done = false
  | 0, it, _, _, _, w, _, _, hnd => by simpa [ascendTo] using ⟨w, hnd⟩
  | fuel + 1, it, d, g, hl, w, he, hd, hnd => by
    unfold ascendTo
    split
    · rename_i hc
      simp only [Bool.and_eq_true, decide_eq_true_eq, Bool.not_eq_true'] at hc
      have w' := ascend_w al P it g.ok g.ss (Nat.le_trans hl.length_le hS) (fun _ => he) w
      cases hs : it.stack with
      | nil => simp [Iter.done, hs] at hnd
      | cons e rest =>
        cases rest with
        | nil =>
          exfalso
          have wd := w.depth
          rw [hs, countVis_cons] at wd
          have : countVis al [] = 0 := rfl
          split at wd <;> split at wd <;> omega
        | cons p rest' =>
          have he' := ascend_end al it e p rest' hs g.ok g.ss
          have hnd' : (it.ascend al).done = false := by simp [Iter.ascend, hs, Iter.done]
          exact ascendTo_w al P R S hS fuel _ d (g.ascend al) (ascend_q (len_closed S) al it hl) w' (by omega) hd hnd'
    · exact ⟨w, hnd⟩

/-! ## Part 4: the loop -/

/-- Everything known about one cursor at loop position `P` (`B` = the loop start, `R` = end of the root, `S` = size of the tree). -/
structure Cur (al : AliasTable) (R S B P : Nat) (it : Iter) : Prop where
  geo : Geo R it
  bot : Bot R it.stack
  botp : BotP (fun b => b.subtree.data.visible = true ∧ b.left ≤ B) it.stack
  len : LenOK S it.stack
  w : Wd al P it

theorem Cur.mono {al : AliasTable} {R S B P P' : Nat} {it : Iter} (h : P ≤ P') (c : Cur al R S B P it) : Cur al R S B P' it :=
  ⟨c.geo, c.bot, c.botp, c.len, c.w.mono h⟩

theorem Cur.descend {al : AliasTable} {R S B P : Nat} {it : Iter} (fuel goal : Nat) (hg : goal ≤ P) (c : Cur al R S B P it) :
    Cur al R S B P (it.descend al fuel goal).1 :=
  ⟨c.geo.descend al fuel goal, descend_q (bot_closed R) al fuel it goal c.bot, descend_q (botP_closed _) al fuel it goal c.botp,
   descend_q (len_closed S) al fuel it goal c.len, descend_w al P fuel it goal hg c.w⟩

theorem Cur.catchUp {al : AliasTable} {R S B : Nat} (hS : S ≤ 4294967296) (tf fuel : Nat) {it : Iter} (np : Nat)
    (c : Cur al R S B np it) : Cur al R S B np (catchUp al tf fuel it np).1 :=
  ⟨Geo.catchUp al tf fuel it np c.geo, catchUp_q (bot_closed R) al tf fuel it np c.bot,
   catchUp_q (botP_closed _) al tf fuel it np c.botp, catchUp_q (len_closed S) al tf fuel it np c.len,
   catchUp_w al tf R S hS fuel it np c.geo c.len c.w⟩

theorem botp_weaken {B P : Nat} (h : B ≤ P) {stack : List Entry}
    (hb : BotP (fun b => b.subtree.data.visible = true ∧ b.left ≤ B) stack) :
    BotP (fun b => b.subtree.data.visible = true ∧ b.left ≤ P) stack :=
  fun b hbb => ⟨(hb b hbb).1, Nat.le_trans (hb b hbb).2 h⟩

theorem ascendTo_done_of_done (al : AliasTable) (fuel : Nat) (it : Iter) (d : Nat) (h : it.done = true) :
    (ascendTo al fuel it d).done = true := by
  cases fuel with
  | zero => simpa [ascendTo] using h
  | succ f => unfold ascendTo; simp [h]

/-- The tail of an iteration (catch up, align depths) for two cursors that are not done. -/
theorem tail_facts (al : AliasTable) (tf F Ro Rn So Sn B np : Nat) (hSo : So ≤ 4294967296) (hSn : Sn ≤ 4294967296)
    (a b : Iter) (ca : Cur al Ro So B np a) (cb : Cur al Rn Sn B np b) (hB : B ≤ np)
    (ha : a.done = false) (hb : b.done = false)
    (f1 : (catchUp al tf F a np).2 = false) (f2 : (catchUp al tf F b np).2 = false) :
    let cu1 := (catchUp al tf F a np).1
    let cu2 := (catchUp al tf F b np).1
    let o := ascendTo al (cu1.stack.length + 1) cu1 cu2.visibleDepth
    let n := ascendTo al (cu2.stack.length + 1) cu2 o.visibleDepth
    ((o.done = true ∨ n.done = true) → min Ro Rn ≤ np) ∧
    (o.done = false → n.done = false → Cur al Ro So B np o ∧ Cur al Rn Sn B np n) := by
  intro cu1 cu2 o n
  have c1 : Cur al Ro So B np cu1 := ca.catchUp hSo tf F np
  have c2 : Cur al Rn Sn B np cu2 := cb.catchUp hSn tf F np
  cases hd1 : cu1.done with
  | true =>
    have r1 := catchUp_done al tf Ro F a np ca.geo ca.bot ha hd1
    have od : o.done = true := ascendTo_done_of_done al _ cu1 _ hd1
    exact ⟨fun _ => by omega, fun h => by rw [od] at h; cases h⟩
  | false =>
    cases hd2 : cu2.done with
    | true =>
      have r2 := catchUp_done al tf Rn F b np cb.geo cb.bot hb hd2
      have nd : n.done = true := ascendTo_done_of_done al _ cu2 _ hd2
      exact ⟨fun _ => by omega, fun _ h => by rw [nd] at h; cases h⟩
    | false =>
      have p1 := (catchUp_post al tf F a np f1).resolve_left (by simp [cu1] at hd1 ⊢; exact hd1)
      have p2 := (catchUp_post al tf F b np f2).resolve_left (by simp [cu2] at hd2 ⊢; exact hd2)
      have d2 := depth_pos al np cu2 c2.w hd2 (botp_weaken hB c2.botp) (fun _ => p2)
      obtain ⟨wo, ndo⟩ := ascendTo_w al np Ro So hSo (cu1.stack.length + 1) cu1 cu2.visibleDepth c1.geo c1.len c1.w p1 d2 hd1
      have eo := ascendTo_end al (cu1.stack.length + 1) cu1 cu2.visibleDepth c1.geo.ok c1.geo.ss ndo
      have co : Cur al Ro So B np o :=
        ⟨Geo.ascendTo al _ _ _ c1.geo, ascendTo_q (bot_closed Ro) al _ _ _ c1.bot, ascendTo_q (botP_closed _) al _ _ _ c1.botp,
         ascendTo_q (len_closed So) al _ _ _ c1.len, wo⟩
      have d1 := depth_pos al np o wo ndo (botp_weaken hB co.botp) (fun _ => Nat.lt_of_lt_of_le p1 eo)
      obtain ⟨wn, ndn⟩ := ascendTo_w al np Rn Sn hSn (cu2.stack.length + 1) cu2 o.visibleDepth c2.geo c2.len c2.w p2 d1 hd2
      have cn : Cur al Rn Sn B np n :=
        ⟨Geo.ascendTo al _ _ _ c2.geo, ascendTo_q (bot_closed Rn) al _ _ _ c2.bot, ascendTo_q (botP_closed _) al _ _ _ c2.botp,
         ascendTo_q (len_closed Sn) al _ _ _ c2.len, wn⟩
      refine ⟨fun h => ?_, fun _ _ => ⟨co, cn⟩⟩
      rcases h with h | h
      · rw [ndo] at h; cases h
      · rw [ndn] at h; cases h

/-- The loop invariant, extended by the depth invariant of both cursors. -/
structure Inv2 (al : AliasTable) (Ro Rn So Sn B : Nat) (s : LoopSt) : Prop where
  inv : Inv Ro Rn s
  co : Cur al Ro So B s.position.bytes s.o
  cn : Cur al Rn Sn B s.position.bytes s.n
  od : s.o.done = false
  nd : s.n.done = false
  hB : B ≤ s.position.bytes

theorem descend_not_done (al : AliasTable) (fuel : Nat) (it : Iter) (goal : Nat) (h : it.done = false) :
    (it.descend al fuel goal).1.done = false := by
  have hne : it.stack ≠ [] := by intro h0; simp [Iter.done, h0] at h
  have := descend_nonempty al fuel it goal hne
  cases hs : (it.descend al fuel goal).1.stack with
  | nil => exact absurd hs this
  | cons e rest => simp [Iter.done, hs]

theorem midStep_cur (al : AliasTable) (fixed : Bool) (diffs : List TSRange) (tf Ro Rn So Sn B : Nat) (s : LoopSt)
    (h : Inv2 al Ro Rn So Sn B s) :
    Cur al Ro So B s.position.bytes (midStep al fixed diffs tf s).1 ∧
    Cur al Rn Sn B s.position.bytes (midStep al fixed diffs tf s).2.1 ∧
    (midStep al fixed diffs tf s).1.done = false ∧ (midStep al fixed diffs tf s).2.1.done = false := by
  have cod := h.co.descend tf s.position.bytes (Nat.le_refl _)
  have cnd := h.cn.descend tf s.position.bytes (Nat.le_refl _)
  have dod := descend_not_done al tf s.o s.position.bytes h.od
  have dnd := descend_not_done al tf s.n s.position.bytes h.nd
  have co := h.co
  have cn := h.cn
  have od := h.od
  have nd := h.nd
  unfold midStep
  simp only
  repeat' split
  all_goals exact ⟨by assumption, by assumption, by assumption, by assumption⟩

theorem loopBody_inv2 (al : AliasTable) (fixed : Bool) (diffs : List TSRange) (tf Ro Rn So Sn B : Nat)
    (hSo : So ≤ 4294967296) (hSn : Sn ≤ 4294967296) (s : LoopSt) (h : Inv2 al Ro Rn So Sn B s)
    (hf : (loopBody al fixed diffs tf s).fuelOut = false) :
    (((loopBody al fixed diffs tf s).o.done = true ∨ (loopBody al fixed diffs tf s).n.done = true) →
      min Ro Rn ≤ (loopBody al fixed diffs tf s).position.bytes) ∧
    ((loopBody al fixed diffs tf s).o.done = false → (loopBody al fixed diffs tf s).n.done = false →
      Inv2 al Ro Rn So Sn B (loopBody al fixed diffs tf s)) := by
  obtain ⟨_, _, m1, _⟩ := midStep_inv al fixed diffs tf Ro Rn s h.inv
  obtain ⟨ca, cb, da, db⟩ := midStep_cur al fixed diffs tf Ro Rn So Sn B s h
  have hnext := (loopBody_inv al fixed diffs tf Ro Rn s h.inv).2
  have hB := h.hB
  have hf' := hf
  unfold loopBody at hf'
  simp only [Bool.or_eq_false_iff] at hf'
  have T := tail_facts al tf (2 * tf + 2) Ro Rn So Sn B (midStep al fixed diffs tf s).2.2.2.1.bytes hSo hSn
    (midStep al fixed diffs tf s).1 (midStep al fixed diffs tf s).2.1 (ca.mono m1) (cb.mono m1) (by omega) da db hf'.1.2 hf'.2
  simp only at T
  refine ⟨fun hd => ?_, fun hdo hdn => ?_⟩
  · refine T.1 ?_
    unfold loopBody at hd
    exact hd
  · have i := hnext hf hdo hdn
    have hdo' := hdo
    have hdn' := hdn
    unfold loopBody at hdo' hdn'
    obtain ⟨co, cn⟩ := T.2 hdo' hdn'
    refine ⟨i, ?_, ?_, hdo, hdn, ?_⟩
    · unfold loopBody; exact co
    · unfold loopBody; exact cn
    · unfold loopBody; simp only; omega

/-- When the loop stops (without running out of fuel) it has reached the end of the shorter tree. -/
theorem mainLoop_reach (al : AliasTable) (fixed : Bool) (diffs : List TSRange) (tf Ro Rn So Sn B : Nat)
    (hSo : So ≤ 4294967296) (hSn : Sn ≤ 4294967296) : ∀ (fuel : Nat) (s : LoopSt), Inv2 al Ro Rn So Sn B s →
    (mainLoop al fixed diffs tf fuel s).fuelOut = false → min Ro Rn ≤ (mainLoop al fixed diffs tf fuel s).position.bytes
  | 0, s, _, hf => by simp [mainLoop] at hf
  | fuel + 1, s, h, hf => by
    have hbf := (mainLoop_fuel_false al fixed diffs tf (fuel + 1) s hf).2
    obtain ⟨A, Bc⟩ := loopBody_inv2 al fixed diffs tf Ro Rn So Sn B hSo hSn s h hbf
    unfold mainLoop at hf ⊢
    simp only at hf ⊢
    split
    · rename_i hc
      simp only [hc, if_true] at hf
      simp only [Bool.and_eq_true, Bool.not_eq_true'] at hc
      exact mainLoop_reach al fixed diffs tf Ro Rn So Sn B hSo hSn fuel _ (Bc hc.1 hc.2) hf
    · rename_i hc
      simp only [Bool.and_eq_true, Bool.not_eq_true', not_and, Bool.not_eq_false] at hc
      refine A ?_
      cases ho : (loopBody al fixed diffs tf s).o.done with
      | true => exact Or.inl rfl
      | false => exact Or.inr (hc ho)

/-- The roots are visible and the trees are not absurdly large (both true of every real tree). -/
def rootOK (t : Tree) : Bool := t.data.visible && decide (t.size ≤ 4294967296)

theorem Cur.iterNew (al : AliasTable) (t : Tree) (B P : Nat) (hs : AllSized t) (hr : rootOK t = true)
    (hB : t.data.padding.bytes ≤ B) (hP : B ≤ P) : Cur al t.totalBytes t.size B P (iterNew t) := by
  simp only [rootOK, Bool.and_eq_true, decide_eq_true_eq] at hr
  refine ⟨Geo.iterNew t hs, ?_, ?_, ?_, ?_, ?_⟩
  · intro _; simp [TsVerif.C04.iterNew, bottomEnd, length_zero]
  · intro b hb
    simp only [TsVerif.C04.iterNew, bottom, Option.some.injEq] at hb
    subst hb
    exact ⟨hr.1, by simp [Entry.left, length_zero]; exact hB⟩
  · exact ⟨by simp [TsVerif.C04.iterNew], trivial⟩
  · simp [TsVerif.C04.iterNew, countVis, stackTopVisible, hr.1]
  · simp only [TsVerif.C04.iterNew, Bool.false_eq_true, if_false]
    exact ⟨fun _ => by simp [Entry.left, length_zero]; omega, trivial⟩

/-- `reach` for `ts_subtree_get_changed_ranges`: the spans of the walk end at or after the end of the shorter tree. -/
theorem walk_reach (al : AliasTable) (fixed : Bool) (old new : Tree) (diffs : List TSRange)
    (hso : AllSized old) (hsn : AllSized new) (hentry : entryOK old new = true)
    (hro : rootOK old = true) (hrn : rootOK new = true)
    (hfuel : (changedRanges al fixed old new diffs).fuelOut = false) :
    min old.totalBytes new.totalBytes ≤ spansEnd (loopStart old new) (changedRanges al fixed old new diffs).spans := by
  have hentry' := of_decide_eq_true hentry
  have hro' := hro
  have hrn' := hrn
  simp only [rootOK, Bool.and_eq_true, decide_eq_true_eq] at hro' hrn'
  have e1 := iterNew_start old
  have e2 := iterNew_start new
  unfold changedRanges changedTrace at hfuel ⊢
  simp only at hfuel ⊢
  have key : ∀ (position nextPosition : Length), position.bytes = loopStart old new → nextPosition.bytes = position.bytes →
      (mainLoop al fixed diffs (old.size + new.size + 2) (4 * (old.size + new.size + 2) + 8)
        { o := iterNew old, n := iterNew new, position := position, nextPosition := nextPosition, diffIdx := 0, spans := [] }).fuelOut = false →
      min old.totalBytes new.totalBytes ≤ spansEnd (loopStart old new)
        (mainLoop al fixed diffs (old.size + new.size + 2) (4 * (old.size + new.size + 2) + 8)
          { o := iterNew old, n := iterNew new, position := position, nextPosition := nextPosition, diffIdx := 0, spans := [] }).spans.reverse := by
    intro position nextPosition hp hn hf
    have hch := mainLoop_chain al fixed diffs (old.size + new.size + 2) (loopStart old new) (4 * (old.size + new.size + 2) + 8)
      { o := iterNew old, n := iterNew new, position := position, nextPosition := nextPosition, diffIdx := 0, spans := [] }
      (by simp [spansChain]) (by simp [spansEnd, hp])
    rw [hch.2]
    refine mainLoop_reach al fixed diffs _ old.totalBytes new.totalBytes old.size new.size (loopStart old new) hro'.2 hrn'.2 _ _ ?_ hf
    have hlo : old.data.padding.bytes ≤ loopStart old new := by unfold loopStart; omega
    have hln : new.data.padding.bytes ≤ loopStart old new := by unfold loopStart; omega
    refine ⟨?_, ?_, ?_, rfl, rfl, ?_⟩
    · exact ⟨Geo.iterNew old hso, Geo.iterNew new hsn, by simp only [iterNew_end]; omega, by simp only [iterNew_end]; omega, hn⟩
    · exact Cur.iterNew al old _ _ hso hro hlo (by simp only; omega)
    · exact Cur.iterNew al new _ _ hsn hrn hln (by simp only; omega)
    · simp only; omega
  refine key _ _ ?_ ?_ hfuel
  · unfold loopStart; split <;> (try split) <;> simp only <;> omega
  · split <;> (try split) <;> simp only <;> omega

/-- Where the earlier of the two roots starts. -/
def firstStart (old new : Tree) : Nat :=
  min (iterNew old).startPosition.bytes (iterNew new).startPosition.bytes

theorem pre_shape' (al : AliasTable) (fixed : Bool) (old new : Tree) (diffs : List TSRange) :
    ((changedRanges al fixed old new diffs).pre = [] ∧ firstStart old new = loopStart old new) ∨
    ∃ p np : Length, (changedRanges al fixed old new diffs).pre = [(p, np)] ∧ p.bytes = firstStart old new ∧ np.bytes = loopStart old new := by
  unfold changedRanges changedTrace loopStart firstStart
  simp only
  split
  · rename_i h; exact Or.inr ⟨_, _, rfl, by omega, by omega⟩
  · split
    · rename_i h; exact Or.inr ⟨_, _, rfl, by omega, by omega⟩
    · exact Or.inl ⟨rfl, by omega⟩

end TsVerif.C04
