import TsVerif.C04.Ends
/-!
# C04 — the walk reaches the end of the shorter tree (`reach`)

Part 1: stack predicates closed under "pop" and "push a child of the top" are preserved by every cursor operation
(`PushClosed`), instantiated with `Bot R` (the bottom entry ends at `R`) and `LenOK S` (the stack is a path: its length
plus the size of the top subtree is at most `S`).
-/
namespace TsVerif.C04
open TsGen TsVerif

structure PushClosed (Q : List Entry → Prop) : Prop where
  nil : Q []
  tail : ∀ (e : Entry) (rest : List Entry), Q (e :: rest) → Q rest
  push : ∀ (c e : Entry) (rest : List Entry), Q (e :: rest) → (∃ k : Nat, e.subtree.kids[k]? = some c.subtree) → Q (c :: e :: rest)

theorem descendLoop_q {Q : List Entry → Prop} (hq : PushClosed Q) (al : AliasTable) : ∀ (fuel : Nat) (it : Iter) (goal : Nat),
    Q it.stack → Q (descendLoop al fuel it goal).1.stack
  | 0, it, goal, h => by simpa [descendLoop] using h
  | fuel + 1, it, goal, h => by
    unfold descendLoop
    cases hs : it.stack with
    | nil => simp only [hs]; rw [hs] at h; exact h
    | cons e rest =>
      simp only
      cases hk : scanKids e.subtree.kids e.position 0 0 goal it.prevExternalToken with
      | mk r prev =>
        cases r with
        | none => simp only; rw [hs] at h; simpa [hs] using h
        | some ce =>
          simp only
          rw [hs] at h
          obtain ⟨k, _, k2, _, _⟩ := scanKids_ok _ _ _ _ _ _ ce prev hk
          have hq' : Q (ce :: e :: rest) := hq.push ce e rest h ⟨k, k2⟩
          split
          · split <;> exact hq'
          · exact descendLoop_q hq al fuel _ goal hq'

theorem descend_q {Q : List Entry → Prop} (hq : PushClosed Q) (al : AliasTable) (fuel : Nat) (it : Iter) (goal : Nat)
    (h : Q it.stack) : Q (it.descend al fuel goal).1.stack := by
  unfold Iter.descend
  split
  · exact h
  · exact descendLoop_q hq al fuel it goal h

theorem ascend_q {Q : List Entry → Prop} (hq : PushClosed Q) (al : AliasTable) (it : Iter) (h : Q it.stack) :
    Q (it.ascend al).stack := by
  unfold Iter.ascend
  cases hs : it.stack with
  | nil => simpa [hs] using h
  | cons e rest => rw [hs] at h; simpa using hq.tail e rest h

theorem advanceLoop_q {Q : List Entry → Prop} (hq : PushClosed Q) (al : AliasTable) (fuel : Nat) :
    ∀ (stack : List Entry) (vd : Nat) (prev : Option Tree), Q stack → Q (advanceLoop al fuel stack vd prev).stack
  | [], _, _, _ => by simpa [advanceLoop] using hq.nil
  | [e], _, _, _ => by simpa [advanceLoop] using hq.nil
  | e :: p :: rest, vd, prev, h => by
    unfold advanceLoop
    simp only
    cases hn : p.subtree.kids[e.childIndex + 1]? with
    | none => simp only; exact advanceLoop_q hq al fuel (p :: rest) _ _ (hq.tail _ _ h)
    | some next =>
      simp only
      have hq' : ∀ sci, Q ((⟨next, length_add e.position e.subtree.totalSize, e.childIndex + 1, sci⟩ : Entry) :: p :: rest) :=
        fun sci => hq.push _ p rest (hq.tail _ _ h) ⟨_, hn⟩
      repeat' split
      all_goals first
        | exact hq' _
        | exact descend_q hq al fuel _ 0 (hq' _)

theorem advance_q {Q : List Entry → Prop} (hq : PushClosed Q) (al : AliasTable) (fuel : Nat) (it : Iter) (h : Q it.stack) :
    Q (it.advance al fuel).stack := by
  unfold Iter.advance
  split
  · simp only
    split
    · exact h
    · exact descend_q hq al fuel { it with inPadding := false } 0 h
  · exact advanceLoop_q hq al fuel _ _ _ h

theorem catchUp_q {Q : List Entry → Prop} (hq : PushClosed Q) (al : AliasTable) (tf : Nat) : ∀ (fuel : Nat) (it : Iter) (np : Nat),
    Q it.stack → Q (catchUp al tf fuel it np).1.stack
  | 0, it, _, h => by simpa [catchUp] using h
  | fuel + 1, it, np, h => by
    unfold catchUp
    split
    · exact catchUp_q hq al tf fuel _ np (advance_q hq al tf it h)
    · exact h

theorem ascendTo_q {Q : List Entry → Prop} (hq : PushClosed Q) (al : AliasTable) : ∀ (fuel : Nat) (it : Iter) (d : Nat),
    Q it.stack → Q (ascendTo al fuel it d).stack
  | 0, it, _, h => by simpa [ascendTo] using h
  | fuel + 1, it, d, h => by
    unfold ascendTo
    split
    · exact ascendTo_q hq al fuel _ d (ascend_q hq al it h)
    · exact h

/-- End of the bottom entry (the root of the walk). -/
def bottomEnd : List Entry → Nat
  | [] => 0
  | [e] => e.position.bytes + e.subtree.totalBytes
  | _ :: rest => bottomEnd rest

/-- The bottom entry ends at `R`. -/
def Bot (R : Nat) (stack : List Entry) : Prop := stack ≠ [] → bottomEnd stack = R

theorem bot_closed (R : Nat) : PushClosed (Bot R) where
  nil := fun h => absurd rfl h
  tail := by
    intro e rest h hne
    cases rest with
    | nil => exact absurd rfl hne
    | cons p r => exact h (by simp)
  push := by
    intro c e rest h _ _
    exact h (by simp)

/-- The stack is a path of the tree: below every entry there is room for it in a tree of size `S`. -/
def LenOK (S : Nat) : List Entry → Prop
  | [] => True
  | e :: rest => rest.length + e.subtree.size ≤ S ∧ LenOK S rest

theorem sizeList_get : ∀ (kids : List Tree) (k : Nat) (c : Tree), kids[k]? = some c → c.size ≤ Tree.sizeList kids
  | [], _, _, h => by simp at h
  | t :: ts, 0, c, h => by simp at h; subst h; simp [Tree.sizeList]
  | t :: ts, k + 1, c, h => by
    have := sizeList_get ts k c (by simpa using h)
    simp only [Tree.sizeList]; omega

theorem size_kid (t : Tree) (k : Nat) (c : Tree) (h : t.kids[k]? = some c) : c.size + 1 ≤ t.size := by
  cases t with
  | mk d kids =>
    have := sizeList_get kids k c h
    simp only [Tree.size]; omega

theorem len_closed (S : Nat) : PushClosed (LenOK S) where
  nil := trivial
  tail := fun _ _ h => h.2
  push := by
    intro c e rest h ⟨k, hk⟩
    refine ⟨?_, h⟩
    have := size_kid _ _ _ hk
    have := h.1
    simp only [List.length_cons]; omega

theorem LenOK.length_le {S : Nat} : ∀ {stack : List Entry}, LenOK S stack → stack.length ≤ S
  | [], _ => Nat.zero_le _
  | e :: rest, h => by
    have h1 := h.1
    have : 1 ≤ e.subtree.size := by cases e.subtree with | mk d kids => simp [Tree.size]
    simp only [List.length_cons]; omega

/-! ## Part 2: a cursor becomes done only at the end of its root -/

theorem descendLoop_len (al : AliasTable) : ∀ (fuel : Nat) (it : Iter) (goal : Nat),
    it.stack.length ≤ (descendLoop al fuel it goal).1.stack.length
  | 0, it, goal => by simp [descendLoop]
  | fuel + 1, it, goal => by
    unfold descendLoop
    cases hs : it.stack with
    | nil => simp [hs]
    | cons e rest =>
      simp only
      cases hk : scanKids e.subtree.kids e.position 0 0 goal it.prevExternalToken with
      | mk r prev =>
        cases r with
        | none => simp [hs]
        | some ce =>
          simp only
          split
          · split <;> simp
          · have := descendLoop_len al fuel { it with stack := ce :: e :: rest, prevExternalToken := prev } goal
            simp only [List.length_cons] at this ⊢; omega

theorem descend_len (al : AliasTable) (fuel : Nat) (it : Iter) (goal : Nat) :
    it.stack.length ≤ (it.descend al fuel goal).1.stack.length := by
  unfold Iter.descend
  split
  · exact Nat.le_refl _
  · exact descendLoop_len al fuel it goal

theorem descend_nonempty (al : AliasTable) (fuel : Nat) (it : Iter) (goal : Nat) (h : it.stack ≠ []) :
    (it.descend al fuel goal).1.stack ≠ [] := by
  intro h0
  have := descend_len al fuel it goal
  rw [h0] at this
  cases hs : it.stack with
  | nil => exact h hs
  | cons e rest => rw [hs] at this; simp at this

/-- End of the top entry (position + padding + size). -/
def topEnd : List Entry → Nat
  | [] => 0
  | e :: _ => e.position.bytes + e.subtree.totalBytes

/-- The last child of a sized node ends where the node ends. -/
theorem last_child_end {e p : Entry} {rest : List Entry} (hok : StackOK (e :: p :: rest)) (hp : AllSized p.subtree)
    (hn : p.subtree.kids[e.childIndex + 1]? = none) :
    e.position.bytes + e.subtree.totalBytes = p.position.bytes + p.subtree.totalBytes := by
  obtain ⟨h1, h2, _⟩ := hok
  have hne : p.subtree.kids ≠ [] := by intro h0; rw [h0] at h1; simp at h1
  have ht := (hp.total hne).1
  have hs := prefixBytes_succ _ _ _ h1
  have hlen : e.childIndex + 1 = p.subtree.kids.length := by
    have a : p.subtree.kids.length ≤ e.childIndex + 1 := by simpa using hn
    have b : e.childIndex < p.subtree.kids.length := by
      rcases Nat.lt_or_ge e.childIndex p.subtree.kids.length with h | h
      · exact h
      · have : p.subtree.kids[e.childIndex]? = none := by simpa using h
        rw [this] at h1; cases h1
    omega
  rw [hlen] at hs
  omega

theorem advanceLoop_done (al : AliasTable) (fuel : Nat) : ∀ (stack : List Entry) (vd : Nat) (prev : Option Tree),
    StackOK stack → SS stack → (advanceLoop al fuel stack vd prev).stack = [] → topEnd stack = bottomEnd stack
  | [], _, _, _, _, _ => rfl
  | [e], _, _, _, _, _ => rfl
  | e :: p :: rest, vd, prev, hok, hss, hd => by
    unfold advanceLoop at hd
    simp only at hd
    cases hn : p.subtree.kids[e.childIndex + 1]? with
    | none =>
      simp only [hn] at hd
      have ih := advanceLoop_done al fuel (p :: rest) _ _ hok.2.2 hss.tail hd
      have := last_child_end hok (hss p (by simp)) hn
      simp only [topEnd, bottomEnd] at ih ⊢
      omega
    | some next =>
      exfalso
      simp only [hn] at hd
      repeat' split at hd
      all_goals first
        | (simp at hd; done)
        | exact descend_nonempty al fuel _ 0 (by simp) hd

theorem advance_done (al : AliasTable) (fuel : Nat) (it : Iter) (hok : StackOK it.stack) (hss : SS it.stack)
    (hne : it.done = false) (hd : (it.advance al fuel).done = true) :
    it.endPosition.bytes = bottomEnd it.stack := by
  unfold Iter.advance at hd
  split at hd
  · exfalso
    have hne' : it.stack ≠ [] := by intro h0; simp [Iter.done, h0] at hne
    simp only at hd
    split at hd
    · simp only [Iter.done, List.isEmpty_iff] at hd; exact hne' hd
    · simp only [Iter.done, List.isEmpty_iff] at hd
      exact descend_nonempty al fuel { it with inPadding := false } 0 hne' hd
  · rename_i hp
    have hp' : it.inPadding = false := by simpa using hp
    have := advanceLoop_done al fuel it.stack _ _ hok hss (by simpa [Iter.done] using hd)
    rw [← this]
    unfold Iter.endPosition topEnd
    cases hs : it.stack with
    | nil => simp [length_zero]
    | cons e rest =>
      simp only [hp', Bool.false_eq_true, if_false, length_add_bytes]
      have : e.subtree.totalBytes = e.subtree.data.padding.bytes + e.subtree.data.size.bytes := rfl
      omega

/-- A cursor that becomes done while catching up has reached the end of its root. -/
theorem catchUp_done (al : AliasTable) (tf : Nat) (R : Nat) : ∀ (fuel : Nat) (it : Iter) (np : Nat),
    Geo R it → Bot R it.stack → it.done = false → (catchUp al tf fuel it np).1.done = true → R ≤ np
  | 0, it, _, _, _, hne, hd => by simp [catchUp, hne] at hd
  | fuel + 1, it, np, g, hb, hne, hd => by
    unfold catchUp at hd
    split at hd
    · rename_i hc
      simp only [Bool.and_eq_true, Bool.not_eq_true', decide_eq_true_eq] at hc
      cases hdn : (it.advance al tf).done with
      | true =>
        have := advance_done al tf it g.ok g.ss hne hdn
        have hb' := hb (by simpa [Iter.done] using hne)
        omega
      | false =>
        exact catchUp_done al tf R fuel _ np (g.advance al tf) (advance_q (bot_closed R) al tf it hb) hdn hd
    · simp [hne] at hd

/-! ## Part 3: the visible depth counts the visible entries that have been entered -/

/-- Number of visible entries of a stack (visibility as `iterator_tree_is_visible` sees it: own flag or alias in the parent). -/
def countVis (al : AliasTable) : List Entry → Nat
  | [] => 0
  | e :: rest => (if stackTopVisible al (e :: rest) then 1 else 0) + countVis al rest

/-- Where the node proper of an entry starts. -/
def Entry.left (e : Entry) : Nat := e.position.bytes + e.subtree.data.padding.bytes

/-- Every visible entry starts at or before `P`. -/
def EnteredAll (al : AliasTable) (P : Nat) : List Entry → Prop
  | [] => True
  | e :: rest => (stackTopVisible al (e :: rest) = true → e.left ≤ P) ∧ EnteredAll al P rest

theorem EnteredAll.mono {al : AliasTable} {P P' : Nat} (h : P ≤ P') : ∀ {s : List Entry}, EnteredAll al P s → EnteredAll al P' s
  | [], _ => trivial
  | _ :: _, ⟨a, b⟩ => ⟨fun hv => Nat.le_trans (a hv) h, EnteredAll.mono h b⟩

theorem EnteredAll.tail {al : AliasTable} {P : Nat} : ∀ {s : List Entry}, EnteredAll al P s → EnteredAll al P s.tail
  | [], _ => trivial
  | _ :: _, ⟨_, b⟩ => b

theorem countVis_cons (al : AliasTable) (c : Entry) (s : List Entry) :
    countVis al (c :: s) = (if stackTopVisible al (c :: s) then 1 else 0) + countVis al s := rfl

theorem countVis_le (al : AliasTable) : ∀ s : List Entry, countVis al s ≤ s.length
  | [] => Nat.le_refl _
  | e :: rest => by
    have := countVis_le al rest
    simp only [countVis, List.length_cons]
    split <;> omega

theorem decU32_eq (n : Nat) (h1 : 1 ≤ n) (h2 : n ≤ 4294967296) : decU32 n = n - 1 := by
  unfold decU32; omega

/-- The depth invariant: `visible_depth` is the number of visible entries, not counting a visible top entry whose
padding the cursor is still in; and every counted visible entry starts at or before `P`. -/
structure Wd (al : AliasTable) (P : Nat) (it : Iter) : Prop where
  depth : it.visibleDepth + (if it.inPadding && stackTopVisible al it.stack then 1 else 0) = countVis al it.stack
  ent : EnteredAll al P (if it.inPadding then it.stack.tail else it.stack)

theorem Wd.mono {al : AliasTable} {P P' : Nat} {it : Iter} (h : P ≤ P') (w : Wd al P it) : Wd al P' it :=
  ⟨w.depth, EnteredAll.mono h w.ent⟩

theorem descendLoop_w (al : AliasTable) (P : Nat) : ∀ (fuel : Nat) (it : Iter) (goal : Nat),
    it.inPadding = false → goal ≤ P → Wd al P it → Wd al P (descendLoop al fuel it goal).1
  | 0, it, goal, _, _, w => by simpa [descendLoop] using w
  | fuel + 1, it, goal, hp, hg, w => by
    unfold descendLoop
    cases hs : it.stack with
    | nil => simp only; exact w
    | cons e rest =>
      simp only
      cases hk : scanKids e.subtree.kids e.position 0 0 goal it.prevExternalToken with
      | mk r prev =>
        cases r with
        | none =>
          simp only
          exact ⟨by simpa [hp, hs] using w.depth, by simpa [hp, hs] using w.ent⟩
        | some ce =>
          simp only
          have wd := w.depth
          have we := w.ent
          simp only [hp, hs, Bool.false_and, Bool.false_eq_true, if_false, Nat.add_zero] at wd we
          cases hv : stackTopVisible al (ce :: e :: rest) with
          | true =>
            have hv' : Iter.treeIsVisible al { it with stack := ce :: e :: rest, prevExternalToken := prev } = true := hv
            simp only [hv', if_true]
            split
            · refine ⟨?_, ?_⟩
              · rw [countVis_cons]; simp only [Bool.true_and, hv, if_true]; omega
              · simpa using we
            · rename_i hle
              refine ⟨?_, ?_⟩
              · rw [countVis_cons]; simp only [hp, Bool.false_and, Bool.false_eq_true, if_false, hv, if_true]; omega
              · simp only [hp, Bool.false_eq_true, if_false]
                refine ⟨fun _ => ?_, we⟩
                simp only [length_add_bytes] at hle
                unfold Entry.left; omega
          | false =>
            have hv' : Iter.treeIsVisible al { it with stack := ce :: e :: rest, prevExternalToken := prev } = false := hv
            simp only [hv', Bool.false_eq_true, if_false]
            refine descendLoop_w al P fuel _ goal hp hg ⟨?_, ?_⟩
            · rw [countVis_cons]; simp only [hp, Bool.false_and, Bool.false_eq_true, if_false, hv]; omega
            · simp only [hp, Bool.false_eq_true, if_false]
              exact ⟨fun h => (by rw [hv] at h; cases h), we⟩

theorem descend_w (al : AliasTable) (P : Nat) (fuel : Nat) (it : Iter) (goal : Nat) (hg : goal ≤ P) (w : Wd al P it) :
    Wd al P (it.descend al fuel goal).1 := by
  unfold Iter.descend
  split
  · exact w
  · rename_i hp
    exact descendLoop_w al P fuel it goal (by simpa using hp) hg w

/-- Pushing the next sibling (the tail of `iterator_advance`'s loop body). -/
theorem push_sibling_w (al : AliasTable) (P fuel : Nat) (ne p : Entry) (rest : List Entry) (vd : Nat) (prev : Option Tree)
    (hvd : vd = countVis al (p :: rest)) (hent : EnteredAll al P (p :: rest)) (hpos : ne.position.bytes ≤ P) :
    Wd al P (if Iter.treeIsVisible al { stack := ne :: p :: rest, visibleDepth := vd, inPadding := false, prevExternalToken := prev } then
        (if ne.subtree.data.padding.bytes > 0
          then { stack := ne :: p :: rest, visibleDepth := vd, inPadding := true, prevExternalToken := prev }
          else { stack := ne :: p :: rest, visibleDepth := vd + 1, inPadding := false, prevExternalToken := prev })
      else (Iter.descend al fuel { stack := ne :: p :: rest, visibleDepth := vd, inPadding := false, prevExternalToken := prev } 0).1) := by
  cases hv : stackTopVisible al (ne :: p :: rest) with
  | true =>
    have hv' : Iter.treeIsVisible al { stack := ne :: p :: rest, visibleDepth := vd, inPadding := false, prevExternalToken := prev } = true := hv
    simp only [hv', if_true]
    split
    · refine ⟨?_, ?_⟩
      · rw [countVis_cons]; simp only [Bool.true_and, hv, if_true]; omega
      · simpa using hent
    · rename_i hz
      refine ⟨?_, ?_⟩
      · rw [countVis_cons]; simp only [Bool.false_and, Bool.false_eq_true, if_false, hv, if_true]; omega
      · simp only [Bool.false_eq_true, if_false]
        refine ⟨fun _ => ?_, hent⟩
        unfold Entry.left; omega
  | false =>
    have hv' : Iter.treeIsVisible al { stack := ne :: p :: rest, visibleDepth := vd, inPadding := false, prevExternalToken := prev } = false := hv
    simp only [hv', Bool.false_eq_true, if_false]
    refine descend_w al P fuel _ 0 (Nat.zero_le _) ⟨?_, ?_⟩
    · rw [countVis_cons]; simp only [Bool.false_and, Bool.false_eq_true, if_false, hv]; omega
    · simp only [Bool.false_eq_true, if_false]
      exact ⟨fun h => (by rw [hv] at h; cases h), hent⟩

theorem advanceLoop_w (al : AliasTable) (P fuel B : Nat) (hB : B ≤ 4294967296) : ∀ (stack : List Entry) (vd : Nat) (prev : Option Tree),
    StackOK stack → SS stack → stack.length ≤ B → vd = countVis al stack → EnteredAll al P stack →
    topEnd stack ≤ P → Wd al P (advanceLoop al fuel stack vd prev)
  | [], vd, prev, _, _, _, hvd, _, _ => by
    simp only [advanceLoop]
    exact ⟨by simp [hvd, countVis], by simp [EnteredAll]⟩
  | [e], vd, prev, _, _, _, hvd, _, _ => by
    simp only [advanceLoop]
    refine ⟨?_, by simp [EnteredAll]⟩
    simp only [countVis, Nat.add_zero] at hvd
    cases hv : stackTopVisible al [e] <;> simp [hv, countVis] at hvd ⊢
    · exact hvd
    · rw [hvd]; exact decU32_eq 1 (Nat.le_refl _) (by omega)
  | e :: p :: rest, vd, prev, hok, hss, hlen, hvd, hent, hend => by
    have key : (if stackTopVisible al (e :: p :: rest) = true then decU32 vd else vd) = countVis al (p :: rest) := by
      rw [countVis_cons] at hvd
      have hle := countVis_le al (p :: rest)
      simp only [List.length_cons] at hlen hle
      cases hv : stackTopVisible al (e :: p :: rest)
      · simp only [hv, Bool.false_eq_true, if_false] at hvd ⊢; omega
      · simp only [hv, if_true] at hvd ⊢
        rw [decU32_eq vd (by omega) (by omega)]; omega
    unfold advanceLoop
    simp only
    rw [key]
    cases hn : p.subtree.kids[e.childIndex + 1]? with
    | none =>
      simp only
      refine advanceLoop_w al P fuel B hB (p :: rest) _ _ hok.2.2 hss.tail (by simp only [List.length_cons] at hlen ⊢; omega) rfl hent.2 ?_
      have := last_child_end hok (hss p (by simp)) hn
      simp only [topEnd] at hend ⊢; omega
    | some next =>
      simp only
      refine push_sibling_w al P fuel _ p rest _ _ rfl hent.2 ?_
      simp only [length_add_bytes, totalSize_bytes]
      simpa [topEnd] using hend

theorem advance_w (al : AliasTable) (P fuel : Nat) (it : Iter) (hok : StackOK it.stack) (hss : SS it.stack)
    (hlen : it.stack.length ≤ 4294967296) (hend : it.endPosition.bytes ≤ P) (w : Wd al P it) :
    Wd al P (it.advance al fuel) := by
  unfold Iter.advance
  split
  · rename_i hp
    simp only
    have wd := w.depth
    have we := w.ent
    simp only [hp, Bool.true_and, if_true] at wd we
    cases hv : stackTopVisible al it.stack with
    | true =>
      have hv' : Iter.treeIsVisible al { it with inPadding := false } = true := hv
      simp only [hv', if_true]
      simp only [hv, if_true] at wd
      refine ⟨by simpa using wd, ?_⟩
      simp only [Bool.false_eq_true, if_false]
      cases hs : it.stack with
      | nil => trivial
      | cons e rest =>
        rw [hs] at we hv
        refine ⟨fun _ => ?_, by simpa using we⟩
        simp only [Iter.endPosition, hs, hp, if_true, length_add_bytes] at hend
        exact hend
    | false =>
      have hv' : Iter.treeIsVisible al { it with inPadding := false } = false := hv
      simp only [hv', Bool.false_eq_true, if_false]
      simp only [hv, Bool.false_eq_true, if_false, Nat.add_zero] at wd
      refine descend_w al P fuel _ 0 (Nat.zero_le _) ⟨by simpa using wd, ?_⟩
      simp only [Bool.false_eq_true, if_false]
      cases hs : it.stack with
      | nil => trivial
      | cons e rest =>
        rw [hs] at we hv
        exact ⟨fun h => (by rw [hv] at h; cases h), by simpa using we⟩
  · rename_i hp
    have hp' : it.inPadding = false := by simpa using hp
    have wd := w.depth
    have we := w.ent
    simp only [hp', Bool.false_and, Bool.false_eq_true, if_false, Nat.add_zero] at wd we
    refine advanceLoop_w al P fuel _ (Nat.le_refl _) it.stack _ _ hok hss hlen wd we ?_
    cases hs : it.stack with
    | nil => simp [topEnd]
    | cons e rest =>
      simp only [Iter.endPosition, hs, hp', Bool.false_eq_true, if_false, length_add_bytes] at hend
      have : e.subtree.totalBytes = e.subtree.data.padding.bytes + e.subtree.data.size.bytes := rfl
      simp only [topEnd]; omega

theorem catchUp_w (al : AliasTable) (tf R S : Nat) (hS : S ≤ 4294967296) : ∀ (fuel : Nat) (it : Iter) (np : Nat),
    Geo R it → LenOK S it.stack → Wd al np it → Wd al np (catchUp al tf fuel it np).1
  | 0, it, _, _, _, w => by simpa [catchUp] using w
  | fuel + 1, it, np, g, hl, w => by
    unfold catchUp
    split
    · rename_i hc
      simp only [Bool.and_eq_true, Bool.not_eq_true', decide_eq_true_eq] at hc
      exact catchUp_w al tf R S hS fuel _ np (g.advance al tf) (advance_q (len_closed S) al tf it hl)
        (advance_w al np tf it g.ok g.ss (Nat.le_trans hl.length_le hS) hc.2 w)
    · exact w

end TsVerif.C04
