import TsVerif.C04.Geometry
/-!
# C04 — sized trees and the end positions of the cursors (facts (iii) and (iv))
-/
namespace TsVerif.C04
open TsGen TsVerif

def firstPad : List Tree → Nat
  | [] => 0
  | c :: _ => c.data.padding.bytes

mutual
  /-- Every node with children has the size the runtime computes in `ts_subtree_summarize_children`: its
  total is the sum of its children's totals and its padding is its first child's padding. -/
  def AllSized : Tree → Prop
    | .mk d kids =>
      (kids ≠ [] → d.padding.bytes + d.size.bytes = prefixBytes kids kids.length ∧ d.padding.bytes = firstPad kids) ∧
      AllSizedL kids
  def AllSizedL : List Tree → Prop
    | [] => True
    | t :: ts => AllSized t ∧ AllSizedL ts
end

mutual
  /-- Decidable version for the driver. -/
  def allSizedB : Tree → Bool
    | .mk d kids =>
      (kids.isEmpty || (decide (d.padding.bytes + d.size.bytes = prefixBytes kids kids.length) && decide (d.padding.bytes = firstPad kids))) &&
      allSizedLB kids
  def allSizedLB : List Tree → Bool
    | [] => true
    | t :: ts => allSizedB t && allSizedLB ts
end

/- The decidable version implies the property (so the driver's evaluation discharges the premise). -/
mutual
  theorem allSizedB_sound : ∀ (t : Tree), allSizedB t = true → AllSized t
    | .mk d kids, h => by
      unfold allSizedB at h
      unfold AllSized
      simp only [Bool.and_eq_true, Bool.or_eq_true, decide_eq_true_eq, List.isEmpty_iff] at h
      refine ⟨fun hne => ?_, allSizedLB_sound kids h.2⟩
      rcases h.1 with h0 | h1
      · exact absurd h0 hne
      · exact h1
  theorem allSizedLB_sound : ∀ (ts : List Tree), allSizedLB ts = true → AllSizedL ts
    | [], _ => by unfold AllSizedL; trivial
    | t :: ts, h => by
      unfold allSizedLB at h
      unfold AllSizedL
      simp only [Bool.and_eq_true] at h
      exact ⟨allSizedB_sound t h.1, allSizedLB_sound ts h.2⟩
end

theorem AllSizedL.get : ∀ {kids : List Tree} {k : Nat} {c : Tree}, AllSizedL kids → kids[k]? = some c → AllSized c
  | [], _, _, _, h => by simp at h
  | t :: ts, 0, c, hs, h => by simp at h; subst h; exact hs.1
  | t :: ts, k + 1, c, hs, h => AllSizedL.get hs.2 (by simpa using h)

theorem AllSized.kid {t : Tree} {k : Nat} {c : Tree} (h : AllSized t) (hk : t.kids[k]? = some c) : AllSized c := by
  cases t with
  | mk d kids => exact AllSizedL.get (by unfold AllSized at h; exact h.2) hk

theorem prefixBytes_le_full : ∀ (kids : List Tree) (i : Nat), prefixBytes kids i ≤ prefixBytes kids kids.length
  | [], i => by cases i <;> simp [prefixBytes]
  | c :: rest, 0 => by simp [prefixBytes]
  | c :: rest, i + 1 => by
    have := prefixBytes_le_full rest i
    simp only [prefixBytes, List.length_cons]; omega

theorem AllSized.total {t : Tree} (h : AllSized t) (hne : t.kids ≠ []) :
    t.totalBytes = prefixBytes t.kids t.kids.length ∧ t.data.padding.bytes = firstPad t.kids := by
  cases t with
  | mk d kids =>
    unfold AllSized at h
    have := h.1 hne
    exact ⟨by simpa [Tree.totalBytes, Tree.data, Tree.kids] using this.1, by simpa [Tree.data, Tree.kids] using this.2⟩

/-- Every entry of the stack holds a sized subtree. -/
def SS (stack : List Entry) : Prop := ∀ e ∈ stack, AllSized e.subtree

theorem scanKids_ss : ∀ (kids : List Tree) (pos : Length) (i sci goal : Nat) (prev : Option Tree) (ce : Entry) (prev' : Option Tree),
    AllSizedL kids → scanKids kids pos i sci goal prev = (some ce, prev') → AllSized ce.subtree := by
  intro kids pos i sci goal prev ce prev' hs h
  obtain ⟨k, _, h2, _, _⟩ := scanKids_ok kids pos i sci goal prev ce prev' h
  exact AllSizedL.get hs h2

theorem AllSized.kidsL {t : Tree} (h : AllSized t) : AllSizedL t.kids := by
  cases t with
  | mk d kids => unfold AllSized at h; exact h.2

theorem descendLoop_ss (al : AliasTable) : ∀ (fuel : Nat) (it : Iter) (goal : Nat),
    SS it.stack → SS (descendLoop al fuel it goal).1.stack
  | 0, it, goal, h => by simpa [descendLoop] using h
  | fuel + 1, it, goal, h => by
    unfold descendLoop
    cases hs : it.stack with
    | nil => simp only [hs]; intro e he; cases he
    | cons e rest =>
      simp only
      cases hk : scanKids e.subtree.kids e.position 0 0 goal it.prevExternalToken with
      | mk r prev =>
        cases r with
        | none => simp only; rw [hs] at h; simpa [hs] using h
        | some ce =>
          simp only
          rw [hs] at h
          have hce : AllSized ce.subtree := scanKids_ss _ _ _ _ _ _ ce prev (h e (by simp)).kidsL hk
          have hss : SS (ce :: e :: rest) := by
            intro x hx
            rcases List.mem_cons.1 hx with rfl | hx
            · exact hce
            · exact h x hx
          split
          · split <;> exact hss
          · exact descendLoop_ss al fuel _ goal hss

theorem descend_ss (al : AliasTable) (fuel : Nat) (it : Iter) (goal : Nat) (h : SS it.stack) :
    SS (it.descend al fuel goal).1.stack := by
  unfold Iter.descend
  split
  · exact h
  · exact descendLoop_ss al fuel it goal h

theorem SS.tail {e : Entry} {rest : List Entry} (h : SS (e :: rest)) : SS rest :=
  fun x hx => h x (List.mem_cons_of_mem _ hx)

theorem ascend_ss (al : AliasTable) (it : Iter) (h : SS it.stack) : SS (it.ascend al).stack := by
  unfold Iter.ascend
  cases hs : it.stack with
  | nil => simpa [hs] using h
  | cons e rest => rw [hs] at h; simpa using h.tail

theorem advanceLoop_ss (al : AliasTable) (fuel : Nat) : ∀ (stack : List Entry) (vd : Nat) (prev : Option Tree),
    SS stack → SS (advanceLoop al fuel stack vd prev).stack
  | [], _, _, _ => by simp [advanceLoop, SS]
  | [e], _, _, _ => by simp [advanceLoop, SS]
  | e :: p :: rest, vd, prev, h => by
    unfold advanceLoop
    simp only
    cases hn : p.subtree.kids[e.childIndex + 1]? with
    | none => simp only; exact advanceLoop_ss al fuel (p :: rest) _ _ h.tail
    | some next =>
      simp only
      have hnext : AllSized next := (h p (by simp)).kid hn
      have hss : ∀ sci, SS ((⟨next, length_add e.position e.subtree.totalSize, e.childIndex + 1, sci⟩ : Entry) :: p :: rest) := by
        intro sci x hx
        rcases List.mem_cons.1 hx with rfl | hx
        · exact hnext
        · exact h x (List.mem_cons_of_mem _ hx)
      repeat' split
      all_goals first
        | exact hss _
        | exact descend_ss al fuel _ 0 (hss _)

theorem advance_ss (al : AliasTable) (fuel : Nat) (it : Iter) (h : SS it.stack) : SS (it.advance al fuel).stack := by
  unfold Iter.advance
  split
  · simp only
    split
    · exact h
    · exact descend_ss al fuel { it with inPadding := false } 0 h
  · exact advanceLoop_ss al fuel _ _ _ h

theorem catchUp_ss (al : AliasTable) (tf : Nat) : ∀ (fuel : Nat) (it : Iter) (np : Nat),
    SS it.stack → SS (catchUp al tf fuel it np).1.stack
  | 0, it, _, h => by simpa [catchUp] using h
  | fuel + 1, it, np, h => by
    unfold catchUp
    split
    · exact catchUp_ss al tf fuel _ np (advance_ss al tf it h)
    · exact h

theorem ascendTo_ss (al : AliasTable) : ∀ (fuel : Nat) (it : Iter) (d : Nat),
    SS it.stack → SS (ascendTo al fuel it d).stack
  | 0, it, _, h => by simpa [ascendTo] using h
  | fuel + 1, it, d, h => by
    unfold ascendTo
    split
    · exact ascendTo_ss al fuel _ d (ascend_ss al it h)
    · exact h

end TsVerif.C04
