import TsVerif.C04.Sized
import TsVerif.C04.LemmasIter
/-!
# C04 — end positions of the lock-step cursors, the loop invariant, and what follows for the spans

(iii) `ascend_end`: on sized trees `iterator_ascend` never moves the end position backwards.
(iv) `Inv`: at the head of every iteration both cursors end at or after `position`; hence every
iteration's span goes forwards (`mainLoop_spanOK`), starts inside both trees and ends inside the longer one.
(v) `FS`: every cursor entry lies inside its root (`end_le`).
-/
namespace TsVerif.C04
open TsGen TsVerif

/-- (iii) On sized trees `iterator_ascend` never moves the end backwards (as long as an entry remains). -/
theorem ascend_end (al : AliasTable) (it : Iter) (e p : Entry) (rest : List Entry)
    (hs : it.stack = e :: p :: rest) (hok : StackOK it.stack) (hss : SS it.stack) :
    (it.ascend al).endPosition.bytes ≥ it.endPosition.bytes := by
  rw [hs] at hok hss
  obtain ⟨h1, h2, _⟩ := hok
  have hp : AllSized p.subtree := hss p (by simp)
  have hne : p.subtree.kids ≠ [] := by
    intro h0; rw [h0] at h1; simp at h1
  obtain ⟨t1, t2⟩ := hp.total hne
  have hle := prefixBytes_le_full p.subtree.kids (e.childIndex + 1)
  have hsucc := prefixBytes_succ _ _ _ h1
  have hpt : p.subtree.totalBytes = p.subtree.data.padding.bytes + p.subtree.data.size.bytes := rfl
  have het : e.subtree.totalBytes = e.subtree.data.padding.bytes + e.subtree.data.size.bytes := rfl
  unfold Iter.ascend
  simp only [hs]
  by_cases hci : e.childIndex > 0
  · simp only [hci, if_true, Iter.endPosition, Bool.false_eq_true, if_false, length_add_bytes]
    rw [hs]
    simp only
    split <;> simp only [length_add_bytes] <;> omega
  · have hz : e.childIndex = 0 := by omega
    simp only [hci, if_false, Iter.endPosition]
    rw [hs]
    simp only
    have hfirst : firstPad p.subtree.kids = e.subtree.data.padding.bytes := by
      rw [hz] at h1
      cases hk : p.subtree.kids with
      | nil => exact absurd hk hne
      | cons c cs => rw [hk] at h1; simp at h1; subst h1; rfl
    have hpre0 : prefixBytes p.subtree.kids e.childIndex = 0 := by rw [hz]; cases p.subtree.kids <;> rfl
    split <;> simp only [length_add_bytes] <;> omega

theorem ascendTo_end (al : AliasTable) : ∀ (fuel : Nat) (it : Iter) (d : Nat), StackOK it.stack → SS it.stack →
    (ascendTo al fuel it d).done = false → (ascendTo al fuel it d).endPosition.bytes ≥ it.endPosition.bytes
  | 0, it, _, _, _, _ => by simp [ascendTo]
  | fuel + 1, it, d, hok, hss, hnd => by
    unfold ascendTo at hnd ⊢
    split at hnd
    · rename_i hc
      simp only [hc, if_true]
      -- the stack has at least two entries, otherwise the result would be done
      cases hs : it.stack with
      | nil => simp [Iter.done, hs] at hc
      | cons e rest =>
        cases rest with
        | nil =>
          -- ascend empties the stack: every further ascendTo keeps it done
          have hd : (it.ascend al).done = true := by simp [Iter.ascend, hs, Iter.done]
          have : (ascendTo al fuel (it.ascend al) d).done = true := by
            cases fuel with
            | zero => simpa [ascendTo] using hd
            | succ f => unfold ascendTo; simp [hd]
          rw [this] at hnd; cases hnd
        | cons p rest' =>
          have h1 := ascend_end al it e p rest' hs hok hss
          have h2 := ascendTo_end al fuel (it.ascend al) d (ascend_ok al it hok) (ascend_ss al it hss) hnd
          omega
    · rename_i hc
      simp [hc]

theorem catchUp_post (al : AliasTable) (tf : Nat) : ∀ (fuel : Nat) (it : Iter) (np : Nat),
    (catchUp al tf fuel it np).2 = false →
    (catchUp al tf fuel it np).1.done = true ∨ (catchUp al tf fuel it np).1.endPosition.bytes > np
  | 0, it, np, h => by simp [catchUp] at h
  | fuel + 1, it, np, h => by
    unfold catchUp at h ⊢
    split
    · rename_i hc
      simp only [hc, if_true] at h
      exact catchUp_post al tf fuel _ np h
    · rename_i hc
      simp only [Bool.and_eq_true, Bool.not_eq_true', decide_eq_true_eq, not_and, Nat.not_le] at hc
      by_cases hd : it.done = true
      · exact Or.inl hd
      · exact Or.inr (hc (by simpa using hd))

/-- `descend` never leaves the iterator on something that ends at or before the goal, if it did not start so. -/
theorem descendLoop_end_ge (al : AliasTable) : ∀ (fuel : Nat) (it : Iter) (goal : Nat),
    it.inPadding = false → it.endPosition.bytes > goal → (descendLoop al fuel it goal).1.endPosition.bytes > goal
  | 0, it, goal, _, h => by simpa [descendLoop] using h
  | fuel + 1, it, goal, hp, h => by
    unfold descendLoop
    cases hs : it.stack with
    | nil => simpa [hs] using h
    | cons e rest =>
      simp only
      cases hk : scanKids e.subtree.kids e.position 0 0 goal it.prevExternalToken with
      | mk r prev =>
        cases r with
        | none =>
          simp only
          simpa [Iter.endPosition, hs] using h
        | some ce =>
          simp only
          obtain ⟨k, _, _, _, k4⟩ := scanKids_ok _ _ _ _ _ _ ce prev hk
          split
          · split
            · rename_i hgt; simp only [Iter.endPosition]; exact hgt
            · simp only [Iter.endPosition, hp, Bool.false_eq_true, if_false]; exact k4
          · exact descendLoop_end_ge al fuel _ goal hp (by simp only [Iter.endPosition, hp, Bool.false_eq_true, if_false]; exact k4)

theorem descend_end_ge (al : AliasTable) (fuel : Nat) (it : Iter) (goal : Nat) (h : it.endPosition.bytes > goal) :
    (it.descend al fuel goal).1.endPosition.bytes > goal := by
  unfold Iter.descend
  split
  · exact h
  · rename_i hp
    exact descendLoop_end_ge al fuel it goal (by simpa using hp) h

/-- Weak form: an iterator that ends at or after the goal still does after `descend`. -/
theorem descend_end_ge' (al : AliasTable) (fuel : Nat) (it : Iter) (goal : Nat) (h : it.endPosition.bytes ≥ goal) :
    (it.descend al fuel goal).1.endPosition.bytes ≥ goal := by
  by_cases hgt : it.endPosition.bytes > goal
  · exact Nat.le_of_lt (descend_end_ge al fuel it goal hgt)
  · have he : it.endPosition.bytes = goal := by omega
    unfold Iter.descend
    split
    · exact h
    · rename_i hp
      have hp' : it.inPadding = false := by simpa using hp
      cases fuel with
      | zero => simpa [descendLoop] using h
      | succ f =>
        unfold descendLoop
        cases hs : it.stack with
        | nil => simpa [hs] using h
        | cons e rest =>
          simp only
          cases hk : scanKids e.subtree.kids e.position 0 0 goal it.prevExternalToken with
          | mk r prev =>
            cases r with
            | none => simp only; simpa [Iter.endPosition, hs] using h
            | some ce =>
              simp only
              obtain ⟨k, _, _, _, k4⟩ := scanKids_ok _ _ _ _ _ _ ce prev hk
              split
              · split
                · rename_i hg; simp only [Iter.endPosition]; exact Nat.le_of_lt hg
                · simp only [Iter.endPosition, hp', Bool.false_eq_true, if_false]; exact Nat.le_of_lt k4
              · exact Nat.le_of_lt (descendLoop_end_ge al f _ goal hp'
                  (by simp only [Iter.endPosition, hp', Bool.false_eq_true, if_false]; exact k4))

/-! ## (v) every entry lies inside the root -/

/-- Every entry of the stack ends at or before `R`. -/
def FS (R : Nat) (stack : List Entry) : Prop := ∀ e ∈ stack, e.position.bytes + e.subtree.totalBytes ≤ R

theorem FS.tail {R : Nat} {e : Entry} {rest : List Entry} (h : FS R (e :: rest)) : FS R rest :=
  fun x hx => h x (List.mem_cons_of_mem _ hx)

/-- The `k`-th child of a sized node that fits, placed after its earlier siblings, fits. -/
theorem fits_child {R : Nat} {p : Tree} {pos : Nat} {k : Nat} {c : Tree} (hp : AllSized p) (hk : p.kids[k]? = some c)
    (hfit : pos + p.totalBytes ≤ R) : pos + prefixBytes p.kids k + c.totalBytes ≤ R := by
  have hne : p.kids ≠ [] := by intro h0; rw [h0] at hk; simp at hk
  have h1 := (hp.total hne).1
  have h2 := prefixBytes_succ _ _ _ hk
  have h3 := prefixBytes_le_full p.kids (k + 1)
  omega

theorem descendLoop_fs (al : AliasTable) (R : Nat) : ∀ (fuel : Nat) (it : Iter) (goal : Nat),
    SS it.stack → FS R it.stack → FS R (descendLoop al fuel it goal).1.stack
  | 0, it, goal, _, h => by simpa [descendLoop] using h
  | fuel + 1, it, goal, hss, h => by
    unfold descendLoop
    cases hs : it.stack with
    | nil => simp only [hs]; rw [hs] at h; exact h
    | cons e rest =>
      simp only
      cases hk : scanKids e.subtree.kids e.position 0 0 goal it.prevExternalToken with
      | mk r prev =>
        cases r with
        | none => simp only; rw [hs] at h; simpa [hs] using h
        | some ce =>
          simp only
          rw [hs] at h hss
          obtain ⟨k, _, k2, k3, _⟩ := scanKids_ok _ _ _ _ _ _ ce prev hk
          have hce : ce.position.bytes + ce.subtree.totalBytes ≤ R := by
            have := fits_child (hss e (by simp)) k2 (h e (by simp))
            omega
          have hfs : FS R (ce :: e :: rest) := by
            intro x hx
            rcases List.mem_cons.1 hx with rfl | hx
            · exact hce
            · exact h x hx
          have hss' : SS (ce :: e :: rest) := by
            intro x hx
            rcases List.mem_cons.1 hx with rfl | hx
            · exact (hss e (by simp)).kid k2
            · exact hss x hx
          split
          · split <;> exact hfs
          · exact descendLoop_fs al R fuel _ goal hss' hfs

theorem descend_fs (al : AliasTable) (R : Nat) (fuel : Nat) (it : Iter) (goal : Nat) (hss : SS it.stack) (h : FS R it.stack) :
    FS R (it.descend al fuel goal).1.stack := by
  unfold Iter.descend
  split
  · exact h
  · exact descendLoop_fs al R fuel it goal hss h

theorem ascend_fs (al : AliasTable) (R : Nat) (it : Iter) (h : FS R it.stack) : FS R (it.ascend al).stack := by
  unfold Iter.ascend
  cases hs : it.stack with
  | nil => simpa [hs] using h
  | cons e rest => rw [hs] at h; simpa using h.tail

theorem advanceLoop_fs (al : AliasTable) (R : Nat) (fuel : Nat) : ∀ (stack : List Entry) (vd : Nat) (prev : Option Tree),
    StackOK stack → SS stack → FS R stack → FS R (advanceLoop al fuel stack vd prev).stack
  | [], _, _, _, _, _ => by simp [advanceLoop, FS]
  | [e], _, _, _, _, _ => by simp [advanceLoop, FS]
  | e :: p :: rest, vd, prev, hok, hss, h => by
    unfold advanceLoop
    simp only
    cases hn : p.subtree.kids[e.childIndex + 1]? with
    | none => simp only; exact advanceLoop_fs al R fuel (p :: rest) _ _ hok.2.2 hss.tail h.tail
    | some next =>
      simp only
      have hnext : AllSized next := (hss p (by simp)).kid hn
      have hfit : (length_add e.position e.subtree.totalSize).bytes + next.totalBytes ≤ R := by
        have h1 := hok.1
        have h2 := hok.2.1
        have h3 := prefixBytes_succ _ _ _ h1
        have h4 := fits_child (hss p (by simp)) hn (h p (by simp))
        rw [length_add_bytes, totalSize_bytes]
        omega
      have hfs : ∀ sci, FS R ((⟨next, length_add e.position e.subtree.totalSize, e.childIndex + 1, sci⟩ : Entry) :: p :: rest) := by
        intro sci x hx
        rcases List.mem_cons.1 hx with rfl | hx
        · exact hfit
        · exact h x (List.mem_cons_of_mem _ hx)
      have hss' : ∀ sci, SS ((⟨next, length_add e.position e.subtree.totalSize, e.childIndex + 1, sci⟩ : Entry) :: p :: rest) := by
        intro sci x hx
        rcases List.mem_cons.1 hx with rfl | hx
        · exact hnext
        · exact hss x (List.mem_cons_of_mem _ hx)
      repeat' split
      all_goals first
        | exact hfs _
        | exact descend_fs al R fuel _ 0 (hss' _) (hfs _)

theorem advance_fs (al : AliasTable) (R : Nat) (fuel : Nat) (it : Iter) (hok : StackOK it.stack) (hss : SS it.stack)
    (h : FS R it.stack) : FS R (it.advance al fuel).stack := by
  unfold Iter.advance
  split
  · simp only
    split
    · exact h
    · exact descend_fs al R fuel { it with inPadding := false } 0 hss h
  · exact advanceLoop_fs al R fuel _ _ _ hok hss h

/-- The three stack invariants together. -/
structure Geo (R : Nat) (it : Iter) : Prop where
  ok : StackOK it.stack
  ss : SS it.stack
  fs : FS R it.stack

theorem Geo.descend {R : Nat} {it : Iter} (al : AliasTable) (fuel goal : Nat) (g : Geo R it) : Geo R (it.descend al fuel goal).1 :=
  ⟨(descend_ok al fuel it goal g.ok).1, descend_ss al fuel it goal g.ss, descend_fs al R fuel it goal g.ss g.fs⟩

theorem Geo.advance {R : Nat} {it : Iter} (al : AliasTable) (fuel : Nat) (g : Geo R it) : Geo R (it.advance al fuel) :=
  ⟨advance_ok al fuel it g.ok, advance_ss al fuel it g.ss, advance_fs al R fuel it g.ok g.ss g.fs⟩

theorem Geo.ascend {R : Nat} {it : Iter} (al : AliasTable) (g : Geo R it) : Geo R (it.ascend al) :=
  ⟨ascend_ok al it g.ok, ascend_ss al it g.ss, ascend_fs al R it g.fs⟩

theorem Geo.catchUp {R : Nat} (al : AliasTable) (tf : Nat) : ∀ (fuel : Nat) (it : Iter) (np : Nat), Geo R it →
    Geo R (catchUp al tf fuel it np).1
  | 0, it, _, g => by simpa [TsVerif.C04.catchUp] using g
  | fuel + 1, it, np, g => by
    unfold TsVerif.C04.catchUp
    split
    · exact Geo.catchUp al tf fuel _ np (g.advance al tf)
    · exact g

theorem Geo.ascendTo {R : Nat} (al : AliasTable) : ∀ (fuel : Nat) (it : Iter) (d : Nat), Geo R it →
    Geo R (ascendTo al fuel it d)
  | 0, it, _, g => by simpa [TsVerif.C04.ascendTo] using g
  | fuel + 1, it, d, g => by
    unfold TsVerif.C04.ascendTo
    split
    · exact Geo.ascendTo al fuel _ d (g.ascend al)
    · exact g

/-- (v) the cursor never ends beyond its root. -/
theorem end_le {R : Nat} (it : Iter) (h : FS R it.stack) : it.endPosition.bytes ≤ R := by
  unfold Iter.endPosition
  cases hs : it.stack with
  | nil => simp [length_zero]
  | cons e rest =>
    have := h e (by simp [hs])
    have ht : e.subtree.totalBytes = e.subtree.data.padding.bytes + e.subtree.data.size.bytes := rfl
    simp only
    split <;> simp only [length_add_bytes] <;> omega

theorem Geo.iterNew (t : Tree) (h : AllSized t) : Geo t.totalBytes (iterNew t) := by
  refine ⟨trivial, ?_, ?_⟩
  · intro e he; simp [TsVerif.C04.iterNew] at he; subst he; exact h
  · intro e he; simp [TsVerif.C04.iterNew] at he; subst he; simp [length_zero]

/-! ## (iv) the loop invariant -/

theorem length_min_bytes (a b : Length) : (length_min a b).bytes = min a.bytes b.bytes := by
  unfold length_min
  split <;> omega

/-- What holds at the head of every iteration. -/
structure Inv (Ro Rn : Nat) (s : LoopSt) : Prop where
  go : Geo Ro s.o
  gn : Geo Rn s.n
  oe : s.position.bytes ≤ s.o.endPosition.bytes
  ne : s.position.bytes ≤ s.n.endPosition.bytes
  np : s.nextPosition.bytes = s.position.bytes

/-- The first half of an iteration: both cursors keep their geometry and the next position lies at or
after the current one, inside the longer tree. -/
theorem midStep_inv (al : AliasTable) (fixed : Bool) (diffs : List TSRange) (tf : Nat) (Ro Rn : Nat) (s : LoopSt)
    (h : Inv Ro Rn s) :
    Geo Ro (midStep al fixed diffs tf s).1 ∧ Geo Rn (midStep al fixed diffs tf s).2.1 ∧
    s.position.bytes ≤ (midStep al fixed diffs tf s).2.2.2.1.bytes ∧
    (midStep al fixed diffs tf s).2.2.2.1.bytes ≤ max Ro Rn := by
  have god := h.go.descend al tf s.position.bytes
  have gnd := h.gn.descend al tf s.position.bytes
  have eod := descend_end_ge' al tf s.o s.position.bytes h.oe
  have end' := descend_end_ge' al tf s.n s.position.bytes h.ne
  have lod := end_le _ god.fs
  have lnd := end_le _ gnd.fs
  have lo := end_le _ h.go.fs
  have ln := end_le _ h.gn.fs
  have hoe := h.oe
  have hne := h.ne
  have hnp := h.np
  have go := h.go
  have gn := h.gn
  unfold midStep
  simp only
  repeat' split
  all_goals refine ⟨by assumption, by assumption, ?_, ?_⟩
  all_goals simp only [length_min_bytes]
  all_goals omega

/-- One iteration: the recorded span goes forwards, starts inside both trees and ends inside the longer one; and
if the loop goes on (no fuel ran out, neither cursor is done) the invariant holds again. -/
theorem loopBody_inv (al : AliasTable) (fixed : Bool) (diffs : List TSRange) (tf : Nat) (Ro Rn : Nat) (s : LoopSt)
    (h : Inv Ro Rn s) :
    (s.position.bytes ≤ (loopBody al fixed diffs tf s).position.bytes ∧
     (loopBody al fixed diffs tf s).position.bytes ≤ max Ro Rn ∧ s.position.bytes ≤ min Ro Rn) ∧
    ((loopBody al fixed diffs tf s).fuelOut = false → (loopBody al fixed diffs tf s).o.done = false →
      (loopBody al fixed diffs tf s).n.done = false → Inv Ro Rn (loopBody al fixed diffs tf s)) := by
  obtain ⟨g1, g2, m1, m2⟩ := midStep_inv al fixed diffs tf Ro Rn s h
  have lo := end_le _ h.go.fs
  have ln := end_le _ h.gn.fs
  have hoe := h.oe
  have hne := h.ne
  refine ⟨⟨by unfold loopBody; exact m1, by unfold loopBody; exact m2, by omega⟩, ?_⟩
  intro hf hdo hdn
  have c1 := Geo.catchUp al tf (2 * tf + 2) _ (midStep al fixed diffs tf s).2.2.2.1.bytes g1
  have c2 := Geo.catchUp al tf (2 * tf + 2) _ (midStep al fixed diffs tf s).2.2.2.1.bytes g2
  unfold loopBody at hf hdo hdn ⊢
  simp only at hf hdo hdn ⊢
  simp only [Bool.or_eq_false_iff] at hf
  have p1 := catchUp_post al tf _ _ _ hf.1.2
  have p2 := catchUp_post al tf _ _ _ hf.2
  have a1 := ascendTo_end al _ _ _ c1.ok c1.ss hdo
  have a2 := ascendTo_end al _ _ _ c2.ok c2.ss hdn
  -- a cursor that was done after catching up stays done while ascending
  have nd1 : (catchUp al tf (2 * tf + 2) (midStep al fixed diffs tf s).1 (midStep al fixed diffs tf s).2.2.2.1.bytes).1.done = false := by
    cases hd : (catchUp al tf (2 * tf + 2) (midStep al fixed diffs tf s).1 (midStep al fixed diffs tf s).2.2.2.1.bytes).1.done with
    | false => rfl
    | true =>
      exfalso
      unfold ascendTo at hdo
      simp [hd] at hdo
  have nd2 : (catchUp al tf (2 * tf + 2) (midStep al fixed diffs tf s).2.1 (midStep al fixed diffs tf s).2.2.2.1.bytes).1.done = false := by
    cases hd : (catchUp al tf (2 * tf + 2) (midStep al fixed diffs tf s).2.1 (midStep al fixed diffs tf s).2.2.2.1.bytes).1.done with
    | false => rfl
    | true =>
      exfalso
      unfold ascendTo at hdn
      simp [hd] at hdn
  have q1 := p1.resolve_left (by simp [nd1])
  have q2 := p2.resolve_left (by simp [nd2])
  exact ⟨Geo.ascendTo al _ _ _ c1, Geo.ascendTo al _ _ _ c2, Nat.le_of_lt (Nat.lt_of_lt_of_le q1 a1),
    Nat.le_of_lt (Nat.lt_of_lt_of_le q2 a2), rfl⟩

/-- A span starts inside both trees, goes forwards, and ends inside the longer tree. -/
def SpanOK (lo hi : Nat) (x : Length × Length × Nat) : Prop :=
  x.1.bytes ≤ lo ∧ x.1.bytes ≤ x.2.1.bytes ∧ x.2.1.bytes ≤ hi

theorem loopBody_fuel (al : AliasTable) (fixed : Bool) (diffs : List TSRange) (tf : Nat) (s : LoopSt)
    (h : (loopBody al fixed diffs tf s).fuelOut = false) : s.fuelOut = false := by
  unfold loopBody at h
  simp only [Bool.or_eq_false_iff] at h
  exact h.1.1

theorem mainLoop_fuel_false (al : AliasTable) (fixed : Bool) (diffs : List TSRange) (tf : Nat) :
    ∀ (fuel : Nat) (s : LoopSt), (mainLoop al fixed diffs tf fuel s).fuelOut = false →
      fuel ≠ 0 ∧ (loopBody al fixed diffs tf s).fuelOut = false
  | 0, s, h => by simp [mainLoop] at h
  | fuel + 1, s, h => by
    refine ⟨by omega, ?_⟩
    unfold mainLoop at h
    simp only at h
    split at h
    · cases fuel with
      | zero => simp [mainLoop] at h
      | succ f =>
        exact loopBody_fuel al fixed diffs tf _ (mainLoop_fuel_false al fixed diffs tf (f + 1) _ h).2
    · exact h

/-- (iv) every span recorded by a walk that did not run out of fuel is `SpanOK`. -/
theorem mainLoop_spanOK (al : AliasTable) (fixed : Bool) (diffs : List TSRange) (tf : Nat) (Ro Rn : Nat) :
    ∀ (fuel : Nat) (s : LoopSt), Inv Ro Rn s → (mainLoop al fixed diffs tf fuel s).fuelOut = false →
      (∀ x ∈ s.spans, SpanOK (min Ro Rn) (max Ro Rn) x) →
      ∀ x ∈ (mainLoop al fixed diffs tf fuel s).spans, SpanOK (min Ro Rn) (max Ro Rn) x
  | 0, s, _, hf, _ => by simp [mainLoop] at hf
  | fuel + 1, s, hinv, hf, hsp => by
    obtain ⟨⟨b1, b2, b3⟩, hnext⟩ := loopBody_inv al fixed diffs tf Ro Rn s hinv
    obtain ⟨l, hl⟩ := loopBody_spans al fixed diffs tf s
    have hbf := (mainLoop_fuel_false al fixed diffs tf (fuel + 1) s hf).2
    have hsp' : ∀ x ∈ (loopBody al fixed diffs tf s).spans, SpanOK (min Ro Rn) (max Ro Rn) x := by
      intro x hx
      rw [hl] at hx
      rcases List.mem_cons.1 hx with rfl | hx
      · exact ⟨b3, b1, b2⟩
      · exact hsp x hx
    unfold mainLoop at hf ⊢
    simp only at hf ⊢
    split
    · rename_i hc
      simp only [hc, if_true] at hf
      simp only [Bool.and_eq_true, Bool.not_eq_true'] at hc
      exact mainLoop_spanOK al fixed diffs tf Ro Rn fuel _ (hnext hbf hc.1 hc.2) hf hsp'
    · exact hsp'

/-! ## From the spans to the calls of `ts_range_array_add` -/

/-- The last range of the (reversed) array is well formed, ends at or before the walk's position `lo`,
starts inside both trees (`M`) and ends inside the longer one (`H`). -/
def Top (M H lo : Nat) : List TSRange → Prop
  | [] => True
  | last :: _ => last.start_byte ≤ last.end_byte ∧ last.end_byte ≤ lo ∧ last.start_byte ≤ M ∧ last.end_byte ≤ H

theorem Top.mono {M H lo lo' : Nat} (h : lo ≤ lo') : ∀ {racc}, Top M H lo racc → Top M H lo' racc
  | [], _ => trivial
  | _ :: _, ⟨a, b, c, d⟩ => ⟨a, by omega, c, d⟩

/-- One call at the walk's position: it grows the array, is admissible, and the invariant moves on to its end. -/
theorem addRev_top (M H : Nat) (racc : List TSRange) (s e : Length) (h : Top M H s.bytes racc)
    (h1 : s.bytes ≤ M) (h2 : s.bytes ≤ e.bytes) (h3 : e.bytes ≤ H) :
    growOK racc s e = true ∧ admissible racc s e = true ∧ Top M H e.bytes (addRev racc s e) := by
  cases racc with
  | nil =>
    refine ⟨rfl, rfl, ?_⟩
    simp only [addRev]
    split
    · simp only [Top, mkRange]; omega
    · trivial
  | cons last rest =>
    obtain ⟨a, b, c, d⟩ := h
    refine ⟨?_, ?_, ?_⟩
    · simp only [growOK, Bool.or_eq_true, Bool.and_eq_true, decide_eq_true_eq]; omega
    · simp only [admissible, Bool.or_eq_true, decide_eq_true_eq]; omega
    · simp only [addRev]
      split
      · simp only [Top]; omega
      · split
        · simp only [Top, mkRange]; omega
        · simp only [Top]; omega

theorem callsOf_cons (x : Length × Length × Nat) (rest : List (Length × Length × Nat)) :
    callsOf (x :: rest) = if x.2.2 == 0 then (x.1, x.2.1) :: callsOf rest else callsOf rest := by
  unfold callsOf
  rw [List.filterMap_cons]
  split <;> rename_i hh <;> split at hh <;> simp_all

/-- Contiguous `SpanOK` spans give growing, admissible calls. -/
theorem calls_grow (M H : Nat) : ∀ (spans : List (Length × Length × Nat)) (lo : Nat) (racc : List TSRange),
    Top M H lo racc → spansChain lo spans = true → (∀ x ∈ spans, SpanOK M H x) →
    traceGrow racc (callsOf spans) = true ∧ traceAdmissible racc (callsOf spans) = true ∧
    Top M H (spansEnd lo spans) (foldAdd racc (callsOf spans)) ∧ (∀ c ∈ callsOf spans, c.2.bytes ≤ H)
  | [], lo, racc, ht, _, _ => by
    refine ⟨rfl, rfl, by simpa [callsOf, foldAdd, spansEnd] using ht, by simp [callsOf]⟩
  | (s, e, l) :: rest, lo, racc, ht, hc, hs => by
    simp only [spansChain, Bool.and_eq_true, decide_eq_true_eq] at hc
    obtain ⟨k1, k2, k3⟩ := hs (s, e, l) (by simp)
    simp only at k1 k2 k3
    have hrest : ∀ x ∈ rest, SpanOK M H x := fun x hx => hs x (List.mem_cons_of_mem _ hx)
    rw [callsOf_cons]
    simp only [spansEnd]
    by_cases hl : (l == 0) = true
    · simp only [hl, if_true]
      obtain ⟨g, a, t⟩ := addRev_top M H racc s e (by rw [hc.1]; exact ht) k1 k2 k3
      obtain ⟨ig, ia, it, ib⟩ := calls_grow M H rest e.bytes (addRev racc s e) t hc.2 hrest
      refine ⟨by simp [traceGrow, g, ig], by simp [traceAdmissible, a, ia], by simpa [foldAdd] using it, ?_⟩
      intro c hc'
      rcases List.mem_cons.1 hc' with rfl | hc'
      · exact k3
      · exact ib c hc'
    · simp only [hl]
      exact calls_grow M H rest e.bytes racc (ht.mono (by omega)) hc.2 hrest

theorem traceGrow_append : ∀ (a b : List (Length × Length)) (racc : List TSRange),
    traceGrow racc (a ++ b) = (traceGrow racc a && traceGrow (foldAdd racc a) b)
  | [], b, racc => by simp [traceGrow, foldAdd]
  | (s, e) :: a, b, racc => by
    simp [traceGrow, foldAdd, Bool.and_assoc]
    rw [traceGrow_append a b]; rfl

theorem traceAdmissible_append : ∀ (a b : List (Length × Length)) (racc : List TSRange),
    traceAdmissible racc (a ++ b) = (traceAdmissible racc a && traceAdmissible (foldAdd racc a) b)
  | [], b, racc => by simp [traceAdmissible, foldAdd]
  | (s, e) :: a, b, racc => by
    simp [traceAdmissible, foldAdd, Bool.and_assoc]
    rw [traceAdmissible_append a b]; rfl

theorem traceBound_le (H : Nat) : ∀ (tr : List (Length × Length)), (∀ c ∈ tr, c.2.bytes ≤ H) → traceBound tr ≤ H
  | [], _ => by simp [traceBound]
  | (s, e) :: rest, h => by
    have := traceBound_le H rest (fun c hc => h c (List.mem_cons_of_mem _ hc))
    have := h (s, e) (by simp)
    simp only [traceBound]; simp only at this; omega

/-- The whole call sequence `pre ++ calls ++ post` of `ts_subtree_get_changed_ranges`, abstractly: a pre-call ending at
the loop start (or none), contiguous `SpanOK` spans from the loop start, and a post-call `(M, H)` (or none). -/
theorem whole_trace (M H lo : Nat) (pre post : List (Length × Length)) (spans : List (Length × Length × Nat))
    (hM : M ≤ H) (hlo : lo ≤ M)
    (hpre : pre = [] ∨ ∃ p np : Length, pre = [(p, np)] ∧ p.bytes < np.bytes ∧ np.bytes = lo)
    (hpost : post = [] ∨ ∃ a b : Length, post = [(a, b)] ∧ a.bytes = M ∧ b.bytes = H)
    (hc : spansChain lo spans = true) (hs : ∀ x ∈ spans, SpanOK M H x) :
    traceGrow [] ((pre ++ callsOf spans) ++ post) = true ∧
    traceAdmissible [] ((pre ++ callsOf spans) ++ post) = true ∧
    traceBound ((pre ++ callsOf spans) ++ post) ≤ H := by
  have hpre' : traceGrow [] pre = true ∧ traceAdmissible [] pre = true ∧ Top M H lo (foldAdd [] pre) ∧ ∀ c ∈ pre, c.2.bytes ≤ H := by
    rcases hpre with rfl | ⟨p, np, rfl, h1, h2⟩
    · exact ⟨rfl, rfl, trivial, by simp⟩
    · refine ⟨rfl, rfl, ?_, by simp; omega⟩
      simp only [foldAdd, List.foldl_cons, List.foldl_nil, addRev, h1, if_true, Top, mkRange]
      omega
  obtain ⟨p1, p2, p3, p4⟩ := hpre'
  obtain ⟨c1, c2, c3, c4⟩ := calls_grow M H spans lo (foldAdd [] pre) p3 hc hs
  have hpost' : traceGrow (foldAdd (foldAdd [] pre) (callsOf spans)) post = true ∧
      traceAdmissible (foldAdd (foldAdd [] pre) (callsOf spans)) post = true ∧ ∀ c ∈ post, c.2.bytes ≤ H := by
    rcases hpost with rfl | ⟨a, b, rfl, h1, h2⟩
    · exact ⟨rfl, rfl, by simp⟩
    · refine ⟨?_, ?_, by simp; omega⟩
      · simp only [traceGrow, Bool.and_true]
        cases hr : foldAdd (foldAdd [] pre) (callsOf spans) with
        | nil => rfl
        | cons last rest =>
          rw [hr] at c3
          obtain ⟨t1, t2, t3, t4⟩ := c3
          simp only [growOK, Bool.or_eq_true, Bool.and_eq_true, decide_eq_true_eq]; omega
      · simp only [traceAdmissible, Bool.and_true]
        cases hr : foldAdd (foldAdd [] pre) (callsOf spans) with
        | nil => rfl
        | cons last rest =>
          rw [hr] at c3
          obtain ⟨t1, t2, t3, t4⟩ := c3
          simp only [admissible, Bool.or_eq_true, decide_eq_true_eq]; omega
  obtain ⟨q1, q2, q3⟩ := hpost'
  refine ⟨?_, ?_, ?_⟩
  · rw [traceGrow_append, traceGrow_append]
    simp [p1, c1]
    rw [← foldAdd_append]; exact q1
  · rw [traceAdmissible_append, traceAdmissible_append]
    simp [p2, c2]
    rw [← foldAdd_append]; exact q2
  · apply traceBound_le
    intro c hc'
    rcases List.mem_append.1 hc' with h | h
    · rcases List.mem_append.1 h with h | h
      · exact p4 c h
      · exact c4 c h
    · exact q3 c h

/-- No empty range in the (reversed) array. -/
def NEall (racc : List TSRange) : Prop := ∀ r ∈ racc, r.start_byte < r.end_byte

theorem addRev_ne (M H : Nat) (racc : List TSRange) (s e : Length) (h : Top M H s.bytes racc) (hn : NEall racc)
    (h2 : s.bytes ≤ e.bytes) : NEall (addRev racc s e) := by
  cases racc with
  | nil =>
    simp only [addRev]
    split
    · intro r hr; simp at hr; subst hr; simpa [mkRange] using ‹s.bytes < e.bytes›
    · intro r hr; cases hr
  | cons last rest =>
    obtain ⟨a, b, c, d⟩ := h
    have hl := hn last (by simp)
    simp only [addRev]
    split
    · intro r hr
      rcases List.mem_cons.1 hr with rfl | hr
      · simp only; omega
      · exact hn r (List.mem_cons_of_mem _ hr)
    · split
      · intro r hr
        rcases List.mem_cons.1 hr with rfl | hr
        · simpa [mkRange] using ‹s.bytes < e.bytes›
        · exact hn r hr
      · exact hn

theorem calls_ne (M H : Nat) : ∀ (spans : List (Length × Length × Nat)) (lo : Nat) (racc : List TSRange),
    Top M H lo racc → NEall racc → spansChain lo spans = true → (∀ x ∈ spans, SpanOK M H x) →
    NEall (foldAdd racc (callsOf spans))
  | [], lo, racc, _, hn, _, _ => by simpa [callsOf, foldAdd] using hn
  | (s, e, l) :: rest, lo, racc, ht, hn, hc, hs => by
    simp only [spansChain, Bool.and_eq_true, decide_eq_true_eq] at hc
    obtain ⟨k1, k2, k3⟩ := hs (s, e, l) (by simp)
    simp only at k1 k2 k3
    have hrest : ∀ x ∈ rest, SpanOK M H x := fun x hx => hs x (List.mem_cons_of_mem _ hx)
    rw [callsOf_cons]
    by_cases hl : (l == 0) = true
    · simp only [hl, if_true]
      have ht' : Top M H s.bytes racc := by rw [hc.1]; exact ht
      obtain ⟨_, _, t⟩ := addRev_top M H racc s e ht' k1 k2 k3
      have := calls_ne M H rest e.bytes (addRev racc s e) t (addRev_ne M H racc s e ht' hn k2) hc.2 hrest
      simpa [foldAdd] using this
    · simp only [hl]
      exact calls_ne M H rest e.bytes racc (ht.mono (by omega)) hn hc.2 hrest

theorem whole_trace_ne (M H lo : Nat) (pre post : List (Length × Length)) (spans : List (Length × Length × Nat))
    (hM : M ≤ H) (hlo : lo ≤ M)
    (hpre : pre = [] ∨ ∃ p np : Length, pre = [(p, np)] ∧ p.bytes < np.bytes ∧ np.bytes = lo)
    (hpost : post = [] ∨ ∃ a b : Length, post = [(a, b)] ∧ a.bytes = M ∧ b.bytes = H ∧ M < H)
    (hc : spansChain lo spans = true) (hs : ∀ x ∈ spans, SpanOK M H x) :
    NEall (foldAdd [] ((pre ++ callsOf spans) ++ post)) := by
  have hpre' : Top M H lo (foldAdd [] pre) ∧ NEall (foldAdd [] pre) := by
    rcases hpre with rfl | ⟨p, np, rfl, h1, h2⟩
    · exact ⟨trivial, by intro r hr; cases hr⟩
    · constructor
      · simp only [foldAdd, List.foldl_cons, List.foldl_nil, addRev, h1, if_true, Top, mkRange]; omega
      · simp only [foldAdd, List.foldl_cons, List.foldl_nil, addRev, h1, if_true]
        intro r hr; simp at hr; subst hr; simpa [mkRange] using h1
  obtain ⟨p3, p5⟩ := hpre'
  obtain ⟨_, _, c3, _⟩ := calls_grow M H spans lo (foldAdd [] pre) p3 hc hs
  have c5 := calls_ne M H spans lo (foldAdd [] pre) p3 p5 hc hs
  rw [← foldAdd_append, ← foldAdd_append]
  rcases hpost with rfl | ⟨a, b, rfl, h1, h2, h3⟩
  · simpa [foldAdd] using c5
  · simp only [foldAdd, List.foldl_cons, List.foldl_nil]
    change NEall (addRev (foldAdd (foldAdd [] pre) (callsOf spans)) a b)
    cases hr : foldAdd (foldAdd [] pre) (callsOf spans) with
    | nil =>
      simp only [addRev]
      split
      · intro r hr'; simp at hr'; subst hr'; simp [mkRange]; omega
      · intro r hr'; cases hr'
    | cons last rest =>
      rw [hr] at c3 c5
      obtain ⟨t1, t2, t3, t4⟩ := c3
      have hl := c5 last (by simp)
      simp only [addRev]
      split
      · intro r hr'
        rcases List.mem_cons.1 hr' with rfl | hr'
        · simp only; omega
        · exact c5 r (List.mem_cons_of_mem _ hr')
      · split
        · intro r hr'
          rcases List.mem_cons.1 hr' with rfl | hr'
          · simp [mkRange]; omega
          · exact c5 r hr'
        · exact c5

/-! ## The walk of `ts_subtree_get_changed_ranges` -/

theorem iterNew_end (t : Tree) : (iterNew t).endPosition.bytes = t.totalBytes := by
  simp [iterNew, Iter.endPosition, length_add, length_zero, Tree.totalBytes]

theorem iterNew_start (t : Tree) : (iterNew t).startPosition.bytes = t.data.padding.bytes := by
  simp [iterNew, Iter.startPosition, length_add, length_zero]

/-- The entry condition of the walk: the loop starts inside both trees. -/
def entryOK (old new : Tree) : Bool := decide (loopStart old new ≤ min old.totalBytes new.totalBytes)

/-- It holds whenever both roots start at the same offset. -/
theorem entryOK_of_same_start (old new : Tree)
    (h : (iterNew old).startPosition.bytes = (iterNew new).startPosition.bytes) : entryOK old new = true := by
  have e1 := iterNew_start old
  have e2 := iterNew_start new
  have t1 : old.totalBytes = old.data.padding.bytes + old.data.size.bytes := rfl
  have t2 : new.totalBytes = new.data.padding.bytes + new.data.size.bytes := rfl
  unfold entryOK loopStart
  exact decide_eq_true (by omega)

theorem init_spanOK (al : AliasTable) (fixed : Bool) (old new : Tree) (diffs : List TSRange) (tf fuel : Nat)
    (position nextPosition : Length) (hso : AllSized old) (hsn : AllSized new) (hentry : entryOK old new = true)
    (hp : position.bytes = loopStart old new) (hn : nextPosition.bytes = position.bytes)
    (hf : (mainLoop al fixed diffs tf fuel
      { o := iterNew old, n := iterNew new, position := position, nextPosition := nextPosition, diffIdx := 0, spans := [] }).fuelOut = false) :
    ∀ x ∈ (mainLoop al fixed diffs tf fuel
      { o := iterNew old, n := iterNew new, position := position, nextPosition := nextPosition, diffIdx := 0, spans := [] }).spans,
      SpanOK (min old.totalBytes new.totalBytes) (max old.totalBytes new.totalBytes) x := by
  have hentry := of_decide_eq_true hentry
  refine mainLoop_spanOK al fixed diffs tf _ _ fuel _ ?_ hf (by simp)
  exact ⟨Geo.iterNew old hso, Geo.iterNew new hsn, by simp only [iterNew_end]; omega, by simp only [iterNew_end]; omega, hn⟩

theorem walk_trace (al : AliasTable) (fixed : Bool) (old new : Tree) (diffs : List TSRange)
    (hso : AllSized old) (hsn : AllSized new) (hentry : entryOK old new = true)
    (hfuel : (changedRanges al fixed old new diffs).fuelOut = false) :
    (∀ x ∈ (changedRanges al fixed old new diffs).spans, SpanOK (min old.totalBytes new.totalBytes) (max old.totalBytes new.totalBytes) x) := by
  unfold changedRanges changedTrace at hfuel ⊢
  simp only at hfuel ⊢
  intro x hx
  refine init_spanOK al fixed old new diffs _ _ _ _ hso hsn hentry ?_ ?_ hfuel x (List.mem_reverse.1 hx)
  · unfold loopStart; split <;> (try split) <;> simp only <;> omega
  · split <;> (try split) <;> simp only <;> omega

theorem pre_shape (al : AliasTable) (fixed : Bool) (old new : Tree) (diffs : List TSRange) :
    (changedRanges al fixed old new diffs).pre = [] ∨
    ∃ p np : Length, (changedRanges al fixed old new diffs).pre = [(p, np)] ∧ p.bytes < np.bytes ∧ np.bytes = loopStart old new := by
  unfold changedRanges changedTrace loopStart
  simp only
  split
  · rename_i h; exact Or.inr ⟨_, _, rfl, h, by omega⟩
  · split
    · rename_i h; exact Or.inr ⟨_, _, rfl, h, by omega⟩
    · exact Or.inl rfl

theorem post_shape (al : AliasTable) (fixed : Bool) (old new : Tree) (diffs : List TSRange) :
    (changedRanges al fixed old new diffs).post = [] ∨
    ∃ a b : Length, (changedRanges al fixed old new diffs).post = [(a, b)] ∧
      a.bytes = min old.totalBytes new.totalBytes ∧ b.bytes = max old.totalBytes new.totalBytes ∧
      min old.totalBytes new.totalBytes < max old.totalBytes new.totalBytes := by
  unfold changedRanges changedTrace
  simp only
  split
  · rename_i h; rw [totalSize_bytes, totalSize_bytes] at h
    exact Or.inr ⟨_, _, rfl, by rw [totalSize_bytes]; omega, by rw [totalSize_bytes]; omega, by omega⟩
  · split
    · rename_i h; rw [totalSize_bytes, totalSize_bytes] at h
      exact Or.inr ⟨_, _, rfl, by rw [totalSize_bytes]; omega, by rw [totalSize_bytes]; omega, by omega⟩
    · exact Or.inl rfl

/-- The calls of the whole function grow the array, are admissible, and stay inside the longer tree. -/
theorem walk_calls (al : AliasTable) (fixed : Bool) (old new : Tree) (diffs : List TSRange)
    (hso : AllSized old) (hsn : AllSized new) (hentry : entryOK old new = true)
    (hfuel : (changedRanges al fixed old new diffs).fuelOut = false) :
    traceGrow [] ((changedRanges al fixed old new diffs).main ++ (changedRanges al fixed old new diffs).post) = true ∧
    traceAdmissible [] ((changedRanges al fixed old new diffs).main ++ (changedRanges al fixed old new diffs).post) = true ∧
    traceBound ((changedRanges al fixed old new diffs).main ++ (changedRanges al fixed old new diffs).post)
      ≤ max old.totalBytes new.totalBytes := by
  have hmain : (changedRanges al fixed old new diffs).main =
      (changedRanges al fixed old new diffs).pre ++ callsOf (changedRanges al fixed old new diffs).spans := rfl
  rw [hmain]
  have hchain : spansChain (loopStart old new) (changedRanges al fixed old new diffs).spans = true := by
    unfold changedRanges changedTrace
    simp only
    refine (mainLoop_chain al fixed diffs _ (loopStart old new) _ _ (by simp [spansChain]) ?_).1
    simp only [List.reverse_nil, spansEnd, loopStart]
    split <;> (try split) <;> simp only <;> omega
  exact whole_trace _ _ (loopStart old new) _ _ _ (by omega) (of_decide_eq_true hentry)
    (pre_shape al fixed old new diffs)
    ((post_shape al fixed old new diffs).imp id (fun ⟨a, b, h1, h2, h3, _⟩ => ⟨a, b, h1, h2, h3⟩)) hchain
    (walk_trace al fixed old new diffs hso hsn hentry hfuel)

theorem walk_chain (al : AliasTable) (fixed : Bool) (old new : Tree) (diffs : List TSRange) :
    spansChain (loopStart old new) (changedRanges al fixed old new diffs).spans = true := by
  unfold changedRanges changedTrace
  simp only
  refine (mainLoop_chain al fixed diffs _ (loopStart old new) _ _ (by simp [spansChain]) ?_).1
  simp only [List.reverse_nil, spansEnd, loopStart]
  split <;> (try split) <;> simp only <;> omega

/-- No reported range is empty. -/
theorem walk_ne (al : AliasTable) (fixed : Bool) (old new : Tree) (diffs : List TSRange)
    (hso : AllSized old) (hsn : AllSized new) (hentry : entryOK old new = true)
    (hfuel : (changedRanges al fixed old new diffs).fuelOut = false) :
    ∀ r ∈ (changedRanges al fixed old new diffs).ranges, r.start_byte < r.end_byte := by
  have hr : (changedRanges al fixed old new diffs).ranges =
      (foldAdd [] (((changedRanges al fixed old new diffs).pre ++ callsOf (changedRanges al fixed old new diffs).spans) ++
        (changedRanges al fixed old new diffs).post)).reverse := by
    rw [← foldAdd_append]; rfl
  intro r hr'
  rw [hr] at hr'
  exact whole_trace_ne _ _ (loopStart old new) _ _ _ (by omega) (of_decide_eq_true hentry)
    (pre_shape al fixed old new diffs) (post_shape al fixed old new diffs) (walk_chain al fixed old new diffs)
    (walk_trace al fixed old new diffs hso hsn hentry hfuel) r (List.mem_reverse.1 hr')

end TsVerif.C04
