import TsVerif.C20.Roundtrip
/-!
# C20 round 11 — attribute FLAGS after the write → parse round trip

`roundtrip_built` already says that the flags of an entry read back from a written file are
`flagsOf os name attrText` (what `parse_header` computes from the attribute TEXT).  What was open: that these
are the flags the test HAD before it was written.  That needs the attribute-line parsing of `parse_header`
(`headerLine` / `headerLoop` / `parseHeader` in `Model.lean`, ports of crates/cli/src/test.rs) on an ARBITRARY
header block, not only on the one the writer produced:

* `headerLine_flags`, `foldHeader_flags` — the flag part of `parse_header`'s state never depends on the collected name;
* `parseHeader_canonical_partial` — for every header block `l0 :: names ++ attribute lines ++ closing line ++ rest`
  (any opening line, any closing line that is a header delimiter of the file, any suffix, any operating system;
  name lines `NameLineOK`, with or without trailing white space / CR; attribute text `AttrsOK`) the flags that
  `parse_header` returns are `flagsOf` of the name and attribute text it returns ("canonical flags");
* `roundtrip_flags_partial` — for every list of entries with canonical flags, whatever expectations are written:
  the flags (skip / error / fail-fast / cst / platform / languages) read back equal the flags before;
* `roundtrip_flags_of_headers_partial` — the two combined: entries whose name / attribute text / flags were read by
  `parse_header` from such a header block keep their flags through write → parse;
* `written_canonical` — every entry read from a WRITTEN file has canonical flags (so a further round trip keeps them).

OPEN (why `_partial`): the full statement is for every entry `parse_test_content` can return.  Not covered:
  (1) attribute regions with trailing white space, blank lines after the markers or CRLF line ends (`AttrsOK` asks
      `trimEnd (a ++ "\n") = a`; the reader trims the attribute text, so the statement is expected to hold there too —
      needs `splitIncl (trimEnd s)` reasoning);
  (2) an argument-less `:platform` / `:language` line in the NAME region: there the statement is FALSE for the real
      code (`attributes_str` becomes empty although later markers set flags; see notes, "Observations").
-/
namespace TsVerif.C20

/-- The part of `parse_header`'s loop state that the attribute flags are computed from (everything but the name). -/
def HState.flags (st : HState) : Bool × Bool × Bool × Bool × Bool × Option Bool × List Str :=
  (st.seenMarker, st.seenSkip, st.seenError, st.failFast, st.cst, st.platform, st.languages)

theorem attrsOfState_congr {st st' : HState} (h : st.flags = st'.flags) : attrsOfState st = attrsOfState st' := by
  cases st; cases st'
  simp only [HState.flags, Prod.mk.injEq] at h
  obtain ⟨_, h2, h3, h4, h5, h6, h7⟩ := h
  simp [attrsOfState, h2, h3, h4, h5, h6, h7]

theorem eq_setName {st st' : HState} (h : st.flags = st'.flags) : st' = { st with testName := st'.testName } := by
  cases st; cases st'
  simp only [HState.flags, Prod.mk.injEq] at h
  obtain ⟨h1, h2, h3, h4, h5, h6, h7⟩ := h
  simp [h1, h2, h3, h4, h5, h6, h7]

/-- One line of the name / marker region: acceptance and the new flags do not depend on the name collected so far. -/
theorem headerLine_setName (os : Str) (st : HState) (t l : Str) :
    (headerLine os { st with testName := t } l).map HState.flags = (headerLine os st l).map HState.flags := by
  unfold headerLine
  dsimp only
  repeat' split
  all_goals first
    | rfl
    | simp_all [HState.flags]

theorem headerLine_flags (os : Str) {st st' : HState} (l : Str) (h : st.flags = st'.flags) :
    (headerLine os st l).map HState.flags = (headerLine os st' l).map HState.flags := by
  rw [eq_setName h]
  exact (headerLine_setName os st st'.testName l).symm

/-- The flags after any number of header lines do not depend on the name collected so far. -/
theorem foldHeader_flags (os : Str) : ∀ (ls : List Str) (st st' : HState), st.flags = st'.flags →
    (foldHeader os ls st).flags = (foldHeader os ls st').flags
  | [], _, _, h => by simpa [foldHeader] using h
  | l :: ls, st, st', h => by
    have hl := headerLine_flags os l h
    unfold foldHeader
    cases h1 : headerLine os st l with
    | none =>
      cases h2 : headerLine os st' l with
      | none => simpa using h
      | some b => simp [h1, h2] at hl
    | some a =>
      cases h2 : headerLine os st' l with
      | none => simp [h1, h2] at hl
      | some b =>
        simp only [h1, h2, Option.map_some, Option.some.injEq] at hl
        simpa using foldHeader_flags os ls a b hl

/-- The attribute lines of an attribute text (as `flagsOf` cuts them). -/
def attrL (a : Str) : List Str := if a.isEmpty then [] else splitIncl (a ++ ['\n'])

/-- A header block the theorem speaks about: name lines that `parse_header` takes as name, an attribute text
`a` as in `AttrsOK` cut into lines, a closing line that is a header delimiter of this file. -/
structure HdrShape (fs : Option Str) (N : List Str) (a : Str) (H : Str) : Prop where
  names : ∀ l ∈ N, NameLineOK l
  attrs : AttrsOK a
  close : isHeaderDelim fs H = true

theorem attrsOK_nonempty {a l : Str} {ls : List Str} (hl : splitIncl (a ++ ['\n']) = l :: ls) (hm : markerLine l = true) :
    a.isEmpty = false := by
  have hne : a ≠ [] := by
    intro h0; rw [h0] at hl; simp [splitIncl] at hl
    have := hl.1; subst this
    simp [markerLine, trim, trimStart, trimEnd, dropWhileEnd, isWs] at hm
  cases hc0 : a <;> simp_all

/-- The `while` loop of `parse_header` on an arbitrary block of that shape. -/
theorem headerLoop_shape (fs : Option Str) (os : Str) (N : List Str) (a H : Str) (rest : List Str) (hs : HdrShape fs N a H) :
    ∃ st', headerLoop fs os (N ++ (attrL a ++ H :: rest)) {} 0 = some (st', N.length + (attrL a).length + 1) ∧
      st'.testName = N.flatten ∧ st' = foldHeader os (attrL a) { testName := N.flatten } := by
  rw [headerLoop_names fs os _ N {} 0 rfl hs.names]
  simp only [List.nil_append, Nat.zero_add]
  rcases hs.attrs with ha | ⟨⟨l, ls, hl, hm⟩, hnd, _⟩
  · have hal : attrL a = [] := by simp [attrL, ha]
    exact ⟨{ testName := N.flatten }, by simp [hal, headerLoop, hs.close], rfl, by simp [hal, foldHeader]⟩
  · have hemp := attrsOK_nonempty hl hm
    have hal : attrL a = l :: ls := by simp [attrL, hemp, hl]
    obtain ⟨st2, h1, h2, h3, _⟩ := headerLine_marker os { testName := N.flatten } l hm
    have hndl : NoDelim '=' l := hnd l (by simp [hl])
    obtain ⟨st', h4, h5, _, h5f⟩ := headerLoop_attrs fs os H rest hs.close ls st2 (N.length + 1) h2
      (fun x hx => hnd x (by simp [hl, hx]))
    refine ⟨st', ?_, h5.trans h3, ?_⟩
    · simp only [hal, List.cons_append, headerLoop, isHeaderDelim_noDelim _ _ hndl, Bool.false_eq_true, ↓reduceIte, h1, h4,
        List.length_cons]
      congr 2; omega
    · simp [hal, foldHeader, h1, h5f]

theorem trimEnd_attrL (a : Str) (h : AttrsOK a) : trimEnd (attrL a).flatten = a := by
  rcases h with ha | ⟨⟨l, ls, hl, hm⟩, _, htrim⟩
  · simp [attrL, ha, trimEnd, dropWhileEnd]
  · have hemp := attrsOK_nonempty hl hm
    simp [attrL, hemp, splitIncl_flatten, htrim]

/-- **Canonical flags.**  Whatever `parse_header` (the model of it) returns for a header block of the shape
`opening line :: name lines ++ attribute lines ++ closing line :: rest`, the attribute flags it returns are the flags
that the returned name and attribute text stand for (`flagsOf`) — for every opening line, file suffix, platform name.
This is the hypothesis `e.attrs = flagsOf os e.name e.attrsStr` of `update_idempotent_general` /
`update_preserves_general` (there measured on the real entries), PROVED from the shape of the header.
OPEN: attribute regions with trailing white space / blank lines / CRLF (see the file header). -/
theorem parseHeader_canonical_partial (fs : Option Str) (os l0 : Str) (N : List Str) (a H : Str) (rest : List Str)
    (p : Pending) (k : Nat) (hs : HdrShape fs N a H)
    (hp : parseHeader fs os (l0 :: (N ++ (attrL a ++ H :: rest))) = some (p, k)) :
    p.attrs = flagsOf os p.name p.attrsStr ∧ p.attrsStr = a ∧ p.name = trimEnd N.flatten := by
  obtain ⟨st', hloop, htn, hfl⟩ := headerLoop_shape fs os N a H rest hs
  have htake : ((N ++ (attrL a ++ H :: rest)).take (N.length + (attrL a).length + 1 - 1)).flatten =
      N.flatten ++ (attrL a).flatten := by
    have : N.length + (attrL a).length + 1 - 1 = (N ++ attrL a).length := by simp
    rw [this, ← List.append_assoc, List.take_left' rfl]
    simp
  unfold parseHeader at hp
  cases hd : parseDelimLine l0 '=' with
  | none => simp [hd] at hp
  | some ns =>
    obtain ⟨hlen, suf⟩ := ns
    simp only [hd] at hp
    by_cases hm : suffixMatches fs suf = true
    · simp only [hm, Bool.not_true, Bool.false_eq_true, ↓reduceIte, hloop, htake, htn, stripPrefix_append,
        Option.getD_some, Option.some.injEq, Prod.mk.injEq, trimEnd_attrL a hs.attrs] at hp
      obtain ⟨hp, _⟩ := hp
      subst hp
      refine ⟨?_, rfl, rfl⟩
      show attrsOfState st' = flagsOf os (trimEnd N.flatten) a
      rw [hfl]
      exact attrsOfState_congr (foldHeader_flags os _ _ _ rfl)
    · simp [hm] at hp

/-! ## the round trip keeps the flags -/

theorem built_map_attrs {os : Str} {es : List Entry} {cs : List Correction} (h : All2 (Built os) es cs) :
    es.map Entry.attrs = cs.map (fun c => flagsOf os c.name c.attrsStr) := by
  induction h with
  | nil => rfl
  | cons hb _ ih => simp [hb.2.1, ih]

/-- **Flags after the round trip.**  For every list of entries whose flags are canonical, every choice `o` of the
expectation written for each entry, every admissible suffix: the file `write_tests_to_buffer` produces reads back
with, test by test, the same attribute flags (`:skip` / `:error` (`expect`), `:fail-fast`, `:cst`, `:platform`,
`:language` list) as before — next to the same name / attribute text / input / delimiter lengths
(`roundtrip_suffixed`).  Partial: "canonical" is a hypothesis here; `parseHeader_canonical_partial` and
`written_canonical` discharge it for entries read from header blocks of the stated shape. -/
theorem roundtrip_flags_partial (os suf : Str) (hse : SufOK '=' suf) (hsd : SufOK '-' suf) (es : List Entry)
    (o : Entry → Str) (h : ∀ e ∈ es, SimpleS suf (e.corr (o e)))
    (hcanon : ∀ e ∈ es, e.attrs = flagsOf os e.name e.attrsStr) :
    (parseFile os (writeTests suf (es.map fun e => e.corr (o e)))).map Entry.attrs = es.map Entry.attrs ∧
    (parseFile os (writeTests suf (es.map fun e => e.corr (o e)))).map Entry.dkey = es.map Entry.dkey := by
  have hb := roundtrip_built os suf hse hsd (es.map fun e => e.corr (o e))
    (by intro c hc; obtain ⟨e, he, rfl⟩ := List.mem_map.mp hc; exact h e he)
  refine ⟨?_, ?_⟩
  · rw [built_map_attrs hb, List.map_map]
    apply List.map_congr_left
    intro e he
    simpa [Entry.corr] using (hcanon e he).symm
  · rw [forall2_map_dkey hb, List.map_map]
    apply List.map_congr_left
    intro e _
    rfl

/-- The entry's name, attribute text and flags are what `parse_header` returned for some header block of the
stated shape (in some file, with some suffix). -/
def ReadFromHeader (os : Str) (e : Entry) : Prop :=
  ∃ (fs : Option Str) (l0 : Str) (N : List Str) (a H : Str) (rest : List Str) (p : Pending) (k : Nat),
    HdrShape fs N a H ∧ parseHeader fs os (l0 :: (N ++ (attrL a ++ H :: rest))) = some (p, k) ∧
    e.name = p.name ∧ e.attrsStr = p.attrsStr ∧ e.attrs = p.attrs

/-- `flags (parse (write t)) = flags t` for tests whose headers were read by `parse_header` from blocks of the
stated shape: the flags before the round trip are those the REAL header gave, the flags after it are those of
the re-read written header. -/
theorem roundtrip_flags_of_headers_partial (os suf : Str) (hse : SufOK '=' suf) (hsd : SufOK '-' suf) (es : List Entry)
    (o : Entry → Str) (h : ∀ e ∈ es, SimpleS suf (e.corr (o e))) (hread : ∀ e ∈ es, ReadFromHeader os e) :
    (parseFile os (writeTests suf (es.map fun e => e.corr (o e)))).map Entry.attrs = es.map Entry.attrs :=
  (roundtrip_flags_partial os suf hse hsd es o h (by
    intro e he
    obtain ⟨fs, l0, N, a, H, rest, p, k, hs, hp, h1, h2, h3⟩ := hread e he
    rw [h1, h2, h3]
    exact (parseHeader_canonical_partial fs os l0 N a H rest p k hs hp).1)).1

/-- Every entry read from a WRITTEN file has canonical flags — so writing it again (with any expectation) and
reading keeps the flags: the flags are stable from the first written generation on. -/
theorem written_canonical (os suf : Str) (hse : SufOK '=' suf) (hsd : SufOK '-' suf) (cs : List Correction)
    (h : ∀ c ∈ cs, SimpleS suf c) :
    ∀ e ∈ parseFile os (writeTests suf cs), e.attrs = flagsOf os e.name e.attrsStr := by
  have hb := roundtrip_built os suf hse hsd cs h
  clear h
  generalize parseFile os (writeTests suf cs) = es at hb
  induction hb with
  | nil => intro e he; simp at he
  | cons hb1 _ ih =>
    intro e he
    simp only [List.mem_cons] at he
    rcases he with rfl | he
    · have hk := hb1.1
      simp only [Entry.dkey, Correction.dkey, Prod.mk.injEq] at hk
      rw [hb1.2.1, hk.1, hk.2.1]
    · exact ih e he

/-! ## non-vacuity: a header block that is NOT in written form (CRLF opening line, name line with trailing blanks,
a suffix, closing line of another length) with all six kinds of attribute lines -/

def exN : List Str := ["my test  \r\n".toList, "second line\n".toList]
def exA : Str := ":skip\n:platform(linux)\n:language(xq)\n:fail-fast\n:foo\n:language(other)\n:cst".toList
def exBlock : List Str :=
  "=====|||\r\n".toList :: (exN ++ (attrL exA ++ "===|||\n".toList :: ["input\n".toList, "---|||\n".toList]))

theorem exShape : HdrShape (some "|||".toList) exN exA "===|||\n".toList :=
  ⟨by decide +kernel,
   Or.inr ⟨⟨":skip\n".toList, (splitIncl (exA ++ ['\n'])).tail, by decide +kernel, by decide +kernel⟩,
     by decide +kernel, by decide +kernel⟩,
   by decide +kernel⟩

/-- The reader accepts the block; the flags are the expected ones (all six kinds of attribute line, an unknown
`:foo` line in between) — and, by the theorem, canonical. -/
example : ((parseHeader (some "|||".toList) "linux".toList exBlock).map fun pk =>
      (pk.1.attrs, pk.1.name, pk.1.attrsStr == exA, pk.2)) =
    some ({ platform := true, failFast := true, expect := .skip, cst := true,
            languages := ["xq".toList, "other".toList] }, "my test  \r\nsecond line".toList, true, 11) := by
  decide +kernel

example (p : Pending) (k : Nat) (h : parseHeader (some "|||".toList) "linux".toList exBlock = some (p, k)) :
    p.attrs = flagsOf "linux".toList p.name p.attrsStr :=
  (parseHeader_canonical_partial _ _ _ exN exA _ _ p k exShape h).1

end TsVerif.C20
