import TsVerif.C20.Round11
import TsVerif.C20.Idempotent
/-!
# C20 round 11 (second part) — canonical flags for attribute regions with trailing white space, blank lines, CRLF

`parseHeader_canonical_partial` asked the attribute region to be exactly `attribute text ++ "\n"` with
`trimEnd (text ++ "\n") = text`.  Here the attribute region is ANY list of complete lines whose first one is a
recognised attribute: the reader's `attributes_str` is `trim_end` of their concatenation (`trimEnd_lines`:
cutting it into lines again gives the same lines with the last non-blank one end-trimmed and the blank ones after it
dropped, `trimLast`), and `parse_header`'s flags only depend on `trim` of each line and ignore blank lines after a marker
(`headerLine_trim`, `foldHeader_blank`, `foldHeader_trimLast`).
-/
namespace TsVerif.C20

/-! ## `trim_end`, characters -/

theorem dropWhileEnd_prefix_ws (p : Char → Bool) (s : Str) : ∃ t, s = dropWhileEnd p s ++ t ∧ ∀ c ∈ t, p c = true := by
  induction s with
  | nil => exact ⟨[], rfl, by simp⟩
  | cons a s ih =>
    obtain ⟨t, ht, hw⟩ := ih
    unfold dropWhileEnd at ht ⊢
    simp only [List.foldr_cons]
    by_cases hc : ((List.foldr (fun c acc => if acc.isEmpty && p c then [] else c :: acc) [] s).isEmpty && p a) = true
    · simp only [hc, ↓reduceIte]
      have hc := Bool.and_eq_true_iff.mp hc
      have hnil := List.isEmpty_iff.mp hc.1
      refine ⟨a :: s, rfl, ?_⟩
      intro c hcm
      simp only [List.mem_cons] at hcm
      rcases hcm with rfl | hcm
      · exact hc.2
      · rw [hnil] at ht; simp only [List.nil_append] at ht; rw [ht] at hcm; exact hw c hcm
    · simp only [hc, Bool.false_eq_true, ↓reduceIte]
      exact ⟨t, by rw [List.cons_append, ← ht], hw⟩

theorem dropWhileEnd_all (p : Char → Bool) (s : Str) (h : ∀ c ∈ s, p c = true) : dropWhileEnd p s = [] := by
  have := dropWhileEnd_append_ws p [] s h
  simpa [dropWhileEnd] using this

theorem all_of_dropWhileEnd_nil (p : Char → Bool) (s : Str) (h : dropWhileEnd p s = []) : ∀ c ∈ s, p c = true := by
  obtain ⟨t, ht, hw⟩ := dropWhileEnd_prefix_ws p s
  rw [h] at ht; simp only [List.nil_append] at ht
  rw [ht]; exact hw

theorem dropWhileEnd_append_keep (p : Char → Bool) (x y : Str) (h : dropWhileEnd p y ≠ []) :
    dropWhileEnd p (x ++ y) = x ++ dropWhileEnd p y := by
  induction x with
  | nil => rfl
  | cons c z ih =>
    have e : dropWhileEnd p (c :: (z ++ y)) =
        if (dropWhileEnd p (z ++ y)).isEmpty && p c then [] else c :: dropWhileEnd p (z ++ y) := by
      simp [dropWhileEnd]
    rw [List.cons_append, e, ih]
    have : (z ++ dropWhileEnd p y).isEmpty = false := by
      cases z with
      | nil => cases hd : dropWhileEnd p y with
        | nil => exact absurd hd h
        | cons _ _ => rfl
      | cons _ _ => rfl
    simp [this]

theorem dropWhile_append_stop (p : Char → Bool) (x w : Str) (h : ¬ ∀ c ∈ x, p c = true) :
    (x ++ w).dropWhile p = x.dropWhile p ++ w := by
  induction x with
  | nil => exact absurd (by simp) h
  | cons a x ih =>
    by_cases ha : p a = true
    · have : ¬ ∀ c ∈ x, p c = true := by
        intro hx; apply h; intro c hc
        simp only [List.mem_cons] at hc
        rcases hc with rfl | hc
        · exact ha
        · exact hx c hc
      simp [List.dropWhile, ha, ih this]
    · simp [List.dropWhile, ha]

theorem all_ws_of (s : Str) (h : s.all isWs = true) : ∀ c ∈ s, isWs c = true :=
  fun c hc => (List.all_eq_true.mp h) c hc

/-- `trim` ignores white space appended at the end. -/
theorem trim_append_ws (x w : Str) (hw : ∀ c ∈ w, isWs c = true) : trim (x ++ w) = trim x := by
  unfold trim trimStart trimEnd
  by_cases hx : ∀ c ∈ x, isWs c = true
  · rw [dropWhile_all isWs x hx, dropWhile_all isWs (x ++ w) (by
      intro c hc; rcases List.mem_append.mp hc with hc | hc
      · exact hx c hc
      · exact hw c hc)]
  · rw [dropWhile_append_stop isWs x w hx, dropWhileEnd_append_ws isWs _ w hw]

theorem trim_all_ws (x : Str) (hx : ∀ c ∈ x, isWs c = true) : trim x = [] := by
  unfold trim trimStart trimEnd
  rw [dropWhile_all isWs x hx]; rfl

/-- End-trimming a line and putting a newline back does not change what `trim` sees. -/
theorem trim_trimEnd_nl (l : Str) : trim (trimEnd l ++ ['\n']) = trim l := by
  obtain ⟨t, ht, hw⟩ := dropWhileEnd_prefix_ws isWs l
  have h1 : trim (trimEnd l ++ ['\n']) = trim (trimEnd l) :=
    trim_append_ws _ _ (by intro c hc; simp only [List.mem_singleton] at hc; subst hc; decide)
  have h2 : trim l = trim (trimEnd l) := by
    conv => lhs; rw [ht]
    exact trim_append_ws _ _ hw
  rw [h1, h2]

/-! ## the lines of an end-trimmed block of complete lines -/

/-- The lines of `trimEnd (ls.flatten) ++ "\n"` (for complete lines `ls`), computed line by line: the trailing blank
lines go, the last non-blank line is end-trimmed. -/
def trimLast : List Str → List Str
  | [] => []
  | l :: ls =>
    if ls.flatten.all isWs then (if l.all isWs then [] else [trimEnd l ++ ['\n']])
    else l :: trimLast ls

theorem trimEnd_lines : ∀ (A : List Str), (∀ l ∈ A, ∃ b, l = b ++ ['\n'] ∧ '\n' ∉ b) →
    attrL (trimEnd A.flatten) = trimLast A ∧ (A.flatten.all isWs = false → trimEnd A.flatten ≠ [])
  | [], _ => by simp [attrL, trimEnd, dropWhileEnd, trimLast]
  | l :: ls, h => by
    obtain ⟨b, hb, hnb⟩ := h l (by simp)
    have ih := trimEnd_lines ls (fun x hx => h x (by simp [hx]))
    have hnl : isWs '\n' = true := by decide
    have hne : ∀ s : Str, (s.all isWs = false) → trimEnd s ≠ [] := by
      intro s hs hd
      have := all_of_dropWhileEnd_nil isWs s hd
      have : s.all isWs = true := by simpa [List.all_eq_true] using this
      rw [this] at hs; exact absurd hs (by simp)
    refine ⟨?_, hne _⟩
    unfold trimLast
    by_cases hls : ls.flatten.all isWs = true
    · have hlsw : ∀ c ∈ ls.flatten, isWs c = true := all_ws_of _ hls
      have e1 : trimEnd (l :: ls).flatten = trimEnd b := by
        simp only [List.flatten_cons, trimEnd]
        rw [dropWhileEnd_append_ws isWs l _ hlsw, hb, dropWhileEnd_snoc_true isWs b '\n' hnl]
      have e2 : trimEnd l = trimEnd b := by
        simp only [trimEnd]; rw [hb, dropWhileEnd_snoc_true isWs b '\n' hnl]
      simp only [hls, ↓reduceIte, e1, e2]
      by_cases hl : l.all isWs = true
      · have hbw : ∀ c ∈ b, isWs c = true := by
          have : ∀ c ∈ l, isWs c = true := by simpa [List.all_eq_true] using hl
          intro c hc; exact this c (by rw [hb]; simp [hc])
        have : trimEnd b = [] := dropWhileEnd_all isWs b hbw
        simp [hl, this, attrL]
      · have hbn : b.all isWs = false := by
          have : l.all isWs = false := by simpa using hl
          rw [hb] at this
          simpa [List.all_append, hnl] using this
        have hnz := hne b hbn
        have hemp : (trimEnd b).isEmpty = false := by cases hq : trimEnd b <;> simp_all
        obtain ⟨t, ht, _⟩ := dropWhileEnd_prefix_ws isWs b
        have hnn : '\n' ∉ trimEnd b := by
          intro hc; apply hnb; rw [ht]; exact List.mem_append_left _ hc
        simp [hl, attrL, hemp, splitIncl_line _ hnn]
    · have hls' : ls.flatten.all isWs = false := by simpa using hls
      have hnz := ih.2 hls'
      have e1 : trimEnd (l :: ls).flatten = b ++ '\n' :: trimEnd ls.flatten := by
        simp only [List.flatten_cons, trimEnd]
        rw [dropWhileEnd_append_keep isWs l _ hnz, hb]; simp
      have hemp1 : (b ++ '\n' :: trimEnd ls.flatten).isEmpty = false := by cases b <;> rfl
      have hemp2 : (trimEnd ls.flatten).isEmpty = false := by cases hq : trimEnd ls.flatten <;> simp_all
      have ih1 := ih.1
      simp only [attrL, hemp2, Bool.false_eq_true, ↓reduceIte] at ih1
      simp only [hls', Bool.false_eq_true, ↓reduceIte, e1, attrL, hemp1]
      rw [List.append_assoc, List.cons_append, splitIncl_line_cons b _ hnb, ih1, hb]

/-! ## the flags only see `trim` of each line, and no blank line after a marker -/

theorem headerLine_trim (os : Str) (st : HState) (l l' : Str) (h : trim l = trim l') :
    (headerLine os st l).map HState.flags = (headerLine os st l').map HState.flags := by
  unfold headerLine
  simp only [h]
  repeat' split
  all_goals first
    | rfl
    | simp_all [HState.flags]

theorem headerLine_blank (os : Str) (st : HState) (l : Str) (h : trim l = []) :
    headerLine os st l = none ∨ headerLine os st l = some st := by
  unfold headerLine
  simp only [h]
  by_cases hs : st.seenMarker = true
  · right
    have d1 : kwSkip ≠ ([] : Str) := by decide
    have d2 : kwPlatform ≠ ([] : Str) := by decide
    have d3 : kwFailFast ≠ ([] : Str) := by decide
    have d4 : kwError ≠ ([] : Str) := by decide
    have d5 : kwLanguage ≠ ([] : Str) := by decide
    have d6 : kwCst ≠ ([] : Str) := by decide
    simp [hs, d1, d2, d3, d4, d5, d6]
  · left; simp [hs]

theorem foldHeader_blank (os : Str) : ∀ (ls : List Str) (st : HState), (∀ l ∈ ls, trim l = []) → foldHeader os ls st = st
  | [], _, _ => by simp [foldHeader]
  | l :: ls, st, h => by
    unfold foldHeader
    rcases headerLine_blank os st l (h l (by simp)) with h1 | h1
    · simp [h1]
    · simp only [h1]; exact foldHeader_blank os ls st (fun x hx => h x (by simp [hx]))

theorem blank_of_flatten_ws (ls : List Str) (h : ls.flatten.all isWs = true) : ∀ l ∈ ls, trim l = [] := by
  intro l hl
  apply trim_all_ws
  intro c hc
  have : ∀ c ∈ ls.flatten, isWs c = true := all_ws_of _ h
  exact this c (List.mem_flatten.mpr ⟨l, hl, hc⟩)

/-- Folding `parse_header`'s line step over the end-trimmed lines gives the same flags as over the original lines. -/
theorem foldHeader_trimLast (os : Str) : ∀ (A : List Str) (st : HState),
    (foldHeader os (trimLast A) st).flags = (foldHeader os A st).flags
  | [], _ => rfl
  | l :: ls, st => by
    unfold trimLast
    by_cases hls : ls.flatten.all isWs = true
    · have hbl := blank_of_flatten_ws ls hls
      simp only [hls, ↓reduceIte]
      by_cases hl : l.all isWs = true
      · have hlb : trim l = [] := trim_all_ws l (by simpa [List.all_eq_true] using hl)
        simp only [hl, ↓reduceIte]
        rw [foldHeader_blank os (l :: ls) st (by
          intro x hx; simp only [List.mem_cons] at hx
          rcases hx with rfl | hx
          · exact hlb
          · exact hbl x hx)]
        rfl
      · simp only [hl, Bool.false_eq_true, ↓reduceIte]
        have ht := headerLine_trim os st (trimEnd l ++ ['\n']) l (trim_trimEnd_nl l)
        simp only [foldHeader]
        cases h1 : headerLine os st (trimEnd l ++ ['\n']) with
        | none =>
          cases h2 : headerLine os st l with
          | none => rfl
          | some b => simp [h1, h2] at ht
        | some a =>
          cases h2 : headerLine os st l with
          | none => simp [h1, h2] at ht
          | some b =>
            simp only [h1, h2, Option.map_some, Option.some.injEq] at ht
            simp only [foldHeader_blank os ls b hbl]
            exact ht
    · simp only [hls, Bool.false_eq_true, ↓reduceIte]
      simp only [foldHeader]
      cases h1 : headerLine os st l with
      | none => rfl
      | some a => exact foldHeader_trimLast os ls a

/-! ## `parse_header` on a header block with an arbitrary attribute region -/

/-- Name lines, then ANY complete lines of which the first is a recognised attribute (further lines: attributes,
unknown `:foo` lines, text, blank lines, with any trailing white space or CR), then a closing header delimiter. -/
structure HdrShapeG (fs : Option Str) (N A : List Str) (H : Str) : Prop where
  names : ∀ l ∈ N, NameLineOK l
  complete : ∀ l ∈ A, ∃ b, l = b ++ ['\n'] ∧ '\n' ∉ b
  nodelim : ∀ l ∈ A, NoDelim '=' l
  first : A = [] ∨ ∃ l ls, A = l :: ls ∧ markerLine l = true
  close : isHeaderDelim fs H = true

theorem headerLoop_shapeG (fs : Option Str) (os : Str) (N A : List Str) (H : Str) (rest : List Str) (hs : HdrShapeG fs N A H) :
    ∃ st', headerLoop fs os (N ++ (A ++ H :: rest)) {} 0 = some (st', N.length + A.length + 1) ∧
      st'.testName = N.flatten ∧ st' = foldHeader os A { testName := N.flatten } := by
  rw [headerLoop_names fs os _ N {} 0 rfl hs.names]
  simp only [List.nil_append, Nat.zero_add]
  rcases hs.first with hal | ⟨l, ls, hal, hm⟩
  · exact ⟨{ testName := N.flatten }, by simp [hal, headerLoop, hs.close], rfl, by simp [hal, foldHeader]⟩
  · obtain ⟨st2, h1, h2, h3, _⟩ := headerLine_marker os { testName := N.flatten } l hm
    have hndl : NoDelim '=' l := hs.nodelim l (by simp [hal])
    obtain ⟨st', h4, h5, _, h5f⟩ := headerLoop_attrs fs os H rest hs.close ls st2 (N.length + 1) h2
      (fun x hx => hs.nodelim x (by simp [hal, hx]))
    refine ⟨st', ?_, h5.trans h3, ?_⟩
    · simp only [hal, List.cons_append, headerLoop, isHeaderDelim_noDelim _ _ hndl, Bool.false_eq_true, ↓reduceIte, h1, h4,
        List.length_cons]
      congr 2; omega
    · simp [hal, foldHeader, h1, h5f]

/-- **Canonical flags, general attribute region.**  For every header block
`opening line :: name lines ++ A ++ closing line :: rest` with `HdrShapeG` (the attribute region `A` is any list of
complete lines starting with a recognised attribute — trailing white space, CRLF line ends, blank lines, unknown
`:foo` lines, repeated attributes all allowed), what `parse_header` returns has
`attrs = flagsOf os name attrsStr`, where `attrsStr = trim_end` of the region.
OPEN (why still `_partial`): name / attribute lines that are `===` runs with a FOREIGN suffix (`NoDelim '='` is asked);
an argument-less `:platform` / `:language` line in the name region (statement false there). -/
theorem parseHeader_canonical_ws_partial (fs : Option Str) (os l0 : Str) (N A : List Str) (H : Str) (rest : List Str)
    (p : Pending) (k : Nat) (hs : HdrShapeG fs N A H)
    (hp : parseHeader fs os (l0 :: (N ++ (A ++ H :: rest))) = some (p, k)) :
    p.attrs = flagsOf os p.name p.attrsStr ∧ p.attrsStr = trimEnd A.flatten ∧ p.name = trimEnd N.flatten := by
  obtain ⟨st', hloop, htn, hfl⟩ := headerLoop_shapeG fs os N A H rest hs
  have htake : ((N ++ (A ++ H :: rest)).take (N.length + A.length + 1 - 1)).flatten = N.flatten ++ A.flatten := by
    have : N.length + A.length + 1 - 1 = (N ++ A).length := by simp
    rw [this, ← List.append_assoc, List.take_left' rfl]
    simp
  unfold parseHeader at hp
  cases hd : parseDelimLine l0 '=' with
  | none => simp [hd] at hp
  | some ns =>
    obtain ⟨hlen, suf⟩ := ns
    simp only [hd] at hp
    by_cases hm : suffixMatches fs suf = true
    · simp only [hm, Bool.not_true, Bool.false_eq_true, ↓reduceIte, hloop, htake, htn, stripPrefix_append,
        Option.getD_some, Option.some.injEq, Prod.mk.injEq] at hp
      obtain ⟨hp, _⟩ := hp
      subst hp
      refine ⟨?_, rfl, rfl⟩
      show attrsOfState st' = attrsOfState (foldHeader os (attrL (trimEnd A.flatten)) _)
      rw [hfl, (trimEnd_lines A hs.complete).1]
      apply attrsOfState_congr
      rw [foldHeader_trimLast]
      exact foldHeader_flags os _ _ _ rfl
    · simp [hm] at hp

/-- The entry's name, attribute text and flags are what `parse_header` returned for some header block with a general
attribute region (`HdrShapeG`), in some file, with some suffix. -/
def ReadFromHeaderG (os : Str) (e : Entry) : Prop :=
  ∃ (fs : Option Str) (l0 : Str) (N A : List Str) (H : Str) (rest : List Str) (p : Pending) (k : Nat),
    HdrShapeG fs N A H ∧ parseHeader fs os (l0 :: (N ++ (A ++ H :: rest))) = some (p, k) ∧
    e.name = p.name ∧ e.attrsStr = p.attrsStr ∧ e.attrs = p.attrs

/-- **`flags (parse (write t)) = flags t`** for every list of tests whose headers `parse_header` read from blocks
with `HdrShapeG` (attribute lines with trailing white space, CRLF, blank lines, unknown attributes included), whatever
expectation `o e` is written for each: the written file reads back, test by test, with the same `:skip` / `:error`
(`expect`), `:fail-fast`, `:cst`, `:platform` and `:language` flags.  (`SimpleS` of the corrections = the hypothesis of
`roundtrip_suffixed`; its `attrs` part follows from the header shape only when the end-trimmed attribute text has no
`===` line — kept as hypothesis.) -/
theorem roundtrip_flags_of_headers_ws_partial (os suf : Str) (hse : SufOK '=' suf) (hsd : SufOK '-' suf) (es : List Entry)
    (o : Entry → Str) (h : ∀ e ∈ es, SimpleS suf (e.corr (o e))) (hread : ∀ e ∈ es, ReadFromHeaderG os e) :
    (parseFile os (writeTests suf (es.map fun e => e.corr (o e)))).map Entry.attrs = es.map Entry.attrs :=
  (roundtrip_flags_partial os suf hse hsd es o h (by
    intro e he
    obtain ⟨fs, l0, N, A, H, rest, p, k, hs, hp, h1, h2, h3⟩ := hread e he
    rw [h1, h2, h3]
    exact (parseHeader_canonical_ws_partial fs os l0 N A H rest p k hs hp).1)).1

/-! ## non-vacuity: CRLF attribute lines, trailing blanks, blank lines after the markers -/

def exA2 : List Str :=
  [":skip  \r\n".toList, "  :language(xq)\t\n".toList, "\n".toList, ":foo\n".toList, ":platform(macos) \r\n".toList,
   " \r\n".toList, "\n".toList]

theorem exShape2 : HdrShapeG none exN exA2 "====\n".toList :=
  ⟨by decide +kernel,
   by
    intro l hl
    simp only [exA2, List.mem_cons, List.not_mem_nil, or_false] at hl
    rcases hl with rfl | rfl | rfl | rfl | rfl | rfl | rfl
    · exact ⟨":skip  \r".toList, by decide, by decide⟩
    · exact ⟨"  :language(xq)\t".toList, by decide, by decide⟩
    · exact ⟨[], by decide, by decide⟩
    · exact ⟨":foo".toList, by decide, by decide⟩
    · exact ⟨":platform(macos) \r".toList, by decide, by decide⟩
    · exact ⟨" \r".toList, by decide, by decide⟩
    · exact ⟨[], by decide, by decide⟩,
   by decide +kernel, Or.inr ⟨_, _, rfl, by decide +kernel⟩, by decide +kernel⟩

example : ((parseHeader none "linux".toList ("===\n".toList :: (exN ++ (exA2 ++ ["====\n".toList])))).map fun pk =>
      (pk.1.attrs, pk.1.attrsStr)) =
    some ({ platform := false, failFast := false, expect := .skip, cst := false, languages := ["xq".toList] },
          ":skip  \r\n  :language(xq)\t\n\n:foo\n:platform(macos)".toList) := by
  decide +kernel

example (p : Pending) (k : Nat)
    (h : parseHeader none "linux".toList ("===\n".toList :: (exN ++ (exA2 ++ "====\n".toList :: []))) = some (p, k)) :
    p.attrs = flagsOf "linux".toList p.name p.attrsStr :=
  (parseHeader_canonical_ws_partial _ _ _ exN exA2 _ [] p k exShape2 h).1

/-- End to end on a concrete test: header read from the CRLF block above, written with a new expectation under the
suffix `|||`, read back: same flags. -/
example :
    let p := ((parseHeader none "linux".toList ("===\n".toList :: (exN ++ (exA2 ++ ["====\n".toList])))).map (·.1)).getD default
    let e : Entry := { name := p.name, input := "a = 1;".toList, output := [], hlen := 3, dlen := 3, hasFields := false,
                       attrsStr := p.attrsStr, attrs := p.attrs }
    (parseFile "linux".toList (writeTests "|||".toList [e.corr "(source)".toList])).map Entry.attrs = [e.attrs] ∧
      e.attrs.expect = .skip ∧ e.attrs.platform = false := by
  decide +kernel

end TsVerif.C20
