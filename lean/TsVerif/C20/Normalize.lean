import TsVerif.C20.Roundtrip
/-!
# C20 — `normalize_sexp_output` as a character machine

`normalize_charwise`: on a text without `;` and without carriage returns (so no comment lines and
no CR-LF subtleties) the line-by-line normaliser is the character loop `normChars` run over the whole
text, followed by `trim_end`.
-/
namespace TsVerif.C20

theorem normChars_append (a b res : Str) (prev : Bool) :
    normChars (a ++ b) res prev = normChars b (normChars a res prev).1 (normChars a res prev).2 := by
  induction a generalizing res prev with
  | nil => rfl
  | cons c cs ih =>
    simp only [List.cons_append, normChars]
    split
    · split <;> exact ih _ _
    · exact ih _ _

/-- The line boundary acts like the white-space character `\n`. -/
theorem normChars_nl (res : Str) (prev : Bool) :
    normChars ['\n'] res prev = if !res.isEmpty && !prev then (' ' :: res, true) else (res, prev) := by
  have : isWs '\n' = true := by decide
  simp only [normChars, this, ↓reduceIte]
  by_cases h1 : prev = true <;> by_cases h2 : res.isEmpty = true <;> simp [h1, h2]

/-- Every element of `split_inclusive` is a line with its newline, or (the last one) has no newline. -/
theorem splitIncl_shape (s : Str) : ∀ l ∈ splitIncl s, (∃ b, l = b ++ ['\n'] ∧ '\n' ∉ b) ∨ ('\n' ∉ l ∧ l ≠ []) := by
  induction s with
  | nil => simp [splitIncl]
  | cons c cs ih =>
    intro l hl
    unfold splitIncl at hl
    split at hl
    · next h =>
      have : c = '\n' := eq_of_beq h
      simp only [List.mem_cons] at hl
      rcases hl with hl | hl
      · exact Or.inl ⟨[], by simp [hl], by simp⟩
      · exact ih l hl
    · next h =>
      have hc : c ≠ '\n' := by simpa using h
      split at hl
      · simp only [List.mem_cons, List.not_mem_nil, or_false] at hl
        subst hl
        exact Or.inr ⟨by simpa using fun h' => hc h'.symm, by simp⟩
      · next l0 ls h0 =>
        simp only [List.mem_cons] at hl
        rcases hl with hl | hl
        · subst hl
          rcases ih l0 (by simp [h0]) with ⟨b, hb, hnb⟩ | ⟨hn, _⟩
          · exact Or.inl ⟨c :: b, by simp [hb], by simp [hnb]; exact fun h' => hc h'.symm⟩
          · exact Or.inr ⟨by simp [hn]; exact fun h' => hc h'.symm, by simp⟩
        · exact ih l (by simp [h0, hl])

theorem stripSuffix_snoc (b : Str) (x : Char) : stripSuffix [x] (b ++ [x]) = some b := by
  simp [stripSuffix, stripPrefix]

theorem stripSuffix_none_of_not_mem (l : Str) (x : Char) (h : x ∉ l) : stripSuffix [x] l = none := by
  unfold stripSuffix
  cases hr : l.reverse with
  | nil => simp [stripPrefix]
  | cons y ys =>
    have hy : y ∈ l := by
      have : y ∈ l.reverse := by simp [hr]
      simpa using this
    have hne : (x == y) = false := by
      cases hxy : x == y with
      | false => rfl
      | true => exact absurd ((eq_of_beq hxy) ▸ hy) h
    simp [stripPrefix, hne]

/-- The per-line stripping of `str::lines()`. -/
def stripLine (l : Str) : Str :=
  match stripSuffix ['\n'] l with
  | none => l
  | some l' => match stripSuffix ['\r'] l' with
    | none => l'
    | some l'' => l''

theorem rustLines_eq (s : Str) : rustLines s = (splitIncl s).map stripLine := rfl

theorem stripLine_line (b : Str) (hcr : '\r' ∉ b) : stripLine (b ++ ['\n']) = b := by
  simp [stripLine, stripSuffix_snoc, stripSuffix_none_of_not_mem b '\r' hcr]

theorem stripLine_last (l : Str) (h : '\n' ∉ l) : stripLine l = l := by
  simp [stripLine, stripSuffix_none_of_not_mem l '\n' h]

/-- No `;` in a line: it is not a comment line. -/
theorem not_comment (l : Str) (h : ';' ∉ l) : ((trimStart l).head? == some ';') = false := by
  cases ht : (trimStart l).head? with
  | none => rfl
  | some c =>
    have : c ∈ trimStart l := List.mem_of_mem_head? ht
    have : c ∈ l := by
      unfold trimStart at this
      exact (List.dropWhile_sublist _).subset this
    have hc : c ≠ ';' := fun h' => h (h' ▸ this)
    simpa using hc

/-- `normLines` over lines given with their newlines = `normChars` over the concatenated text; a last
line without newline gets the boundary space as if it had one. -/
theorem normLines_lines :
    ∀ (ls : List Str) (res : Str) (prev : Bool),
      (∀ l ∈ ls, ';' ∉ l ∧ '\r' ∉ l ∧ ((∃ b, l = b ++ ['\n'] ∧ '\n' ∉ b) ∨ '\n' ∉ l)) →
      normLines (ls.map stripLine) res prev =
        (normChars (ls.map fun l => stripLine l ++ ['\n']).flatten res prev).1
  | [], res, prev, _ => rfl
  | l :: ls, res, prev, h => by
    obtain ⟨hsemi, hcr, hshape⟩ := h l (by simp)
    have ih := normLines_lines ls
    have hstrip_semi : ';' ∉ stripLine l := by
      rcases hshape with ⟨b, hb, hnb⟩ | hn
      · subst hb
        rw [stripLine_line b (by intro hm; exact hcr (by simp [hm]))]
        intro hm; exact hsemi (by simp [hm])
      · rwa [stripLine_last l hn]
    simp only [List.map_cons, List.flatten_cons, normLines]
    have hnc := not_comment (stripLine l) hstrip_semi
    simp only [hnc, Bool.false_eq_true, ↓reduceIte]
    rw [List.append_assoc, normChars_append, normChars_append, normChars_nl]
    cases hn : normChars (stripLine l) res prev with
    | mk r p =>
      simp only
      by_cases hc : (!r.isEmpty && !p) = true
      · simp only [hc, ↓reduceIte]
        exact ih _ _ (fun x hx => h x (by simp [hx]))
      · simp only [hc, Bool.false_eq_true, ↓reduceIte]
        exact ih _ _ (fun x hx => h x (by simp [hx]))

/-- The lines of a text: complete lines, then possibly one last line without newline. -/
theorem splitIncl_struct (s : Str) :
    ∃ init last, splitIncl s = init ++ last ∧ (∀ l ∈ init, ∃ b, l = b ++ ['\n'] ∧ '\n' ∉ b) ∧
      (last = [] ∨ ∃ l, last = [l] ∧ '\n' ∉ l ∧ l ≠ []) := by
  induction s with
  | nil => exact ⟨[], [], by simp [splitIncl], by simp, Or.inl rfl⟩
  | cons c cs ih =>
    obtain ⟨init, last, hsp, hinit, hlast⟩ := ih
    unfold splitIncl
    split
    · next h =>
      have hc : c = '\n' := eq_of_beq h
      refine ⟨['\n'] :: init, last, by simp [hsp], ?_, hlast⟩
      intro l hl
      simp only [List.mem_cons] at hl
      rcases hl with hl | hl
      · exact ⟨[], by simp [hl], by simp⟩
      · exact hinit l hl
    · next h =>
      have hc : c ≠ '\n' := by simpa using h
      have hc' : ¬ '\n' = c := fun h' => hc h'.symm
      cases init with
      | nil =>
        rcases hlast with hl | ⟨l, hl, hn, hne⟩
        · subst hl
          simp only [List.append_nil] at hsp
          rw [hsp]
          exact ⟨[], [[c]], by simp, by simp, Or.inr ⟨[c], rfl, by simp [hc'], by simp⟩⟩
        · subst hl
          simp only [List.nil_append] at hsp
          rw [hsp]
          exact ⟨[], [c :: l], by simp, by simp, Or.inr ⟨c :: l, rfl, by simp [hc', hn], by simp⟩⟩
      | cons i0 is =>
        simp only [List.cons_append] at hsp
        rw [hsp]
        obtain ⟨b, hb, hnb⟩ := hinit i0 (by simp)
        refine ⟨(c :: i0) :: is, last, by simp, ?_, hlast⟩
        intro l hl
        simp only [List.mem_cons] at hl
        rcases hl with hl | hl
        · exact ⟨c :: b, by simp [hl, hb], by simp [hc', hnb]⟩
        · exact hinit l (by simp [hl])

theorem trimEnd_snoc_space (x : Str) : trimEnd (x ++ [' ']) = trimEnd x := by
  unfold trimEnd
  exact dropWhileEnd_snoc_true isWs x ' ' (by decide)

/-- `normalize_charwise`: on a text without `;` and without carriage returns the normaliser is the
character loop over the whole text (plus a final newline if the text does not end with one), then `trim_end`. -/
theorem normalize_charwise (T : Str) (h1 : ';' ∉ T) (h2 : '\r' ∉ T) :
    ∃ tail, (tail = [] ∨ tail = ['\n']) ∧
      normalizeSexp T = trimEnd (normChars (T ++ tail) [] false).1.reverse := by
  obtain ⟨init, last, hsp, hinit, hlast⟩ := splitIncl_struct T
  have hflat : init.flatten ++ last.flatten = T := by
    have := splitIncl_flatten T
    rw [hsp] at this
    simpa using this
  have hmem : ∀ l ∈ init ++ last, ∀ c ∈ l, c ∈ T := by
    intro l hl c hc
    rw [← hflat]
    simp only [List.mem_append] at hl ⊢
    rcases hl with hl | hl
    · exact Or.inl (List.mem_flatten.mpr ⟨l, hl, hc⟩)
    · exact Or.inr (List.mem_flatten.mpr ⟨l, hl, hc⟩)
  have hyp : ∀ l ∈ init ++ last, ';' ∉ l ∧ '\r' ∉ l ∧ ((∃ b, l = b ++ ['\n'] ∧ '\n' ∉ b) ∨ '\n' ∉ l) := by
    intro l hl
    refine ⟨fun hm => h1 (hmem l hl _ hm), fun hm => h2 (hmem l hl _ hm), ?_⟩
    simp only [List.mem_append] at hl
    rcases hl with hl | hl
    · exact Or.inl (hinit l hl)
    · rcases hlast with h0 | ⟨l0, h0, hn, _⟩
      · subst h0; simp at hl
      · subst h0; simp at hl; subst hl; exact Or.inr hn
  have hinitflat : (init.map fun l => stripLine l ++ ['\n']).flatten = init.flatten := by
    have : ∀ l ∈ init, stripLine l ++ ['\n'] = l := by
      intro l hl
      obtain ⟨b, hb, hnb⟩ := hinit l hl
      subst hb
      have hcr : '\r' ∉ b := fun hm =>
        h2 (hmem (b ++ ['\n']) (List.mem_append.mpr (Or.inl hl)) '\r' (List.mem_append.mpr (Or.inl hm)))
      rw [stripLine_line b hcr]
    rw [List.map_congr_left this]; simp
  unfold normalizeSexp
  rw [rustLines_eq, hsp, normLines_lines (init ++ last) [] false hyp]
  rcases hlast with h0 | ⟨l0, h0, hn, _⟩
  · subst h0
    refine ⟨[], Or.inl rfl, ?_⟩
    simp only [List.flatten_nil, List.append_nil] at hflat ⊢
    rw [hinitflat, hflat]
  · subst h0
    refine ⟨['\n'], Or.inr rfl, ?_⟩
    simp only [List.map_append, List.flatten_append, hinitflat, List.map_cons, List.map_nil, List.flatten_cons,
      List.flatten_nil, List.append_nil, stripLine_last l0 hn]
    simp only [List.flatten_cons, List.flatten_nil, List.append_nil] at hflat
    rw [← List.append_assoc, hflat]

end TsVerif.C20
