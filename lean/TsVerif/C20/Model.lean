/-!
# C20 model — corpus files of `tree-sitter test`: reading, updating, writing

Code-shaped ports (strings are `List Char`; the file is the `String` that `fs::read_to_string`
returned) of, in `crates/cli/src/test.rs`:
`parse_delimiter_line`, `suffix_matches`, `parse_header`, `parse_test_content`, `build_test_entry`,
`normalize_sexp_output`, `write_tests_to_buffer`, the update branches of `run_tests`
and, in `lib/binding_rust/lib.rs`, `format_sexp`.

The parser is a parameter (`Oracle`): for a language name and an input it gives the rendered tree
with fields, with fields stripped (`strip_sexp_fields`), the CST rendering, and `has_error` of the root.
-/
namespace TsVerif.C20

abbrev Str := List Char

/-! ## Rust `str` helpers -/

/-- Rust `char::is_whitespace` (Unicode `White_Space`). -/
def isWs (c : Char) : Bool :=
  let n := c.toNat
  (9 ≤ n && n ≤ 13) || n == 32 || n == 0x85 || n == 0xA0 || n == 0x1680 ||
  (0x2000 ≤ n && n ≤ 0x200A) || n == 0x2028 || n == 0x2029 || n == 0x202F || n == 0x205F || n == 0x3000

/-- Remove the longest suffix all of whose characters satisfy `p` (`trim_end_matches`). -/
def dropWhileEnd (p : Char → Bool) (s : Str) : Str :=
  s.foldr (fun c acc => if acc.isEmpty && p c then [] else c :: acc) []

def trimStart (s : Str) : Str := s.dropWhile isWs
def trimEnd (s : Str) : Str := dropWhileEnd isWs s
def trim (s : Str) : Str := trimEnd (trimStart s)

/-- `s.strip_prefix(pre)`. -/
def stripPrefix : Str → Str → Option Str
  | [], s => some s
  | _ :: _, [] => none
  | p :: ps, c :: cs => if p == c then stripPrefix ps cs else none

/-- `s.strip_suffix(suf)`. -/
def stripSuffix (suf s : Str) : Option Str :=
  (stripPrefix suf.reverse s.reverse).map List.reverse

/-- `s.contains(pat)`. -/
def containsSub (pat : Str) : Str → Bool
  | [] => pat.isEmpty
  | c :: cs => pat.isPrefixOf (c :: cs) || containsSub pat cs

/-- `s.split_inclusive('\n')`. -/
def splitIncl : Str → List Str
  | [] => []
  | c :: cs =>
    if c == '\n' then ['\n'] :: splitIncl cs
    else match splitIncl cs with
      | [] => [[c]]
      | l :: ls => (c :: l) :: ls

/-- `s.lines()`: split inclusively at `\n`, strip the `\n` and then one `\r` (only if a `\n` was stripped). -/
def rustLines (s : Str) : List Str :=
  (splitIncl s).map fun l =>
    match stripSuffix ['\n'] l with
    | none => l
    | some l' => match stripSuffix ['\r'] l' with
      | none => l'
      | some l'' => l''

/-- `str::len()` — UTF-8 byte length. -/
def utf8Len (s : Str) : Nat := (s.map Char.utf8Size).sum

def rep (c : Char) (n : Nat) : Str := List.replicate n c

/-! ## Delimiter lines -/

/-- `parse_delimiter_line(line, c)`: ≥ 3 leading `c`, then a suffix with trailing CR/LF removed. -/
def parseDelimLine (line : Str) (c : Char) : Option (Nat × Str) :=
  let n := (line.takeWhile (· == c)).length
  if n < 3 then none
  else some (n, dropWhileEnd (fun x => x == '\r' || x == '\n') (line.drop n))

def suffixMatches (fs : Option Str) (suffix : Str) : Bool :=
  match fs, suffix.isEmpty with
  | none, true => true
  | some f, false => f == suffix
  | _, _ => false

/-- A line that opens or closes a header for this file (`===…` with the file's suffix). -/
def isHeaderDelim (fs : Option Str) (line : Str) : Bool :=
  match parseDelimLine line '=' with
  | some (_, suf) => suffixMatches fs suf
  | none => false

/-! ## Entries -/

inductive Expect | pass | error | skip
  deriving DecidableEq, Repr, Inhabited

structure Attrs where
  platform : Bool := true
  failFast : Bool := false
  expect : Expect := .pass
  cst : Bool := false
  languages : List Str := [[]]
  deriving DecidableEq, Repr, Inhabited

structure Entry where
  name : Str
  input : Str
  output : Str
  hlen : Nat
  dlen : Nat
  hasFields : Bool
  attrsStr : Str
  attrs : Attrs
  deriving DecidableEq, Repr, Inhabited

/-- What the property says an update must not change. -/
structure Key where
  name : Str
  attrsStr : Str
  attrs : Attrs
  input : Str
  deriving DecidableEq, Repr

def Entry.key (e : Entry) : Key := ⟨e.name, e.attrsStr, e.attrs, e.input⟩

structure Pending where
  name : Str
  attrsStr : Str
  hlen : Nat
  attrs : Attrs
  deriving DecidableEq, Repr, Inhabited

/-! ## `parse_header` -/

structure HState where
  testName : Str := []
  seenMarker : Bool := false
  seenSkip : Bool := false
  seenError : Bool := false
  failFast : Bool := false
  cst : Bool := false
  platform : Option Bool := none
  languages : List Str := []
  deriving Repr, Inhabited

/-- `:platform(…)` / `:language(…)` argument: `trimmed.strip_prefix(':')?.strip_prefix("kw(")?.strip_suffix(')')`. -/
def markerArg (kw : Str) (trimmed : Str) : Option Str :=
  match stripPrefix [':'] trimmed with
  | none => none
  | some s => match stripPrefix (kw ++ ['(']) s with
    | none => none
    | some s' => stripSuffix [')'] s'

def kwSkip : Str := ":skip".toList
def kwPlatform : Str := ":platform".toList
def kwFailFast : Str := ":fail-fast".toList
def kwError : Str := ":error".toList
def kwLanguage : Str := ":language".toList
def kwCst : Str := ":cst".toList
def nmPlatform : Str := "platform".toList
def nmLanguage : Str := "language".toList

/-- One non-closing line of the name/marker region. `none` = header rejected (blank line before any marker). -/
def headerLine (os : Str) (st : HState) (line : Str) : Option HState :=
  let trimmed := trim line
  if trimmed.isEmpty && !st.seenMarker then none
  else
    let head := trimmed.takeWhile (· != '(')
    if head == kwSkip then some { st with seenMarker := true, seenSkip := true }
    else if head == kwPlatform then
      match markerArg nmPlatform trimmed with
      | some ps => some { st with seenMarker := true, platform := some (st.platform.getD false || trim ps == os) }
      | none => some st
    else if head == kwFailFast then some { st with seenMarker := true, failFast := true }
    else if head == kwError then some { st with seenMarker := true, seenError := true }
    else if head == kwLanguage then
      match markerArg nmLanguage trimmed with
      | some l => some { st with seenMarker := true, languages := st.languages ++ [l] }
      | none => some st
    else if head == kwCst then some { st with seenMarker := true, cst := true }
    else if !st.seenMarker then some { st with testName := st.testName ++ line }
    else some st

/-- The `while` loop of `parse_header` over the lines after the opening line.
Returns the state and the number of lines consumed, the closing line included. -/
def headerLoop (fs : Option Str) (os : Str) : List Str → HState → Nat → Option (HState × Nat)
  | [], _, _ => none
  | l :: ls, st, k =>
    if isHeaderDelim fs l then some (st, k + 1)
    else match headerLine os st l with
      | none => none
      | some st' => headerLoop fs os ls st' (k + 1)

/-- `parse_header(lines, first_suffix, start)` on `lines[start..]`; the `Nat` is the number of lines
of the whole header block (opening and closing lines included). -/
def parseHeader (fs : Option Str) (os : Str) : List Str → Option (Pending × Nat)
  | [] => none
  | l0 :: rest =>
    match parseDelimLine l0 '=' with
    | none => none
    | some (hlen, suf) =>
      if !suffixMatches fs suf then none
      else match headerLoop fs os rest {} 0 with
        | none => none
        | some (st, k) =>
          let expect := match st.seenSkip, st.seenError with
            | true, _ => Expect.skip
            | false, false => Expect.pass
            | false, true => Expect.error
          let between := (rest.take (k - 1)).flatten
          let attrsStr := trimEnd ((stripPrefix st.testName between).getD [])
          some ({ name := trimEnd st.testName, attrsStr := attrsStr, hlen := hlen,
                  attrs := { platform := st.platform.getD true, failFast := st.failFast, expect := expect,
                             cst := st.cst,
                             languages := if st.languages.isEmpty then [[]] else st.languages } },
                k + 1)

/-! ## `normalize_sexp_output` -/

/-- Inner `for ch in line.chars()` loop; `res` is the result so far, reversed. -/
def normChars : Str → Str → Bool → Str × Bool
  | [], res, prev => (res, prev)
  | ch :: cs, res, prev =>
    if isWs ch then
      if !prev && !res.isEmpty then normChars cs (' ' :: res) true else normChars cs res prev
    else
      let res := if ch == ')' && prev then res.tail else res
      normChars cs (ch :: res) false

def normLines : List Str → Str → Bool → Str
  | [], res, _ => res
  | line :: ls, res, prev =>
    if (trimStart line).head? == some ';' then normLines ls res prev
    else
      let (res, prev) := normChars line res prev
      if !res.isEmpty && !prev then normLines ls (' ' :: res) true else normLines ls res prev

/-- `normalize_sexp_output(raw).0` -/
def normalizeSexp (raw : Str) : Str := trimEnd (normLines (rustLines raw) [] false).reverse

def hasFieldsOf (s : Str) : Bool := containsSub ": (".toList s

/-! ## `build_test_entry` -/

/-- Longest matching `---` divider, later one on ties: `(delim_len, line_index)`. -/
def bestDivider (fs : Option Str) : List Str → Nat → Option (Nat × Nat) → Nat → Option (Nat × Nat)
  | [], _, best, _ => best
  | l :: ls, j, best, bestTotal =>
    match parseDelimLine l '-' with
    | some (dl, suf) =>
      if suffixMatches fs suf && dl + utf8Len suf ≥ bestTotal then bestDivider fs ls (j + 1) (some (dl, j)) (dl + utf8Len suf)
      else bestDivider fs ls (j + 1) best bestTotal
    | none => bestDivider fs ls (j + 1) best bestTotal

/-- Drop one trailing `\n`, then one trailing `\r`. -/
def popNewline (s : Str) : Str :=
  let s := (stripSuffix ['\n'] s).getD s
  (stripSuffix ['\r'] s).getD s

def buildEntry (fs : Option Str) (body : List Str) (p : Pending) : Option Entry :=
  match bestDivider fs body 0 none 0 with
  | none => none
  | some (dlen, j) =>
    let input := popNewline (body.take j).flatten
    let outStr := (body.drop (j + 1)).flatten
    let output := if p.attrs.cst then trim outStr else normalizeSexp outStr
    let hasFields := if p.attrs.cst then false else hasFieldsOf output
    some { name := p.name, input := input, output := output, hlen := p.hlen, dlen := dlen,
           hasFields := hasFields, attrsStr := p.attrsStr, attrs := p.attrs }

/-! ## `parse_test_content` -/

/-- First `===` line with a non-empty suffix gives the file's suffix. -/
def firstSuffix : List Str → Option Str
  | [] => none
  | l :: ls =>
    match parseDelimLine l '=' with
    | some (_, suf) => if suf.isEmpty then firstSuffix ls else some suf
    | none => firstSuffix ls

def finishPrev (fs : Option Str) (prev : Option Pending) (bodyRev : List Str) : List Entry :=
  match prev with
  | none => []
  | some p => (buildEntry fs bodyRev.reverse p).toList

/-- The scanning loop: `skip` counts lines of an already recognised header block still to pass over;
`bodyRev` are the body lines of the pending test (reversed). -/
def scan (fs : Option Str) (os : Str) : List Str → Nat → Option Pending → List Str → List Entry → List Entry
  | [], _, prev, bodyRev, acc => acc ++ finishPrev fs prev bodyRev
  | _ :: ls, skip + 1, prev, bodyRev, acc => scan fs os ls skip prev bodyRev acc
  | l :: ls, 0, prev, bodyRev, acc =>
    match parseHeader fs os (l :: ls) with
    | none => scan fs os ls 0 prev (l :: bodyRev) acc
    | some (p, k) => scan fs os ls (k - 1) (some p) [] (acc ++ finishPrev fs prev bodyRev)

/-- `parse_test_content(_, content, _)`'s children. -/
def parseFile (os : Str) (content : Str) : List Entry :=
  let lines := splitIncl content
  scan (firstSuffix lines) os lines 0 none [] []

/-- Lines in front of the first recognised header (not part of any test). -/
def preambleLines (fs : Option Str) (os : Str) : List Str → List Str
  | [] => []
  | l :: ls => if (parseHeader fs os (l :: ls)).isSome then [] else l :: preambleLines fs os ls

def preamble (os : Str) (content : Str) : Str :=
  let lines := splitIncl content
  (preambleLines (firstSuffix lines) os lines).flatten

/-! ## proposed repairs

The model follows the UNCHANGED code when all flags are `false`.  Each flag switches one port to the
behaviour of one proposed fix (`/verif/fixes/C20-*.diff`); the check turns a flag on only when the
corresponding finding is recorded as fixed, so the correspondence keeps comparing like with like. -/
structure Fixes where
  /-- fixes/C20-update-keeps-unrun-tests.diff: skipped / other-platform tests are written back -/
  keepUnrun : Bool := false
  /-- fixes/C20-update-one-correction-per-test.diff: one correction per test, not one per language -/
  oneCorrection : Bool := false
  /-- fixes/C20-update-keeps-suffix-and-preamble.diff: delimiters keep the file's suffix, leading text is kept -/
  keepSuffixPreamble : Bool := false
  /-- fixes/C20-format-sexp-quote-reset.diff: `format_sexp` leaves quote mode at the closing quote -/
  quoteReset : Bool := false
  /-- fixes/C20-filtered-update-keeps-cst.diff: a `:cst` test carried over by a filtered update keeps its expectation -/
  keepCstFiltered : Bool := false
  /-- fixes/C20-format-sexp-same-quote.diff: inside a quoted token a quote character of the same kind closes the token
  only in front of a separator (` `, `)`, end) — `(MISSING """)`, `(UNEXPECTED ''')` -/
  sameQuote : Bool := false
  deriving Repr, DecidableEq, Inhabited

/-! ## `format_sexp` (lib/binding_rust/lib.rs) -/

structure FState where
  rest : Str
  quote : Char := '\x00'
  sawParen : Bool := false
  didLast : Bool := false
  deriving Repr

/-- Which variant of the quote handling of `fetch_next_str` (see `Fixes.quoteReset`, `Fixes.sameQuote`). -/
structure QMode where
  reset : Bool
  same : Bool
  deriving Repr, DecidableEq, Inhabited

/-- The `while let Some(c) = c_iter.next()` loop of `fetch_next_str`; `acc` is `next`, reversed. -/
def fetchLoop (qr : QMode) : Str → Char → Bool → Str → (Str × Str × Char × Bool)
  | [], q, sp, acc => (acc, [], q, sp)
  | c :: cs, q, sp, acc =>
    if c == '\'' || c == '"' then
      let closes := !qr.same || (match cs with
        | n :: _ => n == ' ' || n == ')'
        | [] => true)
      let q' := if qr.reset then (if q == '\x00' then c else if q == c && closes then '\x00' else q) else c
      fetchLoop qr cs q' sp (c :: acc)
    else if c == ' ' || (c == ')' && q != '\x00') then
      match cs with
      | n :: cs' => if n == q then fetchLoop qr cs' '\x00' sp (n :: c :: acc) else (acc, cs, q, sp)
      | [] => (acc, cs, q, sp)
    else if c == ')' then (acc, cs, q, true)
    else fetchLoop qr cs q sp (c :: acc)

def fetch (qr : QMode) (st : FState) : Option (Str × FState) :=
  let (acc, rest, q, sp) := fetchLoop qr st.rest st.quote st.sawParen []
  let next := acc.reverse
  if rest.isEmpty && next.isEmpty then
    if sp then some (next, { rest := rest, quote := q, sawParen := false, didLast := st.didLast })
    else if !st.didLast then some (next, { rest := rest, quote := q, sawParen := sp, didLast := true })
    else none
  else some (next, { rest := rest, quote := q, sawParen := sp, didLast := st.didLast })

def pfxMissing : Str := "(MISSING".toList
def pfxUnexpected : Str := "(UNEXPECTED".toList

def indentStr (n : Nat) : Str := (List.replicate n [' ', ' ']).flatten

/-- Main loop of `format_sexp`; `out` is `formatted`, reversed. -/
def fmtLoop (qr : QMode) : Nat → FState → Nat → Bool → Str → Str
  | 0, _, _, _, out => out
  | fuel + 1, st, indent, hasField, out =>
    match fetch qr st with
    | none => out
    | some (s, st) =>
      if s.isEmpty && indent > 0 then fmtLoop qr fuel st (indent - 1) hasField (')' :: out)
      else if s.head? == some '(' then
        let (indent, hasField, out) :=
          if hasField then (indent, false, out)
          else
            let out := if indent > 0 then (indentStr indent).reverse ++ ('\n' :: out) else out
            (indent + 1, hasField, out)
        let out := s.reverse ++ out
        if pfxMissing.isPrefixOf s || pfxUnexpected.isPrefixOf s then
          match fetch qr st with
          | none => out   -- `unwrap()` on `None` would panic; cannot happen before the end marker
          | some (s2, st) =>
            if s2.isEmpty then fmtLoop qr fuel st 0 hasField (List.replicate indent ')' ++ out)
            else fmtLoop qr fuel st indent hasField (s2.reverse ++ (' ' :: out))
        else fmtLoop qr fuel st indent hasField out
      else if s.getLast? == some ':' then
        let out := ' ' :: (s.reverse ++ ((indentStr indent).reverse ++ ('\n' :: out)))
        fmtLoop qr fuel st (indent + 1) true out
      else fmtLoop qr fuel st indent hasField out

/-- `format_sexp(sexp, 0)` -/
def formatSexp (fx : Fixes) (sexp : Str) : Str :=
  (fmtLoop ⟨fx.quoteReset, fx.sameQuote⟩ (sexp.length + 3) { rest := sexp } 0 false []).reverse

/-! ## `write_tests_to_buffer` -/

structure Correction where
  name : Str
  input : Str
  output : Str
  attrsStr : Str
  hlen : Nat
  dlen : Nat
  deriving DecidableEq, Repr, Inhabited

def writeOne (suf : Str) (c : Correction) : Str :=
  rep '=' c.hlen ++ suf ++ ['\n'] ++ c.name ++ ['\n'] ++
  (if c.attrsStr.isEmpty then [] else c.attrsStr ++ ['\n']) ++
  rep '=' c.hlen ++ suf ++ ['\n'] ++ c.input ++ ['\n'] ++ rep '-' c.dlen ++ suf ++ ['\n', '\n'] ++ trim c.output ++ ['\n']

/-- `write_tests_to_buffer` (`suf = []`), resp. the proposed `write_tests_to_buffer_with_suffix`. -/
def writeTests (suf : Str) : List Correction → Str
  | [] => []
  | c :: cs => writeOne suf c ++ (cs.map fun c => '\n' :: writeOne suf c).flatten

/-! ## the update branches of `run_tests` -/

structure Actual where
  sexpFields : Str      -- `root.to_sexp()`
  sexpPlain : Str       -- `strip_sexp_fields(root.to_sexp())`
  cst : Str             -- `render_test_cst`
  hasError : Bool       -- `root.has_error()`
  deriving Repr, Inhabited

/-- The parser parameter: language name (`""` = the run's first language) and input ↦ rendering.
`none` for a language name that is not registered (`Language not found`). -/
abbrev Oracle := Str → Str → Option Actual

inductive Step
  | cont (cs : List Correction)      -- go on with the next test
  | stop                             -- fail-fast: the run stops, nothing is written
  | err                              -- `Language not found`
  deriving Repr

def Entry.corr (e : Entry) (output : Str) : Correction :=
  { name := e.name, input := e.input, output := output, attrsStr := e.attrsStr, hlen := e.hlen, dlen := e.dlen }

def strERROR : Str := "ERROR".toList
def strMISSING : Str := "MISSING".toList

/-- One iteration of `for (i, language_name) in attributes.languages` with `opts.update`:
the correction pushed and whether the loop returns early (fail-fast). -/
def updateLang (fx : Fixes) (e : Entry) (a : Actual) : Correction × Bool :=
  match e.attrs.expect with
  | .error =>
    (e.corr (if e.attrs.cst then e.output else formatSexp fx e.output), e.attrs.failFast)
  | _ =>
    let actual := if e.attrs.cst then a.cst else if e.hasFields then a.sexpFields else a.sexpPlain
    if actual == e.output then
      (e.corr (if e.attrs.cst then actual else formatSexp fx e.output), false)
    else
      let expectedOut := if e.attrs.cst then e.output else formatSexp fx e.output
      let actualOut := if e.attrs.cst then actual else formatSexp fx actual
      if containsSub strERROR actual || containsSub strMISSING actual then
        (e.corr expectedOut, e.attrs.failFast)
      else (e.corr actualOut, e.attrs.failFast)

def updateLangs (fx : Fixes) (orc : Oracle) (e : Entry) : List Str → List Correction → Step
  | [], acc => .cont acc
  | l :: ls, acc =>
    match orc l e.input with
    | none => .err
    | some a =>
      let (c, stop) := updateLang fx e a
      if stop then .stop
      else updateLangs fx orc e ls (if fx.oneCorrection then (acc ++ [c]).take 1 else acc ++ [c])

/-- `run_tests` on one `Example` with `opts.update`. -/
def updateEntry (fx : Fixes) (orc : Oracle) (e : Entry) : Step :=
  let unrun : List Correction :=
    if fx.keepUnrun then [e.corr (if e.attrs.cst then e.output else formatSexp fx e.output)] else []
  if e.attrs.expect == .skip then .cont unrun
  else if !e.attrs.platform then .cont unrun
  else updateLangs fx orc e e.attrs.languages []

/-- `run_tests` over the children of a file group: `some corrections` when `write_tests` is reached. -/
def updateEntries (fx : Fixes) (orc : Oracle) : List Entry → List Correction → Option (List Correction)
  | [], acc => some acc
  | e :: es, acc =>
    match updateEntry fx orc e with
    | .cont cs => updateEntries fx orc es (acc ++ cs)
    | .stop => none
    | .err => none

/-- `run_tests` over the children of a file group when a name filter is in force (`--include` /
`--exclude` / `--file-name`): `flt name = false` means `!matches_filter(..)` — the test is not run but
carried over into the rewritten file with its expectation passed through `format_sexp`. -/
def updateEntriesF (fx : Fixes) (orc : Oracle) (flt : Str → Bool) : List Entry → List Correction → Option (List Correction)
  | [], acc => some acc
  | e :: es, acc =>
    if flt e.name then
      match updateEntry fx orc e with
      | .cont cs => updateEntriesF fx orc flt es (acc ++ cs)
      | .stop => none
      | .err => none
    else updateEntriesF fx orc flt es
      (acc ++ [e.corr (if fx.keepCstFiltered && e.attrs.cst then e.output else formatSexp fx e.output)])

/-! ## `strip_sexp_fields` -/

/-- `s.find(pat)`: index of the first occurrence. -/
def findSub (pat : Str) : Str → Nat → Option Nat
  | [], i => if pat.isEmpty then some i else none
  | c :: cs, i => if pat.isPrefixOf (c :: cs) then some i else findSub pat cs (i + 1)

/-- `s.rfind(' ')`: index of the last space. -/
def rfindSpace (s : Str) : Option Nat :=
  (s.zipIdx.filter fun (c, _) => c == ' ').getLast?.map (·.2)

def isFieldWordCh (c : Char) : Bool := c.toNat < 128 && (c.isAlphanum || c == '_')

/-- The `while let Some(pos) = remaining.find(": (")` loop of `strip_sexp_fields`. -/
def stripFieldsLoop : Nat → Str → Str → Str
  | 0, rem, res => res ++ rem
  | fuel + 1, rem, res =>
    match findSub ": (".toList rem 0 with
    | none => res ++ rem
    | some pos =>
      let pre := rem.take pos
      let isField := match rfindSpace pre with
        | some sp =>
          let word := pre.drop (sp + 1)
          if !word.isEmpty && word.all isFieldWordCh then some sp else none
        | none => none
      match isField with
      | some sp => stripFieldsLoop fuel (rem.drop (pos + 3)) (res ++ rem.take (sp + 1) ++ ['('])
      | none => stripFieldsLoop fuel (rem.drop (pos + 3)) (res ++ rem.take (pos + 3))

/-- `strip_sexp_fields(sexp)` -/
def stripSexpFields (s : Str) : Str := stripFieldsLoop (s.length + 1) s []

/-- Does this language iteration set `has_parse_errors` (mismatch whose rendering shows an error)? -/
def setsParseErrors (e : Entry) (a : Actual) : Bool :=
  match e.attrs.expect with
  | .error => false
  | _ =>
    let actual := if e.attrs.cst then a.cst else if e.hasFields then a.sexpFields else a.sexpPlain
    actual != e.output && (containsSub strERROR actual || containsSub strMISSING actual)

/-- The languages loop for the status: `none` = `Language not found` (the run returns `Err` at once),
`some (hpe, stopped)` otherwise. -/
def statusLangs (fx : Fixes) (orc : Oracle) (e : Entry) : List Str → Bool → Option (Bool × Bool)
  | [], hpe => some (hpe, false)
  | l :: ls, hpe =>
    match orc l e.input with
    | none => none
    | some a =>
      let hpe := hpe || setsParseErrors e a
      if (updateLang fx e a).2 then some (hpe, true) else statusLangs fx orc e ls hpe

/-- Result of `run_tests_at_path(update = true)` on one file: `true` = `Ok`.  In update mode the run is `Err`
iff a language is not registered or some run test is mismatched with an error in its rendering. -/
def updateStatus (fx : Fixes) (orc : Oracle) (flt : Str → Bool) : List Entry → Bool → Bool
  | [], hpe => !hpe
  | e :: es, hpe =>
    if !flt e.name || e.attrs.expect == .skip || !e.attrs.platform then updateStatus fx orc flt es hpe
    else match statusLangs fx orc e e.attrs.languages hpe with
      | none => false
      | some (hpe, true) => !hpe
      | some (hpe, false) => updateStatus fx orc flt es hpe

/-- `tree-sitter test --update` with a name filter on one corpus file. -/
def updateFileF (fx : Fixes) (os : Str) (orc : Oracle) (flt : Str → Bool) (content : Str) : Str :=
  match parseFile os content with
  | [] => content
  | es => match updateEntriesF fx orc flt es [] with
    | none => content
    | some cs =>
      if fx.keepSuffixPreamble then
        preamble os content ++ writeTests ((firstSuffix (splitIncl content)).getD []) cs
      else writeTests [] cs

/-- `tree-sitter test --update` on one corpus file: the file's content afterwards. -/
def updateFile (fx : Fixes) (os : Str) (orc : Oracle) (content : Str) : Str :=
  match parseFile os content with
  | [] => content                     -- `children.is_empty()` → nothing is written
  | es => match updateEntries fx orc es [] with
    | none => content
    | some cs =>
      if fx.keepSuffixPreamble then
        preamble os content ++ writeTests ((firstSuffix (splitIncl content)).getD []) cs
      else writeTests [] cs

end TsVerif.C20
